(* DocPartial: the document-level link theorems for the main script of a partial build.
   1. the main script is the fold of add_segment under cfg_main_partial over the clones;
   2. the chains, groups and classes of Proofs/DocLevel.v for the statements of ANY configuration
      (the inductions of Proofs/DocLevel.v are already stated for an arbitrary cfg; what is redone
      here is the last step, which there starts from gen_normal);
   3. from the clones back to the segments of the document;
   4. the main script against the ordinary script: same statements except definitions inside the
      output sections (the linker offsets). *)
From Slinky Require Import Model.Types Model.Generated Model.Runtime Model.Style Model.Script Model.Writer Model.LdSem.
From Slinky Require Import Spec.C17 Spec.C04 Spec.C03 Spec.C09 Spec.C05 Spec.C10 Spec.C11 Spec.DocLevel Spec.DocWf
                           Spec.DocPartial.
From Slinky Require Import Proofs.C06 Proofs.C18 Proofs.C17 Proofs.LdLemmas Proofs.C09 Proofs.C05 Proofs.C04 Proofs.C03
                           Proofs.C10 Proofs.C11 Proofs.DocLevel Proofs.DocWf.
From Coq Require Import Lia ZArith.
Local Open Scope Z_scope.

(* ====================================================================== *)
(* 1. the main script is a fold of add_segment over the clones             *)
(* ====================================================================== *)

Lemma partial_segments_nil d rt folder acc s acc' :
  partial_segments d rt folder [] acc = Ok (s, acc') -> s = [] /\ acc' = acc.
Proof. cbn [partial_segments]. intro H. apply ok_inj in H. inversion H; subst. auto. Qed.

Lemma clone_excluded rt stg cfg classes folder seg ws :
  should_emit rt (sg_conds seg) = false ->
  add_segment rt stg cfg classes (partial_clone folder seg) ws = Ok ([], ws).
Proof. intro Hc. apply add_segment_excluded. exact Hc. Qed.

Lemma fold_out_unfold {A} (f : A -> wstate -> res out) x r ws :
  fold_out f (x :: r) ws =
  (do o1 <- f x ws; do o2 <- fold_out f r (snd o1); Ok ((fst o1 ++ fst o2)%list, snd o2)).
Proof. reflexivity. Qed.

Lemma partial_segments_fold d rt folder segs : forall ws subs body ws' subs',
  partial_segments d rt folder segs (ws, subs) = Ok (body, (ws', subs')) ->
  fold_out (add_segment rt (doc_settings d) cfg_main_partial (doc_vram_classes d))
           (map (partial_clone folder) segs) ws = Ok (body, ws').
Proof.
  induction segs as [|seg r IH]; intros ws subs body ws' subs' H.
  - apply partial_segments_nil in H. destruct H as [Hs Ha]. inversion Ha; subst. reflexivity.
  - apply partial_segments_cons in H. destruct H as [s1 [[ws1 subs1] [s2 [E1 [E2 E]]]]]. subst body.
    specialize (IH _ _ _ _ _ E2). cbn [map]. rewrite fold_out_unfold.
    apply partial_segment_inv in E1.
    destruct E1 as [[Hc [Es [Ew _]]] | [Hc [sub [wsub [_ [Ea _]]]]]].
    + subst s1 ws1. rewrite (clone_excluded _ _ _ _ _ _ _ Hc). cbn [bind fst snd]. rewrite IH. reflexivity.
    + change (partial_clone folder seg)
        with (clone_with_new_files seg [new_object (push folder (sg_name seg ++ ".o")%string)]).
      rewrite Ea. cbn [bind fst snd]. rewrite IH. reflexivity.
Qed.

Lemma partial_main_shape d rt p :
  gen_partial d rt = Ok p ->
  exists folder body ws' subs,
    partial_build_segments_folder (doc_settings d) = Some folder /\
    partial_segments d rt folder (doc_segments d) (ws0, []) = Ok (body, (ws', subs)) /\
    fold_out (add_segment rt (doc_settings d) cfg_main_partial (doc_vram_classes d))
             (map (partial_clone folder) (doc_segments d)) ws0 = Ok (body, ws') /\
    wo_script (po_main p) =
      (version_stmts rt ++
       [SSections (begin_sections_body (doc_settings d) ++ body ++
                   end_sections_body (doc_settings d) (doc_vram_classes d) ws')] ++
       tail_stmts rt d)%list.
Proof.
  intro H. apply gen_partial_inv in H. destruct H as [folder [body [ws [subs [Ef [E Hp]]]]]].
  exists folder, body, ws, subs. split; [exact Ef|]. split; [exact E|].
  split; [eapply partial_segments_fold; exact E|]. subst p. reflexivity.
Qed.

(* ====================================================================== *)
(* 3a. what the predicates read of a segment is the same for its clone     *)
(* ====================================================================== *)

Lemma included_clone rt folder segs :
  included rt (map (partial_clone folder) segs) = map (partial_clone folder) (included rt segs).
Proof.
  induction segs as [|seg r IH]; [reflexivity|]. unfold included in *. cbn [map filter].
  change (sg_conds (partial_clone folder seg)) with (sg_conds seg).
  destruct (should_emit rt (sg_conds seg)); cbn [map]; rewrite IH; reflexivity.
Qed.

Lemma out_names_clone folder segs : out_names (map (partial_clone folder) segs) = out_names segs.
Proof. induction segs as [|seg r IH]; [reflexivity|]. cbn [map out_names flat_map]. unfold out_names in IH. rewrite IH. reflexivity. Qed.

Lemma used_classes_clone rt folder segs :
  used_classes rt (map (partial_clone folder) segs) = used_classes rt segs.
Proof.
  unfold used_classes. rewrite included_clone. induction (included rt segs) as [|seg r IH]; [reflexivity|].
  cbn [map flat_map]. rewrite IH. reflexivity.
Qed.

Lemma members_clone rt cn folder segs :
  members rt cn (map (partial_clone folder) segs) = map (partial_clone folder) (members rt cn segs).
Proof.
  induction segs as [|seg r IH]; [reflexivity|]. unfold members in *. cbn [map filter].
  change (is_member rt cn (partial_clone folder seg)) with (is_member rt cn seg).
  destruct (is_member rt cn seg); cbn [map]; rewrite IH; reflexivity.
Qed.

Lemma forallb_clone {f : segment -> bool} folder l :
  (forall seg, f (partial_clone folder seg) = f seg) ->
  forallb f (map (partial_clone folder) l) = forallb f l.
Proof. intro H. induction l as [|seg r IH]; [reflexivity|]. cbn [map forallb]. rewrite H, IH. reflexivity. Qed.

Lemma link_wf_stmts_clone rt stg classes folder segs tl body ws' :
  link_wf_stmts rt stg classes (map (partial_clone folder) segs) tl body ws' =
  link_wf_stmts rt stg classes segs tl body ws'.
Proof.
  unfold link_wf_stmts. rewrite included_clone, out_names_clone, used_classes_clone.
  rewrite forallb_clone; [reflexivity|]. intro seg. reflexivity.
Qed.

Lemma RomChain_clone sty st folder segs : forall r,
  RomChain sty st r (map (partial_clone folder) segs) -> RomChain sty st r segs.
Proof.
  induction segs as [|seg rest IH]; intros r H; [exact H|]. cbn [map RomChain] in *. cbv zeta in *.
  destruct H as [o [Ho [Hl [Hn [Hz [V1 [V2 [V3 Hrest]]]]]]]].
  exists o. repeat (split; [assumption|]). apply IH. exact Hrest.
Qed.

Lemma VramChain_clone sty senv st folder segs : forall dt,
  VramChain sty senv st dt (map (partial_clone folder) segs) -> VramChain sty senv st dt segs.
Proof.
  induction segs as [|seg rest IH]; intros dt H; [exact I|]. cbn [map VramChain] in *. cbv zeta in *.
  destruct H as (o1 & o2 & A2 & F1 & F2 & N1 & Z1 & N2 & C2 & Z2 & V2 & L2 & VE & VZ & VS & DS & Hrest).
  exists o1, o2, A2. repeat (split; [assumption|]). apply IH. exact Hrest.
Qed.

Lemma NoloadSections_clone st folder segs :
  NoloadSections st (map (partial_clone folder) segs) -> NoloadSections st segs.
Proof.
  unfold NoloadSections. intro H. rewrite Forall_map in H. exact H.
Qed.

Lemma Forall2_map_l {A B C} (P : B -> C -> Prop) (f : A -> B) l : forall l',
  Forall2 P (map f l) l' -> Forall2 (fun a c => P (f a) c) l l'.
Proof.
  induction l as [|a l IH]; intros l' H; inversion H; subst; constructor; [assumption | apply IH; assumption].
Qed.

(* ====================================================================== *)
(* 2. the statements of any configuration: chains, classes, groups         *)
(* ====================================================================== *)

Lemma link_wf_stmts_inv rt stg classes segs tl body ws' :
  link_wf_stmts rt stg classes segs tl body ws' = true ->
  let sty := linker_symbols_style stg in
  let fin := (end_sections_body stg classes ws' ++ tl)%list in
  NoDup (out_names (included rt segs)) /\
  (forall seg, In seg (included rt segs) ->
     seg_link_wf sty (begin_sections_body stg ++ body ++ fin) seg = true) /\
  (forall cn, In cn (used_classes rt segs) -> class_link_wf sty body fin cn = true) /\
  no_assign "__romPos" tl = true.
Proof.
  unfold link_wf_stmts. intro H. cbv zeta in *.
  repeat (apply andb_true_iff in H; destruct H as [H ?H]).
  split; [apply nodup_str_NoDup; assumption|].
  split; [apply forallb_forall; assumption|].
  split; [apply forallb_forall; assumption | assumption].
Qed.

Section AnyCfg.
  Variables (rt : runtime) (stg : settings) (cfg : wcfg) (classes : list vram_class) (segs : list segment).
  Variables (tl body : list stmt) (ws' : wstate).
  Variables (env : list (string * Z)) (senv : list osec) (ext : list (string * Z)) (final : bool).
  Notation runl := (run env senv ext final).
  Notation top := (exec_top_stmt env senv ext final).
  Notation sty := (linker_symbols_style stg).
  Notation isegs := (included rt segs).
  Notation endb := (end_sections_body stg classes ws').
  Notation fin := (end_sections_body stg classes ws' ++ tl)%list.
  Notation all := (begin_sections_body stg ++ body ++ end_sections_body stg classes ws' ++ tl)%list.

  Hypothesis E : fold_out (add_segment rt stg cfg classes) segs ws0 = Ok (body, ws').
  Hypothesis Hwf : link_wf_stmts rt stg classes segs tl body ws' = true.

  Lemma any_rom2 seg : In seg isegs ->
    rom_names_distinct sty (sg_name seg) body = true /\ rom_untouched sty (sg_name seg) fin.
  Proof.
    intro Hin. destruct (link_wf_stmts_inv _ _ _ _ _ _ _ Hwf) as (_ & Hseg & _ & _).
    destruct (seg_wf_parts _ _ _ (Hseg seg Hin)) as [D _].
    pose proof (rom_assigned_fold _ _ _ _ _ _ _ _ _ E Hin) as Hass.
    destruct (rnd_app_r _ _ _ _ D (rom_assigned_app_l _ _ _ _ Hass)) as [D' _].
    apply (rnd_app_l _ _ _ _ D' Hass).
  Qed.

  Lemma any_vram2 seg : In seg isegs ->
    vram_names_distinct sty (sg_name seg) body = true /\ vram_untouched sty (sg_name seg) fin.
  Proof.
    intro Hin. destruct (link_wf_stmts_inv _ _ _ _ _ _ _ Hwf) as (_ & Hseg & _ & _).
    destruct (seg_wf_parts _ _ _ (Hseg seg Hin)) as [_ [D _]].
    pose proof (vram_assigned_fold _ _ _ _ _ _ _ _ _ E Hin) as Hass.
    destruct (vnd_app_r _ _ _ _ D (vram_assigned_app_l _ _ _ _ Hass)) as [D' _].
    apply (vnd_app_l _ _ _ _ D' Hass).
  Qed.

  Theorem any_chains u :
    Forall (fun x => 0 <= u_size x) u ->
    let st' := runl all (init_state u) in
    (forall seg, In seg isegs -> ~ In (LForwardRef (alloc_name seg)) (l_errors st')) ->
    RomChain sty st' 0 isegs /\
    VramChain sty senv st' 0 isegs /\
    exists secs rest, l_secs st' = (secs ++ rest)%list /\ map os_name secs = out_names isegs.
  Proof.
    intros Hu st' Herr.
    destruct (link_wf_stmts_inv _ _ _ _ _ _ _ Hwf) as (Hnd & Hseg & _ & Hrom).
    unfold st' in *. clear st'. rewrite !run_app in *. rewrite <- (run_app env senv ext final endb tl) in *.
    destruct (run_begin env senv ext final stg (init_state u)) as [B1 [B2 [B3 [B4 B5]]]].
    set (stb := runl (begin_sections_body stg) (init_state u)) in *.
    assert (Herr' : forall seg, In seg isegs -> ~ In (LForwardRef (alloc_name seg)) (l_errors (runl body stb))).
    { intros seg Hin Hbad. apply (Herr seg Hin). apply run_errors_in. exact Hbad. }
    assert (Hszb : sizes_ok stb) by (unfold sizes_ok; rewrite B3; exact Hu).
    assert (Hfin_rom : existsb (assigns "__romPos") fin = false).
    { rewrite existsb_app. apply orb_false_iff. split.
      - apply existsb_false_Forall. apply nf_end_sections; solve [reflexivity | discriminate].
      - apply negb_true_iff. exact Hrom. }
    split; [|split].
    - apply RomChain_frame; [exact Hfin_rom | intros seg Hin; apply (any_rom2 seg Hin) |].
      eapply rom_chain_fold'; try eassumption.
      + intros seg Hin. rewrite B2. reflexivity.
      + intros seg Hin. apply (any_rom2 seg Hin).
    - destruct (vram_chain_fold env senv ext final rt stg cfg classes segs ws0 body ws' stb E)
        as [secs [_ [_ [Hchain _]]]]; try assumption.
      + intros n Hin. rewrite B2. reflexivity.
      + intros seg Hin. apply (any_vram2 seg Hin).
      + rewrite B5 in Hchain. apply VramChain_frame; [intros seg Hin; apply (any_vram2 seg Hin) | exact Hchain].
    - destruct (vram_chain_fold env senv ext final rt stg cfg classes segs ws0 body ws' stb E)
        as [secs [Hsecs [Hnames _]]]; try assumption.
      + intros n Hin. rewrite B2. reflexivity.
      + intros seg Hin. apply (any_vram2 seg Hin).
      + destruct (run_secs env senv ext final fin (runl body stb)) as [new [En _]].
        exists secs, new. rewrite En, Hsecs, B2. split; [reflexivity | exact Hnames].
  Qed.
End AnyCfg.

Section AnyCfgClasses.
  Variables (rt : runtime) (stg : settings) (cfg : wcfg) (classes : list vram_class) (segs : list segment).
  Variables (tl body : list stmt) (ws' : wstate).
  Variables (env : list (string * Z)) (senv : list osec) (ext : list (string * Z)) (final : bool).
  Notation runl := (run env senv ext final).
  Notation top := (exec_top_stmt env senv ext final).
  Notation sty := (linker_symbols_style stg).
  Notation isegs := (included rt segs).
  Notation all := (begin_sections_body stg ++ body ++ end_sections_body stg classes ws' ++ tl)%list.

  Hypothesis E : fold_out (add_segment rt stg cfg classes) segs ws0 = Ok (body, ws').
  Hypothesis Hwf : link_wf_stmts rt stg classes segs tl body ws' = true.

  Theorem any_classes st cn :
    In cn (used_classes rt segs) ->
    let st' := runl all st in
    exists vs,
      Forall2 (fun seg v => val st' (segment_vram_end sty (sg_name seg)) = Some v) (members rt cn segs) vs /\
      val st' (vram_class_end sty cn) = Some (fold_left Z.max vs 0) /\
      (forall s, sym_lookup (vram_class_start sty cn) st' env ext = Some s ->
                 val st' (vram_class_size sty cn) = Some (fold_left Z.max vs 0 - s)).
  Proof.
    intros Hcn st'.
    destruct (link_wf_stmts_inv _ _ _ _ _ _ _ Hwf) as (Hnd & Hseg & Hcls & Hrom).
    set (endb := end_sections_body stg classes ws') in *.
    set (START := vram_class_start sty cn). set (END := vram_class_end sty cn).
    set (SIZE := vram_class_size sty cn).
    unfold st'. clear st'. rewrite !run_app.
    set (stb := runl (begin_sections_body stg) st).
    specialize (Hcls cn Hcn). unfold class_link_wf in Hcls. fold START END SIZE in Hcls.
    apply andb_true_iff in Hcls. destruct Hcls as [Hcls Hsize].
    apply andb_true_iff in Hcls. destruct Hcls as [Hcls HnoS].
    apply andb_true_iff in Hcls. destruct Hcls as [Hclean HnoE].
    apply negb_true_iff in HnoS. apply negb_true_iff in HnoE.
    assert (Hmem : forall seg, In seg (members rt cn segs) ->
                     defined_once (segment_vram_end sty (sg_name seg)) body = true /\
                     existsb (assigns (segment_vram_end sty (sg_name seg))) (endb ++ tl) = false).
    { intros seg Hin. apply filter_In in Hin. destruct Hin as [Hin Hm]. unfold is_member in Hm.
      apply andb_true_iff in Hm. destruct Hm as [Hc _].
      assert (Hinc : In seg isegs) by (apply filter_In; split; assumption).
      destruct (any_vram2 rt stg cfg classes segs tl body ws' E Hwf seg Hinc) as [D'' [_ [U2 _]]].
      unfold vram_names_distinct in D''. apply andb_true_iff in D''. destruct D'' as [D'' _].
      apply andb_true_iff in D''. destruct D'' as [_ D'']. split; assumption. }
    destruct (class_end_is_max env senv ext final rt stg cfg classes cn segs ws0 body ws' stb 0 E Hclean)
      as [vs [Hvs Hend]].
    { intros seg Hin. apply (Hmem seg Hin). }
    { intro Hm. discriminate Hm. }
    { intros _. reflexivity. }
    assert (Hem : mem_str cn (ws_emitted ws') = true).
    { rewrite (emitted_fold _ _ _ _ cn _ _ _ _ E). rewrite (used_names_class _ _ _ Hcn). apply orb_true_r. }
    specialize (Hend Hem). fold END in Hend, Hvs.
    set (stB := runl body stb) in *.
    rewrite <- run_app.
    assert (Eend : val (runl (endb ++ tl) stB) END = Some (fold_left Z.max vs 0)).
    { unfold val. rewrite run_syms by exact HnoE. exact Hend. }
    exists vs. split; [|split; [exact Eend|]].
    - eapply Forall2_impl_in; [|exact Hvs]. intros seg v Hin Hv. cbv beta in *.
      unfold val. rewrite run_syms; [exact Hv | apply (Hmem seg Hin)].
    - intros s0 Hs0.
      assert (Hin : In (class_size_stmt sty cn) endb).
      { unfold endb. rewrite end_sections_layout.
        assert (Hsz : In (class_size_stmt sty cn) (tail_sizes stg classes ws')).
        { unfold tail_sizes. apply in_map. unfold emitted_classes. apply filter_In. split; [|exact Hem].
          apply in_keep_first. apply used_classes_in in Hcn. destruct Hcn as [seg [Hinc Hc]].
          destruct (fold_class_declared _ _ _ _ _ _ _ _ _ cn E Hinc Hc) as [c Hget].
          eapply class_get_in. exact Hget. }
        cbn [sep_concat]. destruct (tail_sizes stg classes ws') as [|x0 r0]; [contradiction|].
        apply in_or_app. left. exact Hsz. }
      apply in_split in Hin. destruct Hin as [p1 [p2 Ep]].
      assert (Efin : (endb ++ tl = p1 ++ class_size_stmt sty cn :: (p2 ++ tl))%list).
      { rewrite Ep. rewrite <- app_assoc. reflexivity. }
      rewrite Efin in Hsize, HnoE, HnoS, Hs0 |- *.
      apply defined_once_split in Hsize; [|apply String.eqb_refl]. destruct Hsize as [Z1 Z2].
      rewrite existsb_app in HnoE, HnoS. apply orb_false_iff in HnoE. apply orb_false_iff in HnoS.
      destruct HnoE as [E1 E2]. destruct HnoS as [S1 S2].
      rewrite run_app, run_cons in Hs0 |- *.
      set (stS := runl p1 stB) in *.
      assert (HE : sym_lookup END stS env ext = Some (fold_left Z.max vs 0)).
      { apply sym_lookup_defined. unfold stS. rewrite run_syms by exact E1. exact Hend. }
      assert (HS : sym_lookup START stS env ext = Some s0).
      { rewrite <- Hs0. symmetry.
        change (runl (p2 ++ tl) (top stS (class_size_stmt sty cn)))
          with (runl (class_size_stmt sty cn :: p2 ++ tl) stS).
        apply sym_lookup_frame. exact S2. }
      unfold class_size_stmt. fold START END SIZE.
      rewrite (top_sub_lookup env senv ext final stS SIZE END START _ _ (class_size_not_dot sty cn) HE HS).
      unfold val. rewrite run_syms by exact Z2. apply lookup_set_sym_same.
  Qed.
End AnyCfgClasses.

Section AnyCfgGroups.
  Variables (rt : runtime) (stg : settings) (cfg : wcfg) (classes : list vram_class) (segs : list segment).
  Variables (tl body : list stmt) (ws' : wstate).
  Variables (env : list (string * Z)) (senv : list osec) (ext : list (string * Z)) (final : bool).
  Notation runl := (run env senv ext final).
  Notation sty := (linker_symbols_style stg).
  Notation isegs := (included rt segs).
  Notation fin := (end_sections_body stg classes ws' ++ tl)%list.
  Notation all := (begin_sections_body stg ++ body ++ end_sections_body stg classes ws' ++ tl)%list.

  Hypothesis E : fold_out (add_segment rt stg cfg classes) segs ws0 = Ok (body, ws').
  Hypothesis Hwf : link_wf_stmts rt stg classes segs tl body ws' = true.
  Hypothesis Hss : section_syms cfg = true.

  Theorem any_groups u seg :
    Forall (fun x => 0 <= u_size x) u ->
    In seg isegs ->
    let st' := runl all (init_state u) in
    ~ In (LForwardRef (alloc_name seg)) (l_errors st') ->
    SegmentGroups sty st' seg.
  Proof.
    intros Hu Hin st' Herr.
    destruct (link_wf_stmts_inv _ _ _ _ _ _ _ Hwf) as (Hnd & Hseg & _ & _).
    unfold st' in *. clear st'.
    destruct (seg_wf_parts _ _ _ (Hseg seg Hin)) as [_ [_ [_ Hsecs]]].
    destruct (fold_segment_split _ _ _ _ _ _ _ _ _ E Hin Hnd) as (b1 & wsa & s1 & wsb & b2 & Ea & Eb & Fr1 & Fr2).
    apply filter_In in Hin. destruct Hin as [_ Hc].
    apply add_segment_inv in Ea.
    destruct Ea as [[Hc' _] | [_ [cls [ws1 [s1a [ws2 [s2a [Ec [E1 [E2 Es1]]]]]]]]]]; [congruence|].
    apply write_segment_inv in E1. destruct E1 as [body1 [Hg1 E1]]. rewrite alloc_name_outsec in E1.
    apply write_segment_inv in E2. destruct E2 as [body2 [Hg2 E2]]. rewrite noload_name_outsec in E2.
    set (ks := sections_kind_start sty cfg seg false) in *.
    set (ke := sections_kind_end sty cfg seg false) in *.
    set (ks2 := sections_kind_start sty cfg seg true) in *.
    set (ke2 := sections_kind_end sty cfg seg true) in *.
    set (O1 := SOutSec (alloc_name seg) (segment_addr sty seg) (Some (segment_rom_start sty (sg_name seg))) false
                       (subalign seg) (opt_fill seg ++ body1)) in *.
    set (O2 := SOutSec (noload_name seg) None None true (subalign seg) (opt_fill seg ++ body2)) in *.
    set (A1 := (begin_sections_body stg ++ b1 ++ cls ++ seg_head stg seg ++ ks)%list).
    set (B1 := (ke ++ [SBlank] ++ s2a ++ [SBlank] ++ seg_foot stg seg ++ b2 ++ fin)%list).
    set (A2 := (begin_sections_body stg ++ b1 ++ cls ++ seg_head stg seg ++ s1a ++ [SBlank] ++ ks2)%list).
    set (B2 := (ke2 ++ [SBlank] ++ seg_foot stg seg ++ b2 ++ fin)%list).
    assert (EL1 : all = (A1 ++ O1 :: B1)%list).
    { unfold A1, B1. rewrite Eb, Es1, E1. repeat (rewrite <- app_assoc; cbn [app]). reflexivity. }
    assert (EL2 : all = (A2 ++ O2 :: B2)%list).
    { unfold A2, B2. rewrite Eb, Es1, E2. repeat (rewrite <- app_assoc; cbn [app]). reflexivity. }
    assert (Hcnt : forall sec x, In sec (seg_sections seg) -> In x (sec_syms3 sty (sg_name seg) sec) ->
                                 count_assigns x all = 1%nat).
    { intros sec x Hs Hx. specialize (Hsecs sec Hs). unfold section_names_once, assigned_once_deep in Hsecs.
      apply andb_true_iff in Hsecs. destruct Hsecs as [Hsecs H3]. apply andb_true_iff in Hsecs.
      destruct Hsecs as [H1 H2]. apply Nat.eqb_eq in H1. apply Nat.eqb_eq in H2. apply Nat.eqb_eq in H3.
      destruct Hx as [Ex|[Ex|[Ex|[]]]]; subst x; assumption. }
    split.
    - rewrite EL1 in Herr, Hcnt |- *.
      apply (outsec_groups env senv ext final rt stg cfg seg (alloc_sections seg) ws1 body1 ws2 (alloc_name seg)
                           (segment_addr sty seg) (Some (segment_rom_start sty (sg_name seg))) false A1 B1
                           (init_state u) Hss Hg1).
      + intros sec x Hs Hx. apply (Hcnt sec x); [apply in_or_app; left; exact Hs | exact Hx].
      + exact Hu.
      + intros e Ev. apply Herr. rewrite run_app, run_cons. apply run_errors_in.
        unfold O1. cbn [exec_top_stmt]. rewrite (exec_outsec_err _ _ _ _ _ _ _ _ _ _ _ _ Ev).
        cbn [add_err l_errors]. apply in_or_app. right. left. reflexivity.
      + apply run_find_sec_none; [reflexivity|]. unfold A1.
        rewrite !flat_map_app, makes_sec_begin, (makes_sec_plain cls (pl_class_part _ _ _ _ _ _ Ec)),
          (makes_sec_plain _ (pl_seg_head _ _)), (makes_sec_plain ks (pl_kind_start _ _ _ _)).
        cbn [app]. rewrite ?app_nil_r. exact Fr1.
    - rewrite EL2 in Hcnt |- *.
      apply (outsec_groups env senv ext final rt stg cfg seg (noload_sections seg) ws2 body2 wsb (noload_name seg)
                           None None true A2 B2 (init_state u) Hss Hg2).
      + intros sec x Hs Hx. apply (Hcnt sec x); [apply in_or_app; right; exact Hs | exact Hx].
      + exact Hu.
      + intros e Ev. cbn [outsec_vma] in Ev. discriminate Ev.
      + apply run_find_sec_none; [reflexivity|]. unfold A2.
        rewrite !flat_map_app, makes_sec_begin, (makes_sec_plain cls (pl_class_part _ _ _ _ _ _ Ec)),
          (makes_sec_plain _ (pl_seg_head _ _)), (makes_sec_plain ks2 (pl_kind_start _ _ _ _)).
        rewrite E1, !flat_map_app, (makes_sec_plain ks (pl_kind_start _ _ _ _)),
          (makes_sec_plain ke (pl_kind_end _ _ _ _)).
        cbn [app flat_map makes_sec O1]. rewrite ?app_nil_r. intro Hbad. apply in_app_or in Hbad.
        destruct Hbad as [Hbad|[Eq|[]]]; [exact (Fr2 Hbad) | exact (alloc_noload_neq seg Eq)].
  Qed.
End AnyCfgGroups.

(* ====================================================================== *)
(* 3b. the main script of a well-formed document                           *)
(* ====================================================================== *)

Lemma partial_exec d rt p :
  gen_partial d rt = Ok p -> doc_link_wf_partial d rt = true ->
  let stg := doc_settings d in
  let classes := doc_vram_classes d in
  exists folder body ws',
    partial_build_segments_folder stg = Some folder /\
    fold_out (add_segment rt stg cfg_main_partial classes)
             (map (partial_clone folder) (doc_segments d)) ws0 = Ok (body, ws') /\
    link_wf_stmts rt stg classes (map (partial_clone folder) (doc_segments d)) (tail_stmts rt d) body ws' = true /\
    link_wf_stmts rt stg classes (doc_segments d) (tail_stmts rt d) body ws' = true /\
    wo_script (po_main p) =
      (version_stmts rt ++
       [SSections (begin_sections_body stg ++ body ++ end_sections_body stg classes ws')] ++
       tail_stmts rt d)%list /\
    forall env senv ext final st,
      exec_script env senv ext final (wo_script (po_main p)) st =
      run env senv ext final
          (begin_sections_body stg ++ body ++ end_sections_body stg classes ws' ++ tail_stmts rt d) st.
Proof.
  intros Hg Hwf stg classes.
  destruct (partial_main_shape d rt p Hg) as (folder & body & ws' & subs & Ef & Ep & Efold & Ew).
  unfold doc_link_wf_partial in Hwf. fold stg classes in Hwf, Ef, Ep, Efold, Ew. rewrite Ef, Ep in Hwf.
  exists folder, body, ws'. split; [exact Ef|]. split; [exact Efold|].
  split; [rewrite link_wf_stmts_clone; exact Hwf|]. split; [exact Hwf|]. split; [exact Ew|].
  intros env senv ext final st. rewrite Ew, exec_sections_script, <- run_app.
  repeat rewrite <- app_assoc. reflexivity.
Qed.

Lemma in_clone folder (l : list segment) c :
  In c (map (partial_clone folder) l) -> exists seg, c = partial_clone folder seg /\ In seg l.
Proof. intro H. apply in_map_iff in H. destruct H as [seg [Ec Hin]]. exists seg. auto. Qed.

Section PartialDoc.
  Variables (env : list (string * Z)) (senv : list osec) (ext : list (string * Z)) (final : bool).

  Theorem partial_chains d rt p u :
    gen_partial d rt = Ok p -> doc_link_wf_partial d rt = true ->
    Forall (fun x => 0 <= u_size x) u ->
    let sty := linker_symbols_style (doc_settings d) in
    let segs := included rt (doc_segments d) in
    let st' := exec_script env senv ext final (wo_script (po_main p)) (init_state u) in
    (forall seg, In seg segs -> ~ In (LForwardRef (alloc_name seg)) (l_errors st')) ->
    RomChain sty st' 0 segs /\
    VramChain sty senv st' 0 segs /\
    exists secs rest, l_secs st' = (secs ++ rest)%list /\ map os_name secs = out_names segs.
  Proof.
    intros Hg Hwf Hu sty segs st' Herr.
    destruct (partial_exec d rt p Hg Hwf) as (folder & body & ws' & Ef & E & Hwc & _ & _ & Hexec).
    unfold st' in *. rewrite Hexec in *. clear Hexec st'.
    destruct (any_chains rt (doc_settings d) cfg_main_partial (doc_vram_classes d) _ _ _ _
                         env senv ext final E Hwc u Hu) as [R [V S]].
    { intros c Hin. rewrite included_clone in Hin. apply in_clone in Hin. destruct Hin as [seg [Ec Hin]].
      subst c. exact (Herr seg Hin). }
    rewrite included_clone in R, V, S. rewrite out_names_clone in S.
    split; [eapply RomChain_clone; exact R|]. split; [eapply VramChain_clone; exact V | exact S].
  Qed.

  Theorem partial_classes d rt p st cn :
    gen_partial d rt = Ok p -> doc_link_wf_partial d rt = true ->
    In cn (used_classes rt (doc_segments d)) ->
    let sty := linker_symbols_style (doc_settings d) in
    let st' := exec_script env senv ext final (wo_script (po_main p)) st in
    ClassSummary sty env ext st' rt (doc_segments d) cn.
  Proof.
    intros Hg Hwf Hcn sty st'.
    destruct (partial_exec d rt p Hg Hwf) as (folder & body & ws' & Ef & E & Hwc & _ & _ & Hexec).
    unfold st'. rewrite Hexec. clear Hexec st'.
    rewrite <- (used_classes_clone rt folder) in Hcn.
    destruct (any_classes rt (doc_settings d) cfg_main_partial (doc_vram_classes d) _ _ _ _
                          env senv ext final E Hwc st cn Hcn) as [vs [Hvs [Hend Hsize]]].
    exists vs. split; [|split; assumption].
    rewrite members_clone in Hvs. apply Forall2_map_l in Hvs. exact Hvs.
  Qed.

  Theorem partial_groups d rt p u seg :
    gen_partial d rt = Ok p -> doc_link_wf_partial d rt = true ->
    Forall (fun x => 0 <= u_size x) u ->
    In seg (included rt (doc_segments d)) ->
    let sty := linker_symbols_style (doc_settings d) in
    let st' := exec_script env senv ext final (wo_script (po_main p)) (init_state u) in
    ~ In (LForwardRef (alloc_name seg)) (l_errors st') ->
    SegmentGroups sty st' seg.
  Proof.
    intros Hg Hwf Hu Hin sty st' Herr.
    destruct (partial_exec d rt p Hg Hwf) as (folder & body & ws' & Ef & E & Hwc & _ & _ & Hexec).
    unfold st' in *. rewrite Hexec in *. clear Hexec st'.
    assert (Hin' : In (partial_clone folder seg) (included rt (map (partial_clone folder) (doc_segments d)))).
    { rewrite included_clone. apply in_map. exact Hin. }
    exact (any_groups rt (doc_settings d) cfg_main_partial (doc_vram_classes d) _ _ _ _
                      env senv ext final E Hwc eq_refl u (partial_clone folder seg) Hu Hin' Herr).
  Qed.
End PartialDoc.

(* C04_partial_document_rom_chain *)
Theorem partial_rom_chain env senv ext final d rt p u :
  gen_partial d rt = Ok p -> doc_link_wf_partial d rt = true ->
  Forall (fun x => 0 <= u_size x) u ->
  let sty := linker_symbols_style (doc_settings d) in
  let segs := included rt (doc_segments d) in
  let st' := exec_script env senv ext final (wo_script (po_main p)) (init_state u) in
  (forall seg, In seg segs -> ~ In (LForwardRef (alloc_name seg)) (l_errors st')) ->
  RomChain sty st' 0 segs /\ NoloadSections st' segs.
Proof.
  intros Hg Hwf Hu sty segs st' Herr.
  destruct (partial_chains env senv ext final d rt p u Hg Hwf Hu Herr) as [R [V _]].
  split; [exact R | eapply VramChain_noload; exact V].
Qed.

Theorem partial_rom_chain_layout d rt p u ext0 :
  gen_partial d rt = Ok p -> doc_link_wf_partial d rt = true ->
  Forall (fun x => 0 <= u_size x) u ->
  let sty := linker_symbols_style (doc_settings d) in
  let segs := included rt (doc_segments d) in
  let st' := layout (wo_script (po_main p)) u ext0 in
  (forall seg, In seg segs -> ~ In (LForwardRef (alloc_name seg)) (l_errors st')) ->
  RomChain sty st' 0 segs /\ NoloadSections st' segs.
Proof. intros Hg Hwf Hu sty segs st'. unfold st', layout. apply partial_rom_chain; assumption. Qed.

(* C03_partial_document_vram *)
Theorem partial_vram env senv ext final d rt p u :
  gen_partial d rt = Ok p -> doc_link_wf_partial d rt = true ->
  Forall (fun x => 0 <= u_size x) u ->
  let sty := linker_symbols_style (doc_settings d) in
  let segs := included rt (doc_segments d) in
  let st' := exec_script env senv ext final (wo_script (po_main p)) (init_state u) in
  (forall seg, In seg segs -> ~ In (LForwardRef (alloc_name seg)) (l_errors st')) ->
  VramChain sty senv st' 0 segs /\
  exists secs rest, l_secs st' = (secs ++ rest)%list /\ map os_name secs = out_names segs.
Proof.
  intros Hg Hwf Hu sty segs st' Herr.
  destruct (partial_chains env senv ext final d rt p u Hg Hwf Hu Herr) as [_ [V S]]. split; assumption.
Qed.

Theorem partial_vram_layout d rt p u ext0 :
  gen_partial d rt = Ok p -> doc_link_wf_partial d rt = true ->
  Forall (fun x => 0 <= u_size x) u ->
  let sty := linker_symbols_style (doc_settings d) in
  let segs := included rt (doc_segments d) in
  let s := wo_script (po_main p) in
  let p1 := exec_script [] [] ext0 false s (init_state u) in
  let p2 := exec_script (l_syms p1) (l_secs p1) (ext0 ++ markers_of p1)%list false s (init_state u) in
  let st' := layout s u ext0 in
  (forall seg, In seg segs -> ~ In (LForwardRef (alloc_name seg)) (l_errors st')) ->
  VramChain sty (l_secs p2) st' 0 segs /\
  exists secs rest, l_secs st' = (secs ++ rest)%list /\ map os_name secs = out_names segs.
Proof. intros Hg Hwf Hu sty segs s p1 p2 st'. unfold st', layout. apply partial_vram; assumption. Qed.

(* C10_partial_document_classes *)
Theorem partial_classes_layout d rt p u ext0 cn :
  gen_partial d rt = Ok p -> doc_link_wf_partial d rt = true ->
  In cn (used_classes rt (doc_segments d)) ->
  let sty := linker_symbols_style (doc_settings d) in
  let s := wo_script (po_main p) in
  let p1 := exec_script [] [] ext0 false s (init_state u) in
  let p2 := exec_script (l_syms p1) (l_secs p1) (ext0 ++ markers_of p1)%list false s (init_state u) in
  ClassSummary sty (l_syms p2) (ext0 ++ markers_of p2)%list (layout s u ext0) rt (doc_segments d) cn.
Proof. intros Hg Hwf Hcn sty s p1 p2. unfold layout. apply partial_classes; assumption. Qed.

(* C05_partial_document_groups *)
Theorem partial_groups_layout d rt p u ext0 seg :
  gen_partial d rt = Ok p -> doc_link_wf_partial d rt = true ->
  Forall (fun x => 0 <= u_size x) u ->
  In seg (included rt (doc_segments d)) ->
  let sty := linker_symbols_style (doc_settings d) in
  let st' := layout (wo_script (po_main p)) u ext0 in
  ~ In (LForwardRef (alloc_name seg)) (l_errors st') ->
  SegmentGroups sty st' seg.
Proof.
  intros Hg Hwf Hu Hin sty st' Herr. unfold st', layout in *.
  apply (partial_groups _ _ _ _ d rt p u seg Hg Hwf Hu Hin). exact Herr.
Qed.

(* ====================================================================== *)
(* 4. the main script against the ordinary script                          *)
(* ====================================================================== *)

Local Open Scope nat_scope.

(* ---------- the relations ---------- *)

Lemma body_rel_intro b bm offs :
  (forall x, defs x b = defs x bm + cnt x offs) -> upds b = upds bm -> body_rel b bm offs.
Proof. intros D U. split; [|exact U]. intro x. rewrite <- cnt_count_occ. apply D. Qed.

Lemma body_rel_defs b bm offs x : body_rel b bm offs -> defs x b = defs x bm + cnt x offs.
Proof. intros [D _]. rewrite cnt_count_occ. apply D. Qed.

Lemma stmts_rel_refl l : stmts_rel l l [].
Proof.
  induction l as [|s l IH]; [constructor|].
  change (@nil string) with (@nil string ++ @nil string)%list. constructor; [constructor | exact IH].
Qed.

Lemma stmts_rel_eq l lm o o' : stmts_rel l lm o -> o = o' -> stmts_rel l lm o'.
Proof. intros H Eo. subst. exact H. Qed.

Lemma stmts_rel_app a am o1 b bm o2 :
  stmts_rel a am o1 -> stmts_rel b bm o2 -> stmts_rel (a ++ b) (am ++ bm) (o1 ++ o2).
Proof.
  intros Ha Hb. induction Ha as [|s sm o l lm ol Hs Hl IH]; [exact Hb|].
  cbn [app]. rewrite <- app_assoc. constructor; assumption.
Qed.

Lemma stmts_rel_one s sm o : stmt_rel s sm o -> stmts_rel [s] [sm] o.
Proof. intro H. eapply stmts_rel_eq; [constructor; [exact H | constructor] | apply app_nil_r]. Qed.

Lemma stmt_rel_counts s sm o x :
  stmt_rel s sm o -> def_count x s = def_count x sm + cnt x o /\ upd_syms s = upd_syms sm.
Proof.
  intro H. destruct H as [s | name addr at_ noload sub b bm offs Hb].
  - split; [cbn [cnt]; lia | reflexivity].
  - cbn [def_count upd_syms]. split; [exact (body_rel_defs _ _ _ x Hb) | exact (proj2 Hb)].
Qed.

Lemma stmts_rel_counts l lm o : stmts_rel l lm o ->
  (forall x, defs x l = defs x lm + cnt x o) /\ upds l = upds lm.
Proof.
  induction 1 as [|s sm o l lm ol Hs Hl [IHd IHu]]; [split; [intro; reflexivity | reflexivity]|].
  split.
  - intro x. rewrite !defs_cons, cnt_app, IHd. destruct (stmt_rel_counts _ _ _ x Hs) as [D _]. lia.
  - rewrite !upds_cons, IHu. destruct (stmt_rel_counts _ _ _ "."%string Hs) as [_ U]. rewrite U. reflexivity.
Qed.

Lemma stmts_rel_body l lm o : stmts_rel l lm o -> body_rel l lm o.
Proof. intro H. destruct (stmts_rel_counts _ _ _ H) as [D U]. apply body_rel_intro; assumption. Qed.

Lemma stmts_rel_headers l lm o : stmts_rel l lm o -> headers l = headers lm.
Proof.
  induction 1 as [|s sm o l lm ol Hs Hl IH]; [reflexivity|].
  unfold headers in *. cbn [flat_map]. rewrite IH. destruct Hs; reflexivity.
Qed.

Lemma stmts_rel_length l lm o : stmts_rel l lm o -> List.length l = List.length lm.
Proof. induction 1 as [|s sm o l lm ol Hs Hl IH]; [reflexivity|]. cbn [List.length]. rewrite IH. reflexivity. Qed.

(* ---------- one section list ---------- *)

Section MainVsOrdinary.
  Variables (rt : runtime) (st : settings) (classes : list vram_class).
  Notation sty := (linker_symbols_style st).

  Lemma part_groups_rel seg p sections rest : forall ws b ws' wsm bm wsm',
    part_groups rt st cfg_normal seg sections rest ws = Ok (b, ws') ->
    part_groups rt st cfg_main_partial (clone_with_new_files seg [new_object p]) sections rest wsm = Ok (bm, wsm') ->
    body_rel b bm (flat_map (section_offsets rt sty seg sections) rest).
  Proof.
    induction rest as [|section rest IH]; intros ws b ws' wsm bm wsm' H Hm.
    - apply ok_inj in H. apply ok_inj in Hm. inversion H; inversion Hm; subst.
      apply body_rel_intro; [intro; reflexivity | reflexivity].
    - apply part_groups_cons in H. destruct H as [s1 [ws1 [s2 [E1 [E2 E]]]]].
      apply part_groups_cons in Hm. destruct Hm as [t1 [wm1 [t2 [F1 [F2 F]]]]].
      specialize (IH _ _ _ _ _ _ E2 F2).
      destruct (emit_section_Sy rt sty cfg_normal seg sections eq_refl _ _ _ _ _ E1) as [D1 U1].
      rewrite main_emit_section in F1. apply bind_ok in F1. destruct F1 as [b0 [_ F1]].
      apply bind_ok in F1. destruct F1 as [pe [_ F1]]. apply ok_inj in F1. inversion F1; subst t1 wm1. clear F1.
      change (section_symbol_start rt sty cfg_main_partial (clone_with_new_files seg [new_object p]) section)
        with (section_symbol_start rt sty cfg_normal seg section) in F.
      change (section_symbol_end sty cfg_main_partial (clone_with_new_files seg [new_object p]) section)
        with (section_symbol_end sty cfg_normal seg section) in F.
      subst b bm. cbn [flat_map]. apply body_rel_intro.
      + intro x. rewrite !defs_app, cnt_app, D1, (body_rel_defs _ _ _ x IH).
        change (defs x [SInput false (display (push b0 pe)) None section (wildcard_sections seg)]) with 0. lia.
      + rewrite !upds_app, U1, (proj2 IH). reflexivity.
  Qed.

  Lemma write_segment_rel seg p sections noload ws s ws' wsm sm wsm' :
    write_segment rt st cfg_normal seg sections noload ws = Ok (s, ws') ->
    write_segment rt st cfg_main_partial (clone_with_new_files seg [new_object p]) sections noload wsm
      = Ok (sm, wsm') ->
    stmts_rel s sm (flat_map (section_offsets rt sty seg sections) sections).
  Proof.
    intros H Hm. apply write_segment_inv in H. destruct H as [b [E Es]].
    apply write_segment_inv in Hm. destruct Hm as [bm [F Fs]]. subst s sm.
    change (sections_kind_start sty cfg_main_partial (clone_with_new_files seg [new_object p]) noload)
      with (sections_kind_start sty cfg_normal seg noload).
    change (sections_kind_end sty cfg_main_partial (clone_with_new_files seg [new_object p]) noload)
      with (sections_kind_end sty cfg_normal seg noload).
    pose proof (part_groups_rel _ _ _ _ _ _ _ _ _ _ E F) as Hb.
    eapply stmts_rel_eq.
    - apply stmts_rel_app; [apply stmts_rel_refl|]. apply stmts_rel_app; [|apply stmts_rel_refl].
      apply stmts_rel_one. unfold outsec_of.
      change (sg_name (clone_with_new_files seg [new_object p])) with (sg_name seg).
      change (segment_addr sty (clone_with_new_files seg [new_object p])) with (segment_addr sty seg).
      change (subalign (clone_with_new_files seg [new_object p])) with (subalign seg).
      change (opt_fill (clone_with_new_files seg [new_object p])) with (opt_fill seg).
      apply (sr_outsec _ _ _ _ _ _ _ (flat_map (section_offsets rt sty seg sections) sections)).
      apply body_rel_intro.
      + intro x. rewrite !defs_app, (body_rel_defs _ _ _ x Hb). lia.
      + rewrite !upds_app, (proj2 Hb). reflexivity.
    - cbn [app]. apply app_nil_r.
  Qed.

  (* ---------- one segment ---------- *)

  Lemma add_segment_rel seg p ws s ws' wsm sm wsm' :
    should_emit rt (sg_conds seg) = true ->
    ws_emitted wsm = ws_emitted ws ->
    add_segment rt st cfg_normal classes seg ws = Ok (s, ws') ->
    add_segment rt st cfg_main_partial classes (clone_with_new_files seg [new_object p]) wsm = Ok (sm, wsm') ->
    stmts_rel s sm (seg_offsets rt sty seg) /\ ws_emitted wsm' = ws_emitted ws'.
  Proof.
    intros Hc Hem H1 H2. apply add_segment_inv in H1.
    destruct H1 as [[Hc' _] | [_ [cls [ws1 [s1 [ws2 [s2 [Ec [E1 [E2 E]]]]]]]]]]; [congruence|]. subst s.
    apply add_segment_inv in H2.
    destruct H2 as [[Hc' _] | [_ [clsm [wm1 [t1 [wm2 [t2 [Fc [F1 [F2 F]]]]]]]]]];
      [cbn [sg_conds clone_with_new_files] in Hc'; congruence|]. subst sm.
    cbn [alloc_sections noload_sections clone_with_new_files] in F1, F2.
    assert (Hcls : clsm = cls /\ ws_emitted wm1 = ws_emitted ws1).
    { unfold class_part in Ec, Fc. cbn [sg_vram_class sg_name clone_with_new_files] in Fc.
      destruct (sg_vram_class seg) as [cn|].
      - destruct (class_get classes cn) as [c|]; [|discriminate]. rewrite Hem in Fc.
        destruct (mem_str cn (ws_emitted ws)).
        + apply ok_inj in Ec. apply ok_inj in Fc. inversion Ec; inversion Fc; subst. auto.
        + apply ok_inj in Ec. apply ok_inj in Fc. inversion Ec; inversion Fc; subst. simpl. rewrite Hem. auto.
      - apply ok_inj in Ec. apply ok_inj in Fc. inversion Ec; inversion Fc; subst. auto. }
    destruct Hcls as [Hcl Hw1]. subst clsm.
    split.
    - change (seg_head st (clone_with_new_files seg [new_object p])) with (seg_head st seg).
      change (seg_foot st (clone_with_new_files seg [new_object p])) with (seg_foot st seg).
      pose proof (write_segment_rel _ _ _ _ _ _ _ _ _ _ E1 F1) as R1.
      pose proof (write_segment_rel _ _ _ _ _ _ _ _ _ _ E2 F2) as R2.
      eapply stmts_rel_eq.
      + apply stmts_rel_app; [apply stmts_rel_refl|]. apply stmts_rel_app; [apply stmts_rel_refl|].
        apply stmts_rel_app; [exact R1|]. apply stmts_rel_app; [apply stmts_rel_refl|].
        apply stmts_rel_app; [exact R2|]. apply stmts_rel_app; apply stmts_rel_refl.
      + cbn [app]. rewrite app_nil_r. reflexivity.
    - rewrite (write_segment_emitted _ _ _ _ _ _ _ _ _ F2), (write_segment_emitted _ _ _ _ _ _ _ _ _ F1).
      rewrite (write_segment_emitted _ _ _ _ _ _ _ _ _ E2), (write_segment_emitted _ _ _ _ _ _ _ _ _ E1).
      exact Hw1.
  Qed.

  (* ---------- the list of segments ---------- *)

  Lemma fold_rel folder segs : forall ws body ws' wsm bodym wsm',
    ws_emitted wsm = ws_emitted ws ->
    fold_out (add_segment rt st cfg_normal classes) segs ws = Ok (body, ws') ->
    fold_out (add_segment rt st cfg_main_partial classes) (map (partial_clone folder) segs) wsm = Ok (bodym, wsm') ->
    stmts_rel body bodym (flat_map (seg_offsets rt sty) (included rt segs)) /\
    ws_emitted wsm' = ws_emitted ws'.
  Proof.
    induction segs as [|seg r IH]; intros ws body ws' wsm bodym wsm' Hem H Hm.
    - apply fold_out_nil in H. apply fold_out_nil in Hm. destruct H, Hm; subst. split; [constructor | exact Hem].
    - cbn [map] in Hm. apply fold_out_cons in H. destruct H as [s1 [ws1 [s2 [E1 [E2 E]]]]].
      apply fold_out_cons in Hm. destruct Hm as [t1 [wm1 [t2 [F1 [F2 F]]]]]. subst body bodym.
      rewrite included_cons. destruct (should_emit rt (sg_conds seg)) eqn:Hc.
      + destruct (add_segment_rel _ _ _ _ _ _ _ _ Hc Hem E1 F1) as [R1 Hem1].
        destruct (IH _ _ _ _ _ _ Hem1 E2 F2) as [R2 Hem2]. split; [|exact Hem2].
        cbn [flat_map]. apply stmts_rel_app; assumption.
      + rewrite (add_segment_excluded _ _ _ _ _ _ Hc) in E1. apply ok_inj in E1. inversion E1; subst s1 ws1.
        rewrite (clone_excluded _ _ _ _ _ _ _ Hc) in F1. apply ok_inj in F1. inversion F1; subst t1 wm1.
        cbn [app]. apply (IH _ _ _ _ _ _ Hem E2 F2).
  Qed.
End MainVsOrdinary.

Lemma end_sections_emitted st classes a b :
  ws_emitted a = ws_emitted b -> end_sections_body st classes a = end_sections_body st classes b.
Proof. intro H. unfold end_sections_body. rewrite H. reflexivity. Qed.

(* ---------- the two scripts ---------- *)

Theorem main_vs_ordinary d rt w p :
  gen_normal d rt = Ok w -> gen_partial d rt = Ok p -> single_segment_mode (doc_settings d) = false ->
  exists B Bm,
    wo_script w = (version_stmts rt ++ [SSections B] ++ tail_stmts rt d)%list /\
    wo_script (po_main p) = (version_stmts rt ++ [SSections Bm] ++ tail_stmts rt d)%list /\
    stmts_rel B Bm (doc_offsets d rt).
Proof.
  intros Hg Hp Hm. apply gen_normal_inv in Hg. destruct Hg as [s [ws' [E Hw]]].
  apply add_all_segments_inv in E. destruct E as [[Hs _] | [_ [body [E Es]]]]; [congruence|]. subst s w.
  destruct (partial_main_shape d rt p Hp) as (folder & bodym & wsm' & subs & Ef & Ep & Efold & Ew).
  destruct (fold_rel rt (doc_settings d) (doc_vram_classes d) folder (doc_segments d) ws0 body ws' ws0 bodym wsm'
                     eq_refl E Efold) as [R Hem].
  rewrite (end_sections_emitted _ _ _ _ Hem) in Ew.
  eexists _, _. split; [reflexivity|]. split; [exact Ew|].
  eapply stmts_rel_eq.
  - apply stmts_rel_app; [apply stmts_rel_refl|]. apply stmts_rel_app; [exact R | apply stmts_rel_refl].
  - cbn [app]. apply app_nil_r.
Qed.

Lemma flat_sections_script rt d B :
  flat_stmts (version_stmts rt ++ [SSections B] ++ tail_stmts rt d) = (version_stmts rt ++ B ++ tail_stmts rt d)%list.
Proof.
  rewrite !flat_app, (flat_plain _ (plain_version rt)), (flat_plain _ (plain_tail rt d)).
  change (flat_stmts [SSections B]) with (B ++ [])%list. rewrite app_nil_r. reflexivity.
Qed.

Theorem main_vs_ordinary_flat d rt w p :
  gen_normal d rt = Ok w -> gen_partial d rt = Ok p -> single_segment_mode (doc_settings d) = false ->
  stmts_rel (flat_stmts (wo_script w)) (flat_stmts (wo_script (po_main p))) (doc_offsets d rt).
Proof.
  intros Hg Hp Hm. destruct (main_vs_ordinary d rt w p Hg Hp Hm) as (B & Bm & Ew & Em & R).
  rewrite Ew, Em, !flat_sections_script.
  eapply stmts_rel_eq.
  - apply stmts_rel_app; [apply stmts_rel_refl|]. apply stmts_rel_app; [exact R | apply stmts_rel_refl].
  - cbn [app]. apply app_nil_r.
Qed.

Lemma defs_script x rt d B :
  defs x (version_stmts rt ++ [SSections B] ++ tail_stmts rt d) = defs x (version_stmts rt) + defs x B + defs x (tail_stmts rt d).
Proof. rewrite !defs_app, defs_cons, defs_nil. cbn [def_count]. unfold defs. lia. Qed.

Lemma upds_script rt d B :
  upds (version_stmts rt ++ [SSections B] ++ tail_stmts rt d) = (upds (version_stmts rt) ++ upds B ++ upds (tail_stmts rt d))%list.
Proof. rewrite !upds_app, upds_cons. cbn [upd_syms]. change (upds []) with (@nil string). rewrite app_nil_r. reflexivity. Qed.

Theorem main_same_symbols d rt w p :
  gen_normal d rt = Ok w -> gen_partial d rt = Ok p -> single_segment_mode (doc_settings d) = false ->
  let offs := doc_offsets d rt in
  (forall x, defs x (wo_script w) = defs x (wo_script (po_main p)) + count_occ string_dec offs x) /\
  upds (wo_script (po_main p)) = upds (wo_script w) /\
  (forall x, count_assigns x (wo_script w) = count_assigns x (wo_script (po_main p)) + count_occ string_dec offs x) /\
  (forall x, defs x (wo_script (po_main p)) + count_occ string_dec offs x = count_occ string_dec (doc_symbols d rt) x) /\
  headers (flat_stmts (wo_script w)) = headers (flat_stmts (wo_script (po_main p))).
Proof.
  intros Hg Hp Hm offs.
  destruct (main_vs_ordinary d rt w p Hg Hp Hm) as (B & Bm & Ew & Em & R).
  destruct (stmts_rel_counts _ _ _ R) as [D U].
  assert (HD : forall x, defs x (wo_script w) = defs x (wo_script (po_main p)) + count_occ string_dec offs x).
  { intro x. rewrite Ew, Em, !defs_script, D, <- cnt_count_occ. unfold offs. lia. }
  assert (HU : upds (wo_script (po_main p)) = upds (wo_script w)).
  { rewrite Ew, Em, !upds_script, U. reflexivity. }
  split; [exact HD|]. split; [exact HU|]. split; [|split].
  - intro x. rewrite !count_split, HU, HD. lia.
  - intro x. rewrite <- HD. apply (script_symbols d rt w Hg Hm).
  - exact (stmts_rel_headers _ _ _ (main_vs_ordinary_flat d rt w p Hg Hp Hm)).
Qed.

(* ====================================================================== *)
(* 5. a document well-formed for the ordinary script is well-formed for    *)
(*    the main script                                                      *)
(* ====================================================================== *)

Lemma stmt_rel_count_le s sm o x : stmt_rel s sm o -> assign_count x sm <= assign_count x s.
Proof.
  intro H. rewrite !assign_count_split. destruct (stmt_rel_counts _ _ _ x H) as [D U]. rewrite U, D. lia.
Qed.

Lemma stmt_rel_assigns s sm o x : stmt_rel s sm o -> assigns x sm = true -> assigns x s = true.
Proof.
  intros H Hm. destruct (assigns x s) eqn:Ea; [reflexivity|]. apply assigns_count in Ea.
  pose proof (stmt_rel_count_le _ _ _ x H) as Hle.
  assert (Hz : assign_count x sm = 0) by lia. apply assigns_count in Hz. congruence.
Qed.

Lemma stmts_rel_count_le l lm o x : stmts_rel l lm o -> count_assigns x lm <= count_assigns x l.
Proof.
  induction 1 as [|s sm o l lm ol Hs Hl IH]; [lia|]. rewrite !count_cons.
  pose proof (stmt_rel_count_le _ _ _ x Hs). lia.
Qed.

Lemma stmts_rel_filter l lm o x :
  stmts_rel l lm o -> List.length (filter (assigns x) lm) <= List.length (filter (assigns x) l).
Proof.
  induction 1 as [|s sm o l lm ol Hs Hl IH]; [cbn; lia|]. cbn [filter].
  destruct (assigns x sm) eqn:Em.
  - rewrite (stmt_rel_assigns _ _ _ x Hs Em). cbn [List.length]. lia.
  - destruct (assigns x s); cbn [List.length]; lia.
Qed.

Lemma defined_once_rel l lm o x :
  stmts_rel l lm o -> defined_once x l = true -> existsb (assigns x) lm = true -> defined_once x lm = true.
Proof.
  unfold defined_once. intros R H Hex. apply Nat.eqb_eq in H. apply Nat.eqb_eq.
  pose proof (stmts_rel_filter _ _ _ x R). pose proof (existsb_filter_nonempty _ _ Hex). lia.
Qed.

Lemma stmts_rel_end_clean l lm o x : stmts_rel l lm o -> end_clean x l = true -> end_clean x lm = true.
Proof.
  unfold end_clean. induction 1 as [|s sm o l lm ol Hs Hl IH]; intro H; [reflexivity|].
  cbn [forallb] in *. apply andb_true_iff in H. destruct H as [H1 H2]. rewrite (IH H2), andb_true_r.
  destruct Hs as [s | name addr at_ noload sub b bm offs Hb]; [exact H1|].
  cbn [end_shape] in *. rewrite orb_false_r in *. apply negb_true_iff in H1. apply negb_true_iff.
  destruct (assigns x (SOutSec name addr at_ noload sub bm)) eqn:Em; [|reflexivity].
  rewrite (stmt_rel_assigns _ _ _ x (sr_outsec name addr at_ noload sub b bm offs Hb) Em) in H1. discriminate.
Qed.

Lemma count_outsec x st seg noload body :
  assign_count x (outsec_of st seg noload body) = count_assigns x (opt_fill seg) + count_assigns x body.
Proof.
  unfold outsec_of. cbn [assign_count].
  change (list_sum (map (assign_count x) (opt_fill seg ++ body))) with (count_assigns x (opt_fill seg ++ body)).
  apply count_app.
Qed.

Lemma sec_syms_assigned_fold rt stg cfg classes segs : forall ws body ws' seg sec x,
  fold_out (add_segment rt stg cfg classes) segs ws = Ok (body, ws') -> section_syms cfg = true ->
  In seg (included rt segs) -> In sec (seg_sections seg) ->
  In x (sec_syms3 (linker_symbols_style stg) (sg_name seg) sec) ->
  1 <= count_assigns x body.
Proof.
  induction segs as [|y r IH]; intros ws body ws' seg sec x H Hss Hin Hsec Hx; [contradiction|].
  apply fold_out_cons in H. destruct H as [s1 [ws1 [s2 [E1 [E2 E]]]]]. subst body. rewrite count_app.
  rewrite included_cons in Hin. destruct (should_emit rt (sg_conds y)) eqn:Hc.
  - destruct Hin as [Ey|Hin]; [|pose proof (IH _ _ _ _ _ _ E2 Hss Hin Hsec Hx); lia].
    subst y. apply add_segment_inv in E1.
    destruct E1 as [[Hc' _] | [_ [cls [wsa [sa [wsb [sb [Ec [Ea [Eb Es]]]]]]]]]]; [congruence|]. subst s1.
    apply write_segment_inv in Ea. destruct Ea as [ba [Ga Ea]].
    apply write_segment_inv in Eb. destruct Eb as [bb [Gb Eb]]. subst sa sb.
    rewrite !count_app, !count_cons, !count_outsec.
    unfold seg_sections in Hsec. apply in_app_or in Hsec. destruct Hsec as [Hsec|Hsec].
    + pose proof (group_syms_assigned _ _ _ _ _ _ _ _ _ Ga Hss sec Hsec x Hx). lia.
    + pose proof (group_syms_assigned _ _ _ _ _ _ _ _ _ Gb Hss sec Hsec x Hx). lia.
  - pose proof (IH _ _ _ _ _ _ E2 Hss Hin Hsec Hx). lia.
Qed.

Theorem link_wf_partial_of_ordinary d rt p :
  gen_partial d rt = Ok p -> doc_link_wf d rt = true -> doc_link_wf_partial d rt = true.
Proof.
  intros Hp Hwf. unfold doc_link_wf in Hwf.
  set (stg := doc_settings d) in *. set (classes := doc_vram_classes d) in *.
  destruct (fold_out (add_segment rt stg cfg_normal classes) (doc_segments d) ws0) as [[body ws']|e] eqn:E;
    [|discriminate].
  apply andb_true_iff in Hwf. destruct Hwf as [Hwf Hrom].
  apply andb_true_iff in Hwf. destruct Hwf as [Hwf Hcls].
  apply andb_true_iff in Hwf. destruct Hwf as [Hwf Hseg].
  apply andb_true_iff in Hwf. destruct Hwf as [_ Hnd].
  destruct (partial_main_shape d rt p Hp) as (folder & bodym & wsm' & subs & Ef & Ep & Efold & _).
  fold stg classes in Ef, Ep, Efold.
  destruct (fold_rel rt stg classes folder (doc_segments d) ws0 body ws' ws0 bodym wsm' eq_refl E Efold) as [R Hem].
  unfold doc_link_wf_partial. fold stg classes. rewrite Ef, Ep. unfold link_wf_stmts.
  rewrite (end_sections_emitted stg classes _ _ Hem).
  set (sty := linker_symbols_style stg) in *.
  set (fin := (end_sections_body stg classes ws' ++ tail_stmts rt d)%list) in *.
  set (offs := flat_map (seg_offsets rt sty) (included rt (doc_segments d))) in *.
  assert (Rall : stmts_rel (begin_sections_body stg ++ body ++ fin) (begin_sections_body stg ++ bodym ++ fin) offs).
  { eapply stmts_rel_eq.
    - apply stmts_rel_app; [apply stmts_rel_refl|]. apply stmts_rel_app; [exact R | apply stmts_rel_refl].
    - cbn [app]. apply app_nil_r. }
  rewrite Hnd, Hrom, andb_true_r. cbn [andb]. apply andb_true_iff. split.
  - apply forallb_forall. intros seg Hin. rewrite forallb_forall in Hseg. specialize (Hseg seg Hin).
    assert (Hin' : In (partial_clone folder seg) (included rt (map (partial_clone folder) (doc_segments d)))).
    { rewrite included_clone. apply in_map. exact Hin. }
    unfold seg_link_wf in *.
    apply andb_true_iff in Hseg. destruct Hseg as [Hseg H4]. apply andb_true_iff in Hseg. destruct Hseg as [Hseg H3].
    apply andb_true_iff in Hseg. destruct Hseg as [H1 H2]. rewrite H3, andb_true_r.
    apply andb_true_iff. split; [apply andb_true_iff; split|].
    + pose proof (rom_assigned_fold _ _ _ _ _ _ _ _ _ Efold Hin') as Hass.
      apply (rom_assigned_app_l _ _ _ fin) in Hass. apply (rom_assigned_app_r _ _ (begin_sections_body stg)) in Hass.
      destruct Hass as [A1 [A2 A3]]. change (sg_name (partial_clone folder seg)) with (sg_name seg) in A1, A2, A3.
      fold sty in A1, A2, A3.
      unfold rom_names_distinct in *. apply andb_true_iff in H1. destruct H1 as [H1 D3].
      apply andb_true_iff in H1. destruct H1 as [D1 D2].
      rewrite (defined_once_rel _ _ _ _ Rall D1 A1), (defined_once_rel _ _ _ _ Rall D2 A2),
        (defined_once_rel _ _ _ _ Rall D3 A3). reflexivity.
    + pose proof (vram_assigned_fold _ _ _ _ _ _ _ _ _ Efold Hin') as Hass.
      apply (vram_assigned_app_l _ _ _ fin) in Hass. apply (vram_assigned_app_r _ _ (begin_sections_body stg)) in Hass.
      destruct Hass as [A1 [A2 A3]]. change (sg_name (partial_clone folder seg)) with (sg_name seg) in A1, A2, A3.
      fold sty in A1, A2, A3.
      unfold vram_names_distinct in *. apply andb_true_iff in H2. destruct H2 as [H2 D3].
      apply andb_true_iff in H2. destruct H2 as [D1 D2].
      rewrite (defined_once_rel _ _ _ _ Rall D1 A1), (defined_once_rel _ _ _ _ Rall D2 A2),
        (defined_once_rel _ _ _ _ Rall D3 A3). reflexivity.
    + apply forallb_forall. intros sec Hsec. rewrite forallb_forall in H4. specialize (H4 sec Hsec).
      assert (Hone : forall x, In x (sec_syms3 sty (sg_name seg) sec) ->
                assigned_once_deep x (begin_sections_body stg ++ body ++ fin) = true ->
                assigned_once_deep x (begin_sections_body stg ++ bodym ++ fin) = true).
      { intros x Hx H. unfold assigned_once_deep in *. apply Nat.eqb_eq in H. apply Nat.eqb_eq.
        pose proof (stmts_rel_count_le _ _ _ x Rall) as Hle.
        pose proof (sec_syms_assigned_fold _ _ _ _ _ _ _ _ (partial_clone folder seg) sec x Efold eq_refl Hin' Hsec Hx)
          as Hge.
        rewrite !count_app in *. lia. }
      unfold section_names_once in *.
      apply andb_true_iff in H4. destruct H4 as [H4 S3]. apply andb_true_iff in H4. destruct H4 as [S1 S2].
      rewrite (Hone _ (or_introl eq_refl) S1), (Hone _ (or_intror (or_introl eq_refl)) S2),
        (Hone _ (or_intror (or_intror (or_introl eq_refl))) S3). reflexivity.
  - apply forallb_forall. intros cn Hcn. rewrite forallb_forall in Hcls. specialize (Hcls cn Hcn).
    unfold class_link_wf in *. fold sty in Hcls |- *.
    apply andb_true_iff in Hcls. destruct Hcls as [Hcls C4]. apply andb_true_iff in Hcls. destruct Hcls as [Hcls C3].
    apply andb_true_iff in Hcls. destruct Hcls as [C1 C2].
    rewrite (stmts_rel_end_clean _ _ _ _ R C1), C2, C3, C4. reflexivity.
Qed.

Theorem docwf_partial_sufficient d rt w p :
  gen_normal d rt = Ok w -> gen_partial d rt = Ok p -> doc_names_distinct d rt = true ->
  doc_link_wf_partial d rt = true.
Proof.
  intros Hg Hp Hd. apply (link_wf_partial_of_ordinary d rt p Hp). exact (docwf_sufficient d rt w Hg Hd).
Qed.

(* ====================================================================== *)
(* 6. the symbols of the main script, from the document                    *)
(* ====================================================================== *)

Lemma flat_map_all_nil {A B} (f : A -> list B) l : (forall a, f a = []) -> flat_map f l = [].
Proof. intro H. induction l as [|a r IH]; [reflexivity|]. cbn [flat_map]. rewrite H, IH. reflexivity. Qed.

Lemma flat_map_map {A B C} (f : B -> list C) (g : A -> B) l : flat_map f (map g l) = flat_map (fun a => f (g a)) l.
Proof. induction l as [|a r IH]; [reflexivity|]. cbn [map flat_map]. rewrite IH. reflexivity. Qed.

(* a partial object defines no linker offset, however it is visited *)
Lemma sff_offsets_object rt sty seg sections p : forall n stack section,
  sff_offsets rt sty seg sections (new_object p) n stack section = [].
Proof.
  induction n as [|n IH]; intros stack section; [apply sff_offsets_O|].
  rewrite sff_offsets_S. destruct (mem_str section stack); [reflexivity|].
  change (sections_here (new_object p) section sections) with [section]. cbn [flat_map]. rewrite app_nil_r.
  unfold file_offsets. change (fi_conds (new_object p)) with no_conds. rewrite should_emit_no_conds.
  cbn [negb fi_kind new_object app].
  destruct (lookup section (subgroups_for seg (new_object p))) as [others|]; [|reflexivity].
  apply flat_map_all_nil. intro a. apply IH.
Qed.

Lemma section_offsets_clone rt sty seg p sections section :
  section_offsets rt sty (clone_with_new_files seg [new_object p]) sections section = [].
Proof.
  unfold section_offsets. cbn [sg_files clone_with_new_files flat_map]. rewrite sff_offsets_object. reflexivity.
Qed.

Lemma section_symbols_clone x rt sty seg p sections section :
  cnt x (section_symbols rt sty seg sections section) =
  cnt x (section_symbols rt sty (clone_with_new_files seg [new_object p]) sections section) +
  cnt x (section_offsets rt sty seg sections section).
Proof.
  unfold section_symbols. rewrite section_offsets_clone.
  change (sg_name (clone_with_new_files seg [new_object p])) with (sg_name seg).
  rewrite !cnt_app. cbn [cnt]. lia.
Qed.

Lemma part_symbols_clone x rt sty seg p noload :
  cnt x (part_symbols rt sty seg noload) =
  cnt x (part_symbols rt sty (clone_with_new_files seg [new_object p]) noload) +
  cnt x (flat_map (section_offsets rt sty seg (if noload then noload_sections seg else alloc_sections seg))
                  (if noload then noload_sections seg else alloc_sections seg)).
Proof.
  unfold part_symbols. cbv zeta.
  change (kind_name (clone_with_new_files seg [new_object p]) noload) with (kind_name seg noload).
  change (noload_sections (clone_with_new_files seg [new_object p])) with (noload_sections seg).
  change (alloc_sections (clone_with_new_files seg [new_object p])) with (alloc_sections seg).
  set (S := if noload then noload_sections seg else alloc_sections seg).
  rewrite !cnt_app.
  rewrite (cnt_flat_map_add x (section_symbols rt sty seg S)
             (section_symbols rt sty (clone_with_new_files seg [new_object p]) S)
             (section_offsets rt sty seg S) S (section_symbols_clone x rt sty seg p S)). lia.
Qed.

Lemma seg_symbols_clone x rt sty seg p :
  cnt x (seg_symbols rt sty seg) =
  cnt x (seg_symbols rt sty (clone_with_new_files seg [new_object p])) + cnt x (seg_offsets rt sty seg).
Proof.
  unfold seg_symbols, seg_offsets.
  change (sg_name (clone_with_new_files seg [new_object p])) with (sg_name seg).
  rewrite !cnt_app, (part_symbols_clone x rt sty seg p false), (part_symbols_clone x rt sty seg p true). lia.
Qed.

Lemma doc_symbols_clone x d rt folder :
  cnt x (doc_symbols d rt) = cnt x (doc_symbols (partial_doc d folder) rt) + cnt x (doc_offsets d rt).
Proof.
  unfold doc_symbols, doc_gp_symbols, doc_named_symbols, doc_offsets. cbv zeta.
  cbn [doc_settings doc_vram_classes doc_segments doc_symbol_assignments partial_doc].
  rewrite used_classes_clone, included_clone, !flat_map_map.
  change (flat_map (fun a => seg_gp_symbols rt (partial_clone folder a)) (included rt (doc_segments d)))
    with (flat_map (seg_gp_symbols rt) (included rt (doc_segments d))).
  rewrite !cnt_app, !cnt_cons, !cnt_app.
  set (sty := linker_symbols_style (doc_settings d)).
  rewrite (cnt_flat_map_add x (seg_symbols rt sty) (fun a => seg_symbols rt sty (partial_clone folder a))
             (seg_offsets rt sty) _
             (fun seg => seg_symbols_clone x rt sty seg (partial_object folder seg))).
  lia.
Qed.

Theorem main_symbols_count d rt w p folder :
  gen_normal d rt = Ok w -> gen_partial d rt = Ok p -> single_segment_mode (doc_settings d) = false ->
  partial_build_segments_folder (doc_settings d) = Some folder ->
  (forall x, defs x (wo_script (po_main p)) = count_occ string_dec (doc_symbols (partial_doc d folder) rt) x) /\
  incl (upds (wo_script (po_main p)))
       ("." :: "__romPos" :: class_symbols (linker_symbols_style (doc_settings d)) (used_classes rt (doc_segments d)))%string.
Proof.
  intros Hg Hp Hm Hf. destruct (main_same_symbols d rt w p Hg Hp Hm) as (_ & HU & _ & HS & _). split.
  - intro x. specialize (HS x). rewrite <- !cnt_count_occ in *. rewrite (doc_symbols_clone x d rt folder) in HS. lia.
  - rewrite HU. apply (script_symbols d rt w Hg Hm).
Qed.

Lemma symbols_of_clones x d rt folder :
  count_occ string_dec (doc_symbols d rt) x =
  count_occ string_dec (doc_symbols (partial_doc d folder) rt) x + count_occ string_dec (doc_offsets d rt) x.
Proof. rewrite <- !cnt_count_occ. apply doc_symbols_clone. Qed.

(* what stmts_rel gives, in one statement *)
Lemma stmts_rel_facts l lm offs :
  stmts_rel l lm offs ->
  List.length l = List.length lm /\ headers l = headers lm /\ body_rel l lm offs /\
  (forall x, count_assigns x lm <= count_assigns x l) /\
  (forall x, List.length (filter (assigns x) lm) <= List.length (filter (assigns x) l)) /\
  (forall x, end_clean x l = true -> end_clean x lm = true).
Proof.
  intro R.
  split; [exact (stmts_rel_length _ _ _ R)|]. split; [exact (stmts_rel_headers _ _ _ R)|].
  split; [exact (stmts_rel_body _ _ _ R)|]. split; [intro x; exact (stmts_rel_count_le _ _ _ x R)|].
  split; [intro x; exact (stmts_rel_filter _ _ _ x R) | intro x; exact (stmts_rel_end_clean _ _ _ x R)].
Qed.
