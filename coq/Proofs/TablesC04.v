(* Translator obligations for the format! templates used by C04: tools/rs2v.py regenerates the named templates
   t_sb_<fn>_<k> (script_buffer.rs) and t_lw_<fn>_<k> (linker_writer.rs) from the Rust source on every run - named after
   the enclosing function and the ordinal of the template inside it, so that an edit elsewhere in the file leaves them
   alone; the lemmas below tie the rendering of the script AST (Model/Script.v) to those templates and pin their format
   specs.  A change of one of these format strings in the Rust breaks the lemma the next time a check runs. *)
From Slinky Require Import Model.Types Model.Generated Model.Style Model.Script.
Local Open Scope string_scope.

Lemma str_app_nil_r (s : string) : s ++ "" = s.
Proof. induction s as [|c s IH]; simpl; [reflexivity | rewrite IH; reflexivity]. Qed.

Lemma str_app_assoc (x y z : string) : (x ++ y) ++ z = x ++ y ++ z.
Proof. induction x as [|c x IH]; simpl; [reflexivity | rewrite IH; reflexivity]. Qed.

Lemma lw_romadd ind name :
  render_stmt ind (SRomAdd ("." ++ name)) = [indent_str ind ++ fmt t_lw_add_segment_2 [name]].
Proof. reflexivity. Qed.

Lemma lw_header_alloc name addr rom sub :
  render_header ("." ++ name) addr (Some rom) false sub =
  fmt t_lw_write_segment_start_0 [name; ""] ++
  match addr with Some e => " " ++ render_expr e | None => "" end ++
  fmt t_lw_write_segment_start_5 [rom] ++
  match sub with Some n => fmt t_lw_write_segment_start_6 [dec_of_N n] | None => "" end.
Proof.
  unfold render_header; unfold_tpl_lw; cbn [fmt].
  destruct addr, sub; cbn; repeat rewrite str_app_nil_r; repeat rewrite str_app_assoc; cbn; repeat rewrite str_app_assoc; reflexivity.
Qed.

Lemma lw_addr name : render_expr (EAddr ("." ++ name)) = fmt t_lw_add_segment_1 [name].
Proof. reflexivity. Qed.

Lemma lw_absolute a b : render_expr (EAbsSub a b) = fmt t_lw_write_sym_end_size_0 [a; b].
Proof. reflexivity. Qed.

Lemma lw_class_size a b : render_expr (ESub a b) = fmt t_lw_end_sections_0 [a; b].
Proof. unfold_tpl_lw; cbn [fmt render_expr]. rewrite str_app_nil_r. reflexivity. Qed.

Lemma sb_max ind sym other :
  render_stmt ind (SMaxSelf sym other) = [indent_str ind ++ fmt t_sb_write_symbol_max_self_0 [sym; sym; other]].
Proof. reflexivity. Qed.

Lemma lw_fill ind n : render_stmt ind (SFill n) = [indent_str ind ++ fmt t_lw_write_segment_0 [hex8_of_N n]].
Proof. reflexivity. Qed.

Lemma lw_dot_set ind v :
  render_stmt ind (SAssign false false false "." (EHex8 v)) = [indent_str ind ++ fmt t_lw_add_single_segment_1 [hex8_of_N v]].
Proof. reflexivity. Qed.

Lemma lw_version_comment ind :
  render_stmt ind (SComment version_comment_text) =
  [indent_str ind ++ fmt t_lw_new_0 [dec_of_N version_major; dec_of_N version_minor; dec_of_N version_patch]].
Proof. reflexivity. Qed.

Lemma lw_hex8 v : render_expr (EHex8 v) = fmt t_lw_add_segment_0 [hex8_of_N v].
Proof. unfold_tpl_lw; cbn [fmt render_expr]. rewrite str_app_nil_r. reflexivity. Qed.

Lemma lw_fill_single ind n : render_stmt ind (SFill n) = [indent_str ind ++ fmt t_lw_write_single_segment_2 [hex8_of_N n]].
Proof. reflexivity. Qed.

(* the format specs of the templates used above ({} = Display, {:X} = upper-case hex, {:08X} = eight digits) *)
Lemma specs_C04 :
  t_sb_write_symbol_max_self_0_spec = [""; ""; ""] /\
  t_lw_new_0_spec = [""; ""; ""] /\
  t_lw_end_sections_0_spec = [""; ""] /\
  t_lw_add_segment_0_spec = [":08X"] /\
  t_lw_add_segment_1_spec = [""] /\
  t_lw_add_segment_2_spec = [""] /\
  t_lw_add_single_segment_1_spec = [":08X"] /\
  t_lw_write_sym_end_size_0_spec = [""; ""] /\
  t_lw_write_segment_start_0_spec = [""; ""] /\
  t_lw_write_segment_start_5_spec = [""] /\
  t_lw_write_segment_start_6_spec = [""] /\
  t_lw_write_segment_0_spec = [":08X"] /\
  t_lw_write_single_segment_2_spec = [":08X"].
Proof. repeat split; reflexivity. Qed.
