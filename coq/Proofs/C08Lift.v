(* C08Lift - proofs: the restating and shielding lemmas of Proofs/C08.v lifted to whole serial documents
   (parse) and to the outputs (Model/Writer.v, Model/Exports.v, Model/Dump.v).
   1. editing one segment / the settings of a serial document and what parse makes of it;
   2. restating, per option (generic lemma + instances), and the inductive [restated];
   3. the outputs are functions of the parsed document;
   4. the generators and exports read only the fifteen non-overridable settings (same_core);
   5. shielding at document and output level. *)
From Slinky Require Import Model.Types Model.Generated Model.Parse Model.Runtime Model.Style Model.Script
                           Model.Writer Model.Exports Model.Dump.
From Slinky Require Import Spec.C08 Spec.C08Lift Proofs.C08.
From Coq Require Import Bool.

(* ====================================================================== *)
(* 1. lists and the document parser                                        *)
(* ====================================================================== *)

Lemma forallb_replace_nth {A} (f : A -> bool) x : forall i l,
  forallb f l = true -> f x = true -> forallb f (replace_nth i l x) = true.
Proof.
  intros i l. revert i. induction l as [|y r IH]; intros i H Hx; [reflexivity|].
  cbn [forallb] in H. apply andb_true_iff in H. destruct H as [Hy Hr].
  destruct i as [|j]; cbn [replace_nth forallb].
  - rewrite Hx, Hr. reflexivity.
  - rewrite Hy, (IH j Hr Hx). reflexivity.
Qed.

Lemma forallb_nth_error {A} (f : A -> bool) : forall l i x,
  forallb f l = true -> nth_error l i = Some x -> f x = true.
Proof.
  induction l as [|y r IH]; intros i x H E; [destruct i; discriminate|].
  cbn [forallb] in H. apply andb_true_iff in H. destruct H as [Hy Hr].
  destruct i as [|j]; cbn [nth_error] in E; [injection E as E; subst; exact Hy | exact (IH j x Hr E)].
Qed.

Lemma map_res_replace_nth {A B} (f : A -> res B) x y : forall l i,
  nth_error l i = Some y -> f x = f y -> map_res f (replace_nth i l x) = map_res f l.
Proof.
  induction l as [|z r IH]; intros i E Hf; [destruct i; discriminate|].
  destruct i as [|j]; cbn [nth_error] in E; cbn [replace_nth map_res].
  - injection E as E. subst z. rewrite Hf. reflexivity.
  - rewrite (IH j E Hf). reflexivity.
Qed.

Lemma map_res_nth_error {A B} (f : A -> res B) : forall l l' i x,
  map_res f l = Ok l' -> nth_error l i = Some x -> exists y, nth_error l' i = Some y /\ f x = Ok y.
Proof.
  induction l as [|z r IH]; intros l' i x H E; [destruct i; discriminate|].
  cbn [map_res] in H. apply bind_ok in H. destruct H as [y [Ey H]].
  apply bind_ok in H. destruct H as [ys [Eys H]]. injection H as H. subst l'.
  destruct i as [|j]; cbn [nth_error] in *.
  - injection E as E. subst z. exists y. auto.
  - exact (IH ys j x Eys E).
Qed.

Lemma replace_nth_empty_test {A C} (a b : C) (x : A) i l :
  match replace_nth i l x with [] => a | _ :: _ => b end = match l with [] => a | _ :: _ => b end.
Proof. destruct l, i; reflexivity. Qed.

(* the settings a serial document is parsed under *)
Definition sd_settings (sd : document_serial) : res settings :=
  do sto <- get_non_null_no_default (ds_settings sd) "settings";
  match sto with None => Ok default_settings | Some s => parse_settings s end.

(* parse, seen from its result *)
Lemma parse_inv sd d : parse sd = Ok d ->
  serde_ok sd = true /\
  exists sclasses segments,
    sd_settings sd = Ok (doc_settings d) /\
    get_non_null (ds_vram_classes sd) "vram_classes" [] = Ok sclasses /\
    map_res parse_class sclasses = Ok (doc_vram_classes d) /\
    map_res (parse_segment (doc_settings d)) (match ds_segments sd with Some l => l | None => [] end) = Ok segments /\
    doc_segments d = map (class_pass_down (doc_vram_classes d)) segments.
Proof.
  unfold parse. destruct (serde_ok sd); [|discriminate]. intro H. split; [reflexivity|].
  unfold unserialize_document in H. unfold sd_settings.
  apply bind_ok in H. destruct H as [sto [Esto H]]. rewrite Esto. cbn [bind].
  apply bind_ok in H. destruct H as [st [Est H]].
  apply bind_ok in H. destruct H as [u [_ H]].
  apply bind_ok in H. destruct H as [scl [Escl H]].
  apply bind_ok in H. destruct H as [classes [Ecl H]].
  apply bind_ok in H. destruct H as [segments [Es H]].
  repeat (apply bind_ok in H; destruct H as [? [_ H]]).
  injection H as H. subst d. cbn [doc_settings doc_vram_classes doc_segments].
  exists scl, segments. auto.
Qed.

Lemma parse_settings_of sd d : parse sd = Ok d -> sd_settings sd = Ok (doc_settings d).
Proof. intro H. destruct (parse_inv _ _ H) as [_ [scl [segs [E _]]]]. exact E. Qed.

Lemma parse_serde_ok sd d : parse sd = Ok d -> serde_ok sd = true.
Proof. intro H. exact (proj1 (parse_inv _ _ H)). Qed.

(* a segment of the parsed document is the parse of the serial segment at the same position, after the
   keep_sections of its class were passed down *)
Lemma doc_segment_parsed sd d i s seg :
  parse sd = Ok d -> sd_segment sd i = Some s -> doc_segment d i = Some seg ->
  exists seg0, parse_segment (doc_settings d) s = Ok seg0 /\ seg = class_pass_down (doc_vram_classes d) seg0.
Proof.
  intros H Es Ed. destruct (parse_inv _ _ H) as [_ [scl [segs [_ [_ [_ [Em Eseg]]]]]]].
  unfold sd_segment in Es. unfold doc_segment in Ed. rewrite Eseg in Ed.
  destruct (ds_segments sd) as [l|]; [|discriminate].
  destruct (map_res_nth_error _ _ _ _ _ Em Es) as [seg0 [En Ep]].
  rewrite nth_error_map, En in Ed. cbn [option_map] in Ed. injection Ed as Ed. exists seg0. auto.
Qed.

Lemma sd_segment_serde_ok sd i s : serde_ok sd = true -> sd_segment sd i = Some s -> serde_ok_segment s = true.
Proof.
  unfold serde_ok, sd_segment. intros H E. destruct (ds_segments sd) as [l|]; [|discriminate].
  repeat (apply andb_true_iff in H; destruct H as [H ?]).
  match goal with Hs : opt_ok _ (Some l) = true |- _ => cbn [opt_ok] in Hs; exact (forallb_nth_error _ _ _ _ Hs E) end.
Qed.

(* ---------- replacing one segment ---------- *)

Lemma serde_ok_with_segment sd i s' :
  serde_ok sd = true -> serde_ok_segment s' = true -> serde_ok (sd_with_segment sd i s') = true.
Proof.
  unfold serde_ok. intros H Hs.
  cbn [sd_with_segment ds_unknown ds_settings ds_vram_classes ds_segments ds_entry ds_symbol_assignments
       ds_required_symbols ds_asserts].
  repeat (apply andb_true_iff in H; destruct H as [H ?]).
  repeat (apply andb_true_iff; split); try assumption.
  destruct (ds_segments sd) as [l|]; [|assumption]. cbn [opt_ok] in *. apply forallb_replace_nth; assumption.
Qed.

Lemma unserialize_with_segment sd i s s' :
  sd_segment sd i = Some s ->
  (forall st, sd_settings sd = Ok st -> parse_segment st s' = parse_segment st s) ->
  unserialize_document (sd_with_segment sd i s') = unserialize_document sd.
Proof.
  unfold sd_segment, sd_settings, unserialize_document. intros Es Hp.
  cbn [sd_with_segment ds_unknown ds_settings ds_vram_classes ds_segments ds_entry ds_symbol_assignments
       ds_required_symbols ds_asserts].
  destruct (get_non_null_no_default (ds_settings sd) "settings") as [sto|e]; [|reflexivity].
  cbn [bind] in *.
  destruct (match sto with Some s0 => parse_settings s0 | None => Ok default_settings end) as [st|e];
    [|reflexivity].
  cbn [bind]. specialize (Hp st eq_refl).
  destruct (ds_segments sd) as [l|]; [|discriminate].
  rewrite replace_nth_empty_test, (map_res_replace_nth _ _ _ _ _ Es Hp). reflexivity.
Qed.

(* generic lemma of the segment level: a replacement segment that serde accepts and that parses like the
   original under the settings of the document gives the same parsed document *)
Lemma parse_with_segment sd d i s s' :
  parse sd = Ok d -> sd_segment sd i = Some s -> serde_ok_segment s' = true ->
  parse_segment (doc_settings d) s' = parse_segment (doc_settings d) s ->
  parse (sd_with_segment sd i s') = Ok d.
Proof.
  intros H Es Hs Hp. pose proof (parse_serde_ok _ _ H) as Hok. pose proof (parse_settings_of _ _ H) as Est.
  unfold parse in *. rewrite (serde_ok_with_segment _ _ _ Hok Hs). rewrite Hok in H.
  rewrite (unserialize_with_segment sd i s s' Es); [exact H|].
  intros st E. rewrite Est in E. injection E as E. subst st. exact Hp.
Qed.

(* ---------- replacing the settings ---------- *)

(* generic lemma of the global level *)
Lemma parse_with_settings sd gs gs' :
  ds_settings sd = Value gs -> serde_ok_settings gs' = serde_ok_settings gs ->
  parse_settings gs' = parse_settings gs ->
  parse (sd_with_settings sd (Value gs')) = parse sd.
Proof.
  intros E Hs Hp. unfold parse, serde_ok, unserialize_document.
  cbn [sd_with_settings ds_unknown ds_settings ds_vram_classes ds_segments ds_entry ds_symbol_assignments
       ds_required_symbols ds_asserts].
  rewrite E. cbn [an_ok get_non_null_no_default bind]. rewrite Hs, Hp. reflexivity.
Qed.

Lemma parse_with_empty_mapping sd :
  ds_settings sd = Absent -> parse (sd_with_settings sd (Value all_absent_settings)) = parse sd.
Proof.
  intro E. unfold parse, serde_ok, unserialize_document.
  cbn [sd_with_settings ds_unknown ds_settings ds_vram_classes ds_segments ds_entry ds_symbol_assignments
       ds_required_symbols ds_asserts].
  rewrite E. cbn [an_ok get_non_null_no_default bind].
  destruct defaults_all as [Ea Ed]. rewrite Ea, Ed. reflexivity.
Qed.

(* ====================================================================== *)
(* 2. restating                                                            *)
(* ====================================================================== *)

(* ---------- class_pass_down keeps the twelve options ---------- *)

Ltac cpd := intros; unfold class_pass_down, pass_down_segment;
  repeat match goal with |- context [match ?x with _ => _ end] => destruct x end; reflexivity.

Lemma cpd_alloc_sections c s : alloc_sections (class_pass_down c s) = alloc_sections s. Proof. cpd. Qed.
Lemma cpd_noload_sections c s : noload_sections (class_pass_down c s) = noload_sections s. Proof. cpd. Qed.
Lemma cpd_subalign c s : subalign (class_pass_down c s) = subalign s. Proof. cpd. Qed.
Lemma cpd_segment_start_align c s : segment_start_align (class_pass_down c s) = segment_start_align s. Proof. cpd. Qed.
Lemma cpd_segment_end_align c s : segment_end_align (class_pass_down c s) = segment_end_align s. Proof. cpd. Qed.
Lemma cpd_section_start_align c s : section_start_align (class_pass_down c s) = section_start_align s. Proof. cpd. Qed.
Lemma cpd_section_end_align c s : section_end_align (class_pass_down c s) = section_end_align s. Proof. cpd. Qed.
Lemma cpd_sections_start_alignment c s : sections_start_alignment (class_pass_down c s) = sections_start_alignment s. Proof. cpd. Qed.
Lemma cpd_sections_end_alignment c s : sections_end_alignment (class_pass_down c s) = sections_end_alignment s. Proof. cpd. Qed.
Lemma cpd_wildcard_sections c s : wildcard_sections (class_pass_down c s) = wildcard_sections s. Proof. cpd. Qed.
Lemma cpd_fill_value c s : fill_value (class_pass_down c s) = fill_value s. Proof. cpd. Qed.
Lemma cpd_sections_subgroups c s : sections_subgroups (class_pass_down c s) = sections_subgroups s. Proof. cpd. Qed.

(* ---------- the mappings of the parsed settings have distinct keys ---------- *)

Lemma serde_ok_settings_of sd gs : serde_ok sd = true -> ds_settings sd = Value gs -> serde_ok_settings gs = true.
Proof.
  unfold serde_ok. intros H E. repeat (apply andb_true_iff in H; destruct H as [H ?]).
  match goal with Hs : an_ok serde_ok_settings _ = true |- _ => rewrite E in Hs; exact Hs end.
Qed.

Lemma sd_settings_cases sd st : sd_settings sd = Ok st ->
  (ds_settings sd = Absent /\ st = default_settings) \/
  (exists gs, ds_settings sd = Value gs /\ parse_settings gs = Ok st).
Proof.
  unfold sd_settings. destruct (ds_settings sd) as [| |gs]; cbn [get_non_null_no_default bind]; intro H.
  - left. injection H as H. auto.
  - discriminate.
  - right. exists gs. auto.
Qed.

Lemma nodup_sections_start_alignment sd d : parse sd = Ok d ->
  nodup_keys (st_sections_start_alignment (doc_settings d)) = true.
Proof.
  intro H. pose proof (parse_serde_ok _ _ H) as Hok.
  destruct (sd_settings_cases _ _ (parse_settings_of _ _ H)) as [[_ E] | [gs [E Ep]]].
  - rewrite E. reflexivity.
  - pose proof (serde_ok_settings_of _ _ Hok E) as Hs. pose proof (global_sections_start_alignment _ _ Ep) as F.
    unfold serde_ok_settings in Hs. repeat (apply andb_true_iff in Hs; destruct Hs as [Hs ?]).
    destruct (sts_sections_start_alignment gs); cbn in F; [injection F as F; rewrite F; reflexivity | discriminate |].
    injection F as F. rewrite F. assumption.
Qed.

Lemma nodup_sections_end_alignment sd d : parse sd = Ok d ->
  nodup_keys (st_sections_end_alignment (doc_settings d)) = true.
Proof.
  intro H. pose proof (parse_serde_ok _ _ H) as Hok.
  destruct (sd_settings_cases _ _ (parse_settings_of _ _ H)) as [[_ E] | [gs [E Ep]]].
  - rewrite E. reflexivity.
  - pose proof (serde_ok_settings_of _ _ Hok E) as Hs. pose proof (global_sections_end_alignment _ _ Ep) as F.
    unfold serde_ok_settings in Hs. repeat (apply andb_true_iff in Hs; destruct Hs as [Hs ?]).
    destruct (sts_sections_end_alignment gs); cbn in F; [injection F as F; rewrite F; reflexivity | discriminate |].
    injection F as F. rewrite F. assumption.
Qed.

Lemma nodup_sections_subgroups sd d : parse sd = Ok d ->
  nodup_keys (st_sections_subgroups (doc_settings d)) = true.
Proof.
  intro H. pose proof (parse_serde_ok _ _ H) as Hok.
  destruct (sd_settings_cases _ _ (parse_settings_of _ _ H)) as [[_ E] | [gs [E Ep]]].
  - rewrite E. reflexivity.
  - pose proof (serde_ok_settings_of _ _ Hok E) as Hs. pose proof (global_sections_subgroups _ _ Ep) as F.
    unfold serde_ok_settings in Hs. repeat (apply andb_true_iff in Hs; destruct Hs as [Hs ?]).
    destruct (sts_sections_subgroups gs); cbn in F; [injection F as F; rewrite F; reflexivity | discriminate |].
    injection F as F. rewrite F. assumption.
Qed.

(* ---------- serde accepts the restated segment / settings ---------- *)

Ltac serde_seg := intros s v H; destruct s; unfold serde_ok_segment in *; cbn in *; exact H.

Lemma serde_seg_alloc_sections : forall s v, serde_ok_segment s = true -> serde_ok_segment (ss_with_alloc_sections s v) = true. Proof. serde_seg. Qed.
Lemma serde_seg_noload_sections : forall s v, serde_ok_segment s = true -> serde_ok_segment (ss_with_noload_sections s v) = true. Proof. serde_seg. Qed.
Lemma serde_seg_subalign : forall s v, serde_ok_segment s = true -> serde_ok_segment (ss_with_subalign s v) = true. Proof. serde_seg. Qed.
Lemma serde_seg_segment_start_align : forall s v, serde_ok_segment s = true -> serde_ok_segment (ss_with_segment_start_align s v) = true. Proof. serde_seg. Qed.
Lemma serde_seg_segment_end_align : forall s v, serde_ok_segment s = true -> serde_ok_segment (ss_with_segment_end_align s v) = true. Proof. serde_seg. Qed.
Lemma serde_seg_section_start_align : forall s v, serde_ok_segment s = true -> serde_ok_segment (ss_with_section_start_align s v) = true. Proof. serde_seg. Qed.
Lemma serde_seg_section_end_align : forall s v, serde_ok_segment s = true -> serde_ok_segment (ss_with_section_end_align s v) = true. Proof. serde_seg. Qed.
Lemma serde_seg_wildcard_sections : forall s v, serde_ok_segment s = true -> serde_ok_segment (ss_with_wildcard_sections s v) = true. Proof. serde_seg. Qed.
Lemma serde_seg_fill_value : forall s v, serde_ok_segment s = true -> serde_ok_segment (ss_with_fill_value s v) = true. Proof. serde_seg. Qed.

Ltac serde_seg_map := intros s v H Hv; destruct s; unfold serde_ok_segment in *; cbn in *;
  repeat (apply andb_true_iff in H; destruct H as [H ?]);
  repeat (apply andb_true_iff; split); assumption.

Lemma serde_seg_sections_start_alignment : forall s v, serde_ok_segment s = true -> nodup_keys v = true ->
  serde_ok_segment (ss_with_sections_start_alignment s (Value v)) = true. Proof. serde_seg_map. Qed.
Lemma serde_seg_sections_end_alignment : forall s v, serde_ok_segment s = true -> nodup_keys v = true ->
  serde_ok_segment (ss_with_sections_end_alignment s (Value v)) = true. Proof. serde_seg_map. Qed.
Lemma serde_seg_sections_subgroups : forall s v, serde_ok_segment s = true -> nodup_keys v = true ->
  serde_ok_segment (ss_with_sections_subgroups s (Value v)) = true. Proof. serde_seg_map. Qed.

(* ---------- segment level, per option ---------- *)

Lemma restate_segment_document_alloc_sections : forall sd d i s seg,
  parse sd = Ok d -> sd_segment sd i = Some s -> doc_segment d i = Some seg -> ss_alloc_sections s = Absent ->
  parse (sd_with_segment sd i (ss_with_alloc_sections s (explicit_plain (alloc_sections seg)))) = Ok d.
Proof.
  intros sd d i s seg H Es Ed E.
  destruct (doc_segment_parsed _ _ _ _ _ H Es Ed) as [seg0 [Ep Eseg]].
  subst seg. rewrite cpd_alloc_sections.
  apply (parse_with_segment sd d i s); [exact H | exact Es | | ].
  - apply serde_seg_alloc_sections. exact (sd_segment_serde_ok _ _ _ (parse_serde_ok _ _ H) Es).
  - rewrite (restate_segment_alloc_sections _ _ _ Ep E). symmetry. exact Ep.
Qed.

Lemma restate_segment_document_noload_sections : forall sd d i s seg,
  parse sd = Ok d -> sd_segment sd i = Some s -> doc_segment d i = Some seg -> ss_noload_sections s = Absent ->
  parse (sd_with_segment sd i (ss_with_noload_sections s (explicit_plain (noload_sections seg)))) = Ok d.
Proof.
  intros sd d i s seg H Es Ed E.
  destruct (doc_segment_parsed _ _ _ _ _ H Es Ed) as [seg0 [Ep Eseg]].
  subst seg. rewrite cpd_noload_sections.
  apply (parse_with_segment sd d i s); [exact H | exact Es | | ].
  - apply serde_seg_noload_sections. exact (sd_segment_serde_ok _ _ _ (parse_serde_ok _ _ H) Es).
  - rewrite (restate_segment_noload_sections _ _ _ Ep E). symmetry. exact Ep.
Qed.

Lemma restate_segment_document_subalign : forall sd d i s seg,
  parse sd = Ok d -> sd_segment sd i = Some s -> doc_segment d i = Some seg -> ss_subalign s = Absent ->
  parse (sd_with_segment sd i (ss_with_subalign s (explicit_nullable (subalign seg)))) = Ok d.
Proof.
  intros sd d i s seg H Es Ed E.
  destruct (doc_segment_parsed _ _ _ _ _ H Es Ed) as [seg0 [Ep Eseg]].
  subst seg. rewrite cpd_subalign.
  apply (parse_with_segment sd d i s); [exact H | exact Es | | ].
  - apply serde_seg_subalign. exact (sd_segment_serde_ok _ _ _ (parse_serde_ok _ _ H) Es).
  - rewrite (restate_segment_subalign _ _ _ Ep E). symmetry. exact Ep.
Qed.

Lemma restate_segment_document_segment_start_align : forall sd d i s seg,
  parse sd = Ok d -> sd_segment sd i = Some s -> doc_segment d i = Some seg -> ss_segment_start_align s = Absent ->
  parse (sd_with_segment sd i (ss_with_segment_start_align s (explicit_nullable (segment_start_align seg)))) = Ok d.
Proof.
  intros sd d i s seg H Es Ed E.
  destruct (doc_segment_parsed _ _ _ _ _ H Es Ed) as [seg0 [Ep Eseg]].
  subst seg. rewrite cpd_segment_start_align.
  apply (parse_with_segment sd d i s); [exact H | exact Es | | ].
  - apply serde_seg_segment_start_align. exact (sd_segment_serde_ok _ _ _ (parse_serde_ok _ _ H) Es).
  - rewrite (restate_segment_segment_start_align _ _ _ Ep E). symmetry. exact Ep.
Qed.

Lemma restate_segment_document_segment_end_align : forall sd d i s seg,
  parse sd = Ok d -> sd_segment sd i = Some s -> doc_segment d i = Some seg -> ss_segment_end_align s = Absent ->
  parse (sd_with_segment sd i (ss_with_segment_end_align s (explicit_nullable (segment_end_align seg)))) = Ok d.
Proof.
  intros sd d i s seg H Es Ed E.
  destruct (doc_segment_parsed _ _ _ _ _ H Es Ed) as [seg0 [Ep Eseg]].
  subst seg. rewrite cpd_segment_end_align.
  apply (parse_with_segment sd d i s); [exact H | exact Es | | ].
  - apply serde_seg_segment_end_align. exact (sd_segment_serde_ok _ _ _ (parse_serde_ok _ _ H) Es).
  - rewrite (restate_segment_segment_end_align _ _ _ Ep E). symmetry. exact Ep.
Qed.

Lemma restate_segment_document_section_start_align : forall sd d i s seg,
  parse sd = Ok d -> sd_segment sd i = Some s -> doc_segment d i = Some seg -> ss_section_start_align s = Absent ->
  parse (sd_with_segment sd i (ss_with_section_start_align s (explicit_nullable (section_start_align seg)))) = Ok d.
Proof.
  intros sd d i s seg H Es Ed E.
  destruct (doc_segment_parsed _ _ _ _ _ H Es Ed) as [seg0 [Ep Eseg]].
  subst seg. rewrite cpd_section_start_align.
  apply (parse_with_segment sd d i s); [exact H | exact Es | | ].
  - apply serde_seg_section_start_align. exact (sd_segment_serde_ok _ _ _ (parse_serde_ok _ _ H) Es).
  - rewrite (restate_segment_section_start_align _ _ _ Ep E). symmetry. exact Ep.
Qed.

Lemma restate_segment_document_section_end_align : forall sd d i s seg,
  parse sd = Ok d -> sd_segment sd i = Some s -> doc_segment d i = Some seg -> ss_section_end_align s = Absent ->
  parse (sd_with_segment sd i (ss_with_section_end_align s (explicit_nullable (section_end_align seg)))) = Ok d.
Proof.
  intros sd d i s seg H Es Ed E.
  destruct (doc_segment_parsed _ _ _ _ _ H Es Ed) as [seg0 [Ep Eseg]].
  subst seg. rewrite cpd_section_end_align.
  apply (parse_with_segment sd d i s); [exact H | exact Es | | ].
  - apply serde_seg_section_end_align. exact (sd_segment_serde_ok _ _ _ (parse_serde_ok _ _ H) Es).
  - rewrite (restate_segment_section_end_align _ _ _ Ep E). symmetry. exact Ep.
Qed.

Lemma restate_segment_document_sections_start_alignment : forall sd d i s seg,
  parse sd = Ok d -> sd_segment sd i = Some s -> doc_segment d i = Some seg -> ss_sections_start_alignment s = Absent ->
  parse (sd_with_segment sd i (ss_with_sections_start_alignment s (explicit_plain (sections_start_alignment seg)))) = Ok d.
Proof.
  intros sd d i s seg H Es Ed E.
  destruct (doc_segment_parsed _ _ _ _ _ H Es Ed) as [seg0 [Ep Eseg]].
  subst seg. rewrite cpd_sections_start_alignment.
  apply (parse_with_segment sd d i s); [exact H | exact Es | | ].
  - unfold explicit_plain. apply serde_seg_sections_start_alignment; [exact (sd_segment_serde_ok _ _ _ (parse_serde_ok _ _ H) Es)|].
    pose proof (segment_sections_start_alignment _ _ _ Ep) as F. rewrite E in F. cbn in F. injection F as F. rewrite F.
    exact (nodup_sections_start_alignment _ _ H).
  - rewrite (restate_segment_sections_start_alignment _ _ _ Ep E). symmetry. exact Ep.
Qed.

Lemma restate_segment_document_sections_end_alignment : forall sd d i s seg,
  parse sd = Ok d -> sd_segment sd i = Some s -> doc_segment d i = Some seg -> ss_sections_end_alignment s = Absent ->
  parse (sd_with_segment sd i (ss_with_sections_end_alignment s (explicit_plain (sections_end_alignment seg)))) = Ok d.
Proof.
  intros sd d i s seg H Es Ed E.
  destruct (doc_segment_parsed _ _ _ _ _ H Es Ed) as [seg0 [Ep Eseg]].
  subst seg. rewrite cpd_sections_end_alignment.
  apply (parse_with_segment sd d i s); [exact H | exact Es | | ].
  - unfold explicit_plain. apply serde_seg_sections_end_alignment; [exact (sd_segment_serde_ok _ _ _ (parse_serde_ok _ _ H) Es)|].
    pose proof (segment_sections_end_alignment _ _ _ Ep) as F. rewrite E in F. cbn in F. injection F as F. rewrite F.
    exact (nodup_sections_end_alignment _ _ H).
  - rewrite (restate_segment_sections_end_alignment _ _ _ Ep E). symmetry. exact Ep.
Qed.

Lemma restate_segment_document_wildcard_sections : forall sd d i s seg,
  parse sd = Ok d -> sd_segment sd i = Some s -> doc_segment d i = Some seg -> ss_wildcard_sections s = Absent ->
  parse (sd_with_segment sd i (ss_with_wildcard_sections s (explicit_plain (wildcard_sections seg)))) = Ok d.
Proof.
  intros sd d i s seg H Es Ed E.
  destruct (doc_segment_parsed _ _ _ _ _ H Es Ed) as [seg0 [Ep Eseg]].
  subst seg. rewrite cpd_wildcard_sections.
  apply (parse_with_segment sd d i s); [exact H | exact Es | | ].
  - apply serde_seg_wildcard_sections. exact (sd_segment_serde_ok _ _ _ (parse_serde_ok _ _ H) Es).
  - rewrite (restate_segment_wildcard_sections _ _ _ Ep E). symmetry. exact Ep.
Qed.

Lemma restate_segment_document_fill_value : forall sd d i s seg,
  parse sd = Ok d -> sd_segment sd i = Some s -> doc_segment d i = Some seg -> ss_fill_value s = Absent ->
  parse (sd_with_segment sd i (ss_with_fill_value s (explicit_nullable (fill_value seg)))) = Ok d.
Proof.
  intros sd d i s seg H Es Ed E.
  destruct (doc_segment_parsed _ _ _ _ _ H Es Ed) as [seg0 [Ep Eseg]].
  subst seg. rewrite cpd_fill_value.
  apply (parse_with_segment sd d i s); [exact H | exact Es | | ].
  - apply serde_seg_fill_value. exact (sd_segment_serde_ok _ _ _ (parse_serde_ok _ _ H) Es).
  - rewrite (restate_segment_fill_value _ _ _ Ep E). symmetry. exact Ep.
Qed.

Lemma restate_segment_document_sections_subgroups : forall sd d i s seg,
  parse sd = Ok d -> sd_segment sd i = Some s -> doc_segment d i = Some seg -> ss_sections_subgroups s = Absent ->
  parse (sd_with_segment sd i (ss_with_sections_subgroups s (explicit_plain (sections_subgroups seg)))) = Ok d.
Proof.
  intros sd d i s seg H Es Ed E.
  destruct (doc_segment_parsed _ _ _ _ _ H Es Ed) as [seg0 [Ep Eseg]].
  subst seg. rewrite cpd_sections_subgroups.
  apply (parse_with_segment sd d i s); [exact H | exact Es | | ].
  - unfold explicit_plain. apply serde_seg_sections_subgroups; [exact (sd_segment_serde_ok _ _ _ (parse_serde_ok _ _ H) Es)|].
    pose proof (segment_sections_subgroups _ _ _ Ep) as F. rewrite E in F. cbn in F. injection F as F. rewrite F.
    exact (nodup_sections_subgroups _ _ H).
  - rewrite (restate_segment_sections_subgroups _ _ _ Ep E). symmetry. exact Ep.
Qed.


(* ---------- global level, per option ---------- *)

Lemma restate_global_document_alloc_sections : forall sd gs, ds_settings sd = Value gs -> sts_alloc_sections gs = Absent ->
  parse (sd_with_settings sd (Value (sts_with_alloc_sections gs (explicit_plain doc_default_alloc_sections)))) = parse sd.
Proof.
  intros sd gs E Ea. apply (parse_with_settings sd gs); [exact E | | apply restate_global_alloc_sections; exact Ea].
  destruct gs; cbn in Ea; subst; reflexivity.
Qed.

Lemma restate_global_document_noload_sections : forall sd gs, ds_settings sd = Value gs -> sts_noload_sections gs = Absent ->
  parse (sd_with_settings sd (Value (sts_with_noload_sections gs (explicit_plain doc_default_noload_sections)))) = parse sd.
Proof.
  intros sd gs E Ea. apply (parse_with_settings sd gs); [exact E | | apply restate_global_noload_sections; exact Ea].
  destruct gs; cbn in Ea; subst; reflexivity.
Qed.

Lemma restate_global_document_subalign : forall sd gs, ds_settings sd = Value gs -> sts_subalign gs = Absent ->
  parse (sd_with_settings sd (Value (sts_with_subalign gs (explicit_nullable doc_default_subalign)))) = parse sd.
Proof.
  intros sd gs E Ea. apply (parse_with_settings sd gs); [exact E | | apply restate_global_subalign; exact Ea].
  destruct gs; cbn in Ea; subst; reflexivity.
Qed.

Lemma restate_global_document_segment_start_align : forall sd gs, ds_settings sd = Value gs -> sts_segment_start_align gs = Absent ->
  parse (sd_with_settings sd (Value (sts_with_segment_start_align gs (explicit_nullable doc_default_segment_start_align)))) = parse sd.
Proof.
  intros sd gs E Ea. apply (parse_with_settings sd gs); [exact E | | apply restate_global_segment_start_align; exact Ea].
  destruct gs; cbn in Ea; subst; reflexivity.
Qed.

Lemma restate_global_document_segment_end_align : forall sd gs, ds_settings sd = Value gs -> sts_segment_end_align gs = Absent ->
  parse (sd_with_settings sd (Value (sts_with_segment_end_align gs (explicit_nullable doc_default_segment_end_align)))) = parse sd.
Proof.
  intros sd gs E Ea. apply (parse_with_settings sd gs); [exact E | | apply restate_global_segment_end_align; exact Ea].
  destruct gs; cbn in Ea; subst; reflexivity.
Qed.

Lemma restate_global_document_section_start_align : forall sd gs, ds_settings sd = Value gs -> sts_section_start_align gs = Absent ->
  parse (sd_with_settings sd (Value (sts_with_section_start_align gs (explicit_nullable doc_default_section_start_align)))) = parse sd.
Proof.
  intros sd gs E Ea. apply (parse_with_settings sd gs); [exact E | | apply restate_global_section_start_align; exact Ea].
  destruct gs; cbn in Ea; subst; reflexivity.
Qed.

Lemma restate_global_document_section_end_align : forall sd gs, ds_settings sd = Value gs -> sts_section_end_align gs = Absent ->
  parse (sd_with_settings sd (Value (sts_with_section_end_align gs (explicit_nullable doc_default_section_end_align)))) = parse sd.
Proof.
  intros sd gs E Ea. apply (parse_with_settings sd gs); [exact E | | apply restate_global_section_end_align; exact Ea].
  destruct gs; cbn in Ea; subst; reflexivity.
Qed.

Lemma restate_global_document_sections_start_alignment : forall sd gs, ds_settings sd = Value gs -> sts_sections_start_alignment gs = Absent ->
  parse (sd_with_settings sd (Value (sts_with_sections_start_alignment gs (explicit_plain doc_default_sections_start_alignment)))) = parse sd.
Proof.
  intros sd gs E Ea. apply (parse_with_settings sd gs); [exact E | | apply restate_global_sections_start_alignment; exact Ea].
  destruct gs; cbn in Ea; subst; reflexivity.
Qed.

Lemma restate_global_document_sections_end_alignment : forall sd gs, ds_settings sd = Value gs -> sts_sections_end_alignment gs = Absent ->
  parse (sd_with_settings sd (Value (sts_with_sections_end_alignment gs (explicit_plain doc_default_sections_end_alignment)))) = parse sd.
Proof.
  intros sd gs E Ea. apply (parse_with_settings sd gs); [exact E | | apply restate_global_sections_end_alignment; exact Ea].
  destruct gs; cbn in Ea; subst; reflexivity.
Qed.

Lemma restate_global_document_wildcard_sections : forall sd gs, ds_settings sd = Value gs -> sts_wildcard_sections gs = Absent ->
  parse (sd_with_settings sd (Value (sts_with_wildcard_sections gs (explicit_plain doc_default_wildcard_sections)))) = parse sd.
Proof.
  intros sd gs E Ea. apply (parse_with_settings sd gs); [exact E | | apply restate_global_wildcard_sections; exact Ea].
  destruct gs; cbn in Ea; subst; reflexivity.
Qed.

Lemma restate_global_document_fill_value : forall sd gs, ds_settings sd = Value gs -> sts_fill_value gs = Absent ->
  parse (sd_with_settings sd (Value (sts_with_fill_value gs (explicit_nullable doc_default_fill_value)))) = parse sd.
Proof.
  intros sd gs E Ea. apply (parse_with_settings sd gs); [exact E | | apply restate_global_fill_value; exact Ea].
  destruct gs; cbn in Ea; subst; reflexivity.
Qed.

Lemma restate_global_document_sections_subgroups : forall sd gs, ds_settings sd = Value gs -> sts_sections_subgroups gs = Absent ->
  parse (sd_with_settings sd (Value (sts_with_sections_subgroups gs (explicit_plain doc_default_sections_subgroups)))) = parse sd.
Proof.
  intros sd gs E Ea. apply (parse_with_settings sd gs); [exact E | | apply restate_global_sections_subgroups; exact Ea].
  destruct gs; cbn in Ea; subst; reflexivity.
Qed.


(* ---------- one step, any number of steps ---------- *)

Lemma restated_parse sd d sd' : parse sd = Ok d -> restated sd d sd' -> parse sd' = Ok d.
Proof.
  intros H R. destruct R.
  - eapply restate_segment_document_alloc_sections; eassumption.
  - eapply restate_segment_document_noload_sections; eassumption.
  - eapply restate_segment_document_subalign; eassumption.
  - eapply restate_segment_document_segment_start_align; eassumption.
  - eapply restate_segment_document_segment_end_align; eassumption.
  - eapply restate_segment_document_section_start_align; eassumption.
  - eapply restate_segment_document_section_end_align; eassumption.
  - eapply restate_segment_document_sections_start_alignment; eassumption.
  - eapply restate_segment_document_sections_end_alignment; eassumption.
  - eapply restate_segment_document_wildcard_sections; eassumption.
  - eapply restate_segment_document_fill_value; eassumption.
  - eapply restate_segment_document_sections_subgroups; eassumption.
  - rewrite restate_global_document_alloc_sections; assumption.
  - rewrite restate_global_document_noload_sections; assumption.
  - rewrite restate_global_document_subalign; assumption.
  - rewrite restate_global_document_segment_start_align; assumption.
  - rewrite restate_global_document_segment_end_align; assumption.
  - rewrite restate_global_document_section_start_align; assumption.
  - rewrite restate_global_document_section_end_align; assumption.
  - rewrite restate_global_document_sections_start_alignment; assumption.
  - rewrite restate_global_document_sections_end_alignment; assumption.
  - rewrite restate_global_document_wildcard_sections; assumption.
  - rewrite restate_global_document_fill_value; assumption.
  - rewrite restate_global_document_sections_subgroups; assumption.
  - rewrite parse_with_empty_mapping; assumption.
Qed.

Lemma restated_many_parse sd d sd' : parse sd = Ok d -> restated_many sd d sd' -> parse sd' = Ok d.
Proof. intros H R. induction R as [|sd1 sd2 R1 IH R2]; [exact H | exact (restated_parse _ _ _ IH R2)]. Qed.

(* ====================================================================== *)
(* 3. the outputs are functions of the parsed document                     *)
(* ====================================================================== *)

Lemma same_parse_cli sd sd' : parse sd' = parse sd -> same_cli sd sd'.
Proof. intros E a. unfold cli_run. rewrite E. reflexivity. Qed.

Lemma same_parse_run_case sd sd' : parse sd' = parse sd -> same_run_case sd sd'.
Proof. intros E rt partial. unfold run_case. rewrite E. reflexivity. Qed.

Lemma same_doc_outputs_refl d : same_doc_outputs d d.
Proof. intro rt. repeat split. Qed.

Lemma restate_outputs sd d sd' : parse sd = Ok d -> restated sd d sd' ->
  exists d', parse sd' = Ok d' /\ d' = d /\ same_doc_outputs d d' /\ same_cli sd sd' /\ same_run_case sd sd'.
Proof.
  intros H R. pose proof (restated_parse _ _ _ H R) as H'. exists d.
  split; [exact H'|]. split; [reflexivity|]. split; [apply same_doc_outputs_refl|].
  split; [apply same_parse_cli | apply same_parse_run_case]; congruence.
Qed.

Lemma restate_many_outputs sd d sd' : parse sd = Ok d -> restated_many sd d sd' ->
  exists d', parse sd' = Ok d' /\ d' = d /\ same_doc_outputs d d' /\ same_cli sd sd' /\ same_run_case sd sd'.
Proof.
  intros H R. pose proof (restated_many_parse _ _ _ H R) as H'. exists d.
  split; [exact H'|]. split; [reflexivity|]. split; [apply same_doc_outputs_refl|].
  split; [apply same_parse_cli | apply same_parse_run_case]; congruence.
Qed.

(* ====================================================================== *)
(* 4. the generators and the exports read only the core of the settings    *)
(* ====================================================================== *)

Lemma bind_cong {A B} (r r' : res A) (f g : A -> res B) :
  r = r' -> (forall a, f a = g a) -> bind r f = bind r' g.
Proof. intros E H. subst r'. destruct r as [a|e]; cbn [bind]; [apply H | reflexivity]. Qed.

Lemma fold_out_ext' {A} (f g : A -> wstate -> res out) :
  (forall x ws, f x ws = g x ws) -> forall l ws, fold_out f l ws = fold_out g l ws.
Proof.
  intros H l. induction l as [|x r IH]; intro ws; [reflexivity|]. cbn [fold_out].
  apply bind_cong; [apply H|]. intro o1. apply bind_cong; [apply IH | reflexivity].
Qed.

(* two settings with the same core become two constructor applications that differ in the twelve
   overridable fields only *)
Ltac core_destruct H :=
  match type of H with
  | same_core ?st ?st' =>
      destruct st, st'; unfold same_core in H;
      cbn [base_path linker_symbols_style hardcoded_gp_value d_path target_path symbols_header_path
           symbols_header_type symbols_header_as_array sections_allowlist sections_allowlist_extra
           sections_denylist discard_wildcard_section single_segment_mode partial_scripts_folder
           partial_build_segments_folder] in H;
      decompose [and] H; clear H; subst
  end.

Ltac core_cbn :=
  cbn [base_path linker_symbols_style hardcoded_gp_value d_path target_path symbols_header_path
       symbols_header_type symbols_header_as_array sections_allowlist sections_allowlist_extra
       sections_denylist discard_wildcard_section single_segment_mode partial_scripts_folder
       partial_build_segments_folder].

Section Core.
  Variables (rt : runtime) (cfg : wcfg) (classes : list vram_class).

  Lemma part_groups_core st st' seg sections : same_core st st' -> forall rest ws,
    part_groups rt st cfg seg sections rest ws = part_groups rt st' cfg seg sections rest ws.
  Proof.
    intro H. core_destruct H. induction rest as [|section rest IH]; intro ws; [reflexivity|].
    cbn [part_groups]. core_cbn. apply bind_cong; [reflexivity|]. intro o1.
    apply bind_cong; [apply IH | reflexivity].
  Qed.

  Lemma write_segment_core st st' seg sections noload ws : same_core st st' ->
    write_segment rt st cfg seg sections noload ws = write_segment rt st' cfg seg sections noload ws.
  Proof.
    intro H. unfold write_segment. apply bind_cong; [apply part_groups_core; exact H|]. intro o.
    core_destruct H. reflexivity.
  Qed.

  Lemma single_groups_core st st' seg sections noload : same_core st st' -> forall rest ws,
    single_groups rt st cfg seg sections noload rest ws = single_groups rt st' cfg seg sections noload rest ws.
  Proof.
    intro H. core_destruct H. induction rest as [|section rest IH]; intro ws; [reflexivity|].
    cbn [single_groups]. core_cbn. apply bind_cong; [reflexivity|]. intro o1.
    apply bind_cong; [apply IH | reflexivity].
  Qed.

  Lemma write_single_segment_core st st' seg sections noload ws : same_core st st' ->
    write_single_segment rt st cfg seg sections noload ws = write_single_segment rt st' cfg seg sections noload ws.
  Proof.
    intro H. unfold write_single_segment. apply bind_cong; [apply single_groups_core; exact H|]. intro o.
    core_destruct H. reflexivity.
  Qed.

  Lemma add_segment_core st st' seg ws : same_core st st' ->
    add_segment rt st cfg classes seg ws = add_segment rt st' cfg classes seg ws.
  Proof.
    intro H. unfold add_segment. destruct (negb (should_emit rt (sg_conds seg))); [reflexivity|].
    apply bind_cong; [core_destruct H; reflexivity|]. intro cls.
    apply bind_cong; [apply write_segment_core; exact H|]. intro o1.
    apply bind_cong; [apply write_segment_core; exact H|]. intro o2.
    core_destruct H. reflexivity.
  Qed.

  Lemma begin_sections_core st st' : same_core st st' -> begin_sections_body st = begin_sections_body st'.
  Proof. intro H. core_destruct H. reflexivity. Qed.

  Lemma end_sections_core st st' ws : same_core st st' ->
    end_sections_body st classes ws = end_sections_body st' classes ws.
  Proof. intro H. core_destruct H. reflexivity. Qed.

  Lemma add_single_segment_core st st' seg ws : same_core st st' ->
    add_single_segment rt st cfg classes seg ws = add_single_segment rt st' cfg classes seg ws.
  Proof.
    intro H. unfold add_single_segment.
    apply bind_cong; [apply write_single_segment_core; exact H|]. intro o1.
    apply bind_cong; [apply write_single_segment_core; exact H|]. intro o2.
    rewrite (end_sections_core _ _ (snd o2) H). core_destruct H. reflexivity.
  Qed.

  Lemma add_all_segments_core st st' segs ws : same_core st st' ->
    add_all_segments rt st cfg classes segs ws = add_all_segments rt st' cfg classes segs ws.
  Proof.
    intro H. unfold add_all_segments.
    assert (Em : single_segment_mode st = single_segment_mode st') by (core_destruct H; reflexivity).
    rewrite <- Em. destruct (single_segment_mode st).
    - destruct segs as [|seg [|]]; try reflexivity. apply add_single_segment_core. exact H.
    - apply bind_cong; [apply fold_out_ext'; intros; apply add_segment_core; exact H|]. intro o.
      rewrite (begin_sections_core _ _ H), (end_sections_core _ _ (snd o) H). reflexivity.
  Qed.
End Core.

Ltac doc_destruct H :=
  match type of H with
  | same_but_overridable ?d ?d' =>
      destruct d as [st cl segs en asg rq ats], d' as [st' cl' segs' en' asg' rq' ats'];
      unfold same_but_overridable in H;
      cbn [doc_settings doc_vram_classes doc_segments doc_entry doc_symbol_assignments doc_required_symbols
           doc_asserts] in H;
      destruct H as [H [? [? [? [? [? ?]]]]]]; subst cl' segs' en' asg' rq' ats'
  end.

Lemma gen_normal_core d d' rt : same_but_overridable d d' -> gen_normal d rt = gen_normal d' rt.
Proof.
  intro H. doc_destruct H. unfold gen_normal.
  cbn [doc_settings doc_vram_classes doc_segments].
  apply bind_cong; [apply add_all_segments_core; exact H | reflexivity].
Qed.

Lemma partial_segment_core d d' rt folder seg acc : same_but_overridable d d' ->
  partial_segment d rt folder seg acc = partial_segment d' rt folder seg acc.
Proof.
  intro H. doc_destruct H. unfold partial_segment. cbn [doc_settings doc_vram_classes].
  destruct (negb (should_emit rt (sg_conds seg))); [reflexivity|].
  apply bind_cong; [apply add_single_segment_core; exact H|]. intro sub.
  apply bind_cong; [apply add_segment_core; exact H | reflexivity].
Qed.

Lemma partial_segments_core d d' rt folder : same_but_overridable d d' -> forall segs acc,
  partial_segments d rt folder segs acc = partial_segments d' rt folder segs acc.
Proof.
  intro H. induction segs as [|s r IH]; intro acc; [reflexivity|]. cbn [partial_segments].
  apply bind_cong; [apply partial_segment_core; exact H|]. intro o1.
  apply bind_cong; [apply IH | reflexivity].
Qed.

Lemma gen_partial_core d d' rt : same_but_overridable d d' -> gen_partial d rt = gen_partial d' rt.
Proof.
  intro H. unfold gen_partial.
  assert (Es : doc_segments d = doc_segments d') by (destruct H as [_ [_ [E _]]]; exact E).
  assert (Ec : doc_vram_classes d = doc_vram_classes d') by (destruct H as [_ [E _]]; exact E).
  assert (Hc : same_core (doc_settings d) (doc_settings d')) by (destruct H as [E _]; exact E).
  assert (Ef : partial_build_segments_folder (doc_settings d) = partial_build_segments_folder (doc_settings d')).
  { destruct Hc as (_ & _ & _ & _ & _ & _ & _ & _ & _ & _ & _ & _ & _ & _ & E). exact E. }
  rewrite <- Ef, <- Es, <- Ec. destruct (partial_build_segments_folder (doc_settings d)) as [folder|]; [|reflexivity].
  apply bind_cong; [apply partial_segments_core; exact H|]. intro o.
  rewrite (begin_sections_core _ _ Hc), (end_sections_core (doc_vram_classes d) _ _ (fst (snd o)) Hc).
  doc_destruct H. reflexivity.
Qed.

Lemma header_text_core rt st st' w : same_core st st' -> header_text rt st w = header_text rt st' w.
Proof. intro H. core_destruct H. reflexivity. Qed.

Lemma deps_of_core rt st st' w : same_core st st' -> deps_of rt st w = deps_of rt st' w.
Proof. intro H. core_destruct H. reflexivity. Qed.

Lemma save_normal_core rt st st' w : same_core st st' ->
  save_other_files_normal rt st w = save_other_files_normal rt st' w.
Proof. intro H. unfold save_other_files_normal. rewrite (header_text_core rt _ _ w H). core_destruct H. reflexivity. Qed.

Lemma save_partial_core rt st st' p : same_core st st' ->
  save_other_files_partial rt st p = save_other_files_partial rt st' p.
Proof.
  intro H. unfold save_other_files_partial. rewrite (save_normal_core rt _ _ (po_main p) H).
  core_destruct H. reflexivity.
Qed.

Lemma export_partial_core rt st st' p path : same_core st st' ->
  export_script_partial rt st p path = export_script_partial rt st' p path.
Proof. intro H. core_destruct H. reflexivity. Qed.

(* the generators and the exports read only the core of the settings *)
Lemma outputs_read_only_the_core d d' : same_but_overridable d d' -> same_doc_outputs d d'.
Proof.
  intros H rt.
  assert (Hc : same_core (doc_settings d) (doc_settings d')) by (destruct H as [E _]; exact E).
  split; [apply gen_normal_core; exact H|]. split; [apply gen_partial_core; exact H|].
  split; [intro w; apply deps_of_core; exact Hc|]. split; [intro w; apply header_text_core; exact Hc|].
  split; [intro w; apply save_normal_core; exact Hc|]. split; [intro p; apply save_partial_core; exact Hc|].
  intros p path. apply export_partial_core. exact Hc.
Qed.

(* ====================================================================== *)
(* 5. shielding                                                            *)
(* ====================================================================== *)

Lemma map_res_ext_in {A B} (f g : A -> res B) : forall l,
  (forall x, In x l -> f x = g x) -> map_res f l = map_res g l.
Proof.
  induction l as [|x r IH]; intro H; [reflexivity|]. cbn [map_res].
  apply bind_cong; [apply H; left; reflexivity|]. intro y.
  apply bind_cong; [apply IH; intros z Hz; apply H; right; exact Hz | reflexivity].
Qed.

(* the document parser after the settings *)
Definition unserialize_rest (d : document_serial) (st : settings) : res document :=
  let ssegs := match ds_segments d with Some l => l | None => [] end in
  do _ <- (match ssegs with [] => Err (EEmptyValue "segments") | _ => Ok tt end);
  do sclasses <- get_non_null (ds_vram_classes d) "vram_classes" [];
  do classes <- map_res parse_class sclasses;
  do segments <- map_res (parse_segment st) ssegs;
  do entry <- get_non_null_no_default (ds_entry d) "entry";
  do sassigns <- get_non_null (ds_symbol_assignments d) "symbol_assignments" [];
  do assigns <- map_res parse_assign sassigns;
  do sreq <- get_non_null (ds_required_symbols d) "required_symbols" [];
  do req <- map_res parse_required sreq;
  do sasserts <- get_non_null (ds_asserts d) "asserts" [];
  do asserts <- map_res parse_assert sasserts;
  Ok (Document st classes (map (class_pass_down classes) segments) entry assigns req asserts).

Lemma unserialize_split sd : unserialize_document sd = (do st <- sd_settings sd; unserialize_rest sd st).
Proof.
  unfold unserialize_document, sd_settings, unserialize_rest.
  destruct (get_non_null_no_default (ds_settings sd) "settings") as [sto|e]; [|reflexivity]. cbn [bind].
  destruct (match sto with Some s => parse_settings s | None => Ok default_settings end); reflexivity.
Qed.

Lemma unserialize_rest_shield sd st st' d :
  unserialize_rest sd st = Ok d ->
  (forall s, In s (match ds_segments sd with Some l => l | None => [] end) ->
             parse_segment st' s = parse_segment st s) ->
  unserialize_rest sd st' = Ok (doc_with_settings d st').
Proof.
  unfold unserialize_rest. cbv zeta. intros H Hs. rewrite (map_res_ext_in _ _ _ Hs).
  repeat (apply bind_ok in H; let x := fresh "x" in let E := fresh "E" in
          destruct H as [x [E H]]; rewrite E; cbn [bind]).
  injection H as H. subst d. reflexivity.
Qed.

(* generic lemma of shielding: other settings with the same core under which every segment parses alike
   give the same document but for the settings *)
Lemma shield_document sd gs gs' d d' :
  parse sd = Ok d -> ds_settings sd = Value gs -> parse (sd_with_settings sd (Value gs')) = Ok d' ->
  (forall st st', parse_settings gs = Ok st -> parse_settings gs' = Ok st' ->
     same_core st st' /\
     forall s, In s (match ds_segments sd with Some l => l | None => [] end) ->
               parse_segment st' s = parse_segment st s) ->
  d' = doc_with_settings d (doc_settings d') /\ same_core (doc_settings d) (doc_settings d').
Proof.
  intros H Eg H' Hst. unfold parse in H, H'.
  destruct (serde_ok sd); [|discriminate]. destruct (serde_ok (sd_with_settings sd (Value gs'))); [|discriminate].
  rewrite unserialize_split in H, H'.
  apply bind_ok in H. destruct H as [st [Est H]]. apply bind_ok in H'. destruct H' as [st' [Est' H']].
  unfold sd_settings in Est, Est'. cbn [sd_with_settings ds_settings] in Est'. rewrite Eg in Est.
  cbn [get_non_null_no_default bind] in Est, Est'.
  destruct (Hst st st' Est Est') as [Hc Hs].
  change (unserialize_rest (sd_with_settings sd (Value gs')) st') with (unserialize_rest sd st') in H'.
  rewrite (unserialize_rest_shield sd st st' d H Hs) in H'. injection H' as H'. subst d'.
  assert (Ed : doc_settings d = st).
  { unfold unserialize_rest in H. cbv zeta in H.
    repeat (apply bind_ok in H; destruct H as [? [_ H]]). injection H as H. subst d. reflexivity. }
  cbn [doc_with_settings doc_settings]. rewrite Ed. split; [reflexivity | exact Hc].
Qed.

Ltac proj_sts_all := cbn [sts_unknown sts_base_path sts_linker_symbols_style sts_hardcoded_gp_value sts_d_path
  sts_target_path sts_symbols_header_path sts_symbols_header_type sts_symbols_header_as_array
  sts_sections_allowlist sts_sections_allowlist_extra sts_sections_denylist sts_discard_wildcard_section
  sts_single_segment_mode sts_partial_scripts_folder sts_partial_build_segments_folder sts_alloc_sections
  sts_noload_sections sts_subalign sts_segment_start_align sts_segment_end_align sts_section_start_align
  sts_section_end_align sts_sections_start_alignment sts_sections_end_alignment sts_wildcard_sections
  sts_fill_value sts_sections_subgroups] in *.

(* a field of the parsed settings is determined by the same field of the serial settings *)

Lemma field_base_path gs gs' st st' : parse_settings gs = Ok st -> parse_settings gs' = Ok st' ->
  sts_base_path gs = sts_base_path gs' -> base_path st = base_path st'.
Proof.
  intros H H' E. pose proof (global_base_path _ _ H) as A. pose proof (global_base_path _ _ H') as A'.
  rewrite E in A. clear H H' E. congruence.
Qed.

Lemma field_linker_symbols_style gs gs' st st' : parse_settings gs = Ok st -> parse_settings gs' = Ok st' ->
  sts_linker_symbols_style gs = sts_linker_symbols_style gs' -> linker_symbols_style st = linker_symbols_style st'.
Proof.
  intros H H' E. pose proof (global_linker_symbols_style _ _ H) as A. pose proof (global_linker_symbols_style _ _ H') as A'.
  rewrite E in A. clear H H' E. congruence.
Qed.

Lemma field_hardcoded_gp_value gs gs' st st' : parse_settings gs = Ok st -> parse_settings gs' = Ok st' ->
  sts_hardcoded_gp_value gs = sts_hardcoded_gp_value gs' -> hardcoded_gp_value st = hardcoded_gp_value st'.
Proof.
  intros H H' E. pose proof (global_hardcoded_gp_value _ _ H) as A. pose proof (global_hardcoded_gp_value _ _ H') as A'.
  rewrite E in A. clear H H' E. congruence.
Qed.

Lemma field_d_path gs gs' st st' : parse_settings gs = Ok st -> parse_settings gs' = Ok st' ->
  sts_d_path gs = sts_d_path gs' -> d_path st = d_path st'.
Proof.
  intros H H' E. pose proof (global_d_path _ _ H) as A. pose proof (global_d_path _ _ H') as A'.
  rewrite E in A. clear H H' E. congruence.
Qed.

Lemma field_target_path gs gs' st st' : parse_settings gs = Ok st -> parse_settings gs' = Ok st' ->
  sts_target_path gs = sts_target_path gs' -> target_path st = target_path st'.
Proof.
  intros H H' E. pose proof (global_target_path _ _ H) as A. pose proof (global_target_path _ _ H') as A'.
  rewrite E in A. clear H H' E. congruence.
Qed.

Lemma field_symbols_header_path gs gs' st st' : parse_settings gs = Ok st -> parse_settings gs' = Ok st' ->
  sts_symbols_header_path gs = sts_symbols_header_path gs' -> symbols_header_path st = symbols_header_path st'.
Proof.
  intros H H' E. pose proof (global_symbols_header_path _ _ H) as A. pose proof (global_symbols_header_path _ _ H') as A'.
  rewrite E in A. clear H H' E. congruence.
Qed.

Lemma field_symbols_header_type gs gs' st st' : parse_settings gs = Ok st -> parse_settings gs' = Ok st' ->
  sts_symbols_header_type gs = sts_symbols_header_type gs' -> symbols_header_type st = symbols_header_type st'.
Proof.
  intros H H' E. pose proof (global_symbols_header_type _ _ H) as A. pose proof (global_symbols_header_type _ _ H') as A'.
  rewrite E in A. clear H H' E. congruence.
Qed.

Lemma field_symbols_header_as_array gs gs' st st' : parse_settings gs = Ok st -> parse_settings gs' = Ok st' ->
  sts_symbols_header_as_array gs = sts_symbols_header_as_array gs' -> symbols_header_as_array st = symbols_header_as_array st'.
Proof.
  intros H H' E. pose proof (global_symbols_header_as_array _ _ H) as A. pose proof (global_symbols_header_as_array _ _ H') as A'.
  rewrite E in A. clear H H' E. congruence.
Qed.

Lemma field_sections_allowlist gs gs' st st' : parse_settings gs = Ok st -> parse_settings gs' = Ok st' ->
  sts_sections_allowlist gs = sts_sections_allowlist gs' -> sections_allowlist st = sections_allowlist st'.
Proof.
  intros H H' E. pose proof (global_sections_allowlist _ _ H) as A. pose proof (global_sections_allowlist _ _ H') as A'.
  rewrite E in A. clear H H' E. congruence.
Qed.

Lemma field_sections_allowlist_extra gs gs' st st' : parse_settings gs = Ok st -> parse_settings gs' = Ok st' ->
  sts_sections_allowlist_extra gs = sts_sections_allowlist_extra gs' -> sections_allowlist_extra st = sections_allowlist_extra st'.
Proof.
  intros H H' E. pose proof (global_sections_allowlist_extra _ _ H) as A. pose proof (global_sections_allowlist_extra _ _ H') as A'.
  rewrite E in A. clear H H' E. congruence.
Qed.

Lemma field_sections_denylist gs gs' st st' : parse_settings gs = Ok st -> parse_settings gs' = Ok st' ->
  sts_sections_denylist gs = sts_sections_denylist gs' -> sections_denylist st = sections_denylist st'.
Proof.
  intros H H' E. pose proof (global_sections_denylist _ _ H) as A. pose proof (global_sections_denylist _ _ H') as A'.
  rewrite E in A. clear H H' E. congruence.
Qed.

Lemma field_discard_wildcard_section gs gs' st st' : parse_settings gs = Ok st -> parse_settings gs' = Ok st' ->
  sts_discard_wildcard_section gs = sts_discard_wildcard_section gs' -> discard_wildcard_section st = discard_wildcard_section st'.
Proof.
  intros H H' E. pose proof (global_discard_wildcard_section _ _ H) as A. pose proof (global_discard_wildcard_section _ _ H') as A'.
  rewrite E in A. clear H H' E. congruence.
Qed.

Lemma field_single_segment_mode gs gs' st st' : parse_settings gs = Ok st -> parse_settings gs' = Ok st' ->
  sts_single_segment_mode gs = sts_single_segment_mode gs' -> single_segment_mode st = single_segment_mode st'.
Proof.
  intros H H' E. pose proof (global_single_segment_mode _ _ H) as A. pose proof (global_single_segment_mode _ _ H') as A'.
  rewrite E in A. clear H H' E. congruence.
Qed.

Lemma field_partial_scripts_folder gs gs' st st' : parse_settings gs = Ok st -> parse_settings gs' = Ok st' ->
  sts_partial_scripts_folder gs = sts_partial_scripts_folder gs' -> partial_scripts_folder st = partial_scripts_folder st'.
Proof.
  intros H H' E. pose proof (global_partial_scripts_folder _ _ H) as A. pose proof (global_partial_scripts_folder _ _ H') as A'.
  rewrite E in A. clear H H' E. congruence.
Qed.

Lemma field_partial_build_segments_folder gs gs' st st' : parse_settings gs = Ok st -> parse_settings gs' = Ok st' ->
  sts_partial_build_segments_folder gs = sts_partial_build_segments_folder gs' -> partial_build_segments_folder st = partial_build_segments_folder st'.
Proof.
  intros H H' E. pose proof (global_partial_build_segments_folder _ _ H) as A. pose proof (global_partial_build_segments_folder _ _ H') as A'.
  rewrite E in A. clear H H' E. congruence.
Qed.

Lemma field_alloc_sections gs gs' st st' : parse_settings gs = Ok st -> parse_settings gs' = Ok st' ->
  sts_alloc_sections gs = sts_alloc_sections gs' -> st_alloc_sections st = st_alloc_sections st'.
Proof.
  intros H H' E. pose proof (global_alloc_sections _ _ H) as A. pose proof (global_alloc_sections _ _ H') as A'.
  rewrite E in A. clear H H' E. congruence.
Qed.

Lemma field_noload_sections gs gs' st st' : parse_settings gs = Ok st -> parse_settings gs' = Ok st' ->
  sts_noload_sections gs = sts_noload_sections gs' -> st_noload_sections st = st_noload_sections st'.
Proof.
  intros H H' E. pose proof (global_noload_sections _ _ H) as A. pose proof (global_noload_sections _ _ H') as A'.
  rewrite E in A. clear H H' E. congruence.
Qed.

Lemma field_subalign gs gs' st st' : parse_settings gs = Ok st -> parse_settings gs' = Ok st' ->
  sts_subalign gs = sts_subalign gs' -> st_subalign st = st_subalign st'.
Proof.
  intros H H' E. pose proof (global_subalign _ _ H) as A. pose proof (global_subalign _ _ H') as A'.
  rewrite E in A. clear H H' E. congruence.
Qed.

Lemma field_segment_start_align gs gs' st st' : parse_settings gs = Ok st -> parse_settings gs' = Ok st' ->
  sts_segment_start_align gs = sts_segment_start_align gs' -> st_segment_start_align st = st_segment_start_align st'.
Proof.
  intros H H' E. pose proof (global_segment_start_align _ _ H) as A. pose proof (global_segment_start_align _ _ H') as A'.
  rewrite E in A. clear H H' E. congruence.
Qed.

Lemma field_segment_end_align gs gs' st st' : parse_settings gs = Ok st -> parse_settings gs' = Ok st' ->
  sts_segment_end_align gs = sts_segment_end_align gs' -> st_segment_end_align st = st_segment_end_align st'.
Proof.
  intros H H' E. pose proof (global_segment_end_align _ _ H) as A. pose proof (global_segment_end_align _ _ H') as A'.
  rewrite E in A. clear H H' E. congruence.
Qed.

Lemma field_section_start_align gs gs' st st' : parse_settings gs = Ok st -> parse_settings gs' = Ok st' ->
  sts_section_start_align gs = sts_section_start_align gs' -> st_section_start_align st = st_section_start_align st'.
Proof.
  intros H H' E. pose proof (global_section_start_align _ _ H) as A. pose proof (global_section_start_align _ _ H') as A'.
  rewrite E in A. clear H H' E. congruence.
Qed.

Lemma field_section_end_align gs gs' st st' : parse_settings gs = Ok st -> parse_settings gs' = Ok st' ->
  sts_section_end_align gs = sts_section_end_align gs' -> st_section_end_align st = st_section_end_align st'.
Proof.
  intros H H' E. pose proof (global_section_end_align _ _ H) as A. pose proof (global_section_end_align _ _ H') as A'.
  rewrite E in A. clear H H' E. congruence.
Qed.

Lemma field_sections_start_alignment gs gs' st st' : parse_settings gs = Ok st -> parse_settings gs' = Ok st' ->
  sts_sections_start_alignment gs = sts_sections_start_alignment gs' -> st_sections_start_alignment st = st_sections_start_alignment st'.
Proof.
  intros H H' E. pose proof (global_sections_start_alignment _ _ H) as A. pose proof (global_sections_start_alignment _ _ H') as A'.
  rewrite E in A. clear H H' E. congruence.
Qed.

Lemma field_sections_end_alignment gs gs' st st' : parse_settings gs = Ok st -> parse_settings gs' = Ok st' ->
  sts_sections_end_alignment gs = sts_sections_end_alignment gs' -> st_sections_end_alignment st = st_sections_end_alignment st'.
Proof.
  intros H H' E. pose proof (global_sections_end_alignment _ _ H) as A. pose proof (global_sections_end_alignment _ _ H') as A'.
  rewrite E in A. clear H H' E. congruence.
Qed.

Lemma field_wildcard_sections gs gs' st st' : parse_settings gs = Ok st -> parse_settings gs' = Ok st' ->
  sts_wildcard_sections gs = sts_wildcard_sections gs' -> st_wildcard_sections st = st_wildcard_sections st'.
Proof.
  intros H H' E. pose proof (global_wildcard_sections _ _ H) as A. pose proof (global_wildcard_sections _ _ H') as A'.
  rewrite E in A. clear H H' E. congruence.
Qed.

Lemma field_fill_value gs gs' st st' : parse_settings gs = Ok st -> parse_settings gs' = Ok st' ->
  sts_fill_value gs = sts_fill_value gs' -> st_fill_value st = st_fill_value st'.
Proof.
  intros H H' E. pose proof (global_fill_value _ _ H) as A. pose proof (global_fill_value _ _ H') as A'.
  rewrite E in A. clear H H' E. congruence.
Qed.

Lemma field_sections_subgroups gs gs' st st' : parse_settings gs = Ok st -> parse_settings gs' = Ok st' ->
  sts_sections_subgroups gs = sts_sections_subgroups gs' -> st_sections_subgroups st = st_sections_subgroups st'.
Proof.
  intros H H' E. pose proof (global_sections_subgroups _ _ H) as A. pose proof (global_sections_subgroups _ _ H') as A'.
  rewrite E in A. clear H H' E. congruence.
Qed.

Lemma changed_global_alloc_sections gs v st st' :
  parse_settings gs = Ok st -> parse_settings (sts_with_alloc_sections gs v) = Ok st' ->
  same_core st st' /\ st' = st_with_alloc_sections st (st_alloc_sections st').
Proof.
  intros H H'. destruct gs.
  pose proof (field_base_path _ _ _ _ H H' eq_refl) as E_base_path.
  pose proof (field_linker_symbols_style _ _ _ _ H H' eq_refl) as E_linker_symbols_style.
  pose proof (field_hardcoded_gp_value _ _ _ _ H H' eq_refl) as E_hardcoded_gp_value.
  pose proof (field_d_path _ _ _ _ H H' eq_refl) as E_d_path.
  pose proof (field_target_path _ _ _ _ H H' eq_refl) as E_target_path.
  pose proof (field_symbols_header_path _ _ _ _ H H' eq_refl) as E_symbols_header_path.
  pose proof (field_symbols_header_type _ _ _ _ H H' eq_refl) as E_symbols_header_type.
  pose proof (field_symbols_header_as_array _ _ _ _ H H' eq_refl) as E_symbols_header_as_array.
  pose proof (field_sections_allowlist _ _ _ _ H H' eq_refl) as E_sections_allowlist.
  pose proof (field_sections_allowlist_extra _ _ _ _ H H' eq_refl) as E_sections_allowlist_extra.
  pose proof (field_sections_denylist _ _ _ _ H H' eq_refl) as E_sections_denylist.
  pose proof (field_discard_wildcard_section _ _ _ _ H H' eq_refl) as E_discard_wildcard_section.
  pose proof (field_single_segment_mode _ _ _ _ H H' eq_refl) as E_single_segment_mode.
  pose proof (field_partial_scripts_folder _ _ _ _ H H' eq_refl) as E_partial_scripts_folder.
  pose proof (field_partial_build_segments_folder _ _ _ _ H H' eq_refl) as E_partial_build_segments_folder.
  pose proof (field_noload_sections _ _ _ _ H H' eq_refl) as E_noload_sections.
  pose proof (field_subalign _ _ _ _ H H' eq_refl) as E_subalign.
  pose proof (field_segment_start_align _ _ _ _ H H' eq_refl) as E_segment_start_align.
  pose proof (field_segment_end_align _ _ _ _ H H' eq_refl) as E_segment_end_align.
  pose proof (field_section_start_align _ _ _ _ H H' eq_refl) as E_section_start_align.
  pose proof (field_section_end_align _ _ _ _ H H' eq_refl) as E_section_end_align.
  pose proof (field_sections_start_alignment _ _ _ _ H H' eq_refl) as E_sections_start_alignment.
  pose proof (field_sections_end_alignment _ _ _ _ H H' eq_refl) as E_sections_end_alignment.
  pose proof (field_wildcard_sections _ _ _ _ H H' eq_refl) as E_wildcard_sections.
  pose proof (field_fill_value _ _ _ _ H H' eq_refl) as E_fill_value.
  pose proof (field_sections_subgroups _ _ _ _ H H' eq_refl) as E_sections_subgroups.
  clear H H'. destruct st as [b1 b2 b3 b4 b5 b6 b7 b8 b9 b10 b11 b12 b13 b14 b15 b16 b17 b18 b19 b20 b21 b22 b23 b24 b25 b26 b27], st' as [c1 c2 c3 c4 c5 c6 c7 c8 c9 c10 c11 c12 c13 c14 c15 c16 c17 c18 c19 c20 c21 c22 c23 c24 c25 c26 c27]. unfold same_core, st_with_alloc_sections.
  cbn [base_path linker_symbols_style hardcoded_gp_value d_path target_path symbols_header_path symbols_header_type symbols_header_as_array sections_allowlist sections_allowlist_extra sections_denylist discard_wildcard_section single_segment_mode partial_scripts_folder partial_build_segments_folder st_alloc_sections st_noload_sections st_subalign st_segment_start_align st_segment_end_align st_section_start_align st_section_end_align st_sections_start_alignment st_sections_end_alignment st_wildcard_sections st_fill_value st_sections_subgroups] in *. subst.
  repeat split.
Qed.

Lemma changed_global_noload_sections gs v st st' :
  parse_settings gs = Ok st -> parse_settings (sts_with_noload_sections gs v) = Ok st' ->
  same_core st st' /\ st' = st_with_noload_sections st (st_noload_sections st').
Proof.
  intros H H'. destruct gs.
  pose proof (field_base_path _ _ _ _ H H' eq_refl) as E_base_path.
  pose proof (field_linker_symbols_style _ _ _ _ H H' eq_refl) as E_linker_symbols_style.
  pose proof (field_hardcoded_gp_value _ _ _ _ H H' eq_refl) as E_hardcoded_gp_value.
  pose proof (field_d_path _ _ _ _ H H' eq_refl) as E_d_path.
  pose proof (field_target_path _ _ _ _ H H' eq_refl) as E_target_path.
  pose proof (field_symbols_header_path _ _ _ _ H H' eq_refl) as E_symbols_header_path.
  pose proof (field_symbols_header_type _ _ _ _ H H' eq_refl) as E_symbols_header_type.
  pose proof (field_symbols_header_as_array _ _ _ _ H H' eq_refl) as E_symbols_header_as_array.
  pose proof (field_sections_allowlist _ _ _ _ H H' eq_refl) as E_sections_allowlist.
  pose proof (field_sections_allowlist_extra _ _ _ _ H H' eq_refl) as E_sections_allowlist_extra.
  pose proof (field_sections_denylist _ _ _ _ H H' eq_refl) as E_sections_denylist.
  pose proof (field_discard_wildcard_section _ _ _ _ H H' eq_refl) as E_discard_wildcard_section.
  pose proof (field_single_segment_mode _ _ _ _ H H' eq_refl) as E_single_segment_mode.
  pose proof (field_partial_scripts_folder _ _ _ _ H H' eq_refl) as E_partial_scripts_folder.
  pose proof (field_partial_build_segments_folder _ _ _ _ H H' eq_refl) as E_partial_build_segments_folder.
  pose proof (field_alloc_sections _ _ _ _ H H' eq_refl) as E_alloc_sections.
  pose proof (field_subalign _ _ _ _ H H' eq_refl) as E_subalign.
  pose proof (field_segment_start_align _ _ _ _ H H' eq_refl) as E_segment_start_align.
  pose proof (field_segment_end_align _ _ _ _ H H' eq_refl) as E_segment_end_align.
  pose proof (field_section_start_align _ _ _ _ H H' eq_refl) as E_section_start_align.
  pose proof (field_section_end_align _ _ _ _ H H' eq_refl) as E_section_end_align.
  pose proof (field_sections_start_alignment _ _ _ _ H H' eq_refl) as E_sections_start_alignment.
  pose proof (field_sections_end_alignment _ _ _ _ H H' eq_refl) as E_sections_end_alignment.
  pose proof (field_wildcard_sections _ _ _ _ H H' eq_refl) as E_wildcard_sections.
  pose proof (field_fill_value _ _ _ _ H H' eq_refl) as E_fill_value.
  pose proof (field_sections_subgroups _ _ _ _ H H' eq_refl) as E_sections_subgroups.
  clear H H'. destruct st as [b1 b2 b3 b4 b5 b6 b7 b8 b9 b10 b11 b12 b13 b14 b15 b16 b17 b18 b19 b20 b21 b22 b23 b24 b25 b26 b27], st' as [c1 c2 c3 c4 c5 c6 c7 c8 c9 c10 c11 c12 c13 c14 c15 c16 c17 c18 c19 c20 c21 c22 c23 c24 c25 c26 c27]. unfold same_core, st_with_noload_sections.
  cbn [base_path linker_symbols_style hardcoded_gp_value d_path target_path symbols_header_path symbols_header_type symbols_header_as_array sections_allowlist sections_allowlist_extra sections_denylist discard_wildcard_section single_segment_mode partial_scripts_folder partial_build_segments_folder st_alloc_sections st_noload_sections st_subalign st_segment_start_align st_segment_end_align st_section_start_align st_section_end_align st_sections_start_alignment st_sections_end_alignment st_wildcard_sections st_fill_value st_sections_subgroups] in *. subst.
  repeat split.
Qed.

Lemma changed_global_subalign gs v st st' :
  parse_settings gs = Ok st -> parse_settings (sts_with_subalign gs v) = Ok st' ->
  same_core st st' /\ st' = st_with_subalign st (st_subalign st').
Proof.
  intros H H'. destruct gs.
  pose proof (field_base_path _ _ _ _ H H' eq_refl) as E_base_path.
  pose proof (field_linker_symbols_style _ _ _ _ H H' eq_refl) as E_linker_symbols_style.
  pose proof (field_hardcoded_gp_value _ _ _ _ H H' eq_refl) as E_hardcoded_gp_value.
  pose proof (field_d_path _ _ _ _ H H' eq_refl) as E_d_path.
  pose proof (field_target_path _ _ _ _ H H' eq_refl) as E_target_path.
  pose proof (field_symbols_header_path _ _ _ _ H H' eq_refl) as E_symbols_header_path.
  pose proof (field_symbols_header_type _ _ _ _ H H' eq_refl) as E_symbols_header_type.
  pose proof (field_symbols_header_as_array _ _ _ _ H H' eq_refl) as E_symbols_header_as_array.
  pose proof (field_sections_allowlist _ _ _ _ H H' eq_refl) as E_sections_allowlist.
  pose proof (field_sections_allowlist_extra _ _ _ _ H H' eq_refl) as E_sections_allowlist_extra.
  pose proof (field_sections_denylist _ _ _ _ H H' eq_refl) as E_sections_denylist.
  pose proof (field_discard_wildcard_section _ _ _ _ H H' eq_refl) as E_discard_wildcard_section.
  pose proof (field_single_segment_mode _ _ _ _ H H' eq_refl) as E_single_segment_mode.
  pose proof (field_partial_scripts_folder _ _ _ _ H H' eq_refl) as E_partial_scripts_folder.
  pose proof (field_partial_build_segments_folder _ _ _ _ H H' eq_refl) as E_partial_build_segments_folder.
  pose proof (field_alloc_sections _ _ _ _ H H' eq_refl) as E_alloc_sections.
  pose proof (field_noload_sections _ _ _ _ H H' eq_refl) as E_noload_sections.
  pose proof (field_segment_start_align _ _ _ _ H H' eq_refl) as E_segment_start_align.
  pose proof (field_segment_end_align _ _ _ _ H H' eq_refl) as E_segment_end_align.
  pose proof (field_section_start_align _ _ _ _ H H' eq_refl) as E_section_start_align.
  pose proof (field_section_end_align _ _ _ _ H H' eq_refl) as E_section_end_align.
  pose proof (field_sections_start_alignment _ _ _ _ H H' eq_refl) as E_sections_start_alignment.
  pose proof (field_sections_end_alignment _ _ _ _ H H' eq_refl) as E_sections_end_alignment.
  pose proof (field_wildcard_sections _ _ _ _ H H' eq_refl) as E_wildcard_sections.
  pose proof (field_fill_value _ _ _ _ H H' eq_refl) as E_fill_value.
  pose proof (field_sections_subgroups _ _ _ _ H H' eq_refl) as E_sections_subgroups.
  clear H H'. destruct st as [b1 b2 b3 b4 b5 b6 b7 b8 b9 b10 b11 b12 b13 b14 b15 b16 b17 b18 b19 b20 b21 b22 b23 b24 b25 b26 b27], st' as [c1 c2 c3 c4 c5 c6 c7 c8 c9 c10 c11 c12 c13 c14 c15 c16 c17 c18 c19 c20 c21 c22 c23 c24 c25 c26 c27]. unfold same_core, st_with_subalign.
  cbn [base_path linker_symbols_style hardcoded_gp_value d_path target_path symbols_header_path symbols_header_type symbols_header_as_array sections_allowlist sections_allowlist_extra sections_denylist discard_wildcard_section single_segment_mode partial_scripts_folder partial_build_segments_folder st_alloc_sections st_noload_sections st_subalign st_segment_start_align st_segment_end_align st_section_start_align st_section_end_align st_sections_start_alignment st_sections_end_alignment st_wildcard_sections st_fill_value st_sections_subgroups] in *. subst.
  repeat split.
Qed.

Lemma changed_global_segment_start_align gs v st st' :
  parse_settings gs = Ok st -> parse_settings (sts_with_segment_start_align gs v) = Ok st' ->
  same_core st st' /\ st' = st_with_segment_start_align st (st_segment_start_align st').
Proof.
  intros H H'. destruct gs.
  pose proof (field_base_path _ _ _ _ H H' eq_refl) as E_base_path.
  pose proof (field_linker_symbols_style _ _ _ _ H H' eq_refl) as E_linker_symbols_style.
  pose proof (field_hardcoded_gp_value _ _ _ _ H H' eq_refl) as E_hardcoded_gp_value.
  pose proof (field_d_path _ _ _ _ H H' eq_refl) as E_d_path.
  pose proof (field_target_path _ _ _ _ H H' eq_refl) as E_target_path.
  pose proof (field_symbols_header_path _ _ _ _ H H' eq_refl) as E_symbols_header_path.
  pose proof (field_symbols_header_type _ _ _ _ H H' eq_refl) as E_symbols_header_type.
  pose proof (field_symbols_header_as_array _ _ _ _ H H' eq_refl) as E_symbols_header_as_array.
  pose proof (field_sections_allowlist _ _ _ _ H H' eq_refl) as E_sections_allowlist.
  pose proof (field_sections_allowlist_extra _ _ _ _ H H' eq_refl) as E_sections_allowlist_extra.
  pose proof (field_sections_denylist _ _ _ _ H H' eq_refl) as E_sections_denylist.
  pose proof (field_discard_wildcard_section _ _ _ _ H H' eq_refl) as E_discard_wildcard_section.
  pose proof (field_single_segment_mode _ _ _ _ H H' eq_refl) as E_single_segment_mode.
  pose proof (field_partial_scripts_folder _ _ _ _ H H' eq_refl) as E_partial_scripts_folder.
  pose proof (field_partial_build_segments_folder _ _ _ _ H H' eq_refl) as E_partial_build_segments_folder.
  pose proof (field_alloc_sections _ _ _ _ H H' eq_refl) as E_alloc_sections.
  pose proof (field_noload_sections _ _ _ _ H H' eq_refl) as E_noload_sections.
  pose proof (field_subalign _ _ _ _ H H' eq_refl) as E_subalign.
  pose proof (field_segment_end_align _ _ _ _ H H' eq_refl) as E_segment_end_align.
  pose proof (field_section_start_align _ _ _ _ H H' eq_refl) as E_section_start_align.
  pose proof (field_section_end_align _ _ _ _ H H' eq_refl) as E_section_end_align.
  pose proof (field_sections_start_alignment _ _ _ _ H H' eq_refl) as E_sections_start_alignment.
  pose proof (field_sections_end_alignment _ _ _ _ H H' eq_refl) as E_sections_end_alignment.
  pose proof (field_wildcard_sections _ _ _ _ H H' eq_refl) as E_wildcard_sections.
  pose proof (field_fill_value _ _ _ _ H H' eq_refl) as E_fill_value.
  pose proof (field_sections_subgroups _ _ _ _ H H' eq_refl) as E_sections_subgroups.
  clear H H'. destruct st as [b1 b2 b3 b4 b5 b6 b7 b8 b9 b10 b11 b12 b13 b14 b15 b16 b17 b18 b19 b20 b21 b22 b23 b24 b25 b26 b27], st' as [c1 c2 c3 c4 c5 c6 c7 c8 c9 c10 c11 c12 c13 c14 c15 c16 c17 c18 c19 c20 c21 c22 c23 c24 c25 c26 c27]. unfold same_core, st_with_segment_start_align.
  cbn [base_path linker_symbols_style hardcoded_gp_value d_path target_path symbols_header_path symbols_header_type symbols_header_as_array sections_allowlist sections_allowlist_extra sections_denylist discard_wildcard_section single_segment_mode partial_scripts_folder partial_build_segments_folder st_alloc_sections st_noload_sections st_subalign st_segment_start_align st_segment_end_align st_section_start_align st_section_end_align st_sections_start_alignment st_sections_end_alignment st_wildcard_sections st_fill_value st_sections_subgroups] in *. subst.
  repeat split.
Qed.

Lemma changed_global_segment_end_align gs v st st' :
  parse_settings gs = Ok st -> parse_settings (sts_with_segment_end_align gs v) = Ok st' ->
  same_core st st' /\ st' = st_with_segment_end_align st (st_segment_end_align st').
Proof.
  intros H H'. destruct gs.
  pose proof (field_base_path _ _ _ _ H H' eq_refl) as E_base_path.
  pose proof (field_linker_symbols_style _ _ _ _ H H' eq_refl) as E_linker_symbols_style.
  pose proof (field_hardcoded_gp_value _ _ _ _ H H' eq_refl) as E_hardcoded_gp_value.
  pose proof (field_d_path _ _ _ _ H H' eq_refl) as E_d_path.
  pose proof (field_target_path _ _ _ _ H H' eq_refl) as E_target_path.
  pose proof (field_symbols_header_path _ _ _ _ H H' eq_refl) as E_symbols_header_path.
  pose proof (field_symbols_header_type _ _ _ _ H H' eq_refl) as E_symbols_header_type.
  pose proof (field_symbols_header_as_array _ _ _ _ H H' eq_refl) as E_symbols_header_as_array.
  pose proof (field_sections_allowlist _ _ _ _ H H' eq_refl) as E_sections_allowlist.
  pose proof (field_sections_allowlist_extra _ _ _ _ H H' eq_refl) as E_sections_allowlist_extra.
  pose proof (field_sections_denylist _ _ _ _ H H' eq_refl) as E_sections_denylist.
  pose proof (field_discard_wildcard_section _ _ _ _ H H' eq_refl) as E_discard_wildcard_section.
  pose proof (field_single_segment_mode _ _ _ _ H H' eq_refl) as E_single_segment_mode.
  pose proof (field_partial_scripts_folder _ _ _ _ H H' eq_refl) as E_partial_scripts_folder.
  pose proof (field_partial_build_segments_folder _ _ _ _ H H' eq_refl) as E_partial_build_segments_folder.
  pose proof (field_alloc_sections _ _ _ _ H H' eq_refl) as E_alloc_sections.
  pose proof (field_noload_sections _ _ _ _ H H' eq_refl) as E_noload_sections.
  pose proof (field_subalign _ _ _ _ H H' eq_refl) as E_subalign.
  pose proof (field_segment_start_align _ _ _ _ H H' eq_refl) as E_segment_start_align.
  pose proof (field_section_start_align _ _ _ _ H H' eq_refl) as E_section_start_align.
  pose proof (field_section_end_align _ _ _ _ H H' eq_refl) as E_section_end_align.
  pose proof (field_sections_start_alignment _ _ _ _ H H' eq_refl) as E_sections_start_alignment.
  pose proof (field_sections_end_alignment _ _ _ _ H H' eq_refl) as E_sections_end_alignment.
  pose proof (field_wildcard_sections _ _ _ _ H H' eq_refl) as E_wildcard_sections.
  pose proof (field_fill_value _ _ _ _ H H' eq_refl) as E_fill_value.
  pose proof (field_sections_subgroups _ _ _ _ H H' eq_refl) as E_sections_subgroups.
  clear H H'. destruct st as [b1 b2 b3 b4 b5 b6 b7 b8 b9 b10 b11 b12 b13 b14 b15 b16 b17 b18 b19 b20 b21 b22 b23 b24 b25 b26 b27], st' as [c1 c2 c3 c4 c5 c6 c7 c8 c9 c10 c11 c12 c13 c14 c15 c16 c17 c18 c19 c20 c21 c22 c23 c24 c25 c26 c27]. unfold same_core, st_with_segment_end_align.
  cbn [base_path linker_symbols_style hardcoded_gp_value d_path target_path symbols_header_path symbols_header_type symbols_header_as_array sections_allowlist sections_allowlist_extra sections_denylist discard_wildcard_section single_segment_mode partial_scripts_folder partial_build_segments_folder st_alloc_sections st_noload_sections st_subalign st_segment_start_align st_segment_end_align st_section_start_align st_section_end_align st_sections_start_alignment st_sections_end_alignment st_wildcard_sections st_fill_value st_sections_subgroups] in *. subst.
  repeat split.
Qed.

Lemma changed_global_section_start_align gs v st st' :
  parse_settings gs = Ok st -> parse_settings (sts_with_section_start_align gs v) = Ok st' ->
  same_core st st' /\ st' = st_with_section_start_align st (st_section_start_align st').
Proof.
  intros H H'. destruct gs.
  pose proof (field_base_path _ _ _ _ H H' eq_refl) as E_base_path.
  pose proof (field_linker_symbols_style _ _ _ _ H H' eq_refl) as E_linker_symbols_style.
  pose proof (field_hardcoded_gp_value _ _ _ _ H H' eq_refl) as E_hardcoded_gp_value.
  pose proof (field_d_path _ _ _ _ H H' eq_refl) as E_d_path.
  pose proof (field_target_path _ _ _ _ H H' eq_refl) as E_target_path.
  pose proof (field_symbols_header_path _ _ _ _ H H' eq_refl) as E_symbols_header_path.
  pose proof (field_symbols_header_type _ _ _ _ H H' eq_refl) as E_symbols_header_type.
  pose proof (field_symbols_header_as_array _ _ _ _ H H' eq_refl) as E_symbols_header_as_array.
  pose proof (field_sections_allowlist _ _ _ _ H H' eq_refl) as E_sections_allowlist.
  pose proof (field_sections_allowlist_extra _ _ _ _ H H' eq_refl) as E_sections_allowlist_extra.
  pose proof (field_sections_denylist _ _ _ _ H H' eq_refl) as E_sections_denylist.
  pose proof (field_discard_wildcard_section _ _ _ _ H H' eq_refl) as E_discard_wildcard_section.
  pose proof (field_single_segment_mode _ _ _ _ H H' eq_refl) as E_single_segment_mode.
  pose proof (field_partial_scripts_folder _ _ _ _ H H' eq_refl) as E_partial_scripts_folder.
  pose proof (field_partial_build_segments_folder _ _ _ _ H H' eq_refl) as E_partial_build_segments_folder.
  pose proof (field_alloc_sections _ _ _ _ H H' eq_refl) as E_alloc_sections.
  pose proof (field_noload_sections _ _ _ _ H H' eq_refl) as E_noload_sections.
  pose proof (field_subalign _ _ _ _ H H' eq_refl) as E_subalign.
  pose proof (field_segment_start_align _ _ _ _ H H' eq_refl) as E_segment_start_align.
  pose proof (field_segment_end_align _ _ _ _ H H' eq_refl) as E_segment_end_align.
  pose proof (field_section_end_align _ _ _ _ H H' eq_refl) as E_section_end_align.
  pose proof (field_sections_start_alignment _ _ _ _ H H' eq_refl) as E_sections_start_alignment.
  pose proof (field_sections_end_alignment _ _ _ _ H H' eq_refl) as E_sections_end_alignment.
  pose proof (field_wildcard_sections _ _ _ _ H H' eq_refl) as E_wildcard_sections.
  pose proof (field_fill_value _ _ _ _ H H' eq_refl) as E_fill_value.
  pose proof (field_sections_subgroups _ _ _ _ H H' eq_refl) as E_sections_subgroups.
  clear H H'. destruct st as [b1 b2 b3 b4 b5 b6 b7 b8 b9 b10 b11 b12 b13 b14 b15 b16 b17 b18 b19 b20 b21 b22 b23 b24 b25 b26 b27], st' as [c1 c2 c3 c4 c5 c6 c7 c8 c9 c10 c11 c12 c13 c14 c15 c16 c17 c18 c19 c20 c21 c22 c23 c24 c25 c26 c27]. unfold same_core, st_with_section_start_align.
  cbn [base_path linker_symbols_style hardcoded_gp_value d_path target_path symbols_header_path symbols_header_type symbols_header_as_array sections_allowlist sections_allowlist_extra sections_denylist discard_wildcard_section single_segment_mode partial_scripts_folder partial_build_segments_folder st_alloc_sections st_noload_sections st_subalign st_segment_start_align st_segment_end_align st_section_start_align st_section_end_align st_sections_start_alignment st_sections_end_alignment st_wildcard_sections st_fill_value st_sections_subgroups] in *. subst.
  repeat split.
Qed.

Lemma changed_global_section_end_align gs v st st' :
  parse_settings gs = Ok st -> parse_settings (sts_with_section_end_align gs v) = Ok st' ->
  same_core st st' /\ st' = st_with_section_end_align st (st_section_end_align st').
Proof.
  intros H H'. destruct gs.
  pose proof (field_base_path _ _ _ _ H H' eq_refl) as E_base_path.
  pose proof (field_linker_symbols_style _ _ _ _ H H' eq_refl) as E_linker_symbols_style.
  pose proof (field_hardcoded_gp_value _ _ _ _ H H' eq_refl) as E_hardcoded_gp_value.
  pose proof (field_d_path _ _ _ _ H H' eq_refl) as E_d_path.
  pose proof (field_target_path _ _ _ _ H H' eq_refl) as E_target_path.
  pose proof (field_symbols_header_path _ _ _ _ H H' eq_refl) as E_symbols_header_path.
  pose proof (field_symbols_header_type _ _ _ _ H H' eq_refl) as E_symbols_header_type.
  pose proof (field_symbols_header_as_array _ _ _ _ H H' eq_refl) as E_symbols_header_as_array.
  pose proof (field_sections_allowlist _ _ _ _ H H' eq_refl) as E_sections_allowlist.
  pose proof (field_sections_allowlist_extra _ _ _ _ H H' eq_refl) as E_sections_allowlist_extra.
  pose proof (field_sections_denylist _ _ _ _ H H' eq_refl) as E_sections_denylist.
  pose proof (field_discard_wildcard_section _ _ _ _ H H' eq_refl) as E_discard_wildcard_section.
  pose proof (field_single_segment_mode _ _ _ _ H H' eq_refl) as E_single_segment_mode.
  pose proof (field_partial_scripts_folder _ _ _ _ H H' eq_refl) as E_partial_scripts_folder.
  pose proof (field_partial_build_segments_folder _ _ _ _ H H' eq_refl) as E_partial_build_segments_folder.
  pose proof (field_alloc_sections _ _ _ _ H H' eq_refl) as E_alloc_sections.
  pose proof (field_noload_sections _ _ _ _ H H' eq_refl) as E_noload_sections.
  pose proof (field_subalign _ _ _ _ H H' eq_refl) as E_subalign.
  pose proof (field_segment_start_align _ _ _ _ H H' eq_refl) as E_segment_start_align.
  pose proof (field_segment_end_align _ _ _ _ H H' eq_refl) as E_segment_end_align.
  pose proof (field_section_start_align _ _ _ _ H H' eq_refl) as E_section_start_align.
  pose proof (field_sections_start_alignment _ _ _ _ H H' eq_refl) as E_sections_start_alignment.
  pose proof (field_sections_end_alignment _ _ _ _ H H' eq_refl) as E_sections_end_alignment.
  pose proof (field_wildcard_sections _ _ _ _ H H' eq_refl) as E_wildcard_sections.
  pose proof (field_fill_value _ _ _ _ H H' eq_refl) as E_fill_value.
  pose proof (field_sections_subgroups _ _ _ _ H H' eq_refl) as E_sections_subgroups.
  clear H H'. destruct st as [b1 b2 b3 b4 b5 b6 b7 b8 b9 b10 b11 b12 b13 b14 b15 b16 b17 b18 b19 b20 b21 b22 b23 b24 b25 b26 b27], st' as [c1 c2 c3 c4 c5 c6 c7 c8 c9 c10 c11 c12 c13 c14 c15 c16 c17 c18 c19 c20 c21 c22 c23 c24 c25 c26 c27]. unfold same_core, st_with_section_end_align.
  cbn [base_path linker_symbols_style hardcoded_gp_value d_path target_path symbols_header_path symbols_header_type symbols_header_as_array sections_allowlist sections_allowlist_extra sections_denylist discard_wildcard_section single_segment_mode partial_scripts_folder partial_build_segments_folder st_alloc_sections st_noload_sections st_subalign st_segment_start_align st_segment_end_align st_section_start_align st_section_end_align st_sections_start_alignment st_sections_end_alignment st_wildcard_sections st_fill_value st_sections_subgroups] in *. subst.
  repeat split.
Qed.

Lemma changed_global_sections_start_alignment gs v st st' :
  parse_settings gs = Ok st -> parse_settings (sts_with_sections_start_alignment gs v) = Ok st' ->
  same_core st st' /\ st' = st_with_sections_start_alignment st (st_sections_start_alignment st').
Proof.
  intros H H'. destruct gs.
  pose proof (field_base_path _ _ _ _ H H' eq_refl) as E_base_path.
  pose proof (field_linker_symbols_style _ _ _ _ H H' eq_refl) as E_linker_symbols_style.
  pose proof (field_hardcoded_gp_value _ _ _ _ H H' eq_refl) as E_hardcoded_gp_value.
  pose proof (field_d_path _ _ _ _ H H' eq_refl) as E_d_path.
  pose proof (field_target_path _ _ _ _ H H' eq_refl) as E_target_path.
  pose proof (field_symbols_header_path _ _ _ _ H H' eq_refl) as E_symbols_header_path.
  pose proof (field_symbols_header_type _ _ _ _ H H' eq_refl) as E_symbols_header_type.
  pose proof (field_symbols_header_as_array _ _ _ _ H H' eq_refl) as E_symbols_header_as_array.
  pose proof (field_sections_allowlist _ _ _ _ H H' eq_refl) as E_sections_allowlist.
  pose proof (field_sections_allowlist_extra _ _ _ _ H H' eq_refl) as E_sections_allowlist_extra.
  pose proof (field_sections_denylist _ _ _ _ H H' eq_refl) as E_sections_denylist.
  pose proof (field_discard_wildcard_section _ _ _ _ H H' eq_refl) as E_discard_wildcard_section.
  pose proof (field_single_segment_mode _ _ _ _ H H' eq_refl) as E_single_segment_mode.
  pose proof (field_partial_scripts_folder _ _ _ _ H H' eq_refl) as E_partial_scripts_folder.
  pose proof (field_partial_build_segments_folder _ _ _ _ H H' eq_refl) as E_partial_build_segments_folder.
  pose proof (field_alloc_sections _ _ _ _ H H' eq_refl) as E_alloc_sections.
  pose proof (field_noload_sections _ _ _ _ H H' eq_refl) as E_noload_sections.
  pose proof (field_subalign _ _ _ _ H H' eq_refl) as E_subalign.
  pose proof (field_segment_start_align _ _ _ _ H H' eq_refl) as E_segment_start_align.
  pose proof (field_segment_end_align _ _ _ _ H H' eq_refl) as E_segment_end_align.
  pose proof (field_section_start_align _ _ _ _ H H' eq_refl) as E_section_start_align.
  pose proof (field_section_end_align _ _ _ _ H H' eq_refl) as E_section_end_align.
  pose proof (field_sections_end_alignment _ _ _ _ H H' eq_refl) as E_sections_end_alignment.
  pose proof (field_wildcard_sections _ _ _ _ H H' eq_refl) as E_wildcard_sections.
  pose proof (field_fill_value _ _ _ _ H H' eq_refl) as E_fill_value.
  pose proof (field_sections_subgroups _ _ _ _ H H' eq_refl) as E_sections_subgroups.
  clear H H'. destruct st as [b1 b2 b3 b4 b5 b6 b7 b8 b9 b10 b11 b12 b13 b14 b15 b16 b17 b18 b19 b20 b21 b22 b23 b24 b25 b26 b27], st' as [c1 c2 c3 c4 c5 c6 c7 c8 c9 c10 c11 c12 c13 c14 c15 c16 c17 c18 c19 c20 c21 c22 c23 c24 c25 c26 c27]. unfold same_core, st_with_sections_start_alignment.
  cbn [base_path linker_symbols_style hardcoded_gp_value d_path target_path symbols_header_path symbols_header_type symbols_header_as_array sections_allowlist sections_allowlist_extra sections_denylist discard_wildcard_section single_segment_mode partial_scripts_folder partial_build_segments_folder st_alloc_sections st_noload_sections st_subalign st_segment_start_align st_segment_end_align st_section_start_align st_section_end_align st_sections_start_alignment st_sections_end_alignment st_wildcard_sections st_fill_value st_sections_subgroups] in *. subst.
  repeat split.
Qed.

Lemma changed_global_sections_end_alignment gs v st st' :
  parse_settings gs = Ok st -> parse_settings (sts_with_sections_end_alignment gs v) = Ok st' ->
  same_core st st' /\ st' = st_with_sections_end_alignment st (st_sections_end_alignment st').
Proof.
  intros H H'. destruct gs.
  pose proof (field_base_path _ _ _ _ H H' eq_refl) as E_base_path.
  pose proof (field_linker_symbols_style _ _ _ _ H H' eq_refl) as E_linker_symbols_style.
  pose proof (field_hardcoded_gp_value _ _ _ _ H H' eq_refl) as E_hardcoded_gp_value.
  pose proof (field_d_path _ _ _ _ H H' eq_refl) as E_d_path.
  pose proof (field_target_path _ _ _ _ H H' eq_refl) as E_target_path.
  pose proof (field_symbols_header_path _ _ _ _ H H' eq_refl) as E_symbols_header_path.
  pose proof (field_symbols_header_type _ _ _ _ H H' eq_refl) as E_symbols_header_type.
  pose proof (field_symbols_header_as_array _ _ _ _ H H' eq_refl) as E_symbols_header_as_array.
  pose proof (field_sections_allowlist _ _ _ _ H H' eq_refl) as E_sections_allowlist.
  pose proof (field_sections_allowlist_extra _ _ _ _ H H' eq_refl) as E_sections_allowlist_extra.
  pose proof (field_sections_denylist _ _ _ _ H H' eq_refl) as E_sections_denylist.
  pose proof (field_discard_wildcard_section _ _ _ _ H H' eq_refl) as E_discard_wildcard_section.
  pose proof (field_single_segment_mode _ _ _ _ H H' eq_refl) as E_single_segment_mode.
  pose proof (field_partial_scripts_folder _ _ _ _ H H' eq_refl) as E_partial_scripts_folder.
  pose proof (field_partial_build_segments_folder _ _ _ _ H H' eq_refl) as E_partial_build_segments_folder.
  pose proof (field_alloc_sections _ _ _ _ H H' eq_refl) as E_alloc_sections.
  pose proof (field_noload_sections _ _ _ _ H H' eq_refl) as E_noload_sections.
  pose proof (field_subalign _ _ _ _ H H' eq_refl) as E_subalign.
  pose proof (field_segment_start_align _ _ _ _ H H' eq_refl) as E_segment_start_align.
  pose proof (field_segment_end_align _ _ _ _ H H' eq_refl) as E_segment_end_align.
  pose proof (field_section_start_align _ _ _ _ H H' eq_refl) as E_section_start_align.
  pose proof (field_section_end_align _ _ _ _ H H' eq_refl) as E_section_end_align.
  pose proof (field_sections_start_alignment _ _ _ _ H H' eq_refl) as E_sections_start_alignment.
  pose proof (field_wildcard_sections _ _ _ _ H H' eq_refl) as E_wildcard_sections.
  pose proof (field_fill_value _ _ _ _ H H' eq_refl) as E_fill_value.
  pose proof (field_sections_subgroups _ _ _ _ H H' eq_refl) as E_sections_subgroups.
  clear H H'. destruct st as [b1 b2 b3 b4 b5 b6 b7 b8 b9 b10 b11 b12 b13 b14 b15 b16 b17 b18 b19 b20 b21 b22 b23 b24 b25 b26 b27], st' as [c1 c2 c3 c4 c5 c6 c7 c8 c9 c10 c11 c12 c13 c14 c15 c16 c17 c18 c19 c20 c21 c22 c23 c24 c25 c26 c27]. unfold same_core, st_with_sections_end_alignment.
  cbn [base_path linker_symbols_style hardcoded_gp_value d_path target_path symbols_header_path symbols_header_type symbols_header_as_array sections_allowlist sections_allowlist_extra sections_denylist discard_wildcard_section single_segment_mode partial_scripts_folder partial_build_segments_folder st_alloc_sections st_noload_sections st_subalign st_segment_start_align st_segment_end_align st_section_start_align st_section_end_align st_sections_start_alignment st_sections_end_alignment st_wildcard_sections st_fill_value st_sections_subgroups] in *. subst.
  repeat split.
Qed.

Lemma changed_global_wildcard_sections gs v st st' :
  parse_settings gs = Ok st -> parse_settings (sts_with_wildcard_sections gs v) = Ok st' ->
  same_core st st' /\ st' = st_with_wildcard_sections st (st_wildcard_sections st').
Proof.
  intros H H'. destruct gs.
  pose proof (field_base_path _ _ _ _ H H' eq_refl) as E_base_path.
  pose proof (field_linker_symbols_style _ _ _ _ H H' eq_refl) as E_linker_symbols_style.
  pose proof (field_hardcoded_gp_value _ _ _ _ H H' eq_refl) as E_hardcoded_gp_value.
  pose proof (field_d_path _ _ _ _ H H' eq_refl) as E_d_path.
  pose proof (field_target_path _ _ _ _ H H' eq_refl) as E_target_path.
  pose proof (field_symbols_header_path _ _ _ _ H H' eq_refl) as E_symbols_header_path.
  pose proof (field_symbols_header_type _ _ _ _ H H' eq_refl) as E_symbols_header_type.
  pose proof (field_symbols_header_as_array _ _ _ _ H H' eq_refl) as E_symbols_header_as_array.
  pose proof (field_sections_allowlist _ _ _ _ H H' eq_refl) as E_sections_allowlist.
  pose proof (field_sections_allowlist_extra _ _ _ _ H H' eq_refl) as E_sections_allowlist_extra.
  pose proof (field_sections_denylist _ _ _ _ H H' eq_refl) as E_sections_denylist.
  pose proof (field_discard_wildcard_section _ _ _ _ H H' eq_refl) as E_discard_wildcard_section.
  pose proof (field_single_segment_mode _ _ _ _ H H' eq_refl) as E_single_segment_mode.
  pose proof (field_partial_scripts_folder _ _ _ _ H H' eq_refl) as E_partial_scripts_folder.
  pose proof (field_partial_build_segments_folder _ _ _ _ H H' eq_refl) as E_partial_build_segments_folder.
  pose proof (field_alloc_sections _ _ _ _ H H' eq_refl) as E_alloc_sections.
  pose proof (field_noload_sections _ _ _ _ H H' eq_refl) as E_noload_sections.
  pose proof (field_subalign _ _ _ _ H H' eq_refl) as E_subalign.
  pose proof (field_segment_start_align _ _ _ _ H H' eq_refl) as E_segment_start_align.
  pose proof (field_segment_end_align _ _ _ _ H H' eq_refl) as E_segment_end_align.
  pose proof (field_section_start_align _ _ _ _ H H' eq_refl) as E_section_start_align.
  pose proof (field_section_end_align _ _ _ _ H H' eq_refl) as E_section_end_align.
  pose proof (field_sections_start_alignment _ _ _ _ H H' eq_refl) as E_sections_start_alignment.
  pose proof (field_sections_end_alignment _ _ _ _ H H' eq_refl) as E_sections_end_alignment.
  pose proof (field_fill_value _ _ _ _ H H' eq_refl) as E_fill_value.
  pose proof (field_sections_subgroups _ _ _ _ H H' eq_refl) as E_sections_subgroups.
  clear H H'. destruct st as [b1 b2 b3 b4 b5 b6 b7 b8 b9 b10 b11 b12 b13 b14 b15 b16 b17 b18 b19 b20 b21 b22 b23 b24 b25 b26 b27], st' as [c1 c2 c3 c4 c5 c6 c7 c8 c9 c10 c11 c12 c13 c14 c15 c16 c17 c18 c19 c20 c21 c22 c23 c24 c25 c26 c27]. unfold same_core, st_with_wildcard_sections.
  cbn [base_path linker_symbols_style hardcoded_gp_value d_path target_path symbols_header_path symbols_header_type symbols_header_as_array sections_allowlist sections_allowlist_extra sections_denylist discard_wildcard_section single_segment_mode partial_scripts_folder partial_build_segments_folder st_alloc_sections st_noload_sections st_subalign st_segment_start_align st_segment_end_align st_section_start_align st_section_end_align st_sections_start_alignment st_sections_end_alignment st_wildcard_sections st_fill_value st_sections_subgroups] in *. subst.
  repeat split.
Qed.

Lemma changed_global_fill_value gs v st st' :
  parse_settings gs = Ok st -> parse_settings (sts_with_fill_value gs v) = Ok st' ->
  same_core st st' /\ st' = st_with_fill_value st (st_fill_value st').
Proof.
  intros H H'. destruct gs.
  pose proof (field_base_path _ _ _ _ H H' eq_refl) as E_base_path.
  pose proof (field_linker_symbols_style _ _ _ _ H H' eq_refl) as E_linker_symbols_style.
  pose proof (field_hardcoded_gp_value _ _ _ _ H H' eq_refl) as E_hardcoded_gp_value.
  pose proof (field_d_path _ _ _ _ H H' eq_refl) as E_d_path.
  pose proof (field_target_path _ _ _ _ H H' eq_refl) as E_target_path.
  pose proof (field_symbols_header_path _ _ _ _ H H' eq_refl) as E_symbols_header_path.
  pose proof (field_symbols_header_type _ _ _ _ H H' eq_refl) as E_symbols_header_type.
  pose proof (field_symbols_header_as_array _ _ _ _ H H' eq_refl) as E_symbols_header_as_array.
  pose proof (field_sections_allowlist _ _ _ _ H H' eq_refl) as E_sections_allowlist.
  pose proof (field_sections_allowlist_extra _ _ _ _ H H' eq_refl) as E_sections_allowlist_extra.
  pose proof (field_sections_denylist _ _ _ _ H H' eq_refl) as E_sections_denylist.
  pose proof (field_discard_wildcard_section _ _ _ _ H H' eq_refl) as E_discard_wildcard_section.
  pose proof (field_single_segment_mode _ _ _ _ H H' eq_refl) as E_single_segment_mode.
  pose proof (field_partial_scripts_folder _ _ _ _ H H' eq_refl) as E_partial_scripts_folder.
  pose proof (field_partial_build_segments_folder _ _ _ _ H H' eq_refl) as E_partial_build_segments_folder.
  pose proof (field_alloc_sections _ _ _ _ H H' eq_refl) as E_alloc_sections.
  pose proof (field_noload_sections _ _ _ _ H H' eq_refl) as E_noload_sections.
  pose proof (field_subalign _ _ _ _ H H' eq_refl) as E_subalign.
  pose proof (field_segment_start_align _ _ _ _ H H' eq_refl) as E_segment_start_align.
  pose proof (field_segment_end_align _ _ _ _ H H' eq_refl) as E_segment_end_align.
  pose proof (field_section_start_align _ _ _ _ H H' eq_refl) as E_section_start_align.
  pose proof (field_section_end_align _ _ _ _ H H' eq_refl) as E_section_end_align.
  pose proof (field_sections_start_alignment _ _ _ _ H H' eq_refl) as E_sections_start_alignment.
  pose proof (field_sections_end_alignment _ _ _ _ H H' eq_refl) as E_sections_end_alignment.
  pose proof (field_wildcard_sections _ _ _ _ H H' eq_refl) as E_wildcard_sections.
  pose proof (field_sections_subgroups _ _ _ _ H H' eq_refl) as E_sections_subgroups.
  clear H H'. destruct st as [b1 b2 b3 b4 b5 b6 b7 b8 b9 b10 b11 b12 b13 b14 b15 b16 b17 b18 b19 b20 b21 b22 b23 b24 b25 b26 b27], st' as [c1 c2 c3 c4 c5 c6 c7 c8 c9 c10 c11 c12 c13 c14 c15 c16 c17 c18 c19 c20 c21 c22 c23 c24 c25 c26 c27]. unfold same_core, st_with_fill_value.
  cbn [base_path linker_symbols_style hardcoded_gp_value d_path target_path symbols_header_path symbols_header_type symbols_header_as_array sections_allowlist sections_allowlist_extra sections_denylist discard_wildcard_section single_segment_mode partial_scripts_folder partial_build_segments_folder st_alloc_sections st_noload_sections st_subalign st_segment_start_align st_segment_end_align st_section_start_align st_section_end_align st_sections_start_alignment st_sections_end_alignment st_wildcard_sections st_fill_value st_sections_subgroups] in *. subst.
  repeat split.
Qed.

Lemma changed_global_sections_subgroups gs v st st' :
  parse_settings gs = Ok st -> parse_settings (sts_with_sections_subgroups gs v) = Ok st' ->
  same_core st st' /\ st' = st_with_sections_subgroups st (st_sections_subgroups st').
Proof.
  intros H H'. destruct gs.
  pose proof (field_base_path _ _ _ _ H H' eq_refl) as E_base_path.
  pose proof (field_linker_symbols_style _ _ _ _ H H' eq_refl) as E_linker_symbols_style.
  pose proof (field_hardcoded_gp_value _ _ _ _ H H' eq_refl) as E_hardcoded_gp_value.
  pose proof (field_d_path _ _ _ _ H H' eq_refl) as E_d_path.
  pose proof (field_target_path _ _ _ _ H H' eq_refl) as E_target_path.
  pose proof (field_symbols_header_path _ _ _ _ H H' eq_refl) as E_symbols_header_path.
  pose proof (field_symbols_header_type _ _ _ _ H H' eq_refl) as E_symbols_header_type.
  pose proof (field_symbols_header_as_array _ _ _ _ H H' eq_refl) as E_symbols_header_as_array.
  pose proof (field_sections_allowlist _ _ _ _ H H' eq_refl) as E_sections_allowlist.
  pose proof (field_sections_allowlist_extra _ _ _ _ H H' eq_refl) as E_sections_allowlist_extra.
  pose proof (field_sections_denylist _ _ _ _ H H' eq_refl) as E_sections_denylist.
  pose proof (field_discard_wildcard_section _ _ _ _ H H' eq_refl) as E_discard_wildcard_section.
  pose proof (field_single_segment_mode _ _ _ _ H H' eq_refl) as E_single_segment_mode.
  pose proof (field_partial_scripts_folder _ _ _ _ H H' eq_refl) as E_partial_scripts_folder.
  pose proof (field_partial_build_segments_folder _ _ _ _ H H' eq_refl) as E_partial_build_segments_folder.
  pose proof (field_alloc_sections _ _ _ _ H H' eq_refl) as E_alloc_sections.
  pose proof (field_noload_sections _ _ _ _ H H' eq_refl) as E_noload_sections.
  pose proof (field_subalign _ _ _ _ H H' eq_refl) as E_subalign.
  pose proof (field_segment_start_align _ _ _ _ H H' eq_refl) as E_segment_start_align.
  pose proof (field_segment_end_align _ _ _ _ H H' eq_refl) as E_segment_end_align.
  pose proof (field_section_start_align _ _ _ _ H H' eq_refl) as E_section_start_align.
  pose proof (field_section_end_align _ _ _ _ H H' eq_refl) as E_section_end_align.
  pose proof (field_sections_start_alignment _ _ _ _ H H' eq_refl) as E_sections_start_alignment.
  pose proof (field_sections_end_alignment _ _ _ _ H H' eq_refl) as E_sections_end_alignment.
  pose proof (field_wildcard_sections _ _ _ _ H H' eq_refl) as E_wildcard_sections.
  pose proof (field_fill_value _ _ _ _ H H' eq_refl) as E_fill_value.
  clear H H'. destruct st as [b1 b2 b3 b4 b5 b6 b7 b8 b9 b10 b11 b12 b13 b14 b15 b16 b17 b18 b19 b20 b21 b22 b23 b24 b25 b26 b27], st' as [c1 c2 c3 c4 c5 c6 c7 c8 c9 c10 c11 c12 c13 c14 c15 c16 c17 c18 c19 c20 c21 c22 c23 c24 c25 c26 c27]. unfold same_core, st_with_sections_subgroups.
  cbn [base_path linker_symbols_style hardcoded_gp_value d_path target_path symbols_header_path symbols_header_type symbols_header_as_array sections_allowlist sections_allowlist_extra sections_denylist discard_wildcard_section single_segment_mode partial_scripts_folder partial_build_segments_folder st_alloc_sections st_noload_sections st_subalign st_segment_start_align st_segment_end_align st_section_start_align st_section_end_align st_sections_start_alignment st_sections_end_alignment st_wildcard_sections st_fill_value st_sections_subgroups] in *. subst.
  repeat split.
Qed.

Lemma shielding_document_alloc_sections sd gs v d d' :
  parse sd = Ok d -> ds_settings sd = Value gs -> all_segments_give ss_alloc_sections sd ->
  parse (sd_with_settings sd (Value (sts_with_alloc_sections gs v))) = Ok d' ->
  d' = doc_with_settings d (doc_settings d') /\ same_core (doc_settings d) (doc_settings d').
Proof.
  intros H Eg Hall H'. apply (shield_document sd gs _ d d' H Eg H').
  intros st st' Es Es'. destruct (changed_global_alloc_sections _ _ _ _ Es Es') as [Hc Ew]. split; [exact Hc|].
  intros s Hin. rewrite Ew. apply shielding_whole_alloc_sections.
  unfold all_segments_give in Hall. destruct (ds_segments sd) as [l|]; [|destruct Hin].
  exact (proj1 (Forall_forall _ _) (Hall l eq_refl) s Hin).
Qed.

Lemma shielding_document_noload_sections sd gs v d d' :
  parse sd = Ok d -> ds_settings sd = Value gs -> all_segments_give ss_noload_sections sd ->
  parse (sd_with_settings sd (Value (sts_with_noload_sections gs v))) = Ok d' ->
  d' = doc_with_settings d (doc_settings d') /\ same_core (doc_settings d) (doc_settings d').
Proof.
  intros H Eg Hall H'. apply (shield_document sd gs _ d d' H Eg H').
  intros st st' Es Es'. destruct (changed_global_noload_sections _ _ _ _ Es Es') as [Hc Ew]. split; [exact Hc|].
  intros s Hin. rewrite Ew. apply shielding_whole_noload_sections.
  unfold all_segments_give in Hall. destruct (ds_segments sd) as [l|]; [|destruct Hin].
  exact (proj1 (Forall_forall _ _) (Hall l eq_refl) s Hin).
Qed.

Lemma shielding_document_subalign sd gs v d d' :
  parse sd = Ok d -> ds_settings sd = Value gs -> all_segments_give ss_subalign sd ->
  parse (sd_with_settings sd (Value (sts_with_subalign gs v))) = Ok d' ->
  d' = doc_with_settings d (doc_settings d') /\ same_core (doc_settings d) (doc_settings d').
Proof.
  intros H Eg Hall H'. apply (shield_document sd gs _ d d' H Eg H').
  intros st st' Es Es'. destruct (changed_global_subalign _ _ _ _ Es Es') as [Hc Ew]. split; [exact Hc|].
  intros s Hin. rewrite Ew. apply shielding_whole_subalign.
  unfold all_segments_give in Hall. destruct (ds_segments sd) as [l|]; [|destruct Hin].
  exact (proj1 (Forall_forall _ _) (Hall l eq_refl) s Hin).
Qed.

Lemma shielding_document_segment_start_align sd gs v d d' :
  parse sd = Ok d -> ds_settings sd = Value gs -> all_segments_give ss_segment_start_align sd ->
  parse (sd_with_settings sd (Value (sts_with_segment_start_align gs v))) = Ok d' ->
  d' = doc_with_settings d (doc_settings d') /\ same_core (doc_settings d) (doc_settings d').
Proof.
  intros H Eg Hall H'. apply (shield_document sd gs _ d d' H Eg H').
  intros st st' Es Es'. destruct (changed_global_segment_start_align _ _ _ _ Es Es') as [Hc Ew]. split; [exact Hc|].
  intros s Hin. rewrite Ew. apply shielding_whole_segment_start_align.
  unfold all_segments_give in Hall. destruct (ds_segments sd) as [l|]; [|destruct Hin].
  exact (proj1 (Forall_forall _ _) (Hall l eq_refl) s Hin).
Qed.

Lemma shielding_document_segment_end_align sd gs v d d' :
  parse sd = Ok d -> ds_settings sd = Value gs -> all_segments_give ss_segment_end_align sd ->
  parse (sd_with_settings sd (Value (sts_with_segment_end_align gs v))) = Ok d' ->
  d' = doc_with_settings d (doc_settings d') /\ same_core (doc_settings d) (doc_settings d').
Proof.
  intros H Eg Hall H'. apply (shield_document sd gs _ d d' H Eg H').
  intros st st' Es Es'. destruct (changed_global_segment_end_align _ _ _ _ Es Es') as [Hc Ew]. split; [exact Hc|].
  intros s Hin. rewrite Ew. apply shielding_whole_segment_end_align.
  unfold all_segments_give in Hall. destruct (ds_segments sd) as [l|]; [|destruct Hin].
  exact (proj1 (Forall_forall _ _) (Hall l eq_refl) s Hin).
Qed.

Lemma shielding_document_section_start_align sd gs v d d' :
  parse sd = Ok d -> ds_settings sd = Value gs -> all_segments_give ss_section_start_align sd ->
  parse (sd_with_settings sd (Value (sts_with_section_start_align gs v))) = Ok d' ->
  d' = doc_with_settings d (doc_settings d') /\ same_core (doc_settings d) (doc_settings d').
Proof.
  intros H Eg Hall H'. apply (shield_document sd gs _ d d' H Eg H').
  intros st st' Es Es'. destruct (changed_global_section_start_align _ _ _ _ Es Es') as [Hc Ew]. split; [exact Hc|].
  intros s Hin. rewrite Ew. apply shielding_whole_section_start_align.
  unfold all_segments_give in Hall. destruct (ds_segments sd) as [l|]; [|destruct Hin].
  exact (proj1 (Forall_forall _ _) (Hall l eq_refl) s Hin).
Qed.

Lemma shielding_document_section_end_align sd gs v d d' :
  parse sd = Ok d -> ds_settings sd = Value gs -> all_segments_give ss_section_end_align sd ->
  parse (sd_with_settings sd (Value (sts_with_section_end_align gs v))) = Ok d' ->
  d' = doc_with_settings d (doc_settings d') /\ same_core (doc_settings d) (doc_settings d').
Proof.
  intros H Eg Hall H'. apply (shield_document sd gs _ d d' H Eg H').
  intros st st' Es Es'. destruct (changed_global_section_end_align _ _ _ _ Es Es') as [Hc Ew]. split; [exact Hc|].
  intros s Hin. rewrite Ew. apply shielding_whole_section_end_align.
  unfold all_segments_give in Hall. destruct (ds_segments sd) as [l|]; [|destruct Hin].
  exact (proj1 (Forall_forall _ _) (Hall l eq_refl) s Hin).
Qed.

Lemma shielding_document_sections_start_alignment sd gs v d d' :
  parse sd = Ok d -> ds_settings sd = Value gs -> all_segments_give ss_sections_start_alignment sd ->
  parse (sd_with_settings sd (Value (sts_with_sections_start_alignment gs v))) = Ok d' ->
  d' = doc_with_settings d (doc_settings d') /\ same_core (doc_settings d) (doc_settings d').
Proof.
  intros H Eg Hall H'. apply (shield_document sd gs _ d d' H Eg H').
  intros st st' Es Es'. destruct (changed_global_sections_start_alignment _ _ _ _ Es Es') as [Hc Ew]. split; [exact Hc|].
  intros s Hin. rewrite Ew. apply shielding_whole_sections_start_alignment.
  unfold all_segments_give in Hall. destruct (ds_segments sd) as [l|]; [|destruct Hin].
  exact (proj1 (Forall_forall _ _) (Hall l eq_refl) s Hin).
Qed.

Lemma shielding_document_sections_end_alignment sd gs v d d' :
  parse sd = Ok d -> ds_settings sd = Value gs -> all_segments_give ss_sections_end_alignment sd ->
  parse (sd_with_settings sd (Value (sts_with_sections_end_alignment gs v))) = Ok d' ->
  d' = doc_with_settings d (doc_settings d') /\ same_core (doc_settings d) (doc_settings d').
Proof.
  intros H Eg Hall H'. apply (shield_document sd gs _ d d' H Eg H').
  intros st st' Es Es'. destruct (changed_global_sections_end_alignment _ _ _ _ Es Es') as [Hc Ew]. split; [exact Hc|].
  intros s Hin. rewrite Ew. apply shielding_whole_sections_end_alignment.
  unfold all_segments_give in Hall. destruct (ds_segments sd) as [l|]; [|destruct Hin].
  exact (proj1 (Forall_forall _ _) (Hall l eq_refl) s Hin).
Qed.

Lemma shielding_document_wildcard_sections sd gs v d d' :
  parse sd = Ok d -> ds_settings sd = Value gs -> all_segments_give ss_wildcard_sections sd ->
  parse (sd_with_settings sd (Value (sts_with_wildcard_sections gs v))) = Ok d' ->
  d' = doc_with_settings d (doc_settings d') /\ same_core (doc_settings d) (doc_settings d').
Proof.
  intros H Eg Hall H'. apply (shield_document sd gs _ d d' H Eg H').
  intros st st' Es Es'. destruct (changed_global_wildcard_sections _ _ _ _ Es Es') as [Hc Ew]. split; [exact Hc|].
  intros s Hin. rewrite Ew. apply shielding_whole_wildcard_sections.
  unfold all_segments_give in Hall. destruct (ds_segments sd) as [l|]; [|destruct Hin].
  exact (proj1 (Forall_forall _ _) (Hall l eq_refl) s Hin).
Qed.

Lemma shielding_document_fill_value sd gs v d d' :
  parse sd = Ok d -> ds_settings sd = Value gs -> all_segments_give ss_fill_value sd ->
  parse (sd_with_settings sd (Value (sts_with_fill_value gs v))) = Ok d' ->
  d' = doc_with_settings d (doc_settings d') /\ same_core (doc_settings d) (doc_settings d').
Proof.
  intros H Eg Hall H'. apply (shield_document sd gs _ d d' H Eg H').
  intros st st' Es Es'. destruct (changed_global_fill_value _ _ _ _ Es Es') as [Hc Ew]. split; [exact Hc|].
  intros s Hin. rewrite Ew. apply shielding_whole_fill_value.
  unfold all_segments_give in Hall. destruct (ds_segments sd) as [l|]; [|destruct Hin].
  exact (proj1 (Forall_forall _ _) (Hall l eq_refl) s Hin).
Qed.

Lemma shielding_document_sections_subgroups sd gs v d d' :
  parse sd = Ok d -> ds_settings sd = Value gs -> all_segments_give ss_sections_subgroups sd ->
  parse (sd_with_settings sd (Value (sts_with_sections_subgroups gs v))) = Ok d' ->
  d' = doc_with_settings d (doc_settings d') /\ same_core (doc_settings d) (doc_settings d').
Proof.
  intros H Eg Hall H'. apply (shield_document sd gs _ d d' H Eg H').
  intros st st' Es Es'. destruct (changed_global_sections_subgroups _ _ _ _ Es Es') as [Hc Ew]. split; [exact Hc|].
  intros s Hin. rewrite Ew. apply shielding_whole_sections_subgroups.
  unfold all_segments_give in Hall. destruct (ds_segments sd) as [l|]; [|destruct Hin].
  exact (proj1 (Forall_forall _ _) (Hall l eq_refl) s Hin).
Qed.

Lemma with_settings_overridable d st' :
  same_core (doc_settings d) st' -> same_but_overridable d (doc_with_settings d st').
Proof. intro H. unfold same_but_overridable, doc_with_settings. split; [exact H | cbn; repeat split]. Qed.

Lemma same_outputs_cli sd sd' d d' :
  parse sd = Ok d -> parse sd' = Ok d' -> same_doc_outputs d d' -> same_cli sd sd'.
Proof.
  intros H H' O a. unfold cli_run. rewrite H, H'.
  destruct (parse_key_vals (cli_options a)) as [opts|]; [|reflexivity].
  destruct (negb (forallb (fun kv => key_valid (fst kv)) opts)); [reflexivity|]. cbv zeta.
  destruct (O (Runtime opts (negb (cli_omit_version_comment a)))) as (En & Ep & _ & _ & Esn & Esp & Eex).
  rewrite <- En, <- Ep. destruct (cli_partial a).
  - destruct (gen_partial d _) as [p|]; [|reflexivity].
    destruct (cli_output a) as [o|].
    + destruct (escape_path _ o) as [path|]; [|reflexivity]. rewrite <- Eex, <- Esp. reflexivity.
    + rewrite <- Esp. reflexivity.
  - destruct (gen_normal d _) as [w|]; [|reflexivity].
    destruct (cli_output a) as [o|].
    + destruct (escape_path _ o) as [path|]; [|reflexivity]. rewrite <- Esn. reflexivity.
    + rewrite <- Esn. reflexivity.
Qed.

Lemma shielding_document sd sd' d d' :
  parse sd = Ok d -> global_changed sd sd' -> parse sd' = Ok d' ->
  d' = doc_with_settings d (doc_settings d') /\ same_core (doc_settings d) (doc_settings d').
Proof.
  intros H G H'. destruct G.
  - eapply shielding_document_alloc_sections; eassumption.
  - eapply shielding_document_noload_sections; eassumption.
  - eapply shielding_document_subalign; eassumption.
  - eapply shielding_document_segment_start_align; eassumption.
  - eapply shielding_document_segment_end_align; eassumption.
  - eapply shielding_document_section_start_align; eassumption.
  - eapply shielding_document_section_end_align; eassumption.
  - eapply shielding_document_sections_start_alignment; eassumption.
  - eapply shielding_document_sections_end_alignment; eassumption.
  - eapply shielding_document_wildcard_sections; eassumption.
  - eapply shielding_document_fill_value; eassumption.
  - eapply shielding_document_sections_subgroups; eassumption.
Qed.

Lemma shielding_outputs sd sd' d d' :
  parse sd = Ok d -> global_changed sd sd' -> parse sd' = Ok d' ->
  same_but_overridable d d' /\ same_doc_outputs d d' /\ same_cli sd sd'.
Proof.
  intros H G H'. destruct (shielding_document _ _ _ _ H G H') as [Ed Hc].
  assert (Ho : same_but_overridable d d') by (rewrite Ed; apply with_settings_overridable; exact Hc).
  split; [exact Ho|]. pose proof (outputs_read_only_the_core _ _ Ho) as O.
  split; [exact O | exact (same_outputs_cli _ _ _ _ H H' O)].
Qed.

(* ---------- shielding at output level, per option ---------- *)

Lemma shielding_outputs_alloc_sections : forall sd gs v d d',
  parse sd = Ok d -> ds_settings sd = Value gs -> all_segments_give ss_alloc_sections sd ->
  parse (sd_with_settings sd (Value (sts_with_alloc_sections gs v))) = Ok d' ->
  d' = doc_with_settings d (doc_settings d') /\ same_core (doc_settings d) (doc_settings d') /\
  same_doc_outputs d d' /\ same_cli sd (sd_with_settings sd (Value (sts_with_alloc_sections gs v))).
Proof.
  intros sd gs v d d' H Eg Hall H'.
  pose proof (gc_alloc_sections sd gs v Eg Hall) as G.
  destruct (shielding_document _ _ _ _ H G H') as [Ed Hc].
  destruct (shielding_outputs _ _ _ _ H G H') as [_ [O C]]. auto.
Qed.

Lemma shielding_outputs_noload_sections : forall sd gs v d d',
  parse sd = Ok d -> ds_settings sd = Value gs -> all_segments_give ss_noload_sections sd ->
  parse (sd_with_settings sd (Value (sts_with_noload_sections gs v))) = Ok d' ->
  d' = doc_with_settings d (doc_settings d') /\ same_core (doc_settings d) (doc_settings d') /\
  same_doc_outputs d d' /\ same_cli sd (sd_with_settings sd (Value (sts_with_noload_sections gs v))).
Proof.
  intros sd gs v d d' H Eg Hall H'.
  pose proof (gc_noload_sections sd gs v Eg Hall) as G.
  destruct (shielding_document _ _ _ _ H G H') as [Ed Hc].
  destruct (shielding_outputs _ _ _ _ H G H') as [_ [O C]]. auto.
Qed.

Lemma shielding_outputs_subalign : forall sd gs v d d',
  parse sd = Ok d -> ds_settings sd = Value gs -> all_segments_give ss_subalign sd ->
  parse (sd_with_settings sd (Value (sts_with_subalign gs v))) = Ok d' ->
  d' = doc_with_settings d (doc_settings d') /\ same_core (doc_settings d) (doc_settings d') /\
  same_doc_outputs d d' /\ same_cli sd (sd_with_settings sd (Value (sts_with_subalign gs v))).
Proof.
  intros sd gs v d d' H Eg Hall H'.
  pose proof (gc_subalign sd gs v Eg Hall) as G.
  destruct (shielding_document _ _ _ _ H G H') as [Ed Hc].
  destruct (shielding_outputs _ _ _ _ H G H') as [_ [O C]]. auto.
Qed.

Lemma shielding_outputs_segment_start_align : forall sd gs v d d',
  parse sd = Ok d -> ds_settings sd = Value gs -> all_segments_give ss_segment_start_align sd ->
  parse (sd_with_settings sd (Value (sts_with_segment_start_align gs v))) = Ok d' ->
  d' = doc_with_settings d (doc_settings d') /\ same_core (doc_settings d) (doc_settings d') /\
  same_doc_outputs d d' /\ same_cli sd (sd_with_settings sd (Value (sts_with_segment_start_align gs v))).
Proof.
  intros sd gs v d d' H Eg Hall H'.
  pose proof (gc_segment_start_align sd gs v Eg Hall) as G.
  destruct (shielding_document _ _ _ _ H G H') as [Ed Hc].
  destruct (shielding_outputs _ _ _ _ H G H') as [_ [O C]]. auto.
Qed.

Lemma shielding_outputs_segment_end_align : forall sd gs v d d',
  parse sd = Ok d -> ds_settings sd = Value gs -> all_segments_give ss_segment_end_align sd ->
  parse (sd_with_settings sd (Value (sts_with_segment_end_align gs v))) = Ok d' ->
  d' = doc_with_settings d (doc_settings d') /\ same_core (doc_settings d) (doc_settings d') /\
  same_doc_outputs d d' /\ same_cli sd (sd_with_settings sd (Value (sts_with_segment_end_align gs v))).
Proof.
  intros sd gs v d d' H Eg Hall H'.
  pose proof (gc_segment_end_align sd gs v Eg Hall) as G.
  destruct (shielding_document _ _ _ _ H G H') as [Ed Hc].
  destruct (shielding_outputs _ _ _ _ H G H') as [_ [O C]]. auto.
Qed.

Lemma shielding_outputs_section_start_align : forall sd gs v d d',
  parse sd = Ok d -> ds_settings sd = Value gs -> all_segments_give ss_section_start_align sd ->
  parse (sd_with_settings sd (Value (sts_with_section_start_align gs v))) = Ok d' ->
  d' = doc_with_settings d (doc_settings d') /\ same_core (doc_settings d) (doc_settings d') /\
  same_doc_outputs d d' /\ same_cli sd (sd_with_settings sd (Value (sts_with_section_start_align gs v))).
Proof.
  intros sd gs v d d' H Eg Hall H'.
  pose proof (gc_section_start_align sd gs v Eg Hall) as G.
  destruct (shielding_document _ _ _ _ H G H') as [Ed Hc].
  destruct (shielding_outputs _ _ _ _ H G H') as [_ [O C]]. auto.
Qed.

Lemma shielding_outputs_section_end_align : forall sd gs v d d',
  parse sd = Ok d -> ds_settings sd = Value gs -> all_segments_give ss_section_end_align sd ->
  parse (sd_with_settings sd (Value (sts_with_section_end_align gs v))) = Ok d' ->
  d' = doc_with_settings d (doc_settings d') /\ same_core (doc_settings d) (doc_settings d') /\
  same_doc_outputs d d' /\ same_cli sd (sd_with_settings sd (Value (sts_with_section_end_align gs v))).
Proof.
  intros sd gs v d d' H Eg Hall H'.
  pose proof (gc_section_end_align sd gs v Eg Hall) as G.
  destruct (shielding_document _ _ _ _ H G H') as [Ed Hc].
  destruct (shielding_outputs _ _ _ _ H G H') as [_ [O C]]. auto.
Qed.

Lemma shielding_outputs_sections_start_alignment : forall sd gs v d d',
  parse sd = Ok d -> ds_settings sd = Value gs -> all_segments_give ss_sections_start_alignment sd ->
  parse (sd_with_settings sd (Value (sts_with_sections_start_alignment gs v))) = Ok d' ->
  d' = doc_with_settings d (doc_settings d') /\ same_core (doc_settings d) (doc_settings d') /\
  same_doc_outputs d d' /\ same_cli sd (sd_with_settings sd (Value (sts_with_sections_start_alignment gs v))).
Proof.
  intros sd gs v d d' H Eg Hall H'.
  pose proof (gc_sections_start_alignment sd gs v Eg Hall) as G.
  destruct (shielding_document _ _ _ _ H G H') as [Ed Hc].
  destruct (shielding_outputs _ _ _ _ H G H') as [_ [O C]]. auto.
Qed.

Lemma shielding_outputs_sections_end_alignment : forall sd gs v d d',
  parse sd = Ok d -> ds_settings sd = Value gs -> all_segments_give ss_sections_end_alignment sd ->
  parse (sd_with_settings sd (Value (sts_with_sections_end_alignment gs v))) = Ok d' ->
  d' = doc_with_settings d (doc_settings d') /\ same_core (doc_settings d) (doc_settings d') /\
  same_doc_outputs d d' /\ same_cli sd (sd_with_settings sd (Value (sts_with_sections_end_alignment gs v))).
Proof.
  intros sd gs v d d' H Eg Hall H'.
  pose proof (gc_sections_end_alignment sd gs v Eg Hall) as G.
  destruct (shielding_document _ _ _ _ H G H') as [Ed Hc].
  destruct (shielding_outputs _ _ _ _ H G H') as [_ [O C]]. auto.
Qed.

Lemma shielding_outputs_wildcard_sections : forall sd gs v d d',
  parse sd = Ok d -> ds_settings sd = Value gs -> all_segments_give ss_wildcard_sections sd ->
  parse (sd_with_settings sd (Value (sts_with_wildcard_sections gs v))) = Ok d' ->
  d' = doc_with_settings d (doc_settings d') /\ same_core (doc_settings d) (doc_settings d') /\
  same_doc_outputs d d' /\ same_cli sd (sd_with_settings sd (Value (sts_with_wildcard_sections gs v))).
Proof.
  intros sd gs v d d' H Eg Hall H'.
  pose proof (gc_wildcard_sections sd gs v Eg Hall) as G.
  destruct (shielding_document _ _ _ _ H G H') as [Ed Hc].
  destruct (shielding_outputs _ _ _ _ H G H') as [_ [O C]]. auto.
Qed.

Lemma shielding_outputs_fill_value : forall sd gs v d d',
  parse sd = Ok d -> ds_settings sd = Value gs -> all_segments_give ss_fill_value sd ->
  parse (sd_with_settings sd (Value (sts_with_fill_value gs v))) = Ok d' ->
  d' = doc_with_settings d (doc_settings d') /\ same_core (doc_settings d) (doc_settings d') /\
  same_doc_outputs d d' /\ same_cli sd (sd_with_settings sd (Value (sts_with_fill_value gs v))).
Proof.
  intros sd gs v d d' H Eg Hall H'.
  pose proof (gc_fill_value sd gs v Eg Hall) as G.
  destruct (shielding_document _ _ _ _ H G H') as [Ed Hc].
  destruct (shielding_outputs _ _ _ _ H G H') as [_ [O C]]. auto.
Qed.

Lemma shielding_outputs_sections_subgroups : forall sd gs v d d',
  parse sd = Ok d -> ds_settings sd = Value gs -> all_segments_give ss_sections_subgroups sd ->
  parse (sd_with_settings sd (Value (sts_with_sections_subgroups gs v))) = Ok d' ->
  d' = doc_with_settings d (doc_settings d') /\ same_core (doc_settings d) (doc_settings d') /\
  same_doc_outputs d d' /\ same_cli sd (sd_with_settings sd (Value (sts_with_sections_subgroups gs v))).
Proof.
  intros sd gs v d d' H Eg Hall H'.
  pose proof (gc_sections_subgroups sd gs v Eg Hall) as G.
  destruct (shielding_document _ _ _ _ H G H') as [Ed Hc].
  destruct (shielding_outputs _ _ _ _ H G H') as [_ [O C]]. auto.
Qed.

Lemma same_parse_same_outputs sd sd' : parse sd' = parse sd -> same_cli sd sd' /\ same_run_case sd sd'.
Proof. intro E. split; [exact (same_parse_cli sd sd' E) | exact (same_parse_run_case sd sd' E)]. Qed.

(* ---------- shielding of ONE segment, whatever the other segments do ---------- *)

Lemma sd_settings_value sd gs st : ds_settings sd = Value gs -> sd_settings sd = Ok st -> parse_settings gs = Ok st.
Proof. unfold sd_settings. intros E H. rewrite E in H. exact H. Qed.

Lemma shield_segment_document sd gs gs' d d' i s :
  parse sd = Ok d -> ds_settings sd = Value gs -> parse (sd_with_settings sd (Value gs')) = Ok d' ->
  sd_segment sd i = Some s ->
  (forall st st', parse_settings gs = Ok st -> parse_settings gs' = Ok st' ->
                  parse_segment st' s = parse_segment st s) ->
  doc_segment d' i = doc_segment d i /\ exists seg, doc_segment d i = Some seg.
Proof.
  intros H Eg H' Es Hs.
  destruct (parse_inv _ _ H) as [_ [scl [segs [Est [Escl [Ecl [Em Eseg]]]]]]].
  destruct (parse_inv _ _ H') as [_ [scl' [segs' [Est' [Escl' [Ecl' [Em' Eseg']]]]]]].
  pose proof (sd_settings_value _ _ _ Eg Est) as Ps.
  pose proof (sd_settings_value (sd_with_settings sd (Value gs')) gs' _ eq_refl Est') as Ps'.
  cbn [sd_with_settings ds_vram_classes ds_segments] in Escl', Em'.
  rewrite Escl in Escl'. injection Escl' as Escl'. subst scl'.
  rewrite Ecl in Ecl'. injection Ecl' as Ecl'.
  unfold sd_segment in Es. destruct (ds_segments sd) as [l|]; [|discriminate].
  destruct (map_res_nth_error _ _ _ _ _ Em Es) as [seg0 [En Ep]].
  destruct (map_res_nth_error _ _ _ _ _ Em' Es) as [seg0' [En' Ep']].
  rewrite (Hs _ _ Ps Ps'), Ep in Ep'. injection Ep' as Ep'. subst seg0'.
  unfold doc_segment. rewrite Eseg, Eseg', !nth_error_map, En, En', <- Ecl'. cbn [option_map].
  split; [reflexivity | eexists; reflexivity].
Qed.

Lemma shielding_segment_document_alloc_sections : forall sd gs v d d' i s,
  parse sd = Ok d -> ds_settings sd = Value gs ->
  parse (sd_with_settings sd (Value (sts_with_alloc_sections gs v))) = Ok d' ->
  sd_segment sd i = Some s -> given (ss_alloc_sections s) ->
  doc_segment d' i = doc_segment d i /\ exists seg, doc_segment d i = Some seg.
Proof.
  intros sd gs v d d' i s H Eg H' Es G. apply (shield_segment_document sd gs _ d d' i s H Eg H' Es).
  intros st st' Ps Ps'. destruct (changed_global_alloc_sections _ _ _ _ Ps Ps') as [_ Ew]. rewrite Ew.
  apply shielding_whole_alloc_sections. exact G.
Qed.

Lemma shielding_segment_document_noload_sections : forall sd gs v d d' i s,
  parse sd = Ok d -> ds_settings sd = Value gs ->
  parse (sd_with_settings sd (Value (sts_with_noload_sections gs v))) = Ok d' ->
  sd_segment sd i = Some s -> given (ss_noload_sections s) ->
  doc_segment d' i = doc_segment d i /\ exists seg, doc_segment d i = Some seg.
Proof.
  intros sd gs v d d' i s H Eg H' Es G. apply (shield_segment_document sd gs _ d d' i s H Eg H' Es).
  intros st st' Ps Ps'. destruct (changed_global_noload_sections _ _ _ _ Ps Ps') as [_ Ew]. rewrite Ew.
  apply shielding_whole_noload_sections. exact G.
Qed.

Lemma shielding_segment_document_subalign : forall sd gs v d d' i s,
  parse sd = Ok d -> ds_settings sd = Value gs ->
  parse (sd_with_settings sd (Value (sts_with_subalign gs v))) = Ok d' ->
  sd_segment sd i = Some s -> given (ss_subalign s) ->
  doc_segment d' i = doc_segment d i /\ exists seg, doc_segment d i = Some seg.
Proof.
  intros sd gs v d d' i s H Eg H' Es G. apply (shield_segment_document sd gs _ d d' i s H Eg H' Es).
  intros st st' Ps Ps'. destruct (changed_global_subalign _ _ _ _ Ps Ps') as [_ Ew]. rewrite Ew.
  apply shielding_whole_subalign. exact G.
Qed.

Lemma shielding_segment_document_segment_start_align : forall sd gs v d d' i s,
  parse sd = Ok d -> ds_settings sd = Value gs ->
  parse (sd_with_settings sd (Value (sts_with_segment_start_align gs v))) = Ok d' ->
  sd_segment sd i = Some s -> given (ss_segment_start_align s) ->
  doc_segment d' i = doc_segment d i /\ exists seg, doc_segment d i = Some seg.
Proof.
  intros sd gs v d d' i s H Eg H' Es G. apply (shield_segment_document sd gs _ d d' i s H Eg H' Es).
  intros st st' Ps Ps'. destruct (changed_global_segment_start_align _ _ _ _ Ps Ps') as [_ Ew]. rewrite Ew.
  apply shielding_whole_segment_start_align. exact G.
Qed.

Lemma shielding_segment_document_segment_end_align : forall sd gs v d d' i s,
  parse sd = Ok d -> ds_settings sd = Value gs ->
  parse (sd_with_settings sd (Value (sts_with_segment_end_align gs v))) = Ok d' ->
  sd_segment sd i = Some s -> given (ss_segment_end_align s) ->
  doc_segment d' i = doc_segment d i /\ exists seg, doc_segment d i = Some seg.
Proof.
  intros sd gs v d d' i s H Eg H' Es G. apply (shield_segment_document sd gs _ d d' i s H Eg H' Es).
  intros st st' Ps Ps'. destruct (changed_global_segment_end_align _ _ _ _ Ps Ps') as [_ Ew]. rewrite Ew.
  apply shielding_whole_segment_end_align. exact G.
Qed.

Lemma shielding_segment_document_section_start_align : forall sd gs v d d' i s,
  parse sd = Ok d -> ds_settings sd = Value gs ->
  parse (sd_with_settings sd (Value (sts_with_section_start_align gs v))) = Ok d' ->
  sd_segment sd i = Some s -> given (ss_section_start_align s) ->
  doc_segment d' i = doc_segment d i /\ exists seg, doc_segment d i = Some seg.
Proof.
  intros sd gs v d d' i s H Eg H' Es G. apply (shield_segment_document sd gs _ d d' i s H Eg H' Es).
  intros st st' Ps Ps'. destruct (changed_global_section_start_align _ _ _ _ Ps Ps') as [_ Ew]. rewrite Ew.
  apply shielding_whole_section_start_align. exact G.
Qed.

Lemma shielding_segment_document_section_end_align : forall sd gs v d d' i s,
  parse sd = Ok d -> ds_settings sd = Value gs ->
  parse (sd_with_settings sd (Value (sts_with_section_end_align gs v))) = Ok d' ->
  sd_segment sd i = Some s -> given (ss_section_end_align s) ->
  doc_segment d' i = doc_segment d i /\ exists seg, doc_segment d i = Some seg.
Proof.
  intros sd gs v d d' i s H Eg H' Es G. apply (shield_segment_document sd gs _ d d' i s H Eg H' Es).
  intros st st' Ps Ps'. destruct (changed_global_section_end_align _ _ _ _ Ps Ps') as [_ Ew]. rewrite Ew.
  apply shielding_whole_section_end_align. exact G.
Qed.

Lemma shielding_segment_document_sections_start_alignment : forall sd gs v d d' i s,
  parse sd = Ok d -> ds_settings sd = Value gs ->
  parse (sd_with_settings sd (Value (sts_with_sections_start_alignment gs v))) = Ok d' ->
  sd_segment sd i = Some s -> given (ss_sections_start_alignment s) ->
  doc_segment d' i = doc_segment d i /\ exists seg, doc_segment d i = Some seg.
Proof.
  intros sd gs v d d' i s H Eg H' Es G. apply (shield_segment_document sd gs _ d d' i s H Eg H' Es).
  intros st st' Ps Ps'. destruct (changed_global_sections_start_alignment _ _ _ _ Ps Ps') as [_ Ew]. rewrite Ew.
  apply shielding_whole_sections_start_alignment. exact G.
Qed.

Lemma shielding_segment_document_sections_end_alignment : forall sd gs v d d' i s,
  parse sd = Ok d -> ds_settings sd = Value gs ->
  parse (sd_with_settings sd (Value (sts_with_sections_end_alignment gs v))) = Ok d' ->
  sd_segment sd i = Some s -> given (ss_sections_end_alignment s) ->
  doc_segment d' i = doc_segment d i /\ exists seg, doc_segment d i = Some seg.
Proof.
  intros sd gs v d d' i s H Eg H' Es G. apply (shield_segment_document sd gs _ d d' i s H Eg H' Es).
  intros st st' Ps Ps'. destruct (changed_global_sections_end_alignment _ _ _ _ Ps Ps') as [_ Ew]. rewrite Ew.
  apply shielding_whole_sections_end_alignment. exact G.
Qed.

Lemma shielding_segment_document_wildcard_sections : forall sd gs v d d' i s,
  parse sd = Ok d -> ds_settings sd = Value gs ->
  parse (sd_with_settings sd (Value (sts_with_wildcard_sections gs v))) = Ok d' ->
  sd_segment sd i = Some s -> given (ss_wildcard_sections s) ->
  doc_segment d' i = doc_segment d i /\ exists seg, doc_segment d i = Some seg.
Proof.
  intros sd gs v d d' i s H Eg H' Es G. apply (shield_segment_document sd gs _ d d' i s H Eg H' Es).
  intros st st' Ps Ps'. destruct (changed_global_wildcard_sections _ _ _ _ Ps Ps') as [_ Ew]. rewrite Ew.
  apply shielding_whole_wildcard_sections. exact G.
Qed.

Lemma shielding_segment_document_fill_value : forall sd gs v d d' i s,
  parse sd = Ok d -> ds_settings sd = Value gs ->
  parse (sd_with_settings sd (Value (sts_with_fill_value gs v))) = Ok d' ->
  sd_segment sd i = Some s -> given (ss_fill_value s) ->
  doc_segment d' i = doc_segment d i /\ exists seg, doc_segment d i = Some seg.
Proof.
  intros sd gs v d d' i s H Eg H' Es G. apply (shield_segment_document sd gs _ d d' i s H Eg H' Es).
  intros st st' Ps Ps'. destruct (changed_global_fill_value _ _ _ _ Ps Ps') as [_ Ew]. rewrite Ew.
  apply shielding_whole_fill_value. exact G.
Qed.

Lemma shielding_segment_document_sections_subgroups : forall sd gs v d d' i s,
  parse sd = Ok d -> ds_settings sd = Value gs ->
  parse (sd_with_settings sd (Value (sts_with_sections_subgroups gs v))) = Ok d' ->
  sd_segment sd i = Some s -> given (ss_sections_subgroups s) ->
  doc_segment d' i = doc_segment d i /\ exists seg, doc_segment d i = Some seg.
Proof.
  intros sd gs v d d' i s H Eg H' Es G. apply (shield_segment_document sd gs _ d d' i s H Eg H' Es).
  intros st st' Ps Ps'. destruct (changed_global_sections_subgroups _ _ _ _ Ps Ps') as [_ Ew]. rewrite Ew.
  apply shielding_whole_sections_subgroups. exact G.
Qed.
