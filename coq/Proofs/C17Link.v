(* C17Link: what LdSem does with the asserts, the required symbols and the _gp assignments. *)
From Slinky Require Import Model.Types Model.Generated Model.Runtime Model.Style Model.Script Model.Writer Model.LdSem.
From Slinky Require Import Spec.C17 Spec.C04 Proofs.C06 Proofs.C18 Proofs.C17 Proofs.LdLemmas Proofs.C04.
From Coq Require Import Lia ZArith.
Local Open Scope Z_scope.

Lemma app_tail_neq {A} (l : list A) e : (l ++ [e])%list <> l.
Proof.
  intro E. assert (H : List.length (l ++ [e]) = List.length l) by (rewrite E; reflexivity).
  rewrite app_length in H. simpl in H. lia.
Qed.

Section Link.
  Variables (env : list (string * Z)) (senv : list osec) (ext : list (string * Z)) (final : bool).

  Notation top := (exec_top_stmt env senv ext final).
  Notation secs vma sub name := (exec_sec_stmt env senv ext final vma sub name).

  (* ---------- ASSERT ---------- *)

  Theorem assert_fails st cond msg :
    eval_raw env ext st cond = Ok 0 -> top st (SAssert cond msg) = add_err (LAssertFailed msg) st.
  Proof. intro H. cbn [exec_top_stmt]. rewrite H. reflexivity. Qed.

  Theorem assert_holds st cond msg v :
    eval_raw env ext st cond = Ok v -> v <> 0 -> top st (SAssert cond msg) = st.
  Proof.
    intros H Hv. cbn [exec_top_stmt]. rewrite H. destruct (v =? 0) eqn:E; [apply Z.eqb_eq in E; contradiction|reflexivity].
  Qed.

  (* the failure message is reported exactly when the condition evaluates to 0 *)
  Theorem assert_iff st cond msg :
    l_errors (top st (SAssert cond msg)) = (l_errors st ++ [LAssertFailed msg])%list <->
    eval_raw env ext st cond = Ok 0.
  Proof.
    split.
    - cbn [exec_top_stmt]. destruct (eval_raw env ext st cond) as [v|e].
      + destruct (v =? 0) eqn:E; [apply Z.eqb_eq in E; subst; reflexivity|].
        intro H. symmetry in H. apply app_tail_neq in H. contradiction.
      + destruct e; try (destruct final; cbn [add_err l_errors]; intro H;
          [apply app_inv_head in H; discriminate | symmetry in H; apply app_tail_neq in H; contradiction]).
        cbn [add_err l_errors]. intro H. apply app_inv_head in H. discriminate.
    - intro H. rewrite (assert_fails st cond msg H). reflexivity.
  Qed.

  (* ---------- required symbols: ASSERT(DEFINED(n), ...) ---------- *)

  Lemma substring_0_app n r : substring 0 (String.length n) (n ++ r) = n.
  Proof.
    induction n as [|c n IH]; cbn [String.length append substring].
    - destruct r; reflexivity.
    - rewrite IH. reflexivity.
  Qed.

  Lemma defined_arg_required n : defined_arg ("DEFINED(" ++ n ++ ")") = Some n.
  Proof.
    unfold defined_arg.
    assert (Hp : String.prefix "DEFINED(" ("DEFINED(" ++ n ++ ")") = true).
    { apply String.prefix_correct. apply (substring_0_app "DEFINED("). }
    assert (He : ends_with_char ")" ("DEFINED(" ++ n ++ ")") = true).
    { unfold ends_with_char. rewrite <- (append_assoc "DEFINED(" n ")"). rewrite last_char_app by discriminate. reflexivity. }
    rewrite Hp, He. cbn [andb]. f_equal.
    assert (Hl : (String.length ("DEFINED(" ++ n ++ ")") - 9 = String.length n)%nat).
    { rewrite !slen_app. cbn [String.length]. lia. }
    rewrite Hl. cbn [append substring]. apply substring_0_app.
  Qed.

  Theorem required_value st n :
    eval_raw env ext st ("DEFINED(" ++ n ++ ")") = Ok (b2z (is_some (sym_lookup n st env ext))).
  Proof. unfold eval_raw. rewrite defined_arg_required. reflexivity. Qed.

  (* the link fails with the documented message iff the symbol is defined nowhere: not by the script
     so far in this pass, not by the previous pass, not by the objects *)
  Theorem required_link st n :
    (sym_lookup n st env ext = None ->
     top st (SAssert ("DEFINED(" ++ n ++ ")") (required_msg n)) = add_err (LAssertFailed (required_msg n)) st) /\
    (forall v, sym_lookup n st env ext = Some v ->
     top st (SAssert ("DEFINED(" ++ n ++ ")") (required_msg n)) = st).
  Proof.
    split.
    - intro H. apply assert_fails. rewrite required_value, H. reflexivity.
    - intros v H. apply (assert_holds st _ _ 1); [|discriminate]. rewrite required_value, H. reflexivity.
  Qed.

  Theorem required_iff st n :
    l_errors (top st (SAssert ("DEFINED(" ++ n ++ ")") (required_msg n))) =
    (l_errors st ++ [LAssertFailed (required_msg n)])%list <->
    sym_lookup n st env ext = None.
  Proof.
    rewrite assert_iff, required_value. destruct (sym_lookup n st env ext); cbn; split; intro H;
      try reflexivity; try discriminate.
  Qed.

  (* EXTERN(n) itself does nothing to the layout *)
  Theorem extern_noop st n : top st (SExtern n) = st.
  Proof. reflexivity. Qed.

  (* ---------- _gp ---------- *)

  Lemma gp_mod here off : (here + off mod 4294967296) mod 4294967296 = (here + off) mod 4294967296.
  Proof. apply Zplus_mod_idemp_r. Qed.

  (* _gp = . + 0x<offset as u32>, then START = .  (both inside the output section) *)
  Theorem gp_value vma sub name ss p h off START :
    (p && is_some (lookup "_gp" ext))%bool = false -> START <> "_gp"%string ->
    let ss' := fold_left (secs vma sub name) [SAssign p h false "_gp" (EDotPlus off); linker_symbol START EDot] ss in
    let here := vma + s_off ss in
    s_off ss' = s_off ss /\
    lookup START (l_syms (s_st ss')) = Some here /\
    lookup "_gp" (l_syms (s_st ss')) = Some (here + off mod 4294967296) /\
    (here + off mod 4294967296) mod 4294967296 = (here + off) mod 4294967296.
  Proof.
    intros Hp Hs ss' here.
    set (ss1 := secs vma sub name ss (SAssign p h false "_gp" (EDotPlus off))).
    assert (E1 : ss1 = SState (s_off ss) (s_contents ss)
                              (set_sym "_gp" (here + off mod 4294967296) p (s_st ss))).
    { unfold ss1. cbn [exec_sec_stmt eval_expr]. unfold assign. rewrite Hp. reflexivity. }
    assert (E2 : ss' = SState (s_off ss) (s_contents ss)
                              (set_sym START here false (set_sym "_gp" (here + off mod 4294967296) p (s_st ss)))).
    { unfold ss'. cbn [fold_left]. fold ss1. rewrite E1. unfold linker_symbol.
      cbn [exec_sec_stmt eval_expr s_off s_st s_contents]. rewrite assign_ok. reflexivity. }
    rewrite E2. cbn [s_off s_st].
    split; [reflexivity|]. split; [apply lookup_set_sym_same|]. split; [|apply gp_mod].
    rewrite lookup_set_sym_other by assumption. apply lookup_set_sym_same.
  Qed.

  (* PROVIDE(_gp = ...) when an object already defines _gp: the object's definition stays *)
  Theorem gp_provided_elsewhere vma sub name ss h off :
    is_some (lookup "_gp" ext) = true ->
    s_st (secs vma sub name ss (SAssign true h false "_gp" (EDotPlus off))) = s_st ss.
  Proof. intro H. cbn [exec_sec_stmt s_st eval_expr]. unfold assign. rewrite H. reflexivity. Qed.

  (* the hard-coded value *)
  Theorem gp_hardcoded st v :
    top st (SAssign false false false "_gp" (EHex8 v)) = set_sym "_gp" (Z.of_N v) false st.
  Proof. reflexivity. Qed.

  Theorem gp_hardcoded_value st v :
    lookup "_gp" (l_syms (top st (SAssign false false false "_gp" (EHex8 v)))) = Some (Z.of_N v).
  Proof. rewrite gp_hardcoded. apply lookup_set_sym_same. Qed.
End Link.

(* the section start symbol is never _gp *)
Lemma section_start_not_gp sty seg sec : segment_section_start sty seg sec <> "_gp"%string.
Proof. apply (style_name_neq sty); [sn|reflexivity]. Qed.

(* an i32 offset: its u32 image is itself when non-negative, itself + 2^32 when negative *)
Lemma gp_offset_image off :
  -2147483648 <= off < 2147483648 ->
  off mod 4294967296 = if off <? 0 then off + 4294967296 else off.
Proof.
  intro H. destruct (off <? 0) eqn:E.
  - apply Z.ltb_lt in E. symmetry. apply (Zmod_unique _ _ (-1)); lia.
  - apply Z.ltb_ge in E. apply Z.mod_small. lia.
Qed.
