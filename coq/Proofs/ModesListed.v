(* ModesListed: lemmas.  1. scripts whose output sections have no address expression: the first matching
   statement always captures; a listed claim of any script.  2. the claims of a single-segment script
   (any writer configuration).  3. single-segment mode and the per-segment scripts of a partial build: a
   listed input section is placed in the output section named after its configured section.  4. the main
   script of a partial build.  5. _gp in single-segment mode. *)
From Slinky Require Import Model.Types Model.Generated Model.Runtime Model.Style Model.Script Model.Writer Model.LdSem.
From Slinky Require Import Spec.C17 Spec.C18 Spec.C04 Spec.C03 Spec.C09 Spec.C01 Spec.C05 Spec.C10 Spec.C11
                           Spec.DocLevel Spec.C01Doc Spec.C01Listed Spec.DocSingle Spec.DocPartial Spec.C17Doc
                           Spec.ModesListed.
From Slinky Require Import Proofs.C06 Proofs.C18 Proofs.C17 Proofs.LdLemmas Proofs.C09 Proofs.C04 Proofs.C02 Proofs.C01
                           Proofs.C05 Proofs.C03 Proofs.C10 Proofs.C11 Proofs.C18Link Proofs.C17Link Proofs.DocLevel
                           Proofs.C01Doc Proofs.C06More Proofs.C01Listed Proofs.DocSingle Proofs.DocPartial
                           Proofs.C02DocPartial Proofs.C17Doc.
From Coq Require Import Lia ZArith Permutation.
Local Open Scope Z_scope.

(* ====================================================================== *)
(* 1. output sections without address expression never fail                *)
(* ====================================================================== *)

Section NoAddr.
  Variables (env : list (string * Z)) (senv : list osec) (ext : list (string * Z)) (final : bool).
  Notation top := (exec_top_stmt env senv ext final).
  Notation runl := (run env senv ext final).

  Lemma top_first_noaddr st s x :
    addr_free s -> In x (l_remaining st) ->
    match first_claim (top_claims s) x with
    | None => In x (l_remaining (top st s))
    | Some c => captured (top st s) x c
    end.
  Proof.
    intros Ha Hx. pose proof (top_first env senv ext final st s x Hx) as T.
    destruct s; try exact T.
    - (* an output section *)
      clear T. destruct addr as [a|]; [destruct Ha|]. cbn [top_claims exec_top_stmt].
      set (vma := align_up (l_dot st) (body_align (option_map Z.of_N sub) body (l_remaining st) 1)).
      destruct (exec_outsec_ok env senv ext final name None at_ noload sub body st vma eq_refl)
        as [_ [_ [_ [_ [Hp [Hr _]]]]]].
      pose proof (body_first env senv ext final vma (option_map Z.of_N sub) name x body (SState 0 false st) Hx) as B.
      cbv zeta in B. fold (outsec_body env senv ext final name sub body vma st) in B.
      destruct (first_claim (body_claims name body) x) as [c|] eqn:Ec.
      + unfold first_claim in Ec. apply find_some in Ec. destruct Ec as [Hc _].
        unfold body_claims in Hc. apply in_flat_map in Hc. destruct Hc as [s0 [_ Hc]].
        destruct s0; try contradiction. destruct Hc as [Hc|[]]. subst c.
        unfold captured. cbn [claim_outsec]. unfold placed_at. rewrite Hp, Hr. exact B.
      + rewrite Hr. exact B.
    - (* an allow-list entry *)
      destruct (first_claim (top_claims (SSingleEntry sect)) x) as [c|] eqn:Ec; [|exact T].
      destruct T as [[Hf _]|T]; [|exact T].
      unfold first_claim in Ec. apply find_some in Ec. destruct Ec as [[Hc|[]] _]. subst c. destruct Hf.
    - destruct (first_claim (top_claims (SDiscard pats wild)) x) as [c|] eqn:Ec; [|exact T].
      destruct T as [[Hf _]|T]; [|exact T].
      unfold first_claim in Ec. apply find_some in Ec. destruct Ec as [[Hc|[]] _]. subst c. destruct Hf.
  Qed.

  Lemma run_first_noaddr l x : forall st,
    Forall addr_free l -> In x (l_remaining st) ->
    match first_claim (flat_map top_claims l) x with
    | None => In x (l_remaining (runl l st))
    | Some c => captured (runl l st) x c
    end.
  Proof.
    induction l as [|s l IH]; intros st Hf Hx; [exact Hx|].
    inversion Hf as [|? ? Hs Hl]; subst.
    cbn [flat_map]. unfold first_claim. rewrite find_app.
    fold (first_claim (top_claims s) x). fold (first_claim (flat_map top_claims l) x).
    rewrite run_cons. pose proof (top_first_noaddr st s x Hs Hx) as T.
    destruct (first_claim (top_claims s) x) as [c|].
    - eapply captured_grown; [apply grown_run | exact T].
    - apply IH; assumption.
  Qed.

  (* C01_script_first_match_noaddr *)
  Theorem script_first_match_noaddr script st x :
    Forall addr_free (flat_stmts script) -> In x (l_remaining st) ->
    let st' := exec_script env senv ext final script st in
    match first_claim (script_claims script) x with
    | None => In x (l_remaining st')
    | Some c => captured st' x c
    end.
  Proof. intros Hf Hx st'. unfold st'. rewrite exec_script_flat. apply run_first_noaddr; assumption. Qed.

  (* a claim of the script matches [x]; the first one that does is in an output section of [P], none of
     which fails: [x] is placed in such an output section *)
  Theorem claim_listed_placed script u x c0 (P : string -> Prop) :
    In c0 (script_claims script) -> claim_matches c0 x = true -> In x u ->
    first_goes script x P ->
    let st' := exec_script env senv ext final script (init_state u) in
    (forall o, P o -> ~ In (LForwardRef o) (l_errors st')) ->
    exists o, P o /\ placed_at st' x o /\ ~ In x (l_remaining st').
  Proof.
    intros Hc0 Hm Hx Hf st' Herr.
    destruct (first_claim_exists _ x _ Hc0 Hm) as [c Ec].
    destruct (Hf c Ec) as [o [Eo Po]].
    pose proof (script_first_match env senv ext final script (init_state u) x Hx) as S.
    cbv zeta in S. rewrite Ec in S. fold st' in S.
    exists o. split; [exact Po|].
    destruct S as [Sf|[S1 S2]].
    - exfalso. destruct c; cbn [claim_failed] in Sf; try contradiction. cbn [claim_outsec] in Eo.
      inversion Eo; subst. exact (Herr _ Po Sf).
    - rewrite Eo in S1. split; assumption.
  Qed.

  Theorem claim_listed_placed_noaddr script u x c0 (P : string -> Prop) :
    Forall addr_free (flat_stmts script) ->
    In c0 (script_claims script) -> claim_matches c0 x = true -> In x u ->
    first_goes script x P ->
    let st' := exec_script env senv ext final script (init_state u) in
    exists o, P o /\ placed_at st' x o /\ ~ In x (l_remaining st').
  Proof.
    intros Haf Hc0 Hm Hx Hf st'.
    destruct (first_claim_exists _ x _ Hc0 Hm) as [c Ec].
    destruct (Hf c Ec) as [o [Eo Po]].
    pose proof (script_first_match_noaddr script (init_state u) x Haf Hx) as S.
    cbv zeta in S. rewrite Ec in S. fold st' in S.
    exists o. split; [exact Po|]. destruct S as [S1 S2]. rewrite Eo in S1. split; assumption.
  Qed.
End NoAddr.

(* ---------- generated single-segment statements have no address expression ---------- *)

Ltac af_leaf :=
  repeat match goal with
         | |- Forall _ (_ ++ _) => apply Forall_app; split
         | |- Forall _ (match ?x with _ => _ end) => destruct x
         | |- Forall _ (if ?x then _ else _) => destruct x
         | |- Forall _ (_ :: _) => constructor
         | |- Forall _ [] => constructor
         | |- addr_free _ => exact I
         end.

Lemma af_version rt : Forall addr_free (version_stmts rt).
Proof. unfold version_stmts. af_leaf. Qed.

Lemma af_tail_stmts rt d : Forall addr_free (tail_stmts rt d).
Proof.
  unfold tail_stmts, entry_stmts, assignment_stmts, required_stmts, assert_stmts.
  repeat (apply Forall_app; split).
  - af_leaf.
  - destruct (doc_symbol_assignments d); [constructor|]. constructor; [exact I|].
    apply Forall_flat_map_intro. intro x0. af_leaf.
  - destruct (doc_required_symbols d); [constructor|]. constructor; [exact I|].
    apply Forall_flat_map_intro. intro x0. af_leaf.
  - destruct (doc_asserts d); [constructor|]. constructor; [exact I|].
    apply Forall_flat_map_intro. intro x0. af_leaf.
Qed.

Lemma af_end_sections stg classes ws : Forall addr_free (end_sections_body stg classes ws).
Proof.
  unfold end_sections_body. cbv zeta. repeat (apply Forall_app; split).
  - apply Forall_flat_map_intro. intro cn. af_leaf.
  - destruct (nonempty (sections_allowlist stg)); [|constructor]. apply Forall_app. split.
    + unfold blank_if. af_leaf.
    + apply Forall_map_intro. intro. exact I.
  - destruct (nonempty (sections_allowlist_extra stg)); [|constructor]. apply Forall_app. split.
    + unfold blank_if. af_leaf.
    + apply Forall_map_intro. intro. exact I.
  - destruct (discard_wildcard_section stg || nonempty (sections_denylist stg))%bool; [|constructor].
    apply Forall_app. split; [unfold blank_if; af_leaf | af_leaf].
Qed.

Lemma af_single_head stg cfg seg : Forall addr_free (single_head stg cfg seg).
Proof. unfold single_head, hardcoded_gp_stmts. destruct (hardcoded_gp_value stg); simpl; af_leaf. Qed.

Lemma af_section_symbol_start rt sty cfg seg section : Forall addr_free (section_symbol_start rt sty cfg seg section).
Proof. unfold section_symbol_start, opt_align, gp_stmt. af_leaf. Qed.

Lemma af_section_symbol_end sty cfg seg section : Forall addr_free (section_symbol_end sty cfg seg section).
Proof. unfold section_symbol_end, opt_align, sym_end_size. af_leaf. Qed.

Lemma af_kind_start sty cfg seg noload : Forall addr_free (sections_kind_start sty cfg seg noload).
Proof. unfold sections_kind_start. af_leaf. Qed.

Lemma af_kind_end sty cfg seg noload : Forall addr_free (sections_kind_end sty cfg seg noload).
Proof. unfold sections_kind_end, sym_end_size. af_leaf. Qed.

Lemma af_single_groups rt stg cfg seg sections noload rest : forall ws s ws',
  single_groups rt stg cfg seg sections noload rest ws = Ok (s, ws') -> Forall addr_free s.
Proof.
  induction rest as [|sec rest IH]; intros ws s ws' H.
  - apply single_groups_nil in H. destruct H; subst. constructor.
  - apply single_groups_cons in H. destruct H as [s1 [ws1 [s2 [E1 [E2 E]]]]]. subst s.
    apply Forall_app. split; [apply af_section_symbol_start|].
    apply Forall_app. split; [constructor; [exact I | constructor]|].
    apply Forall_app. split; [apply af_section_symbol_end|].
    apply Forall_app. split; [destruct rest; af_leaf | eapply IH; exact E2].
Qed.

Lemma af_write_single rt stg cfg seg sections noload ws s ws' :
  write_single_segment rt stg cfg seg sections noload ws = Ok (s, ws') -> Forall addr_free s.
Proof.
  intro H. apply write_single_segment_inv in H. destruct H as [body [Hb E]]. subst s.
  apply Forall_app. split; [apply af_kind_start|]. apply Forall_app. split; [|apply af_kind_end].
  eapply af_single_groups. exact Hb.
Qed.

Lemma af_add_single rt stg cfg classes seg ws s ws' :
  add_single_segment rt stg cfg classes seg ws = Ok (s, ws') -> Forall addr_free (flat_stmts s).
Proof.
  intro H. apply add_single_segment_inv in H. destruct H as [s1 [ws1 [s2 [E1 [E2 E]]]]]. subst s.
  match goal with |- Forall _ (flat_stmts [SSections ?B]) => change (flat_stmts [SSections B]) with (B ++ [])%list end.
  rewrite app_nil_r.
  apply Forall_app. split; [apply af_single_head|].
  apply Forall_app. split; [eapply af_write_single; exact E1|].
  apply Forall_app. split; [af_leaf|].
  apply Forall_app. split; [eapply af_write_single; exact E2|].
  apply Forall_app. split; [af_leaf | apply af_end_sections].
Qed.

(* ====================================================================== *)
(* 2. the claims of a single-segment script, any configuration             *)
(* ====================================================================== *)

Lemma mode_base_seg_base rt cfg d seg b :
  mode_base rt cfg d seg b <-> seg_base rt cfg seg (base_path (doc_settings d)) b.
Proof. unfold mode_base, seg_base. tauto. Qed.

Lemma q_section_symbol_start rt sty cfg seg section : Forall claimless (section_symbol_start rt sty cfg seg section).
Proof. unfold section_symbol_start, opt_align, gp_stmt. q_leaf. Qed.

Lemma q_section_symbol_end sty cfg seg section : Forall claimless (section_symbol_end sty cfg seg section).
Proof. unfold section_symbol_end, opt_align, sym_end_size. q_leaf. Qed.

Lemma q_single_head stg cfg seg : Forall claimless (single_head stg cfg seg).
Proof. unfold single_head, hardcoded_gp_stmts. destruct (hardcoded_gp_value stg); simpl; q_leaf. Qed.

Lemma q_blank_if {A} (rest : list A) : flat_map top_claims (match rest with [] => [] | _ :: _ => [SBlank] end) = [].
Proof. destruct rest; reflexivity. Qed.

Section SingleClaims.
  Variables (rt : runtime) (d : document) (cfg : wcfg).
  Let stg := doc_settings d.
  Let sty := linker_symbols_style stg.
  Let classes := doc_vram_classes d.

  Lemma emit_section_listed_cfg seg sections section ws s ws' :
    emit_section rt sty cfg seg sections (base_path stg) section ws = Ok (s, ws') ->
    forall kp path member sect wild, In (SInput kp path member sect wild) s ->
    exists b c0 lf bc chain p,
      mode_base rt cfg d seg b /\ In c0 (sg_files seg) /\ In (lf, bc, chain) (leaves rt b c0) /\
      reach_via cfg seg sections chain section sect /\ escape_path rt (fi_path lf) = Ok p /\
      path = display (push bc p) /\ member = member_of lf /\ wild = wildcard_sections seg.
  Proof.
    intros H kp path member sect wild Hin. apply emit_section_sound in H. destruct H as [b [Hb HK]].
    destruct (unlisted_all rt sty cfg seg sections) as [_ [_ [_ Hkids]]].
    destruct (Hkids _ _ _ _ HK _ Hin eq_refl) as [c0 [Hc0 [lf [bc [chain [Hl [[p [Hp Es]] Hr]]]]]]].
    cbn [input_section] in Es, Hr. inversion Es; subst.
    exists b, c0, lf, bc, chain, p. split; [apply mode_base_seg_base; exact Hb|]. repeat split; assumption.
  Qed.

  (* every claim of the groups [rest] of half [noload] is listed *)
  Lemma single_groups_listed seg noload : forall rest ws s ws',
    single_groups rt stg cfg seg (part_sections seg noload) noload rest ws = Ok (s, ws') ->
    incl rest (part_sections seg noload) ->
    forall c, In c (flat_map top_claims s) ->
    exists section lf bc p k, leaf_reaches_from rt cfg d seg noload section lf bc p k /\
                              c = single_leaf_claim seg section lf bc p k.
  Proof.
    induction rest as [|section rest IH]; intros ws s ws' H Hi c Hc.
    - apply single_groups_nil in H. destruct H; subst. destruct Hc.
    - apply single_groups_cons in H. destruct H as [s1 [ws1 [s2 [E1 [E2 E]]]]]. subst s.
      rewrite !flat_map_app in Hc.
      rewrite (claimless_list _ (q_section_symbol_start rt _ cfg seg section)) in Hc.
      rewrite (claimless_list _ (q_section_symbol_end _ cfg seg section)) in Hc.
      rewrite q_blank_if in Hc. cbn [app flat_map top_claims] in Hc. rewrite app_nil_r in Hc.
      rewrite body_claims_app, (noinput_list _ _ (ni_opt_fill seg)) in Hc. cbn [app] in Hc.
      apply in_app_or in Hc. destruct Hc as [Hc|Hc].
      + apply body_claims_inv in Hc. destruct Hc as [kp [path [member [sect [wild [Ec Hin]]]]]].
        destruct (emit_section_listed_cfg _ _ _ _ _ _ E1 _ _ _ _ _ Hin)
          as [b [c0 [lf [bc [chain [p [Hb0 [Hc0 [Hl [Hr [Hp [E3 [E4 E5]]]]]]]]]]]]]. subst.
        exists section, lf, bc, p, sect. split; [|reflexivity].
        exists b, c0, chain. repeat split; try assumption. apply Hi. left. reflexivity.
      + eapply IH; [exact E2 | | exact Hc]. intros y Hy. apply Hi. right. exact Hy.
  Qed.

  (* the claim of a leaf for a section it reaches is among those of the groups *)
  Lemma single_groups_leaf seg noload section lf bc p k : forall rest ws s ws',
    leaf_reaches_from rt cfg d seg noload section lf bc p k -> In section rest ->
    single_groups rt stg cfg seg (part_sections seg noload) noload rest ws = Ok (s, ws') ->
    In (single_leaf_claim seg section lf bc p k) (flat_map top_claims s).
  Proof.
    induction rest as [|sec0 rest IH]; intros ws s ws' Hl Hin H; [destruct Hin|].
    apply single_groups_cons in H. destruct H as [s1 [ws1 [s2 [E1 [E2 E]]]]]. subst s.
    rewrite !flat_map_app. apply in_or_app. right.
    destruct Hin as [Es|Hin].
    - subst sec0. apply in_or_app. left. cbn [flat_map top_claims]. rewrite app_nil_r.
      rewrite body_claims_app. apply in_or_app. right.
      destruct Hl as [b [c0 [chain [Hb [Hc0 [Hleaf [_ [Hr Hp]]]]]]]].
      pose proof (emit_section_simple _ _ _ _ _ _ _ _ _ _ E1) as Hsim.
      apply mode_base_seg_base in Hb.
      destruct (emit_section_leaf_traced _ _ _ _ _ _ _ _ _ _ _ _ _ _ _ _ Hb Hc0 Hleaf Hr E1) as [p' [Hp' [Hd _]]].
      rewrite Hp in Hp'. apply ok_inj in Hp'. subst p'.
      unfold single_leaf_claim. apply (in_body_claims _ (keeps (fi_keep lf) k)).
      apply deep_in_simple; assumption.
    - apply in_or_app. right. apply in_or_app. right. apply in_or_app. right. eapply IH; eassumption.
  Qed.

  Lemma write_single_claims seg noload ws s ws' :
    write_single_segment rt stg cfg seg (part_sections seg noload) noload ws = Ok (s, ws') ->
    (forall c, In c (flat_map top_claims s) ->
       exists section lf bc p k, leaf_reaches_from rt cfg d seg noload section lf bc p k /\
                                 c = single_leaf_claim seg section lf bc p k) /\
    (forall section lf bc p k, leaf_reaches_from rt cfg d seg noload section lf bc p k ->
                               In (single_leaf_claim seg section lf bc p k) (flat_map top_claims s)).
  Proof.
    intro H. apply write_single_segment_inv in H. destruct H as [body [Hb E]]. subst s.
    rewrite !flat_map_app, (claimless_list _ (q_kind_start _ _ _ _)), (claimless_list _ (q_kind_end _ _ _ _)), app_nil_r.
    cbn [app]. split.
    - intros c Hc. eapply single_groups_listed; [exact Hb | apply incl_refl | exact Hc].
    - intros section lf bc p k Hl. eapply single_groups_leaf; [exact Hl | | exact Hb].
      destruct Hl as [b [c0 [chain [_ [_ [_ [Hs _]]]]]]]. exact Hs.
  Qed.

  (* the whole SECTIONS block of add_single_segment *)
  Theorem add_single_claims seg ws s ws' :
    add_single_segment rt stg cfg classes seg ws = Ok (s, ws') ->
    exists A, flat_map top_claims (flat_stmts s) = (A ++ tail_claims stg)%list /\
      (forall c, In c A -> single_listed rt cfg d seg c) /\
      (forall nl section lf bc p k, leaf_reaches_from rt cfg d seg nl section lf bc p k ->
                                    In (single_leaf_claim seg section lf bc p k) A).
  Proof.
    intro H. apply add_single_segment_inv in H. destruct H as [s1 [ws1 [s2 [E1 [E2 E]]]]]. subst s.
    destruct (write_single_claims seg false _ _ _ E1) as [A1 B1].
    destruct (write_single_claims seg true _ _ _ E2) as [A2 B2].
    exists (flat_map top_claims s1 ++ flat_map top_claims s2)%list. split.
    - match goal with |- context [flat_stmts [SSections ?B]] => change (flat_stmts [SSections B]) with (B ++ [])%list end.
      rewrite app_nil_r, !flat_map_app, (claimless_list _ (q_single_head _ _ _)), claims_end_sections.
      cbn [flat_map top_claims app]. rewrite <- app_assoc. reflexivity.
    - split.
      + intros c Hc. apply in_app_or in Hc. destruct Hc as [Hc|Hc].
        * destruct (A1 c Hc) as [section [lf [bc [p [k [Hl Ec]]]]]]. exists false, section, lf, bc, p, k. auto.
        * destruct (A2 c Hc) as [section [lf [bc [p [k [Hl Ec]]]]]]. exists true, section, lf, bc, p, k. auto.
      + intros nl section lf bc p k Hl. apply in_or_app. destruct nl; [right; apply B2 | left; apply B1]; exact Hl.
  Qed.
End SingleClaims.

(* ====================================================================== *)
(* 3. single-segment mode and the per-segment scripts of a partial build   *)
(* ====================================================================== *)

Lemma sub_script_claims rt stmts :
  script_claims (version_stmts rt ++ stmts) = flat_map top_claims (flat_stmts stmts).
Proof.
  unfold script_claims.
  rewrite flat_app, (flat_plain _ (plain_version rt)), flat_map_app, (claimless_list _ (q_version rt)). reflexivity.
Qed.

(* C01_single_document_claims *)
Theorem single_document_claims rt d w seg :
  gen_normal d rt = Ok w -> single_segment_mode (doc_settings d) = true -> doc_segments d = [seg] ->
  SingleClaims rt cfg_normal d seg (wo_script w) /\ Forall addr_free (flat_stmts (wo_script w)).
Proof.
  intros H Hm Hs. apply gen_normal_inv in H. destruct H as [s [ws' [E Hw]]].
  apply add_all_segments_inv in E. destruct E as [[_ [seg' [Es E]]] | [Hm' _]]; [|congruence].
  rewrite Hs in Es. inversion Es; subst seg'. subst w. cbn [wo_script]. split.
  - destruct (add_single_claims rt d cfg_normal seg ws0 s ws' E) as [A [EA HA]].
    exists A. split; [|exact HA]. unfold script_claims.
    rewrite !flat_app, (flat_plain _ (plain_version rt)), (flat_plain _ (plain_tail rt d)), !flat_map_app,
      (claimless_list _ (q_version rt)), (claimless_list _ (q_tail_stmts rt d)), EA, app_nil_r. reflexivity.
  - rewrite !flat_app, (flat_plain _ (plain_version rt)), (flat_plain _ (plain_tail rt d)).
    apply Forall_app; split; [apply af_version|].
    apply Forall_app; split; [eapply af_add_single; exact E | apply af_tail_stmts].
Qed.

Lemma single_leaf_claim_matches seg section lf bc p k x :
  claim_matches (single_leaf_claim seg section lf bc p k) x = true <->
  input_matches (display (push bc p)) (member_of lf) k (wildcard_sections seg) x.
Proof. apply input_matches_sel. Qed.

(* the document-side condition is sufficient *)
Theorem single_first_goes rt cfg d seg script x (P : string -> Prop) :
  SingleClaims rt cfg d seg script -> single_matching_in rt cfg d seg x P ->
  (exists nl section lf bc p k, leaf_reaches_from rt cfg d seg nl section lf bc p k /\
                                input_matches (display (push bc p)) (member_of lf) k (wildcard_sections seg) x) ->
  first_goes script x P.
Proof.
  intros [A [EA [A1 A2]]] HP [nl [section [lf [bc [p [k [Hl Hx]]]]]]] c Hc.
  rewrite EA in Hc. unfold first_claim in Hc. rewrite find_app in Hc.
  pose proof (A2 nl section lf bc p k Hl) as HT.
  destruct (first_claim_exists A x _ HT (proj2 (single_leaf_claim_matches seg section lf bc p k x) Hx)) as [c' Ec'].
  unfold first_claim in Ec'. rewrite Ec' in Hc. inversion Hc; subst c'.
  apply find_some in Ec'. destruct Ec' as [HcA Hcm].
  destruct (A1 c HcA) as [nl' [s' [lf' [bc' [p' [k' [Hl' Ec]]]]]]]. subst c.
  exists s'. split; [reflexivity|].
  exact (HP nl' s' lf' bc' p' k' Hl' (proj1 (single_leaf_claim_matches seg s' lf' bc' p' k' x) Hcm)).
Qed.

Lemma single_matching_of_silent rt cfg d seg x section :
  others_silent rt cfg d seg x section -> single_matching_in rt cfg d seg x (eq section).
Proof. intros H nl s' lf bc p k Hl [Hp [_ Hn]]. symmetry. exact (H nl s' lf bc p k Hl Hp Hn). Qed.

(* ---------- the configurations that do not reference partial objects list the same things ---------- *)

Lemma reaches_cfg cfg cfg' seg sections f a m :
  reference_partial cfg = reference_partial cfg' ->
  Reaches cfg seg sections f a m -> Reaches cfg' seg sections f a m.
Proof.
  intros Hc H. induction H as [a k Hk | a k s0 m Hk Hs0 Hr IH].
  - apply Reach_here. exact Hk.
  - apply (Reach_member cfg' seg sections f a k s0 m Hk); [|exact IH].
    unfold entry_members, Spec.C01.members in *. rewrite <- Hc. exact Hs0.
Qed.

Lemma reach_via_cfg cfg cfg' seg sections chain : forall a b,
  reference_partial cfg = reference_partial cfg' ->
  reach_via cfg seg sections chain a b -> reach_via cfg' seg sections chain a b.
Proof.
  induction chain as [|f r IH]; intros a b Hc H; [exact H|]. destruct H as [m [Hr H]].
  exists m. split; [eapply reaches_cfg; eassumption | apply IH; assumption].
Qed.

Lemma leaf_reaches_from_cfg rt cfg cfg' d seg nl section lf bc p k :
  reference_partial cfg = reference_partial cfg' ->
  leaf_reaches_from rt cfg d seg nl section lf bc p k -> leaf_reaches_from rt cfg' d seg nl section lf bc p k.
Proof.
  intros Hc [b [c0 [chain [Hb [Hc0 [Hl [Hs [Hr Hp]]]]]]]]. exists b, c0, chain.
  split; [unfold mode_base in *; rewrite <- Hc; exact Hb|]. repeat (split; [assumption|]).
  split; [eapply reach_via_cfg; eassumption | exact Hp].
Qed.

Lemma leaf_reaches_from_sub rt d seg nl section lf bc p k :
  leaf_reaches_from rt cfg_sub_partial d seg nl section lf bc p k <->
  leaf_reaches_from rt cfg_normal d seg nl section lf bc p k.
Proof. split; apply leaf_reaches_from_cfg; reflexivity. Qed.

Lemma leaf_reaches_split rt d seg nl lf bc p k :
  leaf_reaches rt d seg nl lf bc p k <-> exists section, leaf_reaches_from rt cfg_normal d seg nl section lf bc p k.
Proof.
  split.
  - intros [b [c0 [chain [section [[b0 [dd [H1 [H2 H3]]]] H]]]]]. exists section, b, c0, chain.
    split; [exists b0; split; [exact H1|]; cbn [reference_partial cfg_normal]; exists dd; auto | exact H].
  - intros [section [b [c0 [chain [[b0 [H1 H2]] H]]]]]. cbn [reference_partial cfg_normal] in H2.
    destruct H2 as [dd [H2 H3]]. exists b, c0, chain, section. split; [exists b0, dd; auto | exact H].
Qed.

Section SinglePlaced.
  Variables (env : list (string * Z)) (senv : list osec) (ext : list (string * Z)) (final : bool).

  (* any script with the claims of one segment and no address expression *)
  Theorem single_claims_placed_gen rt cfg d seg script u nl section lf bc p k x (P : string -> Prop) :
    SingleClaims rt cfg d seg script -> Forall addr_free (flat_stmts script) ->
    leaf_reaches_from rt cfg d seg nl section lf bc p k ->
    In x u -> input_matches (display (push bc p)) (member_of lf) k (wildcard_sections seg) x ->
    first_goes script x P ->
    let st' := exec_script env senv ext final script (init_state u) in
    exists o, P o /\ placed_at st' x o /\ ~ In x (l_remaining st').
  Proof.
    intros [A [EA [_ A2]]] Haf Hl Hx Hmx Hf.
    apply (claim_listed_placed_noaddr env senv ext final script u x (single_leaf_claim seg section lf bc p k) P);
      try assumption.
    - rewrite EA. apply in_or_app. left. apply A2 with (nl := nl). exact Hl.
    - apply single_leaf_claim_matches. exact Hmx.
  Qed.

  Theorem single_claims_placed rt cfg d seg script u nl section lf bc p k x :
    SingleClaims rt cfg d seg script -> Forall addr_free (flat_stmts script) ->
    leaf_reaches_from rt cfg d seg nl section lf bc p k ->
    In x u -> input_matches (display (push bc p)) (member_of lf) k (wildcard_sections seg) x ->
    first_goes script x (eq section) ->
    let st' := exec_script env senv ext final script (init_state u) in
    placed_at st' x section /\ ~ In x (l_remaining st').
  Proof.
    intros HC Haf Hl Hx Hmx Hf st'.
    destruct (single_claims_placed_gen rt cfg d seg script u nl section lf bc p k x _ HC Haf Hl Hx Hmx Hf)
      as [o [Eo H]]. subst o. exact H.
  Qed.

  (* C01_single_document_listed_placed *)
  Theorem single_document_listed_placed d rt w u seg nl section lf bc p k x :
    gen_normal d rt = Ok w -> single_segment_mode (doc_settings d) = true -> doc_segments d = [seg] ->
    leaf_reaches_from rt cfg_normal d seg nl section lf bc p k ->
    In x u -> input_matches (display (push bc p)) (member_of lf) k (wildcard_sections seg) x ->
    first_goes (wo_script w) x (eq section) ->
    let st' := exec_script env senv ext final (wo_script w) (init_state u) in
    placed_at st' x section /\ ~ In x (l_remaining st').
  Proof.
    intros Hg Hm Hs Hl Hx Hmx Hf. destruct (single_document_claims rt d w seg Hg Hm Hs) as [HC Haf].
    apply (single_claims_placed rt cfg_normal d seg (wo_script w) u nl section lf bc p k x); assumption.
  Qed.

  Theorem single_document_silent_placed d rt w u seg nl section lf bc p k x :
    gen_normal d rt = Ok w -> single_segment_mode (doc_settings d) = true -> doc_segments d = [seg] ->
    leaf_reaches_from rt cfg_normal d seg nl section lf bc p k ->
    In x u -> input_matches (display (push bc p)) (member_of lf) k (wildcard_sections seg) x ->
    others_silent rt cfg_normal d seg x section ->
    let st' := exec_script env senv ext final (wo_script w) (init_state u) in
    placed_at st' x section /\ ~ In x (l_remaining st').
  Proof.
    intros Hg Hm Hs Hl Hx Hmx Hsil. destruct (single_document_claims rt d w seg Hg Hm Hs) as [HC Haf].
    apply (single_claims_placed rt cfg_normal d seg (wo_script w) u nl section lf bc p k x); try assumption.
    apply (single_first_goes rt cfg_normal d seg (wo_script w) x _ HC (single_matching_of_silent _ _ _ _ _ _ Hsil)).
    exists nl, section, lf, bc, p, k. auto.
  Qed.

  (* "ends up inside": the output section of the configured section, between its START and END symbols *)
  Theorem single_document_listed_in_section d rt w u seg nl section lf bc p k x :
    gen_normal d rt = Ok w -> doc_single_wf d rt = true -> doc_segments d = [seg] ->
    Forall (fun y => 0 <= u_size y) u -> NoDup (map u_marker u) ->
    leaf_reaches_from rt cfg_normal d seg nl section lf bc p k ->
    In x u -> input_matches (display (push bc p)) (member_of lf) k (wildcard_sections seg) x ->
    first_goes (wo_script w) x (eq section) ->
    let sty := linker_symbols_style (doc_settings d) in
    let st' := exec_script env senv ext final (wo_script w) (init_state u) in
    InsideSection sty st' seg section x /\
    ~ In x (l_remaining st') /\ ~ In (u_marker x) (map u_marker (l_remaining st')) /\
    ~ In (u_marker x) (l_discarded st').
  Proof.
    intros Hg Hwf Hs Hu Hnd Hl Hx Hmx Hf sty st'.
    destruct (doc_single_wf_inv d rt Hwf) as (seg0 & s & wsx & _ & Hm & _).
    destruct (single_document_listed_placed d rt w u seg nl section lf bc p k x Hg Hm Hs Hl Hx Hmx Hf) as [Hp Hr].
    fold st' in Hp, Hr.
    destruct (placed_exclusive env senv ext final (wo_script w) u x section Hnd Hp) as [Hd Hw]. fold st' in Hd, Hw.
    split; [|split; [exact Hr | split; [exact Hw | exact Hd]]].
    assert (Hsec : In section (seg_sections seg)).
    { destruct Hl as [b [c0 [chain [_ [_ [_ [Hsec _]]]]]]]. unfold seg_sections. apply in_or_app.
      destruct nl; [right | left]; exact Hsec. }
    destruct (single_document_symbols env senv ext final d rt w u seg section Hg Hwf Hs Hu Hsec)
      as (o & S & E & Hfo & _ & Y1 & Y2 & _ & _ & B2 & _ & B4 & _ & _ & _ & _ & R & _).
    fold sty st' in Hfo, Y1, Y2, R.
    destruct Hp as [pl [Hpl [Em Eo]]].
    assert (Hin : In pl (placed_in section st')).
    { unfold placed_in. apply filter_In. split; [exact Hpl|]. rewrite Eo. apply String.eqb_refl. }
    rewrite Forall_forall in R. destruct (R pl Hin) as [x' [Hx' [Em' [A B]]]].
    assert (Ex : x' = x) by (eapply nodup_map_inj; [exact Hnd | exact Hx' | exact Hx | congruence]).
    subst x'. exists pl, o, S, E. repeat (split; [assumption|]). exact B4.
  Qed.

  (* ---------- a per-segment script of a partial build ---------- *)

  Lemma sub_listed_placed d rt seg stmts wsub w u :
    add_single_segment rt (doc_settings d) cfg_sub_partial (doc_vram_classes d) seg ws0 = Ok (stmts, wsub) ->
    w = WriterOut (version_stmts rt ++ stmts)%list (ws_paths wsub) ->
    SingleClaims rt cfg_sub_partial d seg (wo_script w) /\ Forall addr_free (flat_stmts (wo_script w)) /\
    SubListedPlaced env senv ext final d rt seg w u.
  Proof.
    intros Ea Ew. subst w. cbn [wo_script].
    assert (HC : SingleClaims rt cfg_sub_partial d seg (version_stmts rt ++ stmts)).
    { destruct (add_single_claims rt d cfg_sub_partial seg ws0 stmts wsub Ea) as [A [EA HA]].
      exists A. split; [|exact HA]. rewrite sub_script_claims. exact EA. }
    assert (Haf : Forall addr_free (flat_stmts (version_stmts rt ++ stmts))).
    { rewrite flat_app, (flat_plain _ (plain_version rt)).
      apply Forall_app; split; [apply af_version | eapply af_add_single; exact Ea]. }
    split; [exact HC|]. split; [exact Haf|].
    unfold SubListedPlaced. cbn [wo_script]. cbv zeta. intros nl section lf bc p k x Hl Hx Hmx Hf.
    destruct (single_claims_placed rt cfg_sub_partial d seg _ u nl section lf bc p k x HC Haf Hl Hx Hmx Hf) as [Hp Hr].
    split; [exact Hp|]. split; [exact Hr|]. intros Hu Hnd Hnds Hfresh.
    assert (Hsec : In section (seg_sections seg)).
    { destruct Hl as [b [c0 [chain [_ [_ [_ [Hsec _]]]]]]]. unfold seg_sections. apply in_or_app.
      destruct nl; [right | left]; exact Hsec. }
    apply add_single_segment_inv in Ea. destruct Ea as [s1 [ws1 [s2 [E1 [E2 E]]]]].
    set (stg := doc_settings d) in *.
    set (body := single_sections_body stg cfg_sub_partial (doc_vram_classes d) seg s1 s2 wsub).
    assert (Eb : stmts = [SSections body]).
    { rewrite E, single_head_eq. unfold body, single_sections_body. repeat rewrite <- app_assoc. reflexivity. }
    assert (Hexec : forall st, exec_script env senv ext final (version_stmts rt ++ stmts) st =
                               run env senv ext final (body ++ []) st).
    { intro st. rewrite Eb, app_nil_r. apply exec_sub_script. }
    destruct (single_body_placed env senv ext final rt stg cfg_sub_partial (doc_vram_classes d) seg ws0 s1 ws1 s2 wsub
                                 [] u section E1 E2 Hu Hnds Hsec Hfresh eq_refl) as (o & Hfo & R & _).
    fold body in Hfo, R. cbv zeta in Hfo, R. rewrite <- Hexec in Hfo, R.
    destruct Hp as [pl [Hpl [Em Eo]]].
    assert (Hin : In pl (placed_in section (exec_script env senv ext final (version_stmts rt ++ stmts) (init_state u)))).
    { unfold placed_in. apply filter_In. split; [exact Hpl|]. rewrite Eo. apply String.eqb_refl. }
    rewrite Forall_forall in R. destruct (R pl Hin) as [_ [x' [Hx' [Em' [A B]]]]].
    assert (Ex : x' = x) by (eapply nodup_map_inj; [exact Hnd | exact Hx' | exact Hx | congruence]).
    subst x'. exists pl, o. repeat (split; [assumption|]). exact B.
  Qed.

  (* C01_partial_sub_listed *)
  Theorem partial_sub_listed d rt p name w u :
    gen_partial d rt = Ok p -> In (name, w) (po_subs p) ->
    exists seg, In seg (doc_segments d) /\ should_emit rt (sg_conds seg) = true /\ name = sg_name seg /\
      SingleClaims rt cfg_sub_partial d seg (wo_script w) /\ Forall addr_free (flat_stmts (wo_script w)) /\
      SubListedPlaced env senv ext final d rt seg w u.
  Proof.
    intros Hg Hin. pose proof (subs_are_single_scripts d rt p Hg) as HF. rewrite Forall_forall in HF.
    destruct (HF _ Hin) as (seg & stmts & wsub & Hseg & Hc & Hn & Ea & Ew). cbn [fst snd] in Hn, Ew.
    exists seg. repeat (split; [assumption|]). eapply sub_listed_placed; eassumption.
  Qed.
End SinglePlaced.

Theorem single_document_listed_placed_layout d rt w u ext0 seg nl section lf bc p k x :
  gen_normal d rt = Ok w -> single_segment_mode (doc_settings d) = true -> doc_segments d = [seg] ->
  leaf_reaches_from rt cfg_normal d seg nl section lf bc p k ->
  In x u -> input_matches (display (push bc p)) (member_of lf) k (wildcard_sections seg) x ->
  first_goes (wo_script w) x (eq section) ->
  let st' := layout (wo_script w) u ext0 in
  placed_at st' x section /\ ~ In x (l_remaining st').
Proof.
  intros Hg Hm Hs Hl Hx Hmx Hf. unfold layout.
  apply (single_document_listed_placed _ _ _ _ d rt w u seg nl section lf bc p k x); assumption.
Qed.

Theorem single_document_listed_in_section_layout d rt w u ext0 seg nl section lf bc p k x :
  gen_normal d rt = Ok w -> doc_single_wf d rt = true -> doc_segments d = [seg] ->
  Forall (fun y => 0 <= u_size y) u -> NoDup (map u_marker u) ->
  leaf_reaches_from rt cfg_normal d seg nl section lf bc p k ->
  In x u -> input_matches (display (push bc p)) (member_of lf) k (wildcard_sections seg) x ->
  first_goes (wo_script w) x (eq section) ->
  let sty := linker_symbols_style (doc_settings d) in
  let st' := layout (wo_script w) u ext0 in
  InsideSection sty st' seg section x /\
  ~ In x (l_remaining st') /\ ~ In (u_marker x) (map u_marker (l_remaining st')) /\
  ~ In (u_marker x) (l_discarded st').
Proof.
  intros Hg Hwf Hs Hu Hnd Hl Hx Hmx Hf. unfold layout.
  apply (single_document_listed_in_section _ _ _ _ d rt w u seg nl section lf bc p k x); assumption.
Qed.

(* ====================================================================== *)
(* 4. the main script of a partial build                                   *)
(* ====================================================================== *)

(* one half of a segment, any configuration *)
Lemma write_segment_claims_cfg rt stg cfg seg noload ws s ws' :
  write_segment rt stg cfg seg (part_sections seg noload) noload ws = Ok (s, ws') ->
  exists body,
    part_groups rt stg cfg seg (part_sections seg noload) (part_sections seg noload) ws = Ok (body, ws') /\
    flat_map top_claims s = body_claims (part_name seg noload) body.
Proof.
  intro H. apply write_segment_inv in H. destruct H as [body [E Es]]. exists body. split; [exact E|]. subst s.
  rewrite !flat_map_app, (claimless_list _ (q_kind_start _ _ _ _)), (claimless_list _ (q_kind_end _ _ _ _)).
  cbn [flat_map app]. rewrite !app_nil_r, part_name_outsec, body_claims_app.
  rewrite (noinput_list _ _ (ni_opt_fill seg)). reflexivity.
Qed.

Lemma add_segment_claims_cfg rt stg cfg classes seg ws s ws' :
  add_segment rt stg cfg classes seg ws = Ok (s, ws') -> should_emit rt (sg_conds seg) = true ->
  exists ws1 body1 ws2 body2,
    part_groups rt stg cfg seg (alloc_sections seg) (alloc_sections seg) ws1 = Ok (body1, ws2) /\
    part_groups rt stg cfg seg (noload_sections seg) (noload_sections seg) ws2 = Ok (body2, ws') /\
    flat_map top_claims s = (body_claims (alloc_name seg) body1 ++ body_claims (noload_name seg) body2)%list.
Proof.
  intros H Hc. apply add_segment_inv in H.
  destruct H as [[Hc' _] | [_ [cls [ws1 [s1 [ws2 [s2 [Ec [E1 [E2 E]]]]]]]]]]; [congruence|]. subst s.
  apply (write_segment_claims_cfg rt stg cfg seg false) in E1. destruct E1 as [body1 [G1 C1]].
  apply (write_segment_claims_cfg rt stg cfg seg true) in E2. destruct E2 as [body2 [G2 C2]].
  exists ws1, body1, ws2, body2. split; [exact G1|]. split; [exact G2|].
  rewrite !flat_map_app, (claimless_list _ (q_class_part _ _ _ _ _ _ Ec)), (claimless_list _ (q_seg_head _ _)),
    (claimless_list _ (q_seg_foot _ _)), C1, C2. cbn [flat_map top_claims app part_name]. rewrite app_nil_r. reflexivity.
Qed.

Lemma body_claims_blank_if {A} o (rest : list A) :
  body_claims o (match rest with [] => [] | _ :: _ => [SBlank] end) = [].
Proof. destruct rest; reflexivity. Qed.

(* the groups of a clone: one statement per section, naming the partial object *)
Lemma main_part_groups_claims rt stg folder seg sections o : forall rest ws s ws',
  part_groups rt stg cfg_main_partial (partial_clone folder seg) sections rest ws = Ok (s, ws') ->
  body_claims o s = match partial_obj_path rt stg folder seg with
                    | Some path => map (fun sec => CInput o path None sec (wildcard_sections seg)) rest
                    | None => []
                    end.
Proof.
  induction rest as [|section rest IH]; intros ws s ws' H.
  - apply ok_inj in H. inversion H; subst. destruct (partial_obj_path rt stg folder seg); reflexivity.
  - apply part_groups_cons in H. destruct H as [s1 [ws1 [s2 [E1 [E2 E]]]]]. subst s.
    unfold partial_clone in E1. rewrite main_emit_section in E1.
    apply bind_ok in E1. destruct E1 as [b0 [Eb0 E1]]. apply bind_ok in E1. destruct E1 as [pe [Epe E1]].
    apply ok_inj in E1. inversion E1; subst s1 ws1. clear E1.
    pose proof (IH _ _ _ E2) as I2.
    assert (Ep : partial_obj_path rt stg folder seg = Some (display (push b0 pe))).
    { unfold partial_obj_path. rewrite Eb0, Epe. reflexivity. }
    rewrite Ep in I2 |- *.
    rewrite !body_claims_app, (noinput_list o _ (ni_section_symbol_start rt _ cfg_main_partial _ section)),
      (noinput_list o _ (ni_section_symbol_end _ cfg_main_partial _ section)), body_claims_blank_if, I2.
    reflexivity.
Qed.

Lemma fold_main_claims rt stg classes folder : forall segs ws body ws',
  fold_out (add_segment rt stg cfg_main_partial classes) (map (partial_clone folder) segs) ws = Ok (body, ws') ->
  flat_map top_claims body = flat_map (main_seg_claims rt stg folder) (included rt segs).
Proof.
  induction segs as [|seg r IH]; intros ws body ws' H.
  - apply fold_out_nil in H. destruct H; subst. reflexivity.
  - cbn [map] in H. apply fold_out_cons in H. destruct H as [s1 [ws1 [s2 [E1 [E2 E]]]]]. subst body.
    rewrite flat_map_app, (IH _ _ _ E2). unfold included. cbn [filter].
    destruct (should_emit rt (sg_conds seg)) eqn:Hc.
    + cbn [flat_map]. f_equal.
      destruct (add_segment_claims_cfg rt stg cfg_main_partial classes (partial_clone folder seg) ws s1 ws1 E1 Hc)
        as [wsa [body1 [wsb [body2 [G1 [G2 EE]]]]]].
      rewrite EE, (main_part_groups_claims _ _ _ _ _ _ _ _ _ _ G1), (main_part_groups_claims _ _ _ _ _ _ _ _ _ _ G2).
      unfold main_seg_claims, main_part_claims. destruct (partial_obj_path rt stg folder seg); reflexivity.
    + rewrite (add_segment_excluded rt stg cfg_main_partial classes (partial_clone folder seg) ws Hc) in E1.
      apply ok_inj in E1. inversion E1; subst s1 ws1. reflexivity.
Qed.

(* C01_partial_main_claims *)
Theorem partial_main_claims d rt p folder :
  gen_partial d rt = Ok p -> partial_build_segments_folder (doc_settings d) = Some folder ->
  script_claims (wo_script (po_main p)) =
  (flat_map (main_seg_claims rt (doc_settings d) folder) (included rt (doc_segments d)) ++
   tail_claims (doc_settings d))%list.
Proof.
  intros Hg Hf. destruct (partial_main_shape d rt p Hg) as (folder' & body & ws' & subs & Ef & _ & Efold & Ew).
  rewrite Hf in Ef. inversion Ef; subst folder'. rewrite Ew. unfold script_claims.
  rewrite !flat_app, (flat_plain _ (plain_version rt)), (flat_plain _ (plain_tail rt d)).
  match goal with |- context [flat_stmts [SSections ?B]] => change (flat_stmts [SSections B]) with (B ++ [])%list end.
  rewrite app_nil_r, !flat_map_app, (claimless_list _ (q_version rt)), (claimless_list _ (q_begin _)),
    (claimless_list _ (q_tail_stmts rt d)), claims_end_sections, (fold_main_claims _ _ _ _ _ _ _ _ Efold), app_nil_r.
  reflexivity.
Qed.

Lemma main_claim_in d rt p folder seg nl section path :
  gen_partial d rt = Ok p -> partial_build_segments_folder (doc_settings d) = Some folder ->
  In seg (included rt (doc_segments d)) -> In section (part_sections seg nl) ->
  partial_obj_path rt (doc_settings d) folder seg = Some path ->
  In (CInput (part_name seg nl) path None section (wildcard_sections seg)) (script_claims (wo_script (po_main p))).
Proof.
  intros Hg Hf Hs Hsec Hp. rewrite (partial_main_claims d rt p folder Hg Hf). apply in_or_app. left.
  apply in_flat_map. exists seg. split; [exact Hs|]. unfold main_seg_claims. rewrite Hp. apply in_or_app.
  destruct nl; [right | left]; unfold main_part_claims;
    apply (in_map (fun s => CInput _ path None s (wildcard_sections seg))); exact Hsec.
Qed.

(* the document-side condition is sufficient *)
Theorem partial_main_first_goes d rt p folder x (P : string -> Prop) :
  gen_partial d rt = Ok p -> partial_build_segments_folder (doc_settings d) = Some folder ->
  main_matching_in rt d folder x P ->
  (exists s nl section path, In s (included rt (doc_segments d)) /\ In section (part_sections s nl) /\
                             partial_obj_path rt (doc_settings d) folder s = Some path /\
                             input_matches path None section (wildcard_sections s) x) ->
  first_goes (wo_script (po_main p)) x P.
Proof.
  intros Hg Hf HP [s [nl [section [path [Hs [Hsec [Hp Hx]]]]]]] c Hc.
  pose proof (main_claim_in d rt p folder s nl section path Hg Hf Hs Hsec Hp) as HT.
  rewrite (partial_main_claims d rt p folder Hg Hf) in Hc, HT.
  apply in_app_or in HT. destruct HT as [HT|HT].
  2:{ exfalso. unfold tail_claims in HT. apply in_app_or in HT. destruct HT as [HT|HT].
      - apply in_map_iff in HT. destruct HT as [e [E _]]. discriminate E.
      - apply in_app_or in HT. destruct HT as [HT|HT].
        + apply in_map_iff in HT. destruct HT as [e [E _]]. discriminate E.
        + destruct (discard_wildcard_section (doc_settings d) || nonempty (sections_denylist (doc_settings d)))%bool;
            [destruct HT as [E|[]]; discriminate E | destruct HT]. }
  unfold first_claim in Hc. rewrite find_app in Hc.
  destruct (first_claim_exists _ x _ HT (proj2 (input_matches_sel path None section (wildcard_sections s) x) Hx))
    as [c' Ec'].
  unfold first_claim in Ec'. rewrite Ec' in Hc. inversion Hc; subst c'.
  apply find_some in Ec'. destruct Ec' as [HcA Hcm].
  apply in_flat_map in HcA. destruct HcA as [s' [Hs' HcA]]. unfold main_seg_claims in HcA.
  destruct (partial_obj_path rt (doc_settings d) folder s') as [path'|] eqn:Hp'; [|destruct HcA].
  apply in_app_or in HcA.
  destruct HcA as [HcA|HcA]; unfold main_part_claims in HcA; apply in_map_iff in HcA;
    destruct HcA as [sec' [Ec Hsec']]; subst c; eexists; (split; [reflexivity|]).
  - apply (HP s' false sec' path' Hs' Hsec' Hp'). apply input_matches_sel. exact Hcm.
  - apply (HP s' true sec' path' Hs' Hsec' Hp'). apply input_matches_sel. exact Hcm.
Qed.

Lemma main_matching_of_object rt d folder x seg :
  object_only_of rt d folder x seg -> main_matching_in rt d folder x (seg_outsec seg).
Proof.
  intros H s nl section path Hs Hsec Hp [Epath _]. subst path. rewrite (H s Hs Hp).
  destruct nl; [right | left]; reflexivity.
Qed.

Lemma main_matching_of_half rt d folder x seg nl :
  object_only_of rt d folder x seg -> main_half_silent seg (negb nl) x ->
  main_matching_in rt d folder x (eq (part_name seg nl)).
Proof.
  intros H Hh s nl' section path Hs Hsec Hp [Epath [_ Hn]]. subst path. pose proof (H s Hs Hp) as Es. subst s.
  destruct (Bool.bool_dec nl' nl) as [E|E]; [subst; reflexivity|]. exfalso.
  assert (E' : nl' = negb nl) by (destruct nl, nl'; try reflexivity; exfalso; apply E; reflexivity).
  subst nl'. exact (Hh section Hsec Hn).
Qed.

(* ---------- which output sections of the main script can fail ---------- *)

Theorem partial_main_forward_refs env senv ext final d rt p st n :
  gen_partial d rt = Ok p ->
  In (LForwardRef n) (l_errors (exec_script env senv ext final (wo_script (po_main p)) st)) ->
  In (LForwardRef n) (l_errors st) \/ n = "."%string \/
  exists seg, In seg (included rt (doc_segments d)) /\ n = alloc_name seg.
Proof.
  intros Hg H. rewrite exec_script_flat in H. apply run_fwd in H. destruct H as [H|H]; [left; exact H|]. right.
  apply fwd_in_headers in H. destruct H as [H|[e [at_ [nl H]]]]; [left; exact H|]. right.
  destruct (partial_main_shape d rt p Hg) as (folder & body & ws' & subs & _ & _ & Efold & Ew).
  rewrite Ew in H.
  rewrite !flat_app, (flat_plain _ (plain_version rt)), (flat_plain _ (plain_tail rt d)) in H.
  match type of H with context [flat_stmts [SSections ?B]] => change (flat_stmts [SSections B]) with (B ++ [])%list in H end.
  rewrite app_nil_r in H. rewrite !headers_app in H.
  destruct (headers_fold _ _ _ _ _ _ _ _ Efold) as [A _].
  destruct (headers_quiet _ (quiet_begin (doc_settings d))) as [A1 _].
  destruct (headers_quiet _ (quiet_end_sections (doc_settings d) (doc_vram_classes d) ws')) as [A2 _].
  rewrite A, A1, A2, included_clone in H. cbn [app] in H. rewrite app_nil_r in H.
  apply in_app_or in H. destruct H as [H|H].
  { exfalso. apply header_makes in H. cbn [fst] in H. unfold version_stmts in H.
    destruct (rt_emit_version_comment rt); exact H. }
  apply in_app_or in H. destruct H as [H|H].
  - apply in_flat_map in H. destruct H as [c [Hc H]]. apply in_map_iff in Hc. destruct Hc as [seg [Ec Hs]]. subst c.
    exists seg. split; [exact Hs|]. destruct H as [H|[H|[]]]; inversion H. reflexivity.
  - exfalso. apply header_makes in H. rewrite makes_sec_tail in H. exact H.
Qed.

Lemma partial_names_distinct d rt p :
  gen_partial d rt = Ok p -> doc_link_wf_partial d rt = true -> NoDup (out_names (included rt (doc_segments d))).
Proof.
  intros Hg Hwf. destruct (partial_exec d rt p Hg Hwf) as (folder & body & ws' & _ & _ & _ & Hw & _).
  unfold link_wf_stmts in Hw. cbv zeta in Hw.
  apply andb_true_iff in Hw. destruct Hw as [Hw _]. apply andb_true_iff in Hw. destruct Hw as [Hw _].
  apply andb_true_iff in Hw. destruct Hw as [Hw _]. apply nodup_str_NoDup. exact Hw.
Qed.

Section MainPlaced.
  Variables (env : list (string * Z)) (senv : list osec) (ext : list (string * Z)) (final : bool).

  Lemma partial_noload_never_fails d rt p u seg :
    gen_partial d rt = Ok p -> doc_link_wf_partial d rt = true -> In seg (included rt (doc_segments d)) ->
    ~ In (LForwardRef (noload_name seg))
         (l_errors (exec_script env senv ext final (wo_script (po_main p)) (init_state u))).
  Proof.
    intros Hg Hwf Hs H. pose proof (partial_names_distinct d rt p Hg Hwf) as Hnd.
    apply (partial_main_forward_refs env senv ext final d rt p _ _ Hg) in H.
    destruct H as [[]|[H|[s [Hs' H]]]].
    - unfold noload_name in H. cbn [append] in H. inversion H as [H0]. destruct (sg_name seg); discriminate H0.
    - exact (out_names_distinct _ Hnd seg s Hs Hs' H).
  Qed.

  Theorem partial_main_listed_placed_gen d rt p folder u seg nl section path x (P : string -> Prop) :
    gen_partial d rt = Ok p -> partial_build_segments_folder (doc_settings d) = Some folder ->
    In seg (included rt (doc_segments d)) -> In section (part_sections seg nl) ->
    partial_obj_path rt (doc_settings d) folder seg = Some path ->
    In x u -> input_matches path None section (wildcard_sections seg) x ->
    first_goes (wo_script (po_main p)) x P ->
    let st' := exec_script env senv ext final (wo_script (po_main p)) (init_state u) in
    (forall o, P o -> ~ In (LForwardRef o) (l_errors st')) ->
    exists o, P o /\ placed_at st' x o /\ ~ In x (l_remaining st').
  Proof.
    intros Hg Hf Hs Hsec Hp Hx Hmx Hfg.
    apply (claim_listed_placed env senv ext final (wo_script (po_main p)) u x
             (CInput (part_name seg nl) path None section (wildcard_sections seg)) P); try assumption.
    - eapply main_claim_in; eassumption.
    - apply input_matches_sel. exact Hmx.
  Qed.

  (* C01_partial_main_listed_placed *)
  Theorem partial_main_listed_placed d rt p folder u seg nl section path x :
    gen_partial d rt = Ok p -> partial_build_segments_folder (doc_settings d) = Some folder ->
    In seg (included rt (doc_segments d)) -> In section (part_sections seg nl) ->
    partial_obj_path rt (doc_settings d) folder seg = Some path ->
    In x u -> input_matches path None section (wildcard_sections seg) x ->
    first_goes (wo_script (po_main p)) x (eq (part_name seg nl)) ->
    let st' := exec_script env senv ext final (wo_script (po_main p)) (init_state u) in
    ~ In (LForwardRef (part_name seg nl)) (l_errors st') ->
    placed_at st' x (part_name seg nl) /\ ~ In x (l_remaining st').
  Proof.
    intros Hg Hf Hs Hsec Hp Hx Hmx Hfg st' Herr.
    destruct (partial_main_listed_placed_gen d rt p folder u seg nl section path x _ Hg Hf Hs Hsec Hp Hx Hmx Hfg)
      as [o [Eo H]].
    - intros o Eo. subst o. exact Herr.
    - subst o. exact H.
  Qed.

  (* inside the segment *)
  Theorem partial_main_listed_in_segment d rt p folder u seg nl section path x :
    gen_partial d rt = Ok p -> partial_build_segments_folder (doc_settings d) = Some folder ->
    doc_link_wf_partial d rt = true -> doc_outsecs_fresh d rt = true ->
    Forall (fun y => 0 <= u_size y) u -> NoDup (map u_marker u) ->
    In seg (included rt (doc_segments d)) -> In section (part_sections seg nl) ->
    partial_obj_path rt (doc_settings d) folder seg = Some path ->
    In x u -> input_matches path None section (wildcard_sections seg) x ->
    first_goes (wo_script (po_main p)) x (seg_outsec seg) ->
    let sty := linker_symbols_style (doc_settings d) in
    let st' := exec_script env senv ext final (wo_script (po_main p)) (init_state u) in
    (forall s, In s (included rt (doc_segments d)) -> ~ In (LForwardRef (alloc_name s)) (l_errors st')) ->
    InsideSegment sty st' seg x /\
    ~ In x (l_remaining st') /\ ~ In (u_marker x) (map u_marker (l_remaining st')) /\
    ~ In (u_marker x) (l_discarded st').
  Proof.
    intros Hg Hf Hwf Hfresh Hu Hnd Hs Hsec Hp Hx Hmx Hfg sty st' Herr.
    destruct (partial_main_listed_placed_gen d rt p folder u seg nl section path x _ Hg Hf Hs Hsec Hp Hx Hmx Hfg)
      as [o [Po [Hpl Hr]]].
    { intros o [Eo|Eo]; subst o; [apply Herr; exact Hs | apply (partial_noload_never_fails d rt p); assumption]. }
    fold st' in Hpl, Hr.
    destruct (placed_exclusive env senv ext final (wo_script (po_main p)) u x o Hnd Hpl) as [Hd Hw].
    fold st' in Hd, Hw.
    split; [|split; [exact Hr | split; [exact Hw | exact Hd]]].
    destruct (partial_in_segment_range env senv ext final d rt p u seg Hg Hwf Hfresh Hu Hs Herr)
      as (o1 & o2 & ve & F1 & F2 & VE & Z1 & Z2 & L1 & L2 & _ & _ & R).
    fold st' sty in F1, F2, VE, R.
    destruct Hpl as [pl [Hpl [Em Eo]]].
    assert (Hin : In pl (placed_in (alloc_name seg) st' ++ placed_in (noload_name seg) st')).
    { apply in_or_app. unfold placed_in. destruct Po as [Eo'|Eo']; [left|right];
        (apply filter_In; split; [exact Hpl|]); rewrite Eo, Eo'; apply String.eqb_refl. }
    rewrite Forall_forall in R. destruct (R pl Hin) as [x' [Hx' [Em' [A B]]]].
    assert (Ex : x' = x) by (eapply nodup_map_inj; [exact Hnd | exact Hx' | exact Hx | congruence]).
    subst x'. exists pl, o1, ve. split; [exact Hpl|]. split; [exact Em|]. split; [rewrite Eo; exact Po|].
    repeat (split; [assumption|]). exact B.
  Qed.

  (* with the document-side conditions *)
  Theorem partial_main_object_placed d rt p folder u seg nl section path x :
    gen_partial d rt = Ok p -> partial_build_segments_folder (doc_settings d) = Some folder ->
    In seg (included rt (doc_segments d)) -> In section (part_sections seg nl) ->
    partial_obj_path rt (doc_settings d) folder seg = Some path ->
    In x u -> input_matches path None section (wildcard_sections seg) x ->
    object_only_of rt d folder x seg -> main_half_silent seg (negb nl) x ->
    let st' := exec_script env senv ext final (wo_script (po_main p)) (init_state u) in
    ~ In (LForwardRef (part_name seg nl)) (l_errors st') ->
    placed_at st' x (part_name seg nl) /\ ~ In x (l_remaining st').
  Proof.
    intros Hg Hf Hs Hsec Hp Hx Hmx Hobj Hh.
    apply (partial_main_listed_placed d rt p folder u seg nl section path x); try assumption.
    apply (partial_main_first_goes d rt p folder x _ Hg Hf (main_matching_of_half rt d folder x seg nl Hobj Hh)).
    exists seg, nl, section, path. auto.
  Qed.
End MainPlaced.

Theorem partial_main_listed_placed_layout d rt p folder u ext0 seg nl section path x :
  gen_partial d rt = Ok p -> partial_build_segments_folder (doc_settings d) = Some folder ->
  In seg (included rt (doc_segments d)) -> In section (part_sections seg nl) ->
  partial_obj_path rt (doc_settings d) folder seg = Some path ->
  In x u -> input_matches path None section (wildcard_sections seg) x ->
  first_goes (wo_script (po_main p)) x (eq (part_name seg nl)) ->
  let st' := layout (wo_script (po_main p)) u ext0 in
  ~ In (LForwardRef (part_name seg nl)) (l_errors st') ->
  placed_at st' x (part_name seg nl) /\ ~ In x (l_remaining st').
Proof.
  intros Hg Hf Hs Hsec Hp Hx Hmx Hfg. unfold layout.
  apply (partial_main_listed_placed _ _ _ _ d rt p folder u seg nl section path x); assumption.
Qed.

(* ====================================================================== *)
(* 5. _gp in single-segment mode                                           *)
(* ====================================================================== *)

Lemma single_gp_assigned rt stg cfg seg sections noload rest sec g : forall ws body ws',
  single_groups rt stg cfg seg sections noload rest ws = Ok (body, ws') -> section_syms cfg = true ->
  In sec rest -> GpHere rt seg sec g -> (1 <= count_assigns "_gp" body)%nat.
Proof.
  induction rest as [|sec0 rest IH]; intros ws body ws' H Hc Hin Hg; [contradiction|].
  apply single_groups_cons in H. destruct H as [s1 [ws1 [s2 [E1 [E2 E]]]]]. subst body.
  destruct Hin as [Es|Hin].
  - subst sec0.
    assert (Hge : (1 <= count_assigns "_gp" (section_symbol_start rt (linker_symbols_style stg) cfg seg sec))%nat).
    { unfold section_symbol_start. rewrite Hc, (gp_stmt_here rt seg sec g Hg).
      apply count_in_ge with (s := gp_assign g); [in_solve | reflexivity]. }
    rewrite !count_app. lia.
  - pose proof (IH _ _ _ E2 Hc Hin Hg) as Hge. rewrite !count_app. lia.
Qed.

Section GpSingle.
  Variables (env : list (string * Z)) (senv : list osec) (ext : list (string * Z)) (final : bool).
  Notation top := (exec_top_stmt env senv ext final).
  Notation runl := (run env senv ext final).

  (* _gp = . + 0x<offset as u32>, then START = ., both at the top level *)
  Lemma top_gp_value st p h off START :
    (p && is_some (lookup "_gp" ext))%bool = false -> START <> "_gp"%string -> String.eqb START "." = false ->
    let st' := runl [SAssign p h false "_gp" (EDotPlus off); linker_symbol START EDot] st in
    lookup START (l_syms st') = Some (l_dot st) /\
    lookup "_gp" (l_syms st') = Some (l_dot st + off mod 4294967296).
  Proof.
    intros Hp Hs Hd st'.
    set (st1 := top st (SAssign p h false "_gp" (EDotPlus off))).
    assert (E1 : st1 = set_sym "_gp" (l_dot st + off mod 4294967296) p st).
    { unfold st1. cbn [exec_top_stmt]. change (String.eqb "_gp" ".") with false. cbv iota.
      cbn [eval_expr]. unfold assign. rewrite Hp. reflexivity. }
    assert (E2 : st' = set_sym START (l_dot st) false st1).
    { unfold st'. rewrite run_cons, run_cons, run_nil. fold st1.
      rewrite (top_linker_symbol env ext senv final START EDot st1 Hd). cbn [eval_expr].
      rewrite E1, set_sym_dot. reflexivity. }
    rewrite E2. split; [apply lookup_set_sym_same|].
    rewrite lookup_set_sym_other by exact Hs. rewrite E1. apply lookup_set_sym_same.
  Qed.

  Lemma ss_gp rt sty cfg seg sec g st :
    section_syms cfg = true -> GpHere rt seg sec g ->
    (gp_provide g && is_some (lookup "_gp" ext))%bool = false ->
    let st1 := runl (section_symbol_start rt sty cfg seg sec) st in
    exists S, lookup (segment_section_start sty (sg_name seg) sec) (l_syms st1) = Some S /\
              lookup "_gp" (l_syms st1) = Some (S + gp_offset g mod 4294967296).
  Proof.
    intros Hc Hgp Hprov st1.
    set (START := segment_section_start sty (sg_name seg) sec).
    set (pre := (opt_align (section_start_align seg) ++ opt_align (lookup sec (sections_start_alignment seg)))%list).
    assert (E : section_symbol_start rt sty cfg seg sec = (pre ++ [gp_assign g; linker_symbol START EDot])%list).
    { unfold section_symbol_start, pre. rewrite Hc, (gp_stmt_here rt seg sec g Hgp).
      repeat (rewrite <- app_assoc; cbn [app]). reflexivity. }
    unfold st1. rewrite E, run_app. exists (l_dot (runl pre st)).
    apply (top_gp_value (runl pre st) (gp_provide g) (gp_hidden g) (gp_offset g) START Hprov).
    - apply section_start_not_gp.
    - apply eqb_dot_sec_start.
  Qed.

  Lemma single_groups_gp rt stg cfg seg sections noload rest sec g : forall ws body ws' st0,
    section_syms cfg = true ->
    single_groups rt stg cfg seg sections noload rest ws = Ok (body, ws') ->
    In sec rest -> GpHere rt seg sec g ->
    (gp_provide g && is_some (lookup "_gp" ext))%bool = false ->
    count_assigns "_gp" body = 1%nat ->
    count_assigns (segment_section_start (linker_symbols_style stg) (sg_name seg) sec) body = 1%nat ->
    let st' := runl body st0 in
    exists S, lookup (segment_section_start (linker_symbols_style stg) (sg_name seg) sec) (l_syms st') = Some S /\
              lookup "_gp" (l_syms st') = Some (S + gp_offset g mod 4294967296).
  Proof.
    induction rest as [|sec0 rest IH]; intros ws body ws' st0 Hc H Hin Hgp Hprov Cg Cs st'; [contradiction|].
    apply single_groups_cons in H. destruct H as [s1 [ws1 [s2 [E1 [E2 E]]]]].
    set (sty := linker_symbols_style stg) in *.
    set (START := segment_section_start sty (sg_name seg) sec) in *.
    destruct (string_dec sec0 sec) as [Es|Hne].
    - subst sec0.
      set (SS := section_symbol_start rt sty cfg seg sec) in *.
      set (post := ([SOutSec sec None None noload (subalign seg) (opt_fill seg ++ s1)] ++
                    section_symbol_end sty cfg seg sec ++
                    (match rest with [] => [] | _ :: _ => [SBlank] end) ++ s2)%list).
      assert (Eb : body = (SS ++ post)%list) by (rewrite E; reflexivity).
      assert (G1 : (1 <= count_assigns "_gp" SS)%nat).
      { unfold SS, section_symbol_start. rewrite Hc, (gp_stmt_here rt seg sec g Hgp).
        apply count_in_ge with (s := gp_assign g); [in_solve | reflexivity]. }
      pose proof (count_start_ge rt sty cfg seg sec Hc) as G2. fold START SS in G2.
      rewrite Eb, !count_app in Cg, Cs.
      assert (P1 : existsb (assigns "_gp") post = false) by (apply existsb_count; lia).
      assert (P2 : existsb (assigns START) post = false) by (apply existsb_count; lia).
      unfold st'. rewrite Eb, run_app.
      rewrite (run_syms env senv ext final post START (runl SS st0) P2), (run_syms env senv ext final post "_gp" (runl SS st0) P1).
      apply (ss_gp rt sty cfg seg sec g st0 Hc Hgp Hprov).
    - destruct Hin as [Es|Hin]; [contradiction|].
      set (H0 := (section_symbol_start rt sty cfg seg sec0 ++
                  [SOutSec sec0 None None noload (subalign seg) (opt_fill seg ++ s1)] ++
                  section_symbol_end sty cfg seg sec0 ++
                  (match rest with [] => [] | _ :: _ => [SBlank] end))%list).
      assert (Eb : body = (H0 ++ s2)%list).
      { rewrite E. unfold H0. repeat rewrite <- app_assoc. reflexivity. }
      rewrite Eb, count_app in Cg, Cs.
      pose proof (single_gp_assigned _ _ _ _ _ _ _ _ _ _ _ _ E2 Hc Hin Hgp) as Hge1.
      pose proof (single_syms_assigned _ _ _ _ _ _ _ _ _ _ E2 Hc sec Hin START (or_introl eq_refl)) as Hge2.
      unfold st'. rewrite Eb, run_app.
      apply (IH ws1 s2 ws' (runl H0 st0) Hc E2 Hin Hgp Hprov); [lia|]. fold sty START. lia.
  Qed.

  Lemma count_gp_head stg cfg :
    section_syms cfg = true -> count_assigns "_gp" (single_gp_head stg cfg) = hardcoded_count stg.
  Proof.
    intro Hc. unfold single_gp_head, hardcoded_gp_stmts, hardcoded_count. rewrite Hc.
    destruct (hardcoded_gp_value stg); reflexivity.
  Qed.

  (* the whole body of SECTIONS, followed by any statements *)
  Theorem single_body_gp rt stg cfg classes seg ws s1 ws1 s2 ws' tl st0 sec g :
    section_syms cfg = true ->
    write_single_segment rt stg cfg seg (alloc_sections seg) false ws = Ok (s1, ws1) ->
    write_single_segment rt stg cfg seg (noload_sections seg) true ws1 = Ok (s2, ws') ->
    In sec (seg_sections seg) -> GpHere rt seg sec g ->
    (gp_provide g && is_some (lookup "_gp" ext))%bool = false ->
    let sty := linker_symbols_style stg in
    let START := segment_section_start sty (sg_name seg) sec in
    let body := single_sections_body stg cfg classes seg s1 s2 ws' in
    count_assigns "_gp" (body ++ tl) = (hardcoded_count stg + 1)%nat ->
    count_assigns START (body ++ tl) = 1%nat ->
    let st' := runl (body ++ tl) st0 in
    exists S, val st' START = Some S /\ val st' "_gp" = Some (S + gp_offset g mod 4294967296).
  Proof.
    intros Hc E1 E2 Hsec Hgp Hprov sty START body Cg Cs st'.
    apply write_single_segment_inv in E1. destruct E1 as [g1 [G1 Es1]].
    apply write_single_segment_inv in E2. destruct E2 as [g2 [G2 Es2]]. fold sty in Es1, Es2.
    set (ks := sections_kind_start sty cfg seg false) in *. set (ke := sections_kind_end sty cfg seg false) in *.
    set (ks2 := sections_kind_start sty cfg seg true) in *. set (ke2 := sections_kind_end sty cfg seg true) in *.
    set (P := (single_gp_head stg cfg ++ single_vram_head seg ++ ks)%list).
    set (M := (ke ++ [SBlank] ++ ks2)%list).
    set (R := (ke2 ++ [SBlank] ++ end_sections_body stg classes ws' ++ tl)%list).
    assert (Eall : (body ++ tl = P ++ g1 ++ M ++ g2 ++ R)%list).
    { unfold body, single_sections_body, P, M, R. rewrite Es1, Es2. repeat rewrite <- app_assoc. reflexivity. }
    assert (HP : (hardcoded_count stg <= count_assigns "_gp" P)%nat).
    { unfold P. rewrite count_app, (count_gp_head stg cfg Hc). lia. }
    rewrite Eall, !count_app in Cg, Cs.
    assert (Est' : st' = runl R (runl g2 (runl M (runl g1 (runl P st0))))).
    { unfold st'. rewrite Eall, !run_app. reflexivity. }
    unfold seg_sections in Hsec. apply in_app_or in Hsec. destruct Hsec as [Hsec|Hsec].
    - pose proof (single_gp_assigned _ _ _ _ _ _ _ _ _ _ _ _ G1 Hc Hsec Hgp) as Hge1.
      pose proof (single_syms_assigned _ _ _ _ _ _ _ _ _ _ G1 Hc sec Hsec START (or_introl eq_refl)) as Hge2.
      fold sty in Hge2.
      destruct (single_groups_gp rt stg cfg seg (alloc_sections seg) false (alloc_sections seg) sec g ws g1 ws1
                                 (runl P st0) Hc G1 Hsec Hgp Hprov) as [S [L1 L2]]; [lia | fold sty START; lia |].
      cbv zeta in L1, L2. fold sty START in L1.
      exists S. unfold val. rewrite Est'.
      split; (rewrite !run_syms by (apply existsb_count; lia)); assumption.
    - pose proof (single_gp_assigned _ _ _ _ _ _ _ _ _ _ _ _ G2 Hc Hsec Hgp) as Hge1.
      pose proof (single_syms_assigned _ _ _ _ _ _ _ _ _ _ G2 Hc sec Hsec START (or_introl eq_refl)) as Hge2.
      fold sty in Hge2.
      destruct (single_groups_gp rt stg cfg seg (noload_sections seg) true (noload_sections seg) sec g ws1 g2 ws'
                                 (runl M (runl g1 (runl P st0))) Hc G2 Hsec Hgp Hprov) as [S [L1 L2]];
        [lia | fold sty START; lia |].
      cbv zeta in L1, L2. fold sty START in L1.
      exists S. unfold val. rewrite Est'.
      split; (rewrite run_syms by (apply existsb_count; lia)); assumption.
  Qed.

  (* C17_single_document_gp_counted *)
  Theorem single_document_gp_counted d rt w st seg sec g :
    gen_normal d rt = Ok w -> doc_single_wf d rt = true -> doc_segments d = [seg] ->
    In sec (seg_sections seg) -> GpHere rt seg sec g ->
    (gp_provide g && is_some (lookup "_gp" ext))%bool = false ->
    count_assigns "_gp" (wo_script w) = (hardcoded_count (doc_settings d) + 1)%nat ->
    let sty := linker_symbols_style (doc_settings d) in
    let st' := exec_script env senv ext final (wo_script w) st in
    exists S,
      val st' (segment_section_start sty (sg_name seg) sec) = Some S /\
      val st' "_gp" = Some (S + gp_offset g mod 4294967296) /\
      (S + gp_offset g mod 4294967296) mod 4294967296 = (S + gp_offset g) mod 4294967296.
  Proof.
    intros Hg Hwf Hs Hsec Hgp Hprov Hcnt sty st'.
    destruct (doc_single_wf_inv d rt Hwf) as (seg0 & s & wsx & Es0 & Hm & Ea & Hw). cbv zeta in Hw.
    rewrite Hs in Es0. inversion Es0; subst seg0.
    destruct (single_script_shape d rt w Hg Hm) as (seg' & s1 & ws1 & s2 & ws' & Es & E1 & E2 & _ & _ & Ea' & Ew & _ & Hexec).
    rewrite Hs in Es. inversion Es; subst seg'. cbv zeta in Ea'. rewrite Ea in Ea'. apply ok_inj in Ea'.
    inversion Ea'; subst s wsx.
    destruct (single_stmts_wf_inv _ _ _ _ Hw) as [_ [_ Hc3]].
    pose proof (Hc3 sec _ Hsec (or_introl eq_refl)) as Cs.
    rewrite count_app, Proofs.DocSingle.count_sections, <- count_app in Cs.
    rewrite Ew, count_script in Hcnt.
    destruct (single_body_gp rt (doc_settings d) cfg_normal (doc_vram_classes d) seg ws0 s1 ws1 s2 ws' (tail_stmts rt d)
                             st sec g eq_refl E1 E2 Hsec Hgp Hprov Hcnt Cs) as [S [V1 V2]].
    exists S. unfold st'. rewrite Hexec, <- run_app.
    split; [exact V1|]. split; [exact V2|]. apply Zplus_mod_idemp_r.
  Qed.

  (* C17_single_document_gp *)
  Theorem single_document_gp d rt w st seg sec g :
    gen_normal d rt = Ok w -> doc_single_wf d rt = true -> doc_segments d = [seg] ->
    In sec (seg_sections seg) -> GpHere rt seg sec g ->
    (gp_provide g && is_some (lookup "_gp" ext))%bool = false ->
    user_gp rt d = 0%nat ->
    let sty := linker_symbols_style (doc_settings d) in
    let st' := exec_script env senv ext final (wo_script w) st in
    exists S,
      val st' (segment_section_start sty (sg_name seg) sec) = Some S /\
      val st' "_gp" = Some (S + gp_offset g mod 4294967296) /\
      (S + gp_offset g mod 4294967296) mod 4294967296 = (S + gp_offset g) mod 4294967296.
  Proof.
    intros Hg Hwf Hs Hsec Hgp Hprov Hu.
    apply (single_document_gp_counted d rt w st seg sec g); try assumption.
    destruct (doc_single_wf_inv d rt Hwf) as (seg0 & s & wsx & Es0 & Hm & Ea & Hw). cbv zeta in Hw.
    rewrite Hs in Es0. inversion Es0; subst seg0.
    destruct (single_stmts_wf_inv _ _ _ _ Hw) as [Hnd _].
    rewrite (document_gp_count d rt w Hg), Hm, Hs, Hu. cbn [map list_sum fold_right].
    destruct Hgp as [G1 [G2 G3]]. unfold gp_occurrences. rewrite G1, G2, G3.
    fold (seg_sections seg).
    rewrite (proj1 (NoDup_count_occ' string_dec (seg_sections seg)) Hnd sec Hsec). lia.
  Qed.
End GpSingle.

Theorem single_document_gp_layout d rt w u ext0 seg sec g :
  gen_normal d rt = Ok w -> doc_single_wf d rt = true -> doc_segments d = [seg] ->
  In sec (seg_sections seg) -> GpHere rt seg sec g ->
  (gp_provide g && is_some (lookup "_gp" (last_ext (wo_script w) u ext0)))%bool = false ->
  user_gp rt d = 0%nat ->
  let sty := linker_symbols_style (doc_settings d) in
  let st' := layout (wo_script w) u ext0 in
  exists S,
    val st' (segment_section_start sty (sg_name seg) sec) = Some S /\
    val st' "_gp" = Some (S + gp_offset g mod 4294967296) /\
    (S + gp_offset g mod 4294967296) mod 4294967296 = (S + gp_offset g) mod 4294967296.
Proof.
  intros Hg Hwf Hs Hsec Hgp Hprov Hu sty st'. unfold st', layout.
  apply (single_document_gp _ _ _ _ d rt w (init_state u) seg sec g); assumption.
Qed.

(* ---------- statements used by Properties/C01ListedModes.v ---------- *)

Theorem single_segment_claims rt d cfg seg ws s ws' :
  add_single_segment rt (doc_settings d) cfg (doc_vram_classes d) seg ws = Ok (s, ws') ->
  (exists A, flat_map top_claims (flat_stmts s) = (A ++ tail_claims (doc_settings d))%list /\
     (forall c, In c A -> single_listed rt cfg d seg c) /\
     (forall nl section lf bc p k, leaf_reaches_from rt cfg d seg nl section lf bc p k ->
                                   In (single_leaf_claim seg section lf bc p k) A)) /\
  Forall addr_free (flat_stmts s).
Proof.
  intro H. split; [exact (add_single_claims rt d cfg seg ws s ws' H) | exact (af_add_single _ _ _ _ _ _ _ _ H)].
Qed.

Theorem partial_sub_listed_layout d rt p name w u ext0 :
  gen_partial d rt = Ok p -> In (name, w) (po_subs p) ->
  let p1 := exec_script [] [] ext0 false (wo_script w) (init_state u) in
  let p2 := exec_script (l_syms p1) (l_secs p1) (ext0 ++ markers_of p1)%list false (wo_script w) (init_state u) in
  exists seg, In seg (doc_segments d) /\ should_emit rt (sg_conds seg) = true /\ name = sg_name seg /\
    SingleClaims rt cfg_sub_partial d seg (wo_script w) /\ Forall addr_free (flat_stmts (wo_script w)) /\
    SubListedPlaced (l_syms p2) (l_secs p2) (ext0 ++ markers_of p2)%list true d rt seg w u.
Proof. intros Hg Hin p1 p2. exact (partial_sub_listed _ _ _ _ d rt p name w u Hg Hin). Qed.
