(* C09Doc: C09 at document level.  Part 1 reads the alignments off RomChain / VramChain (DocLevel);
   parts 2-4 locate the statements of one included segment inside the whole script (document_split) and
   run the per-group / per-section facts of Proofs/C09.v, C05.v, C03.v there, with the frame facts. *)
From Slinky Require Import Model.Types Model.Generated Model.Runtime Model.Style Model.Script Model.Writer Model.LdSem.
From Slinky Require Import Spec.C17 Spec.C04 Spec.C03 Spec.C09 Spec.C05 Spec.C10 Spec.DocLevel Spec.C09Doc.
From Slinky Require Import Proofs.C06 Proofs.C18 Proofs.C17 Proofs.LdLemmas Proofs.C09 Proofs.C05 Proofs.C04 Proofs.C03
     Proofs.C10 Proofs.DocLevel.
From Coq Require Import Lia ZArith.
Local Open Scope Z_scope.

(* ====================================================================== *)
(* alignment vocabulary                                                    *)
(* ====================================================================== *)

Lemma aligned_to_align_up a x : aligned_to a (align_up x (align_z a)).
Proof. intro H. apply align_up_divide. exact H. Qed.

Lemma aligned_to_some (a : option N) x :
  (forall n, a = Some n -> (0 < n)%N -> (Z.of_N n | x)) -> aligned_to a x.
Proof.
  unfold aligned_to. destruct a as [n|]; cbn [align_z]; intros H Hp.
  - apply (H n eq_refl). lia.
  - apply Z.divide_1_l.
Qed.

Lemma aligned_to_none x : aligned_to None x.
Proof. intros _. apply Z.divide_1_l. Qed.

Lemma pow2_compatible a b : pow2 a -> pow2 b -> compatible a b.
Proof. intros [n En] [m Em]. subst. apply pow2_divides_or. Qed.

Lemma lookup_in {A} x (l : list (string * A)) v : lookup x l = Some v -> In (x, v) l.
Proof.
  induction l as [|[k v0] r IH]; cbn [lookup]; intro H; [discriminate|].
  destruct (String.eqb x k) eqn:E.
  - apply String.eqb_eq in E. inversion H; subst. left. reflexivity.
  - right. apply IH. exact H.
Qed.

Lemma opt_compatible_pow2 a x (l : list (string * N)) :
  pow2_opt a -> Forall (fun p => pow2 (Z.of_N (snd p))) l -> opt_compatible a (lookup x l).
Proof.
  intros Ha Hl. destruct a as [n|]; [|exact I]. destruct (lookup x l) as [m|] eqn:E; [|exact I].
  cbn [opt_compatible]. apply pow2_compatible; [exact Ha|].
  apply lookup_in in E. rewrite Forall_forall in Hl. apply (Hl _ E).
Qed.

Lemma opt_compatible_some a n : opt_compatible a (Some n) -> compatible (align_z a) (Z.of_N n).
Proof.
  destruct a as [m|]; cbn [opt_compatible align_z]; intro H; [exact H|]. left. apply Z.divide_1_l.
Qed.

(* aligning a multiple of sa to a compatible A keeps a multiple of sa *)
Lemma align_up_compat x sa A : 0 < sa -> (sa | x) -> compatible sa A -> (sa | align_up x A).
Proof.
  intros Hsa Hd Hc. destruct (Z_le_gt_dec A 1) as [HA|HA].
  - unfold align_up. apply Z.leb_le in HA. rewrite HA. exact Hd.
  - destruct Hc as [Hc|Hc].
    + eapply Z.divide_trans; [exact Hc|]. apply align_up_divide. lia.
    + rewrite align_up_fix; [exact Hd | lia |]. eapply Z.divide_trans; [exact Hc | exact Hd].
Qed.

(* ====================================================================== *)
(* 1. the segment symbols: corollaries of RomChain / VramChain             *)
(* ====================================================================== *)

Lemma RomChain_aligned sty st' segs : forall r seg,
  RomChain sty st' r segs -> In seg segs ->
  exists o rs re,
    find_sec (alloc_name seg) (l_secs st') = Some o /\ os_lma o = Some rs /\
    val st' (segment_rom_start sty (sg_name seg)) = Some rs /\
    val st' (segment_rom_end sty (sg_name seg)) = Some re /\
    aligned_to (segment_start_align seg) rs /\ aligned_to (segment_end_align seg) re.
Proof.
  induction segs as [|s0 rest IH]; intros r seg H Hin; [contradiction|].
  cbn [RomChain] in H. cbv zeta in H. destruct H as (o & F & L & N & Z0 & V1 & V2 & V3 & Hrest).
  destruct Hin as [E|Hin].
  - subst s0. exists o. eexists. eexists.
    split; [exact F|]. split; [exact L|]. split; [exact V1|]. split; [exact V2|].
    split; apply aligned_to_align_up.
  - eapply IH; eassumption.
Qed.

Lemma VramChain_aligned sty senv st' segs : forall dt seg,
  VramChain sty senv st' dt segs -> In seg segs ->
  exists ve, val st' (segment_vram_end sty (sg_name seg)) = Some ve /\ aligned_to (segment_end_align seg) ve.
Proof.
  induction segs as [|s0 rest IH]; intros dt seg H Hin; [contradiction|].
  cbn [VramChain] in H. cbv zeta in H.
  destruct H as (o1 & o2 & A2 & F1 & F2 & N1 & Z1 & N2 & C2 & Z2 & V2 & L2 & VE & VZ & VS & DS & Hrest).
  destruct Hin as [E|Hin].
  - subst s0. eexists. split; [exact VE | apply aligned_to_align_up].
  - eapply IH; eassumption.
Qed.

Theorem document_segments env senv ext final d rt w u :
  gen_normal d rt = Ok w -> doc_link_wf d rt = true ->
  Forall (fun x => 0 <= u_size x) u ->
  let sty := linker_symbols_style (doc_settings d) in
  let segs := included rt (doc_segments d) in
  let st' := exec_script env senv ext final (wo_script w) (init_state u) in
  (forall seg, In seg segs -> ~ In (LForwardRef (alloc_name seg)) (l_errors st')) ->
  forall seg, In seg segs -> SegmentAligned sty st' seg.
Proof.
  intros Hg Hwf Hu sty segs st' Herr seg Hin.
  destruct (document_chains env senv ext final d rt w u Hg Hwf Hu Herr) as [R [V _]].
  destruct (RomChain_aligned _ _ _ _ _ R Hin) as (o & rs & re & F & L & V1 & V2 & A1 & A2).
  destruct (VramChain_aligned _ _ _ _ _ _ V Hin) as (ve & V3 & A3).
  exists o, rs, re, ve. repeat split; assumption.
Qed.

Theorem document_segments_layout d rt w u ext0 :
  gen_normal d rt = Ok w -> doc_link_wf d rt = true ->
  Forall (fun x => 0 <= u_size x) u ->
  let sty := linker_symbols_style (doc_settings d) in
  let segs := included rt (doc_segments d) in
  let st' := layout (wo_script w) u ext0 in
  (forall seg, In seg segs -> ~ In (LForwardRef (alloc_name seg)) (l_errors st')) ->
  forall seg, In seg segs -> SegmentAligned sty st' seg.
Proof. intros Hg Hwf Hu sty segs st'. unfold st', layout. apply document_segments; assumption. Qed.

(* ====================================================================== *)
(* where the statements of one included segment are in the script          *)
(* ====================================================================== *)

Lemma makes_sec_fold rt stg cfg classes segs : forall ws body ws',
  fold_out (add_segment rt stg cfg classes) segs ws = Ok (body, ws') ->
  flat_map makes_sec body = out_names (included rt segs).
Proof.
  induction segs as [|x r IH]; intros ws body ws' H.
  - apply fold_out_nil in H. destruct H; subst. reflexivity.
  - apply fold_out_cons in H. destruct H as [s1 [ws1 [s2 [E1 [E2 E]]]]]. subst body.
    rewrite flat_map_app, (makes_sec_add_segment _ _ _ _ _ _ _ _ E1), (IH _ _ _ E2).
    unfold included. cbn [filter]. destruct (should_emit rt (sg_conds x)); reflexivity.
Qed.

Section Split.
  Variables (d : document) (rt : runtime).
  Let stg := doc_settings d.
  Let sty := linker_symbols_style stg.
  Let classes := doc_vram_classes d.

  Lemma document_split w seg :
    gen_normal d rt = Ok w -> doc_link_wf d rt = true -> In seg (included rt (doc_segments d)) ->
    exists body ws' b1 wsa s1 wsb b2 cls ws1 body1 ws2 body2,
      let fin := (end_sections_body stg classes ws' ++ tail_stmts rt d)%list in
      let O1 := SOutSec (alloc_name seg) (segment_addr sty seg) (Some (segment_rom_start sty (sg_name seg))) false
                        (subalign seg) (opt_fill seg ++ body1) in
      let O2 := SOutSec (noload_name seg) None None true (subalign seg) (opt_fill seg ++ body2) in
      (forall env senv ext final st,
         exec_script env senv ext final (wo_script w) st =
         run env senv ext final (begin_sections_body stg ++ body ++ fin) st) /\
      body = (b1 ++ s1 ++ b2)%list /\
      add_segment rt stg cfg_normal classes seg wsa = Ok (s1, wsb) /\
      should_emit rt (sg_conds seg) = true /\
      class_part stg classes seg wsa = Ok (cls, ws1) /\
      part_groups rt stg cfg_normal seg (alloc_sections seg) (alloc_sections seg) ws1 = Ok (body1, ws2) /\
      part_groups rt stg cfg_normal seg (noload_sections seg) (noload_sections seg) ws2 = Ok (body2, wsb) /\
      s1 = (cls ++ seg_head stg seg ++
            (sections_kind_start sty cfg_normal seg false ++ [O1] ++ sections_kind_end sty cfg_normal seg false) ++
            [SBlank] ++
            (sections_kind_start sty cfg_normal seg true ++ [O2] ++ sections_kind_end sty cfg_normal seg true) ++
            [SBlank] ++ seg_foot stg seg)%list /\
      ~ In (alloc_name seg) (flat_map makes_sec (begin_sections_body stg ++ b1)) /\
      ~ In (noload_name seg) (flat_map makes_sec (begin_sections_body stg ++ b1)) /\
      ~ In (alloc_name seg) (flat_map makes_sec b2) /\
      ~ In (noload_name seg) (flat_map makes_sec b2) /\
      seg_link_wf sty (begin_sections_body stg ++ body ++ fin) seg = true.
  Proof.
    intros Hg Hwf Hin.
    destruct (doc_exec d rt w Hg Hwf) as (body & ws' & E & Hnd & Hseg & _ & _ & Hexec).
    fold stg classes sty in E, Hseg, Hexec.
    destruct (fold_segment_split _ _ _ _ _ _ _ _ _ E Hin Hnd) as (b1 & wsa & s1 & wsb & b2 & Ea & Eb & Fr1 & Fr2).
    pose proof (Hseg seg Hin) as Hwfs.
    pose proof Hin as Hin0. apply filter_In in Hin0. destruct Hin0 as [_ Hc].
    pose proof Ea as Ea0. apply add_segment_inv in Ea0.
    destruct Ea0 as [[Hc' _] | [_ [cls [ws1 [s1a [ws2 [s2a [Ec [E1 [E2 Es1]]]]]]]]]]; [congruence|].
    apply write_segment_inv in E1. destruct E1 as [body1 [Hg1 E1]]. rewrite alloc_name_outsec in E1.
    apply write_segment_inv in E2. destruct E2 as [body2 [Hg2 E2]]. rewrite noload_name_outsec in E2.
    fold sty in E1, E2.
    exists body, ws', b1, wsa, s1, wsb, b2, cls, ws1, body1, ws2, body2. cbv zeta.
    split; [exact Hexec|]. split; [exact Eb|]. split; [exact Ea|]. split; [exact Hc|]. split; [exact Ec|].
    split; [exact Hg1|]. split; [exact Hg2|].
    split; [rewrite Es1, E1, E2; reflexivity|].
    (* the names of the output sections *)
    pose proof (makes_sec_fold _ _ _ _ _ _ _ _ E) as Hms.
    rewrite Eb, !flat_map_app, (makes_sec_add_segment _ _ _ _ _ _ _ _ Ea), Hc in Hms.
    unfold included in Hnd. fold (included rt (doc_segments d)) in Hnd. rewrite <- Hms in Hnd.
    split; [rewrite flat_map_app, makes_sec_begin; exact Fr1|].
    split; [rewrite flat_map_app, makes_sec_begin; exact Fr2|].
    split.
    { cbn [app] in Hnd. apply NoDup_remove_2 in Hnd. intro Hbad. apply Hnd. apply in_or_app. right. right. exact Hbad. }
    split; [|exact Hwfs].
    change (flat_map makes_sec b1 ++ [alloc_name seg; noload_name seg] ++ flat_map makes_sec b2)%list
      with (flat_map makes_sec b1 ++ alloc_name seg :: noload_name seg :: flat_map makes_sec b2)%list in Hnd.
    assert (Hnd' : NoDup ((flat_map makes_sec b1 ++ [alloc_name seg]) ++ noload_name seg :: flat_map makes_sec b2)).
    { rewrite <- app_assoc. exact Hnd. }
    apply NoDup_remove_2 in Hnd'. intro Hbad. apply Hnd'. apply in_or_app. right. exact Hbad.
  Qed.
End Split.

(* ====================================================================== *)
(* 2. the section groups                                                   *)
(* ====================================================================== *)

Lemma GroupAligned_frame sty syms syms' seg base sec :
  (forall x, In x (sec_syms3 sty (sg_name seg) sec) -> lookup x syms' = lookup x syms) ->
  GroupAligned sty syms seg base sec -> GroupAligned sty syms' seg base sec.
Proof.
  intros Hs (S & E & L1 & L2 & Hrest). exists S, E.
  split; [rewrite (Hs _ (or_introl eq_refl)); exact L1|].
  split; [rewrite (Hs _ (or_intror (or_introl eq_refl))); exact L2|]. exact Hrest.
Qed.

Lemma group_all_of_pow2 sty syms seg base sec :
  group_aligns_pow2 seg -> GroupAligned sty syms seg base sec -> GroupAlignedAll sty syms seg base sec.
Proof.
  intros (P1 & P2 & P3 & P4) (S & E & L1 & L2 & A1 & A2 & A3 & A4). exists S, E.
  split; [exact L1|]. split; [exact L2|]. split; [exact A1|].
  split; [apply A2; apply opt_compatible_pow2; assumption|]. split; [exact A3|].
  apply A4. apply opt_compatible_pow2; assumption.
Qed.

Section DocGroupsAligned.
  Variables (env : list (string * Z)) (senv : list osec) (ext : list (string * Z)) (final : bool).
  Notation top := (exec_top_stmt env senv ext final).
  Notation runl := (run env senv ext final).
  Notation secs vma sub name := (exec_sec_stmt env senv ext final vma sub name).

  (* ---------- one group inside an output section ---------- *)

  Lemma group_aligned vma sub outsec rt sty cfg seg sections base section ws files ws' ss :
    section_syms cfg = true ->
    emit_section rt sty cfg seg sections base section ws = Ok (files, ws') ->
    nonneg_sizes (l_remaining (s_st ss)) ->
    let ss' := fold_left (secs vma sub outsec)
                         (section_symbol_start rt sty cfg seg section ++ files ++
                          section_symbol_end sty cfg seg section) ss in
    GroupAligned sty (l_syms (s_st ss')) seg vma section.
  Proof.
    intros Hc Hf Hn ss'. subst ss'. rewrite !fold_left_app.
    set (START := segment_section_start sty (sg_name seg) section).
    set (END_ := segment_section_end sty (sg_name seg) section).
    (* start *)
    pose proof (group_start_aligned env senv ext final vma sub outsec rt sty cfg seg section ss Hc) as HS.
    cbv zeta in HS.
    pose proof (sec_fold env ext senv final vma sub outsec (section_symbol_start rt sty cfg seg section) ss Hn)
      as [_ [Hn1 _]].
    set (ss1 := fold_left (secs vma sub outsec) (section_symbol_start rt sty cfg seg section) ss) in *.
    destruct HS as [L1 [_ [SB SA]]]. fold START in L1.
    (* files *)
    pose proof (group_stmts_emit_section _ _ _ _ _ _ _ _ _ _ Hf) as Hg.
    destruct (group_fold_syms env ext senv final vma sub outsec sty _ files Hg ss1 Hn1) as [news [Es2 Fs2]].
    set (ss2 := fold_left (secs vma sub outsec) files ss1) in *.
    assert (Hskip : Forall (fun nv => fst nv <> START) news).
    { eapply Forall_impl; [|exact Fs2]. intros nv [_ [name [_ En]]]. rewrite En, <- linker_offset_doc.
      apply offset_neq_sec_start. }
    assert (Hs2 : lookup START (l_syms (s_st ss2)) = Some (vma + s_off ss1)).
    { rewrite Es2, lookup_app_skip by exact Hskip. exact L1. }
    (* end *)
    pose proof (group_end_aligned env senv ext final vma sub outsec sty cfg seg section ss2 Hc) as HE.
    cbv zeta in HE.
    destruct (group_end_exec env ext senv final vma sub outsec sty cfg seg section ss2 Hc)
      as [st3 [E3 [_ [_ [Ho3 _]]]]].
    set (ss3 := fold_left (secs vma sub outsec) (section_symbol_end sty cfg seg section) ss2) in *.
    destruct HE as [L3 [_ [EB [EA _]]]]. fold END_ in L3.
    exists (vma + s_off ss1), (vma + s_off ss3).
    split.
    { destruct (Ho3 START) as [H|H]; [apply sec_start_neq_end | apply sec_start_neq_size | |].
      - rewrite E3. cbn [s_st]. exact (eq_trans H Hs2).
      - fold START in H. rewrite (sym_lookup_defined _ _ _ env ext Hs2) in H. discriminate. }
    split; [exact L3|].
    replace (vma + s_off ss1 - vma) with (s_off ss1) by lia.
    replace (vma + s_off ss3 - vma) with (s_off ss3) by lia.
    split; [apply aligned_to_some; exact SB|].
    split.
    { intro Hcomp. apply aligned_to_some. intros a Ea Ha. apply (SA a Ea Ha). intros b Eb.
      rewrite Ea, Eb in Hcomp. exact Hcomp. }
    split; [apply aligned_to_some; exact EB|].
    intro Hcomp. apply aligned_to_some. intros a Ea Ha. apply (EA a Ea Ha). intros b Eb.
    rewrite Ea, Eb in Hcomp. exact Hcomp.
  Qed.

  (* ---------- the groups of one output section, inside the section ---------- *)

  Lemma groups_aligned_fold vma sub outsec rt stg cfg seg sections rest : forall ws body ws' ss,
    section_syms cfg = true ->
    part_groups rt stg cfg seg sections rest ws = Ok (body, ws') ->
    (forall sec x, In sec rest -> In x (sec_syms3 (linker_symbols_style stg) (sg_name seg) sec) ->
                   count_assigns x body = 1%nat) ->
    nonneg_sizes (l_remaining (s_st ss)) ->
    let ss' := fold_left (secs vma sub outsec) body ss in
    Forall (GroupAligned (linker_symbols_style stg) (l_syms (s_st ss')) seg vma) rest.
  Proof.
    induction rest as [|sec rest IH]; intros ws body ws' ss Hc H Hcnt Hn ss'; [constructor|].
    apply part_groups_cons in H. destruct H as [s1 [ws1 [s2 [E1 [E2 E]]]]].
    set (sty := linker_symbols_style stg) in *.
    set (G := (section_symbol_start rt sty cfg seg sec ++ s1 ++ section_symbol_end sty cfg seg sec)%list).
    set (bl := match rest with [] => [] | _ :: _ => [SBlank] end) in *.
    assert (Eb : body = (G ++ bl ++ s2)%list).
    { rewrite E. unfold G. repeat rewrite <- app_assoc. reflexivity. }
    pose proof (group_aligned vma sub outsec rt sty cfg seg sections (base_path stg) sec ws s1 ws1 ss Hc E1 Hn) as HG.
    cbv zeta in HG. fold G in HG.
    pose proof (sec_fold env ext senv final vma sub outsec G ss Hn) as [_ [N1 _]].
    set (ss1 := fold_left (secs vma sub outsec) G ss) in *.
    assert (Ebl : fold_left (secs vma sub outsec) bl ss1 = ss1) by (unfold bl; destruct rest; reflexivity).
    subst ss'. rewrite Eb, !fold_left_app. fold ss1. rewrite Ebl.
    assert (HT0 : forall x, In x (sec_syms3 sty (sg_name seg) sec) -> existsb (assigns x) s2 = false).
    { intros x Hx. apply existsb_count. pose proof (Hcnt sec x (or_introl eq_refl) Hx) as Hc1.
      rewrite Eb, !count_app in Hc1.
      pose proof (group_head_assigned rt sty cfg seg sec s1 x Hc Hx) as HGe. fold G in HGe. lia. }
    assert (Hs2cnt : forall sec' x, In sec' rest -> In x (sec_syms3 sty (sg_name seg) sec') ->
                                    count_assigns x s2 = 1%nat).
    { intros sec' x Hin Hx. pose proof (Hcnt sec' x (or_intror Hin) Hx) as Hc1.
      rewrite Eb, !count_app in Hc1.
      pose proof (group_syms_assigned _ _ _ _ _ _ _ _ _ E2 Hc sec' Hin x Hx) as Hge. fold sty in Hge. lia. }
    pose proof (IH ws1 s2 ws' ss1 Hc E2 Hs2cnt N1) as Hrest. cbv zeta in Hrest.
    constructor; [|exact Hrest].
    eapply GroupAligned_frame; [|exact HG].
    intros x Hx. apply sec_fold_syms. apply HT0. exact Hx.
  Qed.

  (* ---------- one output section in the middle of a statement list ---------- *)

  Lemma outsec_groups_aligned rt stg cfg seg sections ws gbody ws' name addr at_ noload A B st0 :
    let sty := linker_symbols_style stg in
    let O := SOutSec name addr at_ noload (subalign seg) (opt_fill seg ++ gbody) in
    let L := (A ++ O :: B)%list in
    section_syms cfg = true ->
    part_groups rt stg cfg seg sections sections ws = Ok (gbody, ws') ->
    (forall sec x, In sec sections -> In x (sec_syms3 sty (sg_name seg) sec) -> count_assigns x L = 1%nat) ->
    sizes_ok st0 ->
    (forall e, outsec_vma env senv ext addr (subalign seg) (opt_fill seg ++ gbody) (runl A st0) <> Err e) ->
    find_sec name (l_secs (runl A st0)) = None ->
    let st' := runl L st0 in
    exists o, find_sec name (l_secs st') = Some o /\
              Forall (GroupAligned sty (l_syms st') seg (os_vma o)) sections.
  Proof.
    intros sty O L Hc Hg Hcnt Hsz Hvma Hfresh st'.
    set (stA := runl A st0) in *.
    assert (HszA : sizes_ok stA) by (apply run_remaining_Forall; exact Hsz).
    destruct (outsec_vma env senv ext addr (subalign seg) (opt_fill seg ++ gbody) stA) as [vma|e] eqn:Ev;
      [|exfalso; eapply Hvma; reflexivity].
    pose proof (exec_outsec_ok env senv ext final name addr at_ noload (subalign seg) (opt_fill seg ++ gbody)
                               stA vma Ev) as HO.
    cbv zeta in HO. destruct HO as [_ [Hsyms [_ [Hsecs _]]]].
    set (ss := outsec_body env senv ext final name (subalign seg) (opt_fill seg ++ gbody) vma stA) in *.
    set (stO := exec_outsec env senv ext final name addr at_ noload (subalign seg) (opt_fill seg ++ gbody) stA) in *.
    assert (Ess : ss = fold_left (secs vma (option_map Z.of_N (subalign seg)) name) gbody (SState 0 false stA)).
    { unfold ss, outsec_body. rewrite fold_left_app. unfold opt_fill. destruct (fill_value seg); reflexivity. }
    assert (HcntO : forall sec x, In sec sections -> In x (sec_syms3 sty (sg_name seg) sec) ->
                                  count_assigns x gbody = 1%nat /\ count_assigns x B = 0%nat).
    { intros sec x Hin Hx. pose proof (Hcnt sec x Hin Hx) as H1. unfold L in H1.
      rewrite count_app, count_cons in H1. unfold O in H1. cbn [assign_count] in H1.
      change (list_sum (map (assign_count x) (opt_fill seg ++ gbody))) with (count_assigns x (opt_fill seg ++ gbody)) in H1.
      rewrite count_app, count_opt_fill in H1.
      pose proof (group_syms_assigned _ _ _ _ _ _ _ _ _ Hg Hc sec Hin x Hx) as Hge. fold sty in Hge. lia. }
    pose proof (groups_aligned_fold vma (option_map Z.of_N (subalign seg)) name rt stg cfg seg sections sections ws gbody
                          ws' (SState 0 false stA) Hc Hg (fun sec x Hin Hx => proj1 (HcntO sec x Hin Hx)) HszA)
      as Hchain.
    cbv zeta in Hchain. rewrite <- Ess in Hchain. fold sty in Hchain.
    assert (Est' : st' = runl B stO).
    { unfold st', L. rewrite run_app, run_cons. reflexivity. }
    destruct (run_secs env senv ext final B stO) as [newsec [En _]].
    eexists. split.
    { rewrite Est', En, Hsecs. apply find_sec_app. rewrite find_sec_app_none by exact Hfresh.
      unfold find_sec. cbn [find os_name]. rewrite String.eqb_refl. reflexivity. }
    cbn [os_vma]. apply Forall_forall. intros sec Hin. rewrite Forall_forall in Hchain.
    eapply GroupAligned_frame; [|exact (Hchain sec Hin)].
    intros x Hx. rewrite Est', run_syms; [rewrite Hsyms; reflexivity|].
    apply existsb_count. apply (HcntO sec x Hin Hx).
  Qed.

  (* ---------- C09_document_groups ---------- *)

  Theorem document_groups_aligned d rt w u seg :
    gen_normal d rt = Ok w -> doc_link_wf d rt = true ->
    Forall (fun x => 0 <= u_size x) u ->
    In seg (included rt (doc_segments d)) ->
    let sty := linker_symbols_style (doc_settings d) in
    let st' := exec_script env senv ext final (wo_script w) (init_state u) in
    ~ In (LForwardRef (alloc_name seg)) (l_errors st') ->
    SegmentGroupsAligned sty st' seg.
  Proof.
    intros Hg Hwf Hu Hin sty st' Herr.
    destruct (document_split d rt w seg Hg Hwf Hin)
      as (body & ws' & b1 & wsa & s1 & wsb & b2 & cls & ws1 & body1 & ws2 & body2 & Hsplit).
    cbv zeta in Hsplit.
    destruct Hsplit as (Hexec & Eb & Ea & Hc & Ec & Hg1 & Hg2 & Es1 & Fa1 & Fn1 & Fa2 & Fn2 & Hwfs).
    set (stg := doc_settings d) in *. set (classes := doc_vram_classes d) in *. fold sty in Hg1, Hg2, Es1, Hwfs.
    set (fin := (end_sections_body stg classes ws' ++ tail_stmts rt d)%list) in *.
    unfold st' in *. rewrite Hexec in *. clear Hexec st'.
    destruct (seg_wf_parts _ _ _ Hwfs) as [_ [_ [_ Hsecs]]].
    set (ks := sections_kind_start sty cfg_normal seg false) in *.
    set (ke := sections_kind_end sty cfg_normal seg false) in *.
    set (ks2 := sections_kind_start sty cfg_normal seg true) in *.
    set (ke2 := sections_kind_end sty cfg_normal seg true) in *.
    set (O1 := SOutSec (alloc_name seg) (segment_addr sty seg) (Some (segment_rom_start sty (sg_name seg))) false
                       (subalign seg) (opt_fill seg ++ body1)) in *.
    set (O2 := SOutSec (noload_name seg) None None true (subalign seg) (opt_fill seg ++ body2)) in *.
    set (all := (begin_sections_body stg ++ body ++ fin)%list) in *.
    set (A1 := ((begin_sections_body stg ++ b1) ++ cls ++ seg_head stg seg ++ ks)%list).
    set (B1 := (ke ++ [SBlank] ++ (ks2 ++ [O2] ++ ke2) ++ [SBlank] ++ seg_foot stg seg ++ b2 ++ fin)%list).
    set (A2 := ((begin_sections_body stg ++ b1) ++ cls ++ seg_head stg seg ++ (ks ++ [O1] ++ ke) ++ [SBlank] ++ ks2)%list).
    set (B2 := (ke2 ++ [SBlank] ++ seg_foot stg seg ++ b2 ++ fin)%list).
    assert (EL1 : all = (A1 ++ O1 :: B1)%list).
    { unfold all, A1, B1. rewrite Eb, Es1. repeat (rewrite <- app_assoc; cbn [app]). reflexivity. }
    assert (EL2 : all = (A2 ++ O2 :: B2)%list).
    { unfold all, A2, B2. rewrite Eb, Es1. repeat (rewrite <- app_assoc; cbn [app]). reflexivity. }
    assert (Hcnt : forall sec x, In sec (seg_sections seg) -> In x (sec_syms3 sty (sg_name seg) sec) ->
                                 count_assigns x all = 1%nat).
    { intros sec x Hs Hx. specialize (Hsecs sec Hs). unfold section_names_once, assigned_once_deep in Hsecs.
      apply andb_true_iff in Hsecs. destruct Hsecs as [Hsecs H3]. apply andb_true_iff in Hsecs.
      destruct Hsecs as [H1 H2]. apply Nat.eqb_eq in H1. apply Nat.eqb_eq in H2. apply Nat.eqb_eq in H3.
      destruct Hx as [Ex|[Ex|[Ex|[]]]]; subst x; assumption. }
    split.
    - rewrite EL1 in Herr, Hcnt |- *.
      apply (outsec_groups_aligned rt stg cfg_normal seg (alloc_sections seg) ws1 body1 ws2 (alloc_name seg)
                           (segment_addr sty seg) (Some (segment_rom_start sty (sg_name seg))) false A1 B1
                           (init_state u) eq_refl Hg1).
      + intros sec x Hs Hx. apply (Hcnt sec x); [apply in_or_app; left; exact Hs | exact Hx].
      + exact Hu.
      + intros e Ev. apply Herr. rewrite run_app, run_cons. apply run_errors_in.
        unfold O1. cbn [exec_top_stmt]. rewrite (exec_outsec_err _ _ _ _ _ _ _ _ _ _ _ _ Ev).
        cbn [add_err l_errors]. apply in_or_app. right. left. reflexivity.
      + apply run_find_sec_none; [reflexivity|]. unfold A1.
        rewrite (flat_map_app _ (begin_sections_body stg ++ b1)), !flat_map_app,
          (makes_sec_plain cls (pl_class_part _ _ _ _ _ _ Ec)),
          (makes_sec_plain _ (pl_seg_head _ _)), (makes_sec_plain ks (pl_kind_start _ _ _ _)).
        cbn [app]. rewrite ?app_nil_r, <- flat_map_app. exact Fa1.
    - rewrite EL2 in Hcnt |- *.
      apply (outsec_groups_aligned rt stg cfg_normal seg (noload_sections seg) ws2 body2 wsb (noload_name seg)
                           None None true A2 B2 (init_state u) eq_refl Hg2).
      + intros sec x Hs Hx. apply (Hcnt sec x); [apply in_or_app; right; exact Hs | exact Hx].
      + exact Hu.
      + intros e Ev. cbn [outsec_vma] in Ev. discriminate Ev.
      + apply run_find_sec_none; [reflexivity|]. unfold A2.
        rewrite (flat_map_app _ (begin_sections_body stg ++ b1)), !flat_map_app,
          (makes_sec_plain cls (pl_class_part _ _ _ _ _ _ Ec)),
          (makes_sec_plain _ (pl_seg_head _ _)), (makes_sec_plain ks2 (pl_kind_start _ _ _ _)),
          (makes_sec_plain ks (pl_kind_start _ _ _ _)), (makes_sec_plain ke (pl_kind_end _ _ _ _)).
        cbn [app flat_map makes_sec O1]. rewrite ?app_nil_r, <- flat_map_app. intro Hbad. apply in_app_or in Hbad.
        destruct Hbad as [Hbad|[Eq|[]]]; [exact (Fn1 Hbad) | exact (alloc_noload_neq seg Eq)].
  Qed.

  Theorem document_groups_pow2 d rt w u seg :
    gen_normal d rt = Ok w -> doc_link_wf d rt = true ->
    Forall (fun x => 0 <= u_size x) u ->
    In seg (included rt (doc_segments d)) ->
    group_aligns_pow2 seg ->
    let sty := linker_symbols_style (doc_settings d) in
    let st' := exec_script env senv ext final (wo_script w) (init_state u) in
    ~ In (LForwardRef (alloc_name seg)) (l_errors st') ->
    SegmentGroupsAlignedAll sty st' seg.
  Proof.
    intros Hg Hwf Hu Hin Hp sty st' Herr.
    destruct (document_groups_aligned d rt w u seg Hg Hwf Hu Hin Herr) as [[o1 [F1 G1]] [o2 [F2 G2]]].
    split; [exists o1 | exists o2]; (split; [assumption|]);
      (eapply Forall_impl; [|eassumption]); intros sec Hs; apply group_all_of_pow2; assumption.
  Qed.
End DocGroupsAligned.

Theorem document_groups_aligned_layout d rt w u ext0 seg :
  gen_normal d rt = Ok w -> doc_link_wf d rt = true ->
  Forall (fun x => 0 <= u_size x) u ->
  In seg (included rt (doc_segments d)) ->
  let sty := linker_symbols_style (doc_settings d) in
  let st' := layout (wo_script w) u ext0 in
  ~ In (LForwardRef (alloc_name seg)) (l_errors st') ->
  SegmentGroupsAligned sty st' seg.
Proof.
  intros Hg Hwf Hu Hin sty st' Herr. unfold st', layout in *.
  apply (document_groups_aligned _ _ _ _ d rt w u seg Hg Hwf Hu Hin). exact Herr.
Qed.

Theorem document_groups_pow2_layout d rt w u ext0 seg :
  gen_normal d rt = Ok w -> doc_link_wf d rt = true ->
  Forall (fun x => 0 <= u_size x) u ->
  In seg (included rt (doc_segments d)) ->
  group_aligns_pow2 seg ->
  let sty := linker_symbols_style (doc_settings d) in
  let st' := layout (wo_script w) u ext0 in
  ~ In (LForwardRef (alloc_name seg)) (l_errors st') ->
  SegmentGroupsAlignedAll sty st' seg.
Proof.
  intros Hg Hwf Hu Hin Hp sty st' Herr. unfold st', layout in *.
  apply (document_groups_pow2 _ _ _ _ d rt w u seg Hg Hwf Hu Hin Hp). exact Herr.
Qed.

(* ====================================================================== *)
(* 3. the default-placed VRAM start                                        *)
(* ====================================================================== *)

Lemma fold_max_P (P : Z -> Prop) (sub : option Z) chosen :
  Forall (fun u => P (u_align u)) chosen -> P (match sub with Some s => s | None => 1 end) ->
  forall acc, P acc ->
  P (fold_left (fun m u => Z.max (Z.max m (u_align u)) (match sub with Some s => s | None => 1 end)) chosen acc).
Proof.
  intros Hl Hs. induction Hl as [|u r Hu Hr IH]; intros acc Ha; [exact Ha|]. cbn [fold_left]. apply IH.
  destruct (Z.max_spec (Z.max acc (u_align u)) (match sub with Some s => s | None => 1 end)) as [[_ E]|[_ E]];
    rewrite E; [exact Hs|].
  destruct (Z.max_spec acc (u_align u)) as [[_ E']|[_ E']]; rewrite E'; assumption.
Qed.

(* the alignment ld gives an output section is 1, SUBALIGN, or the alignment of an input section *)
Lemma body_align_P (P : Z -> Prop) sub body :
  P (match sub with Some s => s | None => 1 end) ->
  forall rem acc, Forall (fun u => P (u_align u)) rem -> P acc -> P (body_align sub body rem acc).
Proof.
  intro Hs. induction body as [|s r IH]; intros rem acc Hrem Ha; [exact Ha|].
  destruct s; try (cbn [body_align]; apply IH; assumption).
  cbn [body_align]. apply IH; [apply Forall_filter; exact Hrem|].
  apply fold_max_P; [apply Forall_filter; exact Hrem | exact Hs | exact Ha].
Qed.

Section DocDefaultVram.
  Variables (env : list (string * Z)) (senv : list osec) (ext : list (string * Z)) (final : bool).
  Notation runl := (run env senv ext final).

  Theorem document_default_vram d rt w u seg :
    gen_normal d rt = Ok w -> doc_link_wf d rt = true ->
    Forall (fun x => 0 <= u_size x) u ->
    In seg (included rt (doc_segments d)) ->
    default_placed seg -> start_align_compatible seg u ->
    let st' := exec_script env senv ext final (wo_script w) (init_state u) in
    ~ In (LForwardRef (alloc_name seg)) (l_errors st') ->
    DefaultVramAligned st' seg.
  Proof.
    intros Hg Hwf Hu Hin (F1 & F2 & F3 & F4) [Hcu Hcs] st' Herr.
    destruct (document_split d rt w seg Hg Hwf Hin)
      as (body & ws' & b1 & wsa & s1 & wsb & b2 & cls & ws1 & body1 & ws2 & body2 & Hsplit).
    cbv zeta in Hsplit.
    destruct Hsplit as (Hexec & Eb & Ea & Hc & _ & _ & _ & _ & Fa1 & _ & _ & _ & Hwfs).
    set (stg := doc_settings d) in *. set (classes := doc_vram_classes d) in *.
    set (sty := linker_symbols_style stg) in *.
    set (fin := (end_sections_body stg classes ws' ++ tail_stmts rt d)%list) in *.
    unfold st' in *. rewrite Hexec in *. clear Hexec st'.
    set (pre := (begin_sections_body stg ++ b1)%list) in *.
    assert (EL : (begin_sections_body stg ++ body ++ fin = pre ++ s1 ++ (b2 ++ fin))%list).
    { unfold pre. rewrite Eb. repeat rewrite <- app_assoc. reflexivity. }
    rewrite EL in Herr, Hwfs |- *. rewrite !run_app in *.
    set (st0 := runl pre (init_state u)) in *.
    (* the VRAM symbols of the segment are assigned in s1 only *)
    destruct (seg_wf_parts _ _ _ Hwfs) as [_ [D _]].
    pose proof (vram_assigned_add_segment _ _ _ _ _ _ _ _ Ea Hc) as Hass. fold sty in Hass.
    destruct (vnd_app_r _ _ _ _ D (vram_assigned_app_l _ _ _ _ Hass)) as [D' _].
    destruct (vnd_app_l _ _ _ _ D' Hass) as [Hd1 _].
    assert (Hsz0 : sizes_ok st0) by (unfold st0; apply run_remaining_Forall; exact Hu).
    destruct (segment_vram env senv ext final rt stg cfg_normal classes seg wsa s1 wsb st0 Ea Hc Hd1)
      as (cls' & ws1' & bodyx & o1 & o2 & A2 & _ & Hrest).
    { intro Hbad. apply Herr. apply run_errors_in. apply run_errors_in. exact Hbad. }
    { exact Hsz0. }
    cbv zeta in Hrest. destruct Hrest as (Hdot & Hvma & Hsecs & N1 & _).
    fold sty in Hdot, Hvma.
    set (stE := runl (cls' ++ seg_head stg seg ++ sections_kind_start sty cfg_normal seg false) st0) in *.
    exists o1. split.
    - apply run_find_sec. apply run_find_sec. rewrite Hsecs. rewrite find_sec_app_none.
      + unfold find_sec. cbn [find]. rewrite N1, String.eqb_refl. reflexivity.
      + unfold st0. apply run_find_sec_none; [reflexivity | exact Fa1].
    - unfold segment_addr in Hvma. rewrite F1, F2, F3, F4 in Hvma. cbn [outsec_vma] in Hvma.
      apply ok_inj in Hvma. rewrite <- Hvma, Hdot. intro Hpos.
      apply align_up_compat; [exact Hpos | apply align_up_divide; exact Hpos |].
      apply (body_align_P (compatible (align_z (segment_start_align seg)))).
      + destruct (subalign seg) as [n|]; cbn [option_map].
        * apply opt_compatible_some. exact Hcs.
        * right. apply Z.divide_1_l.
      + unfold stE. apply run_remaining_Forall. unfold st0. apply run_remaining_Forall. exact Hcu.
      + right. apply Z.divide_1_l.
  Qed.
End DocDefaultVram.

Theorem document_default_vram_layout d rt w u ext0 seg :
  gen_normal d rt = Ok w -> doc_link_wf d rt = true ->
  Forall (fun x => 0 <= u_size x) u ->
  In seg (included rt (doc_segments d)) ->
  default_placed seg -> start_align_compatible seg u ->
  let st' := layout (wo_script w) u ext0 in
  ~ In (LForwardRef (alloc_name seg)) (l_errors st') ->
  DefaultVramAligned st' seg.
Proof.
  intros Hg Hwf Hu Hin Hd Hc st' Herr. unfold st', layout in *.
  apply (document_default_vram _ _ _ _ d rt w u seg Hg Hwf Hu Hin Hd Hc). exact Herr.
Qed.

(* powers of two everywhere: the compatibility condition holds *)
Lemma start_align_compatible_pow2 seg u :
  pow2_opt (segment_start_align seg) -> pow2_opt (subalign seg) ->
  Forall (fun x => pow2 (u_align x)) u -> start_align_compatible seg u.
Proof.
  intros Hs Hsub Hu. split.
  - eapply Forall_impl; [|exact Hu]. intros x Hx. cbv beta in *.
    destruct (segment_start_align seg) as [n|]; cbn [align_z].
    + apply pow2_compatible; assumption.
    + left. apply Z.divide_1_l.
  - destruct (segment_start_align seg) as [n|]; [|exact I]. destruct (subalign seg) as [m|]; [|exact I].
    cbn [opt_compatible]. apply pow2_compatible; assumption.
Qed.

(* ====================================================================== *)
(* 4. SUBALIGN                                                             *)
(* ====================================================================== *)

(* ---------- which output section a placement names ---------- *)

Lemma place_names vma sub outsec l : forall off acc c off' acc' c',
  place vma sub outsec l off acc c = (off', acc', c') ->
  exists new, acc' = (acc ++ new)%list /\ Forall (fun p => pl_outsec p = outsec) new.
Proof.
  induction l as [|x r IH]; intros off acc c off' acc' c' H; cbn [place] in H.
  - inversion H; subst. exists []. rewrite app_nil_r. split; [reflexivity | constructor].
  - cbv zeta in H. destruct (IH _ _ _ _ _ _ H) as [new [Hacc Hall]]. eexists (_ :: new).
    rewrite Hacc, <- app_assoc. split; [reflexivity|]. constructor; [reflexivity | exact Hall].
Qed.

Lemma makes_sec_none l : Forall (fun s => makes_sec s = []) l -> flat_map makes_sec l = [].
Proof. induction 1 as [|s l Hs Hl IH]; [reflexivity|]. cbn [flat_map]. rewrite Hs, IH. reflexivity. Qed.

Lemma makes_sec_tail rt d : flat_map makes_sec (tail_stmts rt d) = [].
Proof.
  apply makes_sec_none. unfold tail_stmts, entry_stmts, assignment_stmts, required_stmts, assert_stmts.
  fa.
  - destruct (doc_entry d); repeat constructor.
  - destruct (doc_symbol_assignments d); [constructor|]. constructor; [reflexivity|].
    apply Forall_flat_map_intro. intro x0. destruct (should_emit rt (sa_conds x0)); repeat constructor.
  - destruct (doc_required_symbols d); [constructor|]. constructor; [reflexivity|].
    apply Forall_flat_map_intro. intro x0. destruct (should_emit rt (rq_conds x0)); repeat constructor.
  - destruct (doc_asserts d); [constructor|]. constructor; [reflexivity|].
    apply Forall_flat_map_intro. intro x0. destruct (should_emit rt (ae_conds x0)); repeat constructor.
Qed.

Lemma makes_sec_blank_if b : flat_map makes_sec (blank_if b) = [].
Proof. destruct b; reflexivity. Qed.

Lemma makes_sec_single l : flat_map makes_sec (map SSingleEntry l) = l.
Proof. induction l as [|x r IH]; [reflexivity|]. cbn [map flat_map makes_sec app]. rewrite IH. reflexivity. Qed.

(* the end of SECTIONS only makes the allow-listed sections *)
Lemma makes_sec_end_sections stg classes ws n :
  In n (flat_map makes_sec (end_sections_body stg classes ws)) -> In n (single_entry_names stg).
Proof.
  unfold end_sections_body, single_entry_names. cbv zeta. rewrite !flat_map_app. intro H.
  apply in_app_or in H. destruct H as [H|H].
  - rewrite makes_sec_none in H; [contradiction|]. apply Forall_flat_map_intro. intro cn.
    destruct (mem_str cn (ws_emitted ws)); repeat constructor.
  - apply in_app_or in H. destruct H as [H|H].
    + destruct (nonempty (sections_allowlist stg)); [|contradiction].
      rewrite flat_map_app, makes_sec_blank_if, makes_sec_single in H. apply in_or_app. left. exact H.
    + apply in_app_or in H. destruct H as [H|H].
      * destruct (nonempty (sections_allowlist_extra stg)); [|contradiction].
        rewrite flat_map_app, makes_sec_blank_if, makes_sec_single in H. apply in_or_app. right. exact H.
      * destruct (discard_wildcard_section stg || nonempty (sections_denylist stg))%bool; [|contradiction].
        rewrite flat_map_app, makes_sec_blank_if in H. contradiction.
Qed.

Section DocSubalign.
  Variables (env : list (string * Z)) (senv : list osec) (ext : list (string * Z)) (final : bool).
  Notation top := (exec_top_stmt env senv ext final).
  Notation runl := (run env senv ext final).
  Notation secs vma sub name := (exec_sec_stmt env senv ext final vma sub name).

  Lemma sec_stmt_placed_names vma sub name ss s :
    exists new, l_placed (s_st (secs vma sub name ss s)) = (l_placed (s_st ss) ++ new)%list /\
                Forall (fun p => pl_outsec p = name) new.
  Proof.
    destruct (sec_stmt_cases env senv ext final vma sub name ss s)
      as [[p [h [r [sym [e [Es E]]]]]] | [[k [path [member [sect [wild [off' [pls [c [Es [Ep E]]]]]]]]]] | [E _]]];
      rewrite E.
    - exists []. cbn [s_st]. rewrite Proofs.C04.assign_placed, app_nil_r. split; [reflexivity | constructor].
    - apply place_names in Ep. destruct Ep as [new [En Hn]]. cbn [app] in En. subst pls.
      exists new. split; [reflexivity | exact Hn].
    - exists []. rewrite app_nil_r. split; [reflexivity | constructor].
  Qed.

  Lemma sec_fold_placed_names vma sub name body : forall ss,
    exists new, l_placed (s_st (fold_left (secs vma sub name) body ss)) = (l_placed (s_st ss) ++ new)%list /\
                Forall (fun p => pl_outsec p = name) new.
  Proof.
    induction body as [|s body IH]; intro ss.
    - exists []. rewrite app_nil_r. split; [reflexivity | constructor].
    - cbn [fold_left]. destruct (IH (secs vma sub name ss s)) as [n1 [E1 F1]].
      destruct (sec_stmt_placed_names vma sub name ss s) as [n2 [E2 F2]].
      exists (n2 ++ n1)%list. rewrite E1, E2, app_assoc. split; [reflexivity|]. apply Forall_app; split; assumption.
  Qed.

  Lemma top_placed_names st s :
    exists new, l_placed (top st s) = (l_placed st ++ new)%list /\
                Forall (fun p => In (pl_outsec p) (makes_sec s)) new.
  Proof.
    assert (Hsame : l_placed (top st s) = l_placed st ->
                    exists new, l_placed (top st s) = (l_placed st ++ new)%list /\
                                Forall (fun p => In (pl_outsec p) (makes_sec s)) new).
    { intro E. exists []. rewrite app_nil_r. split; [exact E | constructor]. }
    destruct s; try (apply Hsame; reflexivity); cbn [exec_top_stmt].
    - apply Hsame. cbn [exec_top_stmt]. destruct (String.eqb sym ".").
      + destruct (eval_expr env senv ext st (l_dot st) e); reflexivity.
      + apply Proofs.C04.assign_placed.
    - apply Hsame. cbn [exec_top_stmt]. destruct (String.eqb sym "."); [reflexivity|].
      destruct (sym_lookup sym st env ext); reflexivity.
    - apply Hsame. cbn [exec_top_stmt].
      destruct (sym_lookup sym st env ext); [destruct (sym_lookup other st env ext)|];
        try (destruct final; reflexivity).
    - apply Hsame. cbn [exec_top_stmt].
      destruct (sym_lookup "__romPos" st env ext); [destruct (sec_lookup sec st senv)|];
        try (destruct final; reflexivity).
    - destruct (outsec_vma env senv ext addr sub body st) as [vma|e] eqn:E.
      + destruct (exec_outsec_ok env senv ext final name addr at_ noload sub body st vma E)
          as [_ [_ [_ [_ [Hp _]]]]]. rewrite Hp. unfold outsec_body.
        destruct (sec_fold_placed_names vma (option_map Z.of_N sub) name body (SState 0 false st)) as [new [En Fn]].
        exists new. split; [exact En|]. eapply Forall_impl; [|exact Fn]. intros p Hp0. left. symmetry. exact Hp0.
      + rewrite (exec_outsec_err _ _ _ _ _ _ _ _ _ _ _ _ E). exists []. rewrite app_nil_r.
        split; [reflexivity | constructor].
    - destruct (place 0 None sect _ 0 [] false) as [[off' pls] c] eqn:Ep.
      apply place_names in Ep. destruct Ep as [new [En Fn]]. cbn [app] in En. subst pls.
      exists new. split; [reflexivity|]. eapply Forall_impl; [|exact Fn]. intros p Hp0. left. symmetry. exact Hp0.
    - apply Hsame. cbn [exec_top_stmt].
      destruct (eval_raw env ext st cond) as [v|e]; [destruct (v =? 0); reflexivity|].
      destruct e; destruct final; reflexivity.
  Qed.

  Lemma run_placed_names l : forall st,
    exists new, l_placed (runl l st) = (l_placed st ++ new)%list /\
                Forall (fun p => In (pl_outsec p) (flat_map makes_sec l)) new.
  Proof.
    induction l as [|s l IH]; intro st.
    - exists []. rewrite app_nil_r. split; [reflexivity | constructor].
    - rewrite run_cons. destruct (IH (top st s)) as [n1 [E1 F1]]. destruct (top_placed_names st s) as [n2 [E2 F2]].
      exists (n2 ++ n1)%list. rewrite E1, E2, app_assoc. split; [reflexivity|]. cbn [flat_map].
      apply Forall_app; split.
      + eapply Forall_impl; [|exact F2]. intros p Hp. apply in_or_app. left. exact Hp.
      + eapply Forall_impl; [|exact F1]. intros p Hp. apply in_or_app. right. exact Hp.
  Qed.

  (* an output section with SUBALIGN(s) whose name no other statement uses: every placement of the final
     state that names it is one of its own, at a multiple of s *)
  Lemma outsec_subalign_in name addr at_ noload s body A B st0 :
    (0 < s)%N -> ~ In name (flat_map makes_sec A) -> ~ In name (flat_map makes_sec B) ->
    (forall p, In p (l_placed st0) -> pl_outsec p <> name) ->
    forall p, In p (l_placed (runl (A ++ SOutSec name addr at_ noload (Some s) body :: B) st0)) ->
              pl_outsec p = name -> (Z.of_N s | pl_addr p).
  Proof.
    intros Hs HA HB H0 p Hin Hp. rewrite run_app, run_cons in Hin. cbn [exec_top_stmt] in Hin.
    destruct (run_placed_names A st0) as [nA [EA FA]].
    destruct (subalign_outsec env senv ext final name addr at_ noload s body (runl A st0) Hs) as [nO [EO FO]].
    destruct (run_placed_names B (exec_outsec env senv ext final name addr at_ noload (Some s) body (runl A st0)))
      as [nB [EB FB]].
    rewrite EB, EO, EA in Hin. rewrite Forall_forall in FA, FO, FB.
    apply in_app_or in Hin. destruct Hin as [Hin|Hin]; [|exfalso; apply HB; rewrite <- Hp; apply FB; exact Hin].
    apply in_app_or in Hin. destruct Hin as [Hin|Hin]; [|apply FO; exact Hin].
    apply in_app_or in Hin. destruct Hin as [Hin|Hin]; [exfalso; exact (H0 p Hin Hp)|].
    exfalso. apply HA. rewrite <- Hp. apply FA. exact Hin.
  Qed.

  Theorem document_subalign d rt w u seg :
    gen_normal d rt = Ok w -> doc_link_wf d rt = true ->
    In seg (included rt (doc_segments d)) ->
    outsecs_not_allowlisted (doc_settings d) seg ->
    let st' := exec_script env senv ext final (wo_script w) (init_state u) in
    SubalignHolds st' seg.
  Proof.
    intros Hg Hwf Hin [Hna Hnn] st' p Hp Hname.
    destruct (subalign seg) as [s|] eqn:Esub; [|apply aligned_to_none].
    intro Hpos. cbn [align_z] in Hpos |- *. assert (Hs : (0 < s)%N) by lia.
    destruct (document_split d rt w seg Hg Hwf Hin)
      as (body & ws' & b1 & wsa & s1 & wsb & b2 & cls & ws1 & body1 & ws2 & body2 & Hsplit).
    cbv zeta in Hsplit.
    destruct Hsplit as (Hexec & Eb & Ea & Hc & Ec & Hg1 & Hg2 & Es1 & Fa1 & Fn1 & Fa2 & Fn2 & _).
    set (stg := doc_settings d) in *. set (classes := doc_vram_classes d) in *.
    set (sty := linker_symbols_style stg) in *.
    set (fin := (end_sections_body stg classes ws' ++ tail_stmts rt d)%list) in *.
    unfold st' in *. rewrite Hexec in *. clear Hexec st'. rewrite Esub in Es1.
    set (ks := sections_kind_start sty cfg_normal seg false) in *.
    set (ke := sections_kind_end sty cfg_normal seg false) in *.
    set (ks2 := sections_kind_start sty cfg_normal seg true) in *.
    set (ke2 := sections_kind_end sty cfg_normal seg true) in *.
    set (O1 := SOutSec (alloc_name seg) (segment_addr sty seg) (Some (segment_rom_start sty (sg_name seg))) false
                       (Some s) (opt_fill seg ++ body1)) in *.
    set (O2 := SOutSec (noload_name seg) None None true (Some s) (opt_fill seg ++ body2)) in *.
    set (all := (begin_sections_body stg ++ body ++ fin)%list) in *.
    set (A1 := ((begin_sections_body stg ++ b1) ++ cls ++ seg_head stg seg ++ ks)%list).
    set (B1 := (ke ++ [SBlank] ++ (ks2 ++ [O2] ++ ke2) ++ [SBlank] ++ seg_foot stg seg ++ b2 ++ fin)%list).
    set (A2 := ((begin_sections_body stg ++ b1) ++ cls ++ seg_head stg seg ++ (ks ++ [O1] ++ ke) ++ [SBlank] ++ ks2)%list).
    set (B2 := (ke2 ++ [SBlank] ++ seg_foot stg seg ++ b2 ++ fin)%list).
    assert (EL1 : all = (A1 ++ O1 :: B1)%list).
    { unfold all, A1, B1. rewrite Eb, Es1. repeat (rewrite <- app_assoc; cbn [app]). reflexivity. }
    assert (EL2 : all = (A2 ++ O2 :: B2)%list).
    { unfold all, A2, B2. rewrite Eb, Es1. repeat (rewrite <- app_assoc; cbn [app]). reflexivity. }
    assert (Hfin : forall n, In n (flat_map makes_sec fin) -> In n (single_entry_names stg)).
    { intros n Hn. unfold fin in Hn. rewrite flat_map_app, makes_sec_tail, app_nil_r in Hn.
      eapply makes_sec_end_sections. exact Hn. }
    assert (Hpl : Forall plain cls) by exact (pl_class_part _ _ _ _ _ _ Ec).
    destruct Hname as [Hname|Hname].
    - rewrite EL1 in Hp. revert Hname. apply (outsec_subalign_in (alloc_name seg) (segment_addr sty seg) (Some (segment_rom_start sty (sg_name seg)))
                                false s (opt_fill seg ++ body1) A1 B1 (init_state u) Hs); [| | |exact Hp].
      + unfold A1.
        rewrite (flat_map_app _ (begin_sections_body stg ++ b1)), !flat_map_app, (makes_sec_plain cls Hpl),
          (makes_sec_plain _ (pl_seg_head _ _)), (makes_sec_plain ks (pl_kind_start _ _ _ _)).
        cbn [app]. rewrite ?app_nil_r, <- flat_map_app. exact Fa1.
      + unfold B1.
        rewrite !flat_map_app, (makes_sec_plain ke (pl_kind_end _ _ _ _)), (makes_sec_plain ks2 (pl_kind_start _ _ _ _)),
          (makes_sec_plain ke2 (pl_kind_end _ _ _ _)), pl_seg_foot.
        cbn [app flat_map makes_sec O2]. intros [Eq|Hbad]; [exact (alloc_noload_neq seg (eq_sym Eq))|].
        apply in_app_or in Hbad. destruct Hbad as [Hbad|Hbad]; [exact (Fa2 Hbad) | exact (Hna (Hfin _ Hbad))].
      + intros q [].
    - rewrite EL2 in Hp. revert Hname. apply (outsec_subalign_in (noload_name seg) None None true s (opt_fill seg ++ body2) A2 B2 (init_state u) Hs);
        [| | |exact Hp].
      + unfold A2.
        rewrite (flat_map_app _ (begin_sections_body stg ++ b1)), !flat_map_app, (makes_sec_plain cls Hpl),
          (makes_sec_plain _ (pl_seg_head _ _)), (makes_sec_plain ks2 (pl_kind_start _ _ _ _)),
          (makes_sec_plain ks (pl_kind_start _ _ _ _)), (makes_sec_plain ke (pl_kind_end _ _ _ _)).
        cbn [app flat_map makes_sec O1]. rewrite ?app_nil_r, <- flat_map_app. intro Hbad. apply in_app_or in Hbad.
        destruct Hbad as [Hbad|[Eq|[]]]; [exact (Fn1 Hbad) | exact (alloc_noload_neq seg Eq)].
      + unfold B2.
        rewrite !flat_map_app, (makes_sec_plain ke2 (pl_kind_end _ _ _ _)), pl_seg_foot.
        cbn [app flat_map makes_sec]. intro Hbad.
        apply in_app_or in Hbad. destruct Hbad as [Hbad|Hbad]; [exact (Fn2 Hbad) | exact (Hnn (Hfin _ Hbad))].
      + intros q [].
  Qed.
End DocSubalign.

Theorem document_subalign_layout d rt w u ext0 seg :
  gen_normal d rt = Ok w -> doc_link_wf d rt = true ->
  In seg (included rt (doc_segments d)) ->
  outsecs_not_allowlisted (doc_settings d) seg ->
  SubalignHolds (layout (wo_script w) u ext0) seg.
Proof. intros Hg Hwf Hin Hn. unfold layout. exact (document_subalign _ _ _ _ d rt w u seg Hg Hwf Hin Hn). Qed.
