(* C19: lemmas.  Part 1: the recursion bound of emit_sff is never reached and every error of
   generation is one of four (five for the partial writer) error values. *)
From Slinky Require Import Model.Types Model.Parse Model.Runtime Model.Style Model.Script Model.Writer
  Model.Exports.
From Slinky Require Import Spec.C14 Proofs.C14 Spec.C19.
From Coq Require Import Lia.

(* ====================================================================== *)
(* the error discipline                                                    *)
(* ====================================================================== *)

Lemma errs_ok {A} P (a : A) : errs P (Ok a).
Proof. intros e H. discriminate. Qed.

Lemma errs_err {A} (P : err -> Prop) e : P e -> errs P (@Err A e).
Proof. intros H e' E. inversion E; subst. exact H. Qed.

Lemma errs_bind {A B} P (r : res A) (f : A -> res B) :
  errs P r -> (forall a, r = Ok a -> errs P (f a)) -> errs P (bind r f).
Proof.
  intros Hr Hf. destruct r as [a|e]; cbn [bind].
  - apply Hf. reflexivity.
  - intros e' E. apply Hr. inversion E; reflexivity.
Qed.

Lemma errs_mono {A} (P Q : err -> Prop) (r : res A) : (forall e, P e -> Q e) -> errs P r -> errs Q r.
Proof. intros H Hr e E. apply H, Hr, E. Qed.

Lemma fold_out_errs {A} P (f : A -> wstate -> res out) l :
  (forall x ws, In x l -> errs P (f x ws)) -> forall ws, errs P (fold_out f l ws).
Proof.
  induction l as [|x r IH]; intros H ws; cbn [fold_out]; [apply errs_ok|].
  apply errs_bind; [apply H; left; reflexivity|]. intros o1 _.
  apply errs_bind; [apply IH; intros y ws' Hy; apply H; right; exact Hy|]. intros o2 _. apply errs_ok.
Qed.

Lemma gen_error_no_crash e : gen_error e -> forall w, e <> ECrash w.
Proof. intros H w E. subst. inversion H. Qed.

Lemma gen_partial_error_no_crash e : gen_partial_error e -> forall w, e <> ECrash w.
Proof. intros H w E. subst. inversion H as [e H0 | name]. inversion H0. Qed.

Lemma errs_no_crash {A} (P : err -> Prop) (r : res A) :
  (forall e, P e -> forall w, e <> ECrash w) -> errs P r -> no_crash r.
Proof. intros HP Hr w E. exact (HP _ (Hr _ E) w eq_refl). Qed.

(* ====================================================================== *)
(* escape_path fails only with ECustomOptionNotProvided                    *)
(* ====================================================================== *)

Definition opt_error (e : err) : Prop := exists path key, e = ECustomOptionNotProvided path key.

Lemma opt_error_gen e : opt_error e -> gen_error e.
Proof. intros [p [k E]]. subst. constructor. Qed.

Lemma escape_scan_opt rt orig s : forall out within key,
  errs opt_error (escape_scan rt orig s out within key).
Proof.
  induction s as [|ch r IH]; intros out within key; cbn [escape_scan]; [apply errs_ok|].
  destruct within.
  - destruct (Ascii.eqb ch "}"); [|apply IH].
    destruct (opt_get rt key); [apply IH | apply errs_err; eexists; eexists; reflexivity].
  - destruct (Ascii.eqb ch "{"); apply IH.
Qed.

Lemma escape_component_opt rt orig c : errs opt_error (escape_component rt orig c).
Proof.
  unfold escape_component. destruct (andb _ _).
  - destruct (opt_get rt (inner_of c)); [apply errs_ok | apply errs_err; eexists; eexists; reflexivity].
  - destruct (orb _ _); [apply errs_ok | apply escape_scan_opt].
Qed.

Lemma escape_components_opt rt orig l : forall acc, errs opt_error (escape_components rt orig l acc).
Proof.
  induction l as [|c r IH]; intro acc; cbn [escape_components]; [apply errs_ok|].
  apply errs_bind; [apply escape_component_opt|]. intros c' _. apply IH.
Qed.

Lemma escape_path_opt rt p : errs opt_error (escape_path rt p).
Proof. apply escape_components_opt. Qed.

Lemma escape_path_errs rt p : errs gen_error (escape_path rt p).
Proof. eapply errs_mono; [exact opt_error_gen | apply escape_path_opt]. Qed.

(* ====================================================================== *)
(* the chain of sub-group expansions                                       *)
(* ====================================================================== *)

Lemma mem_str_In x l : mem_str x l = true <-> In x l.
Proof.
  induction l as [|y r IH]; simpl; [split; [discriminate | intros []]|].
  destruct (String.eqb x y) eqn:E.
  - apply String.eqb_eq in E. subst. split; auto.
  - rewrite IH. apply String.eqb_neq in E. split; [auto|]. intros [H|H]; [congruence | assumption].
Qed.

Lemma mem_str_not_In x l : mem_str x l = false -> ~ In x l.
Proof. intros H Hin. apply mem_str_In in Hin. congruence. Qed.

Lemma lookup_In {A} k (l : list (string * A)) v : lookup k l = Some v -> In (k, v) l.
Proof.
  induction l as [|[k' v'] r IH]; simpl; [discriminate|].
  destruct (String.eqb k k') eqn:E.
  - apply String.eqb_eq in E. intro H. inversion H; subst. left; reflexivity.
  - intro H. right. apply IH. exact H.
Qed.

(* the sections a sub-group expansion recurses into all lie in the universe *)
Lemma subgroup_member_universe seg k others other :
  lookup k (sections_subgroups seg) = Some others -> In other others -> In other (chain_universe seg).
Proof.
  intros Hl Hin. unfold chain_universe. rewrite !in_app_iff. right; right.
  apply in_flat_map. exists (k, others). split; [apply lookup_In; exact Hl | exact Hin].
Qed.

Section Chain.
  Variable rt : runtime.
  Variable sty : style.
  Variable cfg : wcfg.
  Variable seg : segment.
  Variable sections : list string.
  Variable P : err -> Prop.
  Hypothesis P_gen : forall e, gen_error e -> P e.

  (* the statement for one file at the top of a chain *)
  Definition top_errs (f : file_info) : Prop :=
    forall section base ws,
      errs P (emit_sff rt sty cfg seg sections f (chain_fuel seg) [] section base ws).

  Lemma emit_file_of_errs f base k ws :
    Forall top_errs (fi_files f) -> errs P (emit_file_of rt sty cfg seg sections f base k ws).
  Proof.
    intro IHf. unfold emit_file_of. destruct (negb (should_emit rt (fi_conds f))); [apply errs_ok|].
    assert (Hp : forall p, errs P (escape_path rt p))
      by (intro p; eapply errs_mono; [exact P_gen | apply escape_path_errs]).
    destruct (fi_kind f).
    - apply errs_bind; [apply Hp|]. intros; apply errs_ok.
    - apply errs_bind; [apply Hp|]. intros; apply errs_ok.
    - apply errs_ok.
    - apply errs_ok.
    - apply errs_bind; [apply Hp|]. intros d _. apply fold_out_errs. intros c ws' Hc.
      rewrite Forall_forall in IHf. apply (IHf c Hc).
  Qed.

  (* the invariant of the inner recursion: the stack holds distinct sections, all of them in the
     universe except possibly the section [s0] the chain started from, and the fuel still covers
     every section not yet on the stack *)
  Lemma chain_errs f (s0 : string) :
    Forall top_errs (fi_files f) ->
    forall n stack section base ws,
      NoDup stack -> incl stack (s0 :: chain_universe seg) -> In section (s0 :: chain_universe seg) ->
      2 + List.length (chain_universe seg) <= n + List.length stack ->
      errs P (emit_sff rt sty cfg seg sections f n stack section base ws).
  Proof.
    intro IHf. induction n as [|n IHn]; intros stack section base ws Hnd Hincl Hsec Hfuel.
    - exfalso. pose proof (NoDup_incl_length Hnd Hincl) as Hlen. cbn [List.length] in Hlen. lia.
    - rewrite emit_sff_S. destruct (mem_str section stack) eqn:Hmem.
      { apply errs_err. apply P_gen. constructor. }
      apply fold_out_errs. intros k ws0 _.
      apply errs_bind; [apply emit_file_of_errs; exact IHf|]. intros o1 _.
      apply errs_bind; [|intros; apply errs_ok].
      destruct (reference_partial cfg); [apply errs_ok|].
      destruct (lookup k (subgroups_for seg f)) as [others|] eqn:Hl; [|apply errs_ok].
      apply subgroups_for_sub in Hl.
      apply fold_out_errs. intros other ws1 Hother.
      apply IHn.
      + constructor; [apply mem_str_not_In; exact Hmem | exact Hnd].
      + intros x [Hx|Hx]; [subst; exact Hsec | apply Hincl; exact Hx].
      + right. eapply subgroup_member_universe; eassumption.
      + cbn [List.length]. lia.
  Qed.

  Lemma emit_sff_top_errs f : top_errs f.
  Proof.
    induction f as [f IHf] using file_info_nested_ind.
    intros section base ws. apply (chain_errs f section IHf).
    - constructor.
    - intros x [].
    - left; reflexivity.
    - unfold chain_fuel. cbn [List.length]. lia.
  Qed.

  Lemma emit_section_errs base_path section ws :
    errs P (emit_section rt sty cfg seg sections base_path section ws).
  Proof.
    assert (Hp : forall p, errs P (escape_path rt p))
      by (intro p; eapply errs_mono; [exact P_gen | apply escape_path_errs]).
    unfold emit_section. apply errs_bind; [apply Hp|]. intros b0 _.
    apply errs_bind.
    - destruct (reference_partial cfg); [apply errs_ok|].
      apply errs_bind; [apply Hp|]. intros; apply errs_ok.
    - intros b _. apply fold_out_errs. intros f ws' _. apply emit_sff_top_errs.
  Qed.
End Chain.

(* the recursion bound is never reached *)
Lemma fuel_sufficient rt sty cfg seg sections f section base ws :
  no_crash (emit_sff rt sty cfg seg sections f (chain_fuel seg) [] section base ws).
Proof.
  apply (errs_no_crash gen_error); [exact gen_error_no_crash|].
  apply emit_sff_top_errs. auto.
Qed.

(* ====================================================================== *)
(* lifting through the writers                                             *)
(* ====================================================================== *)

Section Lift.
  Variable rt : runtime.
  Variable st : settings.
  Variable cfg : wcfg.

  Lemma part_groups_errs seg sections rest : forall ws,
    errs gen_error (part_groups rt st cfg seg sections rest ws).
  Proof.
    induction rest as [|section rest' IH]; intro ws; cbn [part_groups]; [apply errs_ok|].
    apply errs_bind; [apply emit_section_errs; auto|]. intros o1 _.
    apply errs_bind; [apply IH|]. intros; apply errs_ok.
  Qed.

  Lemma write_segment_errs seg sections noload ws :
    errs gen_error (write_segment rt st cfg seg sections noload ws).
  Proof. unfold write_segment. apply errs_bind; [apply part_groups_errs|]. intros; apply errs_ok. Qed.

  Lemma single_groups_errs seg sections noload rest : forall ws,
    errs gen_error (single_groups rt st cfg seg sections noload rest ws).
  Proof.
    induction rest as [|section rest' IH]; intro ws; cbn [single_groups]; [apply errs_ok|].
    apply errs_bind; [apply emit_section_errs; auto|]. intros o1 _.
    apply errs_bind; [apply IH|]. intros; apply errs_ok.
  Qed.

  Lemma write_single_segment_errs seg sections noload ws :
    errs gen_error (write_single_segment rt st cfg seg sections noload ws).
  Proof.
    unfold write_single_segment. apply errs_bind; [apply single_groups_errs|]. intros; apply errs_ok.
  Qed.

  Variable classes : list vram_class.

  Lemma add_segment_errs seg ws : errs gen_error (add_segment rt st cfg classes seg ws).
  Proof.
    unfold add_segment. destruct (negb (should_emit rt (sg_conds seg))); [apply errs_ok|].
    apply errs_bind.
    - destruct (sg_vram_class seg) as [cn|]; [|apply errs_ok].
      destruct (class_get classes cn); [|apply errs_err; constructor].
      destruct (mem_str cn (ws_emitted ws)); apply errs_ok.
    - intros cls _. apply errs_bind; [apply write_segment_errs|]. intros o1 _.
      apply errs_bind; [apply write_segment_errs|]. intros; apply errs_ok.
  Qed.

  Lemma add_single_segment_errs seg ws : errs gen_error (add_single_segment rt st cfg classes seg ws).
  Proof.
    unfold add_single_segment. apply errs_bind; [apply write_single_segment_errs|]. intros o1 _.
    apply errs_bind; [apply write_single_segment_errs|]. intros; apply errs_ok.
  Qed.

  Lemma add_all_segments_errs segs ws : errs gen_error (add_all_segments rt st cfg classes segs ws).
  Proof.
    unfold add_all_segments. destruct (single_segment_mode st).
    - destruct segs as [|seg [|s2 r]]; try (apply errs_err; constructor). apply add_single_segment_errs.
    - apply errs_bind; [|intros; apply errs_ok]. apply fold_out_errs. intros seg ws' _.
      apply add_segment_errs.
  Qed.
End Lift.

Lemma gen_normal_errs d rt : errs gen_error (gen_normal d rt).
Proof. unfold gen_normal. apply errs_bind; [apply add_all_segments_errs|]. intros; apply errs_ok. Qed.

Lemma partial_segment_errs d rt folder seg acc : errs gen_error (partial_segment d rt folder seg acc).
Proof.
  unfold partial_segment. cbv zeta. destruct (negb (should_emit rt (sg_conds seg))); [apply errs_ok|].
  apply errs_bind; [apply add_single_segment_errs|]. intros sub _.
  apply errs_bind; [apply add_segment_errs|]. intros; apply errs_ok.
Qed.

Lemma partial_segments_errs d rt folder segs : forall acc,
  errs gen_error (partial_segments d rt folder segs acc).
Proof.
  induction segs as [|s r IH]; intro acc; cbn [partial_segments]; [apply errs_ok|].
  apply errs_bind; [apply partial_segment_errs|]. intros o1 _.
  apply errs_bind; [apply IH|]. intros; apply errs_ok.
Qed.

Lemma gen_partial_errs d rt : errs gen_partial_error (gen_partial d rt).
Proof.
  unfold gen_partial. cbv zeta. destruct (partial_build_segments_folder (doc_settings d)) as [folder|].
  - apply errs_bind; [|intros; apply errs_ok].
    eapply errs_mono; [|apply partial_segments_errs]. intros e He. apply gpe_gen. exact He.
  - apply errs_err. apply gpe_field.
Qed.

Lemma gen_normal_no_crash d rt : no_crash (gen_normal d rt).
Proof. apply (errs_no_crash gen_error); [exact gen_error_no_crash | apply gen_normal_errs]. Qed.

Lemma gen_partial_no_crash d rt : no_crash (gen_partial d rt).
Proof.
  apply (errs_no_crash gen_partial_error); [exact gen_partial_error_no_crash | apply gen_partial_errs].
Qed.

(* ====================================================================== *)
(* parsing never crashes                                                   *)
(* ====================================================================== *)

Definition not_crash (e : err) : Prop := forall w, e <> ECrash w.

Lemma map_res_errs {A B} P (f : A -> res B) l :
  (forall x, In x l -> errs P (f x)) -> errs P (map_res f l).
Proof.
  induction l as [|x r IH]; intro H; cbn [map_res]; [apply errs_ok|].
  apply errs_bind; [apply H; left; reflexivity|]. intros y _.
  apply errs_bind; [apply IH; intros z Hz; apply H; right; exact Hz|]. intros; apply errs_ok.
Qed.

Ltac nc_err := apply errs_err; intros ? ?; discriminate.

Lemma nc_get_non_null {A} (x : an A) name default : errs not_crash (get_non_null x name default).
Proof. destruct x; first [apply errs_ok | nc_err]. Qed.

Lemma nc_get_non_null_not_empty_list {A} (x : an (list A)) name :
  errs not_crash (get_non_null_not_empty_list x name).
Proof. destruct x as [| |[|a l]]; first [apply errs_ok | nc_err]. Qed.

Lemma nc_get_non_null_no_default {A} (x : an A) name : errs not_crash (get_non_null_no_default x name).
Proof. destruct x; first [apply errs_ok | nc_err]. Qed.

Lemma nc_get_optional_nullable {A} (x : an A) default : errs not_crash (get_optional_nullable x default).
Proof. destruct x; apply errs_ok. Qed.

Lemma nc_get_required {A} (x : an A) name : errs not_crash (get_required x name).
Proof. destruct x; first [apply errs_ok | nc_err]. Qed.

Lemma nc_forbid {A} (x : an A) f1 f2 : errs not_crash (forbid x f1 f2).
Proof. unfold forbid. destruct (has_value x); first [apply errs_ok | nc_err]. Qed.

Lemma nc_combo a b f1 f2 : errs not_crash (combo a b f1 f2).
Proof. unfold combo. destruct (andb a b); first [apply errs_ok | nc_err]. Qed.

(* one step of a monadic definition whose leaves are the accessors above *)
Ltac nc_step :=
  first
    [ apply errs_ok
    | nc_err
    | apply nc_get_non_null
    | apply nc_get_non_null_not_empty_list
    | apply nc_get_non_null_no_default
    | apply nc_get_optional_nullable
    | apply nc_get_required
    | apply nc_forbid
    | apply nc_combo
    | apply errs_bind; [|intros ? _]
    | match goal with
      | |- errs _ (if ?b then _ else _) => destruct b
      | |- errs _ (match ?x with _ => _ end) => destruct x
      end ].

Ltac nc := repeat nc_step.

Lemma nc_parse_conds c : errs not_crash (parse_conds c).
Proof. unfold parse_conds. nc. Qed.

Lemma nc_parse_file fs : errs not_crash (parse_file fs).
Proof.
  induction fs as [u p k sf pa s lon so files d c kp IH] using file_serial_nested_ind.
  cbn [parse_file fs_unknown fs_path fs_kind fs_subfile fs_pad_amount fs_section
       fs_linker_offset_name fs_section_order fs_files fs_dir fs_conds fs_keep].
  apply errs_bind; [nc|]. intros ko _.
  apply errs_bind; [nc|]. intros [path kind] _.
  apply errs_bind; [nc|]. intros subfile _.
  apply errs_bind; [nc|]. intros pad_amount _.
  apply errs_bind; [nc|]. intros section _.
  apply errs_bind; [nc|]. intros lon' _.
  apply errs_bind; [nc|]. intros so' _.
  apply errs_bind.
  { destruct (is_group kind); [|nc]. destruct files as [| |l]; try nc_err.
    rewrite parse_go_eq. apply map_res_errs. intros x Hx. cbn [an_all] in IH.
    rewrite Forall_forall in IH. apply IH. exact Hx. }
  intros files' _.
  apply errs_bind; [nc|]. intros dir _.
  apply errs_bind; [apply nc_parse_conds|]. intros c' _. apply errs_ok.
Qed.

Lemma nc_parse_gp g : errs not_crash (parse_gp g).
Proof. unfold parse_gp. nc. Qed.

Lemma nc_parse_settings s : errs not_crash (parse_settings s).
Proof. unfold parse_settings. nc. Qed.

Lemma nc_parse_segment st s : errs not_crash (parse_segment st s).
Proof.
  unfold parse_segment. cbv zeta.
  set (sfiles := match ss_files s with Some l => l | None => [] end). clearbody sfiles.
  repeat (apply errs_bind;
          [first [apply map_res_errs; intros; apply nc_parse_file | solve [nc]] | intros ? _]).
  apply errs_ok.
Qed.

Lemma nc_parse_class c : errs not_crash (parse_class c).
Proof. unfold parse_class. cbv zeta. nc. Qed.

Lemma nc_parse_assign a : errs not_crash (parse_assign a).
Proof. unfold parse_assign. cbv zeta. nc. Qed.

Lemma nc_parse_required r : errs not_crash (parse_required r).
Proof. unfold parse_required. cbv zeta. nc. Qed.

Lemma nc_parse_assert a : errs not_crash (parse_assert a).
Proof. unfold parse_assert. cbv zeta. nc. Qed.

Lemma nc_unserialize_document d : errs not_crash (unserialize_document d).
Proof.
  unfold unserialize_document. cbv zeta.
  apply errs_bind; [nc|]. intros sto _.
  apply errs_bind; [destruct sto; [apply nc_parse_settings | apply errs_ok]|]. intros st _.
  apply errs_bind; [nc|]. intros _ _.
  apply errs_bind; [nc|]. intros sclasses _.
  apply errs_bind; [apply map_res_errs; intros; apply nc_parse_class|]. intros classes _.
  apply errs_bind; [apply map_res_errs; intros; apply nc_parse_segment|]. intros segments _.
  apply errs_bind; [nc|]. intros entry _.
  apply errs_bind; [nc|]. intros sassigns _.
  apply errs_bind; [apply map_res_errs; intros; apply nc_parse_assign|]. intros assigns _.
  apply errs_bind; [nc|]. intros sreq _.
  apply errs_bind; [apply map_res_errs; intros; apply nc_parse_required|]. intros req _.
  apply errs_bind; [nc|]. intros sasserts _.
  apply errs_bind; [apply map_res_errs; intros; apply nc_parse_assert|]. intros asserts _.
  apply errs_ok.
Qed.

Lemma parse_no_crash sd : no_crash (parse sd).
Proof.
  apply (errs_no_crash not_crash); [auto|]. unfold parse.
  destruct (serde_ok sd); [apply nc_unserialize_document | nc_err].
Qed.

(* the command-line tool always returns a result *)
Lemma cli_run_total sd a : exists ok out writes, cli_run sd a = CliResult ok out writes.
Proof. destruct (cli_run sd a) as [ok out writes]. exists ok, out, writes. reflexivity. Qed.

(* ====================================================================== *)
(* the repaired defect: a cyclic sections_subgroups is an error value      *)
(* ====================================================================== *)

Lemma fold_out_ok_each {A} (f : A -> wstate -> res out) l : forall ws o,
  fold_out f l ws = Ok o -> forall x, In x l -> exists ws' o', f x ws' = Ok o'.
Proof.
  induction l as [|y r IH]; intros ws o H x Hx; [destruct Hx|].
  cbn [fold_out] in H. apply bind_ok in H. destruct H as [o1 [E1 H]].
  apply bind_ok in H. destruct H as [o2 [E2 H]]. destruct Hx as [Hx|Hx].
  - subst. exists ws, o1. exact E1.
  - eapply IH; eassumption.
Qed.

Lemma sections_here_plain f section sections :
  fi_section_order f = [] -> sections_here f section sections = [section].
Proof. intro H. unfold sections_here. rewrite H. reflexivity. Qed.

Lemma sections_here_self_plain f section sections :
  fi_section_order f = [] -> In section (sections_here f section sections).
Proof. intro H. rewrite sections_here_plain by exact H. left; reflexivity. Qed.

Lemma mem_str_head s stack : mem_str s (s :: stack) = true.
Proof. cbn [mem_str]. rewrite String.eqb_refl. reflexivity. Qed.

(* a section that is a member of its own sub-group, expanded for an entry that emits at it: the
   generation of that entry never succeeds ... *)
Lemma self_cycle_never_ok_for rt sty cfg seg sections f n stack s others base ws :
  reference_partial cfg = false ->
  In s (sections_here f s sections) ->
  lookup s (subgroups_for seg f) = Some others -> In s others ->
  forall o, emit_sff rt sty cfg seg sections f n stack s base ws <> Ok o.
Proof.
  intros Href Hhere Hl Hin o H. destruct n as [|n]; [rewrite emit_sff_O in H; discriminate|].
  rewrite emit_sff_S in H. destruct (mem_str s stack); [discriminate|].
  destruct (fold_out_ok_each _ _ _ _ H s Hhere) as [ws1 [o1 Hk]]. cbv beta in Hk.
  apply bind_ok in Hk. destruct Hk as [oa [Ea Hk]]. apply bind_ok in Hk. destruct Hk as [ob [Eb _]].
  rewrite Href, Hl in Eb.
  destruct (fold_out_ok_each _ _ _ _ Eb s Hin) as [ws2 [o2 Hs]].
  destruct n as [|n]; [rewrite emit_sff_O in Hs; discriminate|].
  rewrite emit_sff_S, mem_str_head in Hs. discriminate.
Qed.

(* the entry is not a group: a group does not expand the sub-groups itself (its files do), so for
   a group the statement would be false, e.g. a group without files generates nothing *)
Lemma self_cycle_never_ok rt sty cfg seg sections f n stack s others base ws :
  reference_partial cfg = false ->
  fi_kind f <> KGroup ->
  In s (sections_here f s sections) ->
  lookup s (sections_subgroups seg) = Some others -> In s others ->
  forall o, emit_sff rt sty cfg seg sections f n stack s base ws <> Ok o.
Proof.
  intros Href Hk Hhere Hl. apply self_cycle_never_ok_for; try assumption.
  rewrite (subgroups_for_leaf seg f Hk). exact Hl.
Qed.

(* ... and when the section is the first member and the entry itself is emitted without error, the
   error value is the cycle error naming the segment and the section *)
Lemma self_cycle_detected_for rt sty cfg seg sections f n stack s rest base ws :
  reference_partial cfg = false ->
  fi_section_order f = [] ->
  lookup s (subgroups_for seg f) = Some (s :: rest) ->
  mem_str s stack = false ->
  (exists o, emit_file_of rt sty cfg seg sections f base s ws = Ok o) ->
  emit_sff rt sty cfg seg sections f (S (S n)) stack s base ws = Err (ESubgroupCycle (sg_name seg) s).
Proof.
  intros Href Hso Hl Hmem [o Ho]. rewrite emit_sff_S, Hmem, (sections_here_plain _ _ _ Hso).
  cbn [fold_out]. rewrite Ho. cbn [bind]. rewrite Href, Hl. cbn [fold_out].
  rewrite emit_sff_S, mem_str_head. reflexivity.
Qed.

Lemma self_cycle_detected rt sty cfg seg sections f n stack s rest base ws :
  reference_partial cfg = false ->
  fi_kind f <> KGroup ->
  fi_section_order f = [] ->
  lookup s (sections_subgroups seg) = Some (s :: rest) ->
  mem_str s stack = false ->
  (exists o, emit_file_of rt sty cfg seg sections f base s ws = Ok o) ->
  emit_sff rt sty cfg seg sections f (S (S n)) stack s base ws = Err (ESubgroupCycle (sg_name seg) s).
Proof.
  intros Href Hk Hso Hl.
  apply (self_cycle_detected_for rt sty cfg seg sections f n stack s rest); try assumption.
  rewrite (subgroups_for_leaf seg f Hk). exact Hl.
Qed.

(* an object file that is not excluded and whose path needs no option is emitted without error *)
Lemma emit_file_of_object_ok rt sty cfg seg sections f base k ws p :
  should_emit rt (fi_conds f) = true -> fi_kind f = KObject -> escape_path rt (fi_path f) = Ok p ->
  exists o, emit_file_of rt sty cfg seg sections f base k ws = Ok o.
Proof.
  intros He Hk Hp. unfold emit_file_of. rewrite He, Hk, Hp. cbn [negb bind]. eexists. reflexivity.
Qed.

Lemma cycle_detected_object rt sty cfg seg sections f s base ws p :
  reference_partial cfg = false ->
  sections_subgroups seg = [(s, [s])] ->
  should_emit rt (fi_conds f) = true -> fi_kind f = KObject -> fi_section_order f = [] ->
  escape_path rt (fi_path f) = Ok p ->
  emit_sff rt sty cfg seg sections f (chain_fuel seg) [] s base ws =
  Err (ESubgroupCycle (sg_name seg) s).
Proof.
  intros Href Hsub He Hk Hso Hp. unfold chain_fuel.
  assert (Hng : fi_kind f <> KGroup) by (rewrite Hk; discriminate).
  apply (self_cycle_detected rt sty cfg seg sections f _ [] s [] base ws Href Hng Hso).
  - rewrite Hsub. cbn [lookup]. rewrite String.eqb_refl. reflexivity.
  - reflexivity.
  - eapply emit_file_of_object_ok; eassumption.
Qed.

(* ---------- no cycle error when the expansion graph is acyclic ---------- *)

Definition not_cycle (e : err) : Prop := forall s c, e <> ESubgroupCycle s c.

Lemma opt_error_not_cycle e : opt_error e -> not_cycle e.
Proof. intros [p [k E]] s c. subst. discriminate. Qed.

Lemma chain_decreasing_deep_eq seg sections rank f :
  chain_decreasing_deep seg sections rank f <->
  chain_decreasing seg sections rank f /\ Forall (chain_decreasing_deep seg sections rank) (fi_files f).
Proof.
  destruct f as [p k sf pa s lon so files d c kp]. cbn [chain_decreasing_deep fi_files].
  assert (E : forall l,
    (fix all (l : list file_info) : Prop :=
       match l with
       | [] => True
       | c :: r => chain_decreasing_deep seg sections rank c /\ all r
       end) l <-> Forall (chain_decreasing_deep seg sections rank) l).
  { induction l as [|x r IH]; [split; constructor|]. rewrite IH. split.
    - intros [H1 H2]. constructor; assumption.
    - intro H. inversion H; subst. split; assumption. }
  rewrite E. reflexivity.
Qed.

Section Acyclic.
  Variable rt : runtime.
  Variable sty : style.
  Variable cfg : wcfg.
  Variable seg : segment.
  Variable sections : list string.
  Variable rank : string -> nat.

  Definition acyclic_ok (f : file_info) : Prop :=
    chain_decreasing_deep seg sections rank f ->
    forall section base ws,
      errs not_cycle (emit_sff rt sty cfg seg sections f (chain_fuel seg) [] section base ws).

  Lemma acyclic_chain f :
    Forall acyclic_ok (fi_files f) -> chain_decreasing_deep seg sections rank f ->
    forall n stack section base ws,
      (forall x, In x stack -> rank section < rank x) ->
      errs not_cycle (emit_sff rt sty cfg seg sections f n stack section base ws).
  Proof.
    intros IHf Hdeep. apply chain_decreasing_deep_eq in Hdeep. destruct Hdeep as [Hdec Hkids].
    assert (Hp : forall p, errs not_cycle (escape_path rt p))
      by (intro p; eapply errs_mono; [exact opt_error_not_cycle | apply escape_path_opt]).
    induction n as [|n IHn]; intros stack section base ws Hrank.
    - rewrite emit_sff_O. apply errs_err. intros s c. discriminate.
    - rewrite emit_sff_S. destruct (mem_str section stack) eqn:Hmem.
      { exfalso. apply mem_str_In in Hmem. apply Hrank in Hmem. lia. }
      apply fold_out_errs. intros k ws0 Hk.
      apply errs_bind.
      { unfold emit_file_of. destruct (negb (should_emit rt (fi_conds f))); [apply errs_ok|].
        destruct (fi_kind f).
        - apply errs_bind; [apply Hp|]. intros; apply errs_ok.
        - apply errs_bind; [apply Hp|]. intros; apply errs_ok.
        - apply errs_ok.
        - apply errs_ok.
        - apply errs_bind; [apply Hp|]. intros d _. apply fold_out_errs. intros c ws' Hc.
          rewrite Forall_forall in IHf, Hkids. apply (IHf c Hc). apply Hkids. exact Hc. }
      intros o1 _. apply errs_bind; [|intros; apply errs_ok].
      destruct (reference_partial cfg); [apply errs_ok|].
      destruct (lookup k (subgroups_for seg f)) as [others|] eqn:Hl; [|apply errs_ok].
      apply fold_out_errs. intros other ws1 Hother. apply IHn.
      pose proof (Hdec section k others other Hk Hl Hother) as Hlt.
      intros x [Hx|Hx]; [subst; exact Hlt | apply Hrank in Hx; lia].
  Qed.

  Lemma acyclic_no_cycle_error f : acyclic_ok f.
  Proof.
    induction f as [f IHf] using file_info_nested_ind.
    intros Hdeep section base ws. apply (acyclic_chain f IHf Hdeep). intros x [].
  Qed.
End Acyclic.

Lemma chain_invariant rt sty cfg seg sections f s0 :
  Forall (top_errs rt sty cfg seg sections gen_error) (fi_files f) ->
  forall n stack section base ws,
    NoDup stack -> incl stack (s0 :: chain_universe seg) -> In section (s0 :: chain_universe seg) ->
    2 + List.length (chain_universe seg) <= n + List.length stack ->
    errs gen_error (emit_sff rt sty cfg seg sections f n stack section base ws).
Proof. apply chain_errs. auto. Qed.

Lemma acyclic_no_cycle rt sty cfg seg sections rank f :
  chain_decreasing_deep seg sections rank f ->
  forall section base ws s c,
    emit_sff rt sty cfg seg sections f (chain_fuel seg) [] section base ws <> Err (ESubgroupCycle s c).
Proof.
  intros H section base ws s c E.
  exact (acyclic_no_cycle_error rt sty cfg seg sections rank f H section base ws _ E s c eq_refl).
Qed.

(* ====================================================================== *)
(* capitalize is total                                                     *)
(* ====================================================================== *)

Lemma capitalize_empty : capitalize "" = ""%string.
Proof. reflexivity. Qed.

Lemma capitalize_cons c r : capitalize (String c r) = String (upper_ascii c) r.
Proof. reflexivity. Qed.

Lemma capitalize_length s : String.length (capitalize s) = String.length s.
Proof. destruct s; reflexivity. Qed.

Lemma convert_section_name_total st sec : exists s, convert_section_name st sec = s.
Proof. eexists. reflexivity. Qed.

(* ====================================================================== *)
(* the rendered text is well bracketed                                     *)
(* ====================================================================== *)

Local Open Scope string_scope.

Lemma str_length_app (a b : string) : String.length (a ++ b) = String.length a + String.length b.
Proof. induction a as [|c a IH]; simpl; [reflexivity | rewrite IH; reflexivity]. Qed.

(* a character other than a space or a brace *)
Definition other_char (c : ascii) : bool :=
  negb (orb (Ascii.eqb c " ") (orb (Ascii.eqb c "{") (Ascii.eqb c "}"))).

Fixpoint has_other (s : string) : bool :=
  match s with
  | EmptyString => false
  | String c r => orb (other_char c) (has_other r)
  end.

Lemma has_other_app a b : has_other (a ++ b) = orb (has_other a) (has_other b).
Proof. induction a as [|c a IH]; simpl; [reflexivity | rewrite IH, orb_assoc; reflexivity]. Qed.

Lemma has_other_strip t : has_other (strip_indent t) = has_other t.
Proof.
  induction t as [|c t IH]; [reflexivity|]. cbn [strip_indent].
  destruct c as [b0 b1 b2 b3 b4 b5 b6 b7].
  destruct b0, b1, b2, b3, b4, b5, b6, b7; try reflexivity. exact IH.
Qed.

Lemma not_brace_other t : has_other t = true -> ~ is_brace t.
Proof.
  intros H [E|E]; rewrite <- has_other_strip, E in H; discriminate.
Qed.

(* every one-line statement carries a character of fixed text that is neither space nor brace *)
Ltac nb :=
  apply not_brace_other;
  repeat match goal with
         | |- context [if ?b then _ else _] => destruct b
         | |- context [match ?o with Some _ => _ | None => _ end] => destruct o
         end;
  rewrite ?has_other_app; cbn [has_other other_char]; cbn; rewrite ?orb_true_r; reflexivity.

Definition stmt_body (s : stmt) : option (list stmt) :=
  match s with
  | SOutSec _ _ _ _ _ body => Some body
  | SSections body => Some body
  | _ => None
  end.

Section StmtInd.
  Variable P : stmt -> Prop.
  Hypothesis Hleaf : forall s, stmt_body s = None -> P s.
  Hypothesis Hout : forall name addr at_ noload sub body,
      Forall P body -> P (SOutSec name addr at_ noload sub body).
  Hypothesis Hsec : forall body, Forall P body -> P (SSections body).

  Fixpoint stmt_nested_ind (s : stmt) : P s :=
    let go := fix go (l : list stmt) : Forall P l :=
                match l with
                | [] => Forall_nil P
                | x :: r => Forall_cons x (stmt_nested_ind x) (go r)
                end in
    match s as s0 return P s0 with
    | SOutSec name addr at_ noload sub body => Hout name addr at_ noload sub body (go body)
    | SSections body => Hsec body (go body)
    | SComment t => Hleaf (SComment t) eq_refl
    | SBlank => Hleaf SBlank eq_refl
    | SAssign p h r sym e => Hleaf (SAssign p h r sym e) eq_refl
    | SAlign sym n => Hleaf (SAlign sym n) eq_refl
    | SMaxSelf a b => Hleaf (SMaxSelf a b) eq_refl
    | SRomAdd sec => Hleaf (SRomAdd sec) eq_refl
    | SDotAdd n => Hleaf (SDotAdd n) eq_refl
    | SFill n => Hleaf (SFill n) eq_refl
    | SInput k p m sect w => Hleaf (SInput k p m sect w) eq_refl
    | SSingleEntry sect => Hleaf (SSingleEntry sect) eq_refl
    | SDiscard pats wild => Hleaf (SDiscard pats wild) eq_refl
    | SEntry e => Hleaf (SEntry e) eq_refl
    | SExtern n => Hleaf (SExtern n) eq_refl
    | SAssert c m => Hleaf (SAssert c m) eq_refl
    end.
End StmtInd.

Lemma render_go_eq ind body :
  (fix go (l : list stmt) : list string :=
     match l with [] => [] | x :: r => (render_stmt (S ind) x ++ go r)%list end) body =
  flat_map (render_stmt (S ind)) body.
Proof. induction body as [|x r IH]; [reflexivity|]. cbn [flat_map]. rewrite <- IH. reflexivity. Qed.

Lemma render_outsec ind name addr at_ noload sub body :
  render_stmt ind (SOutSec name addr at_ noload sub body) =
  ((indent_str ind ++ render_header name addr at_ noload sub)%string :: (indent_str ind ++ "{")%string ::
   flat_map (render_stmt (S ind)) body ++ [(indent_str ind ++ "}")%string])%list.
Proof. cbn [render_stmt]. rewrite render_go_eq. reflexivity. Qed.

Lemma render_sections ind body :
  render_stmt ind (SSections body) =
  ((indent_str ind ++ "SECTIONS")%string :: (indent_str ind ++ "{")%string ::
   flat_map (render_stmt (S ind)) body ++ [(indent_str ind ++ "}")%string])%list.
Proof. cbn [render_stmt]. rewrite render_go_eq. reflexivity. Qed.

Lemma blocks_flat_map ind (l : list stmt) :
  Forall (fun s => forall ind r, blocks ind r -> blocks ind (render_stmt ind s ++ r)%list) l ->
  forall r, blocks ind r -> blocks ind (flat_map (render_stmt ind) l ++ r)%list.
Proof.
  induction 1 as [|x l' Hx Hl IH]; intros r Hr; [exact Hr|].
  cbn [flat_map]. rewrite <- app_assoc. apply Hx. apply IH. exact Hr.
Qed.

Lemma blocks_discard_body ind pats : forall r,
  blocks (S ind) r ->
  blocks (S ind) (map (fun p => (indent_str (S ind) ++ "*(" ++ p ++ ");")%string) pats ++ r)%list.
Proof.
  induction pats as [|p ps IH]; intros r Hr; [exact Hr|].
  cbn [map app]. apply (bl_line (S ind) ("*(" ++ p ++ ");")); [nb | apply IH; exact Hr].
Qed.

Lemma header_not_brace name addr at_ noload sub : ~ is_brace (render_header name addr at_ noload sub).
Proof. unfold render_header. nb. Qed.

Lemma render_stmt_blocks s : forall ind r, blocks ind r -> blocks ind (render_stmt ind s ++ r)%list.
Proof.
  induction s as [s Hs | name addr at_ noload sub body IH | body IH] using stmt_nested_ind;
    intros ind r Hr.
  - destruct s; try discriminate Hs; cbn [render_stmt app].
    + apply bl_line; [nb | exact Hr].
    + apply bl_blank; exact Hr.
    + apply bl_line; [unfold render_assign; nb | exact Hr].
    + apply bl_line; [nb | exact Hr].
    + apply bl_line; [nb | exact Hr].
    + apply bl_line; [nb | exact Hr].
    + apply bl_line; [nb | exact Hr].
    + apply bl_line; [nb | exact Hr].
    + apply bl_line; [unfold render_input; nb | exact Hr].
    + apply bl_line; [nb | exact Hr].
    + rewrite <- !app_assoc. cbn [app].
      rewrite app_assoc.
      apply (bl_block ind "/DISCARD/ :"); [nb | | exact Hr].
      apply blocks_discard_body. destruct wild; cbn [app]; [|constructor].
      apply (bl_line (S ind) "*(*);"); [nb | constructor].
    + apply bl_line; [nb | exact Hr].
    + apply bl_line; [nb | exact Hr].
    + apply bl_line; [nb | exact Hr].
  - rewrite render_outsec. cbn [app]. rewrite <- app_assoc. cbn [app].
    apply bl_block; [apply header_not_brace | | exact Hr].
    rewrite <- (app_nil_r (flat_map _ _)). apply blocks_flat_map; [exact IH | constructor].
  - rewrite render_sections. cbn [app]. rewrite <- app_assoc. cbn [app].
    apply (bl_block ind "SECTIONS"); [nb | | exact Hr].
    rewrite <- (app_nil_r (flat_map _ _)). apply blocks_flat_map; [exact IH | constructor].
Qed.

Lemma render_blocks l : blocks 0 (render l).
Proof.
  unfold render. rewrite <- (app_nil_r (flat_map _ _)). apply blocks_flat_map; [|constructor].
  apply Forall_forall. intros s _. apply render_stmt_blocks.
Qed.

(* ---------- a reader that only counts braces ---------- *)

Lemma strip_indent_indent ind t : strip_indent (indent_str ind ++ t) = strip_indent t.
Proof. induction ind as [|n IH]; [reflexivity|]. cbn [indent_str]. exact IH. Qed.

Lemma depth_after_app l1 : forall d l2,
  depth_after d (l1 ++ l2)%list =
  match depth_after d l1 with Some d' => depth_after d' l2 | None => None end.
Proof.
  induction l1 as [|x r IH]; intros d l2; [reflexivity|]. cbn [app depth_after].
  destruct (String.eqb (strip_indent x) "{"); [apply IH|].
  destruct (String.eqb (strip_indent x) "}"); [|apply IH].
  destruct d as [|d']; [reflexivity | apply IH].
Qed.

Lemma depth_after_plain d t r :
  ~ is_brace t -> depth_after d (t :: r) = depth_after d r.
Proof.
  intro H. cbn [depth_after].
  destruct (String.eqb (strip_indent t) "{") eqn:E1.
  { exfalso. apply H. left. apply String.eqb_eq. exact E1. }
  destruct (String.eqb (strip_indent t) "}") eqn:E2.
  { exfalso. apply H. right. apply String.eqb_eq. exact E2. }
  reflexivity.
Qed.

Lemma is_brace_indent ind t : is_brace (indent_str ind ++ t) <-> is_brace t.
Proof. unfold is_brace. rewrite strip_indent_indent. reflexivity. Qed.

Lemma blocks_depth ind l : blocks ind l -> forall d, depth_after d l = Some d.
Proof.
  induction 1 as [ind | ind r Hr IH | ind t r Ht Hr IH | ind header body r Hh Hb IHb Hr IHr]; intro d.
  - reflexivity.
  - rewrite depth_after_plain; [apply IH|]. intros [E|E]; discriminate.
  - rewrite depth_after_plain; [apply IH|]. rewrite is_brace_indent. exact Ht.
  - rewrite depth_after_plain by (rewrite is_brace_indent; exact Hh).
    cbn [depth_after]. rewrite strip_indent_indent. cbn [strip_indent String.eqb Ascii.eqb Bool.eqb].
    rewrite depth_after_app, IHb. cbn [depth_after]. rewrite strip_indent_indent.
    cbn [strip_indent String.eqb Ascii.eqb Bool.eqb]. apply IHr.
Qed.

Lemma render_depth l : depth_after 0 (render l) = Some 0.
Proof. apply (blocks_depth 0). apply render_blocks. Qed.

(* ====================================================================== *)
(* example inputs: the three repaired crashes                              *)
(* ====================================================================== *)

Definition ex19_seg (name : string) (files : list file_serial) (alloc : an (list string))
           (subgroups : an (list (string * list string))) : segment_serial :=
  SegmentSerial [] (Value name) (Some files) Absent Absent Absent Absent Absent Absent ex_cs
                alloc Absent Absent Absent Absent Absent Absent
                Absent Absent Absent Absent subgroups SKAbsent.

Definition ex19_settings (sty : an style) (single : an bool) : settings_serial :=
  SettingsSerial [] Absent sty Absent Absent Absent Absent Absent Absent Absent Absent Absent
                 Absent single (Value "ld/partial") (Value "build/segments") Absent Absent Absent
                 Absent Absent Absent Absent Absent Absent Absent Absent Absent.

Definition ex19_doc (st : settings_serial) (segs : list segment_serial) : document_serial :=
  DocumentSerial [] (Value st) Absent (Some segs) Absent Absent Absent Absent.

Definition ex19_rt : runtime := Runtime [] true.

(* what the public API returns: [None] for success, the error value otherwise *)
Definition ex19_normal (sd : document_serial) : option err :=
  match parse sd with
  | Ok d => match gen_normal d ex19_rt with Ok _ => None | Err e => Some e end
  | Err e => Some e
  end.

Definition ex19_partial (sd : document_serial) : option err :=
  match parse sd with
  | Ok d => match gen_partial d ex19_rt with Ok _ => None | Err e => Some e end
  | Err e => Some e
  end.

(* sections_subgroups with a section that contains itself, directly and through another one *)
Definition ex19_cyclic_direct : document_serial :=
  ex19_doc (ex19_settings Absent Absent)
           [ex19_seg "boot" [ex_obj "a.o" SKAbsent] Absent (Value [(".text", [".text"])])].

Definition ex19_cyclic_indirect : document_serial :=
  ex19_doc (ex19_settings Absent Absent)
           [ex19_seg "boot" [ex_group [ex_obj "a.o" SKAbsent] SKAbsent] Absent
                     (Value [(".text", [".text.hot"]); (".text.hot", [".text.cold"]);
                             (".text.cold", [".text"])])].

(* a group without files in a segment whose ".text" contains itself: built directly (the parser
   refuses an empty `files`), it shows why the cycle theorems ask for an entry that is not a group *)
Definition ex19_cyclic_seg : segment :=
  Segment "boot" [] None None None None "" None no_conds [".text"] [] None None None
          None None [] [] true None [(".text", [".text"])] KAbsent.

Definition ex19_empty_group : file_info := FileInfo "" KGroup "" 0 "" "" [] [] "" no_conds KAbsent.

(* three levels of sub-groups without a cycle *)
Definition ex19_acyclic_subgroups : list (string * list string) :=
  [(".text", [".text.hot"; ".text.cold"]); (".text.hot", [".text.hot.inner"])].

Definition ex19_acyclic : document_serial :=
  ex19_doc (ex19_settings Absent Absent)
           [ex19_seg "boot" [ex_obj "a.o" SKAbsent] Absent (Value ex19_acyclic_subgroups)].

Definition ex19_rank (s : string) : nat :=
  if String.eqb s ".text" then 2 else if String.eqb s ".text.hot" then 1 else 0.

(* single_segment_mode with two segments *)
Definition ex19_two_single : document_serial :=
  ex19_doc (ex19_settings Absent (Value true))
           [ex19_seg "a" [ex_obj "a.o" SKAbsent] Absent Absent;
            ex19_seg "b" [ex_obj "b.o" SKAbsent] Absent Absent].

(* the makerom style with a section whose first character after the dot is not ASCII (two bytes
   of UTF-8), and one that is only a dot *)
Definition ex19_nonascii_section : string :=
  String "." (String (ascii_of_nat 195) (String (ascii_of_nat 169) "tat")).

Definition ex19_makerom : document_serial :=
  ex19_doc (ex19_settings (Value Makerom) Absent)
           [ex19_seg "boot" [ex_obj "a.o" SKAbsent] (Value [ex19_nonascii_section; "."; ""]) Absent].

Definition ex19_lines (sd : document_serial) : list string :=
  match parse sd with
  | Ok d => match gen_normal d ex19_rt with Ok w => render (wo_script w) | Err _ => [] end
  | Err _ => []
  end.

Lemma ex19_acyclic_decreasing f :
  fi_section_order f = [] ->
  chain_decreasing (Segment "boot" [] None None None None "" None no_conds [".text"] [] None None None
                            None None [] [] true None ex19_acyclic_subgroups KAbsent)
                   [".text"] ex19_rank f.
Proof.
  intros Hso section k others other Hk Hl Hother.
  rewrite (sections_here_plain _ _ _ Hso) in Hk. destruct Hk as [Hk|[]]. subst k.
  apply subgroups_for_sub in Hl.
  cbn [sections_subgroups ex19_acyclic_subgroups lookup] in Hl.
  destruct (String.eqb section ".text") eqn:E1.
  - apply String.eqb_eq in E1. subst section. inversion Hl; subst others.
    destruct Hother as [H|[H|[]]]; subst other; vm_compute; lia.
  - destruct (String.eqb section ".text.hot") eqn:E2; [|discriminate].
    apply String.eqb_eq in E2. subst section. inversion Hl; subst others.
    destruct Hother as [H|[]]; subst other; vm_compute; lia.
Qed.
