(* C19 - to be filled *)
