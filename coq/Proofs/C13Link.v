(* C13Link: in a final pass that ends without error every recorded (header-declared) symbol is defined. *)
From Slinky Require Import Model.Types Model.Generated Model.Runtime Model.Style Model.Script Model.Writer
  Model.Exports Model.LdSem.
From Slinky Require Import Spec.C13 Spec.C17 Spec.C04 Spec.C03 Proofs.C06 Proofs.C12 Proofs.C13 Proofs.C18
  Proofs.C17 Proofs.LdLemmas Proofs.C04 Proofs.C03.
From Coq Require Import Lia ZArith.
Local Open Scope Z_scope.

(* ---------- the recorded assignments LdSem executes ---------- *)

Definition rec_sec (s : stmt) : list string :=
  match s with
  | SAssign false _ true sym _ => [sym]
  | _ => []
  end.

Definition rec_top (s : stmt) : list string :=
  match s with
  | SAssign false _ true sym _ => if String.eqb sym "." then [] else [sym]
  | SOutSec _ _ _ _ _ body => flat_map rec_sec body
  | _ => []
  end.

Definition rec_script (s : stmt) : list string :=
  match s with
  | SSections body => flat_map rec_top body
  | _ => rec_top s
  end.

Definition exec_recorded (script : list stmt) : list string := flat_map rec_script script.

(* scripts in which the recorded assignments are exactly the executed ones: SECTIONS only at the top,
   output sections only directly inside SECTIONS or at the top, recorded assignments never PROVIDEd
   and never to "." *)
Definition flat_sec (s : stmt) : bool :=
  match s with
  | SOutSec _ _ _ _ _ _ | SSections _ => false
  | SAssign p _ r _ _ => negb (r && p)
  | _ => true
  end.

Definition flat_top (s : stmt) : bool :=
  match s with
  | SSections _ => false
  | SOutSec _ _ _ _ _ body => forallb flat_sec body
  | SAssign p _ r sym _ => negb (r && (p || String.eqb sym "."))
  | _ => true
  end.

Definition flat_stmt (s : stmt) : bool :=
  match s with
  | SSections body => forallb flat_top body
  | _ => flat_top s
  end.

Definition script_flat (script : list stmt) : bool := forallb flat_stmt script.

Lemma rec_sec_flat s : flat_sec s = true -> stmt_recorded s = rec_sec s.
Proof.
  destruct s; try reflexivity; try discriminate. cbn [flat_sec stmt_recorded rec_sec].
  destruct recorded, provide; try reflexivity. discriminate.
Qed.

Lemma flat_map_ext_in' {A B} (f g : A -> list B) l : (forall x, In x l -> f x = g x) -> flat_map f l = flat_map g l.
Proof. intro H. induction l as [|a l IH]; simpl; [reflexivity|]. rewrite H, IH; auto. intros x Hx. apply H. auto. right. exact Hx. left. reflexivity. Qed.

Lemma rec_top_flat s : flat_top s = true -> stmt_recorded s = rec_top s.
Proof.
  destruct s; try reflexivity; try discriminate.
  - cbn [flat_top stmt_recorded rec_top]. destruct recorded, provide; try reflexivity; try discriminate.
    destruct (String.eqb sym "."); [discriminate|reflexivity].
  - cbn [flat_top stmt_recorded rec_top]. intro H. apply flat_map_ext_in'. intros x Hx. apply rec_sec_flat.
    rewrite forallb_forall in H. apply H. exact Hx.
Qed.

Lemma rec_script_flat s : flat_stmt s = true -> stmt_recorded s = rec_script s.
Proof.
  destruct s; try (apply rec_top_flat).
  cbn [flat_stmt stmt_recorded rec_script]. intro H. apply flat_map_ext_in'. intros x Hx. apply rec_top_flat.
  rewrite forallb_forall in H. apply H. exact Hx.
Qed.

Lemma exec_recorded_flat script : script_flat script = true -> recorded_syms script = exec_recorded script.
Proof.
  intro H. apply flat_map_ext_in'. intros x Hx. apply rec_script_flat.
  unfold script_flat in H. rewrite forallb_forall in H. apply H. exact Hx.
Qed.

(* ---------- executing ---------- *)

Section Link.
  Variables (env : list (string * Z)) (senv : list osec) (ext : list (string * Z)).

  Notation top := (exec_top_stmt env senv ext true).
  Notation runl := (run env senv ext true).
  Notation secs vma sub name := (exec_sec_stmt env senv ext true vma sub name).

  Definition defined (st : lstate) (x : string) : Prop := exists v, lookup x (l_syms st) = Some v.
  Definition failed (st : lstate) : Prop := l_errors st <> [].

  (* all the symbols of [l] are defined, unless the pass has reported an error *)
  Definition good (st : lstate) (l : list string) : Prop := failed st \/ Forall (defined st) l.

  Lemma lookup_app_some {A} x (l1 l2 : list (string * A)) v :
    lookup x l2 = Some v -> exists v', lookup x (l1 ++ l2) = Some v'.
  Proof.
    intro H. induction l1 as [|[k w] l1 IH]; [eauto|]. cbn [app lookup].
    destruct (String.eqb x k); eauto.
  Qed.

  Lemma app_not_nil {A} (l new : list A) : l <> [] -> (l ++ new)%list <> [].
  Proof. destruct l; [congruence|discriminate]. Qed.

  (* syms only grow *)
  Lemma assign_syms_grow p sym r text st :
    exists new, l_syms (assign ext true p sym r text st) = (new ++ l_syms st)%list.
  Proof.
    destruct (assign_cases ext true p sym r text st) as [E|[[v [_ E]]|[e E]]]; rewrite E.
    - exists []. reflexivity.
    - exists [(sym, v)]. reflexivity.
    - exists []. reflexivity.
  Qed.

  Lemma sec_stmt_syms_grow vma sub name ss s :
    exists new, l_syms (s_st (secs vma sub name ss s)) = (new ++ l_syms (s_st ss))%list.
  Proof.
    destruct (sec_stmt_cases env senv ext true vma sub name ss s)
      as [[p [h [r [sym [e [Es E]]]]]] | [[k [path [member [sect [wild [off' [pls [c [Es [Ep E]]]]]]]]]] | [E _]]];
      rewrite E; try (exists []; reflexivity). apply assign_syms_grow.
  Qed.

  Lemma defined_grow st st' x : (exists new, l_syms st' = (new ++ l_syms st)%list) -> defined st x -> defined st' x.
  Proof. intros [new E] [v Hv]. unfold defined. rewrite E. eapply lookup_app_some. exact Hv. Qed.

  Lemma failed_grow st st' : (exists new, l_errors st' = (l_errors st ++ new)%list) -> failed st -> failed st'.
  Proof. intros [new E] H. unfold failed. rewrite E. apply app_not_nil. exact H. Qed.

  Lemma good_grow st st' l :
    (exists new, l_syms st' = (new ++ l_syms st)%list) -> (exists new, l_errors st' = (l_errors st ++ new)%list) ->
    good st l -> good st' l.
  Proof.
    intros Hs He [H|H]; [left; eapply failed_grow; eassumption|right].
    eapply Forall_impl; [|exact H]. intros x Hx. eapply defined_grow; eassumption.
  Qed.

  Lemma good_app st l1 l2 : good st l1 -> good st l2 -> good st (l1 ++ l2).
  Proof. intros [H1|H1] [H2|H2]; try (left; assumption). right. apply Forall_app. auto. Qed.

  Lemma good_nil st : good st [].
  Proof. right. constructor. Qed.

  (* a non-PROVIDE assignment in a final pass defines its symbol or reports an error *)
  Lemma assign_good sym r text st : good (assign ext true false sym r text st) [sym].
  Proof.
    unfold assign. destruct r as [v|e].
    - cbn [andb]. right. constructor; [|constructor]. exists v. apply lookup_set_sym_same.
    - left. unfold failed. destruct e; cbn [andb negb add_err l_errors];
        intro E; apply app_eq_nil in E; destruct E; discriminate.
  Qed.

  Lemma sec_stmt_good vma sub name ss s : good (s_st (secs vma sub name ss s)) (rec_sec s).
  Proof.
    destruct s; try apply good_nil. cbn [rec_sec]. destruct provide; [apply good_nil|].
    destruct recorded; [|apply good_nil]. cbn [exec_sec_stmt s_st]. apply assign_good.
  Qed.

  Lemma sec_fold_syms_grow vma sub name body : forall ss,
    exists new, l_syms (s_st (fold_left (secs vma sub name) body ss)) = (new ++ l_syms (s_st ss))%list.
  Proof.
    induction body as [|s body IH]; intro ss; [exists []; reflexivity|]. cbn [fold_left].
    destruct (IH (secs vma sub name ss s)) as [n1 E1]. destruct (sec_stmt_syms_grow vma sub name ss s) as [n2 E2].
    exists (n1 ++ n2)%list. rewrite E1, E2, app_assoc. reflexivity.
  Qed.

  Lemma sec_fold_good vma sub name body : forall ss,
    good (s_st (fold_left (secs vma sub name) body ss)) (flat_map rec_sec body).
  Proof.
    induction body as [|s body IH]; intro ss; [apply good_nil|]. cbn [fold_left flat_map].
    apply good_app; [|apply IH].
    eapply good_grow; [apply sec_fold_syms_grow | apply sec_fold_errors | apply sec_stmt_good].
  Qed.

  Lemma outsec_syms_grow name addr at_ noload sub body st :
    exists new, l_syms (exec_outsec env senv ext true name addr at_ noload sub body st) = (new ++ l_syms st)%list.
  Proof.
    destruct (outsec_vma env senv ext addr sub body st) as [vma|e] eqn:E.
    - destruct (exec_outsec_ok env senv ext true name addr at_ noload sub body st vma E) as [_ [Hs _]]. rewrite Hs.
      apply (sec_fold_syms_grow vma (option_map Z.of_N sub) name body (SState 0 false st)).
    - rewrite (exec_outsec_err _ _ _ _ _ _ _ _ _ _ _ _ E). exists []. reflexivity.
  Qed.

  Lemma outsec_good name addr at_ noload sub body st :
    good (exec_outsec env senv ext true name addr at_ noload sub body st) (flat_map rec_sec body).
  Proof.
    destruct (outsec_vma env senv ext addr sub body st) as [vma|e] eqn:E.
    - destruct (exec_outsec_ok env senv ext true name addr at_ noload sub body st vma E)
        as [_ [Hs [_ [_ [_ [_ [_ He]]]]]]].
      destruct (sec_fold_good vma (option_map Z.of_N sub) name body (SState 0 false st)) as [G|G].
      + left. unfold failed in *. unfold outsec_body in He. destruct He as [He|He]; rewrite He; [exact G|].
        apply app_not_nil. exact G.
      + right. eapply Forall_impl; [|exact G]. intros x [v Hv]. exists v. rewrite Hs. exact Hv.
    - rewrite (exec_outsec_err _ _ _ _ _ _ _ _ _ _ _ _ E). left. unfold failed. cbn [add_err l_errors].
      intro E0. apply app_eq_nil in E0. destruct E0; discriminate.
  Qed.

  Lemma top_syms_grow st s : exists new, l_syms (top st s) = (new ++ l_syms st)%list.
  Proof.
    assert (Hsame : l_syms (top st s) = l_syms st -> exists new, l_syms (top st s) = (new ++ l_syms st)%list)
      by (intro E; exists []; exact E).
    destruct s; try (apply Hsame; reflexivity); cbn [exec_top_stmt].
    - destruct (String.eqb sym ".").
      + destruct (eval_expr env senv ext st (l_dot st) e); exists []; reflexivity.
      + apply assign_syms_grow.
    - destruct (String.eqb sym "."); [exists []; reflexivity|].
      destruct (sym_lookup sym st env ext); [eexists [_]|exists []]; reflexivity.
    - destruct (sym_lookup sym st env ext); [destruct (sym_lookup other st env ext)|];
        try (exists []; reflexivity). eexists [_]. reflexivity.
    - destruct (sym_lookup "__romPos" st env ext); [destruct (sec_lookup sec st senv)|];
        try (exists []; reflexivity). eexists [_]. reflexivity.
    - apply outsec_syms_grow.
    - destruct (place 0 None sect _ 0 [] false) as [[off' pls] c]. exists []. reflexivity.
    - destruct (eval_raw env ext st cond) as [v|e]; [destruct (v =? 0); exists []; reflexivity|].
      destruct e; exists []; reflexivity.
  Qed.

  Lemma top_good st s : good (top st s) (rec_top s).
  Proof.
    destruct s; try apply good_nil.
    - cbn [rec_top]. destruct provide; [apply good_nil|]. destruct recorded; [|apply good_nil].
      cbn [exec_top_stmt]. destruct (String.eqb sym "."); [apply good_nil | apply assign_good].
    - cbn [rec_top exec_top_stmt]. apply outsec_good.
  Qed.

  Lemma run_syms_grow l : forall st, exists new, l_syms (runl l st) = (new ++ l_syms st)%list.
  Proof.
    induction l as [|s l IH]; intro st; [exists []; reflexivity|]. rewrite run_cons.
    destruct (IH (top st s)) as [n1 E1]. destruct (top_syms_grow st s) as [n2 E2].
    exists (n1 ++ n2)%list. rewrite E1, E2, app_assoc. reflexivity.
  Qed.

  Lemma run_good l : forall st, good (runl l st) (flat_map rec_top l).
  Proof.
    induction l as [|s l IH]; intro st; [apply good_nil|]. rewrite run_cons. cbn [flat_map].
    apply good_app; [|apply IH].
    eapply good_grow; [apply run_syms_grow | apply run_errors | apply top_good].
  Qed.

  Definition step (st : lstate) (s : stmt) : lstate :=
    match s with
    | SSections body => fold_left (exec_top_stmt env senv ext true) body st
    | _ => exec_top_stmt env senv ext true st s
    end.

  Lemma exec_script_fold script st : exec_script env senv ext true script st = fold_left step script st.
  Proof. reflexivity. Qed.

  Lemma step_grow st s :
    (exists new, l_syms (step st s) = (new ++ l_syms st)%list) /\
    (exists new, l_errors (step st s) = (l_errors st ++ new)%list) /\
    good (step st s) (rec_script s).
  Proof.
    destruct s; try (split; [apply top_syms_grow | split; [apply top_errors | apply top_good]]).
    cbn [step rec_script]. split; [apply (run_syms_grow body)|]. split; [apply (run_errors _ _ _ _ body) | apply (run_good body)].
  Qed.

  Lemma script_good script : forall st, good (fold_left step script st) (exec_recorded script).
  Proof.
    induction script as [|s script IH]; intro st; [apply good_nil|]. cbn [fold_left]. unfold exec_recorded.
    cbn [flat_map]. apply good_app; [|apply IH].
    destruct (step_grow st s) as [_ [_ G]]. revert G. generalize (step st s). intros st1 G.
    clear IH. revert st1 G. induction script as [|s2 script IH2]; intros st1 G; [exact G|]. cbn [fold_left].
    apply IH2. destruct (step_grow st1 s2) as [Hs [He _]]. eapply good_grow; eassumption.
  Qed.

  (* C13_defined *)
  Theorem recorded_defined script st sym :
    let st' := exec_script env senv ext true script st in
    l_errors st' = [] -> In sym (exec_recorded script) -> exists v, lookup sym (l_syms st') = Some v.
  Proof.
    intros st' He Hin. unfold st' in *. rewrite exec_script_fold in *.
    destruct (script_good script st) as [G|G]; [contradiction|].
    rewrite Forall_forall in G. apply G. exact Hin.
  Qed.
End Link.

(* ---------- the scripts slinky writes are flat ---------- *)

Definition fs (s : stmt) : Prop := flat_sec s = true.
Definition ft (s : stmt) : Prop := flat_top s = true.

Lemma ft_linker sty sym e : style_name sty sym -> ft (linker_symbol sym e).
Proof.
  intro H. unfold ft, linker_symbol. cbn [flat_top]. rewrite (style_name_eqb sty sym "." H eq_refl). reflexivity.
Qed.

Ltac ft_leaf :=
  repeat match goal with
         | |- Forall _ (_ ++ _) => apply Forall_app; split
         | |- Forall _ (match ?x with _ => _ end) => destruct x
         | |- Forall _ (if ?x then _ else _) => destruct x
         | |- Forall _ (_ :: _) => constructor
         | |- Forall _ [] => constructor
         | |- ft (linker_symbol _ _) => eapply ft_linker; sn
         | |- ft _ => reflexivity
         end.

Lemma fs_part_groups rt st cfg seg sections rest ws s ws' :
  part_groups rt st cfg seg sections rest ws = Ok (s, ws') -> Forall fs s.
Proof. apply (gp_part_groups fs); intros; reflexivity. Qed.

Lemma fs_emit_section rt sty cfg seg sections base section ws s ws' :
  emit_section rt sty cfg seg sections base section ws = Ok (s, ws') -> Forall fs s.
Proof. apply (gp_emit_section fs); intros; reflexivity. Qed.

Lemma fs_opt_fill seg : Forall fs (opt_fill seg).
Proof. unfold opt_fill. destruct (fill_value seg); repeat constructor. Qed.

Lemma ft_outsec name addr at_ noload sub body : Forall fs body -> ft (SOutSec name addr at_ noload sub body).
Proof. intro H. unfold ft. cbn [flat_top]. apply forallb_forall. rewrite Forall_forall in H. exact H. Qed.

Lemma ft_kind_start sty cfg seg noload : Forall ft (sections_kind_start sty cfg seg noload).
Proof. unfold sections_kind_start. ft_leaf. Qed.

Lemma ft_kind_end sty cfg seg noload : Forall ft (sections_kind_end sty cfg seg noload).
Proof. unfold sections_kind_end, sym_end_size. ft_leaf. Qed.

Lemma ft_opt_align a : Forall ft (opt_align a).
Proof. unfold opt_align. ft_leaf. Qed.

Lemma ft_gp_stmt rt seg section : Forall ft (gp_stmt rt seg section).
Proof. unfold gp_stmt. ft_leaf. Qed.

Lemma ft_section_symbol_start rt sty cfg seg section : Forall ft (section_symbol_start rt sty cfg seg section).
Proof.
  unfold section_symbol_start. destruct (section_syms cfg); [|constructor].
  fa; try apply ft_opt_align; try apply ft_gp_stmt. ft_leaf.
Qed.

Lemma ft_section_symbol_end sty cfg seg section : Forall ft (section_symbol_end sty cfg seg section).
Proof.
  unfold section_symbol_end. destruct (section_syms cfg); [|constructor].
  fa; try apply ft_opt_align. unfold sym_end_size. ft_leaf.
Qed.

Lemma ft_write_segment rt st cfg seg sections noload ws s ws' :
  write_segment rt st cfg seg sections noload ws = Ok (s, ws') -> Forall ft s.
Proof.
  intro H. apply write_segment_inv in H. destruct H as [body [E H]]. subst.
  fa; [apply ft_kind_start | | apply ft_kind_end].
  constructor; [|constructor]. apply ft_outsec. apply Forall_app; split; [apply fs_opt_fill|].
  eapply fs_part_groups; eassumption.
Qed.

Lemma ft_single_groups rt st cfg seg sections noload rest : forall ws s ws',
  single_groups rt st cfg seg sections noload rest ws = Ok (s, ws') -> Forall ft s.
Proof.
  induction rest as [|section rest IH]; intros ws s ws' H.
  - apply ok_inj in H. inversion H; subst. constructor.
  - apply single_groups_cons in H. destruct H as [s1 [ws1 [s2 [E1 [E2 E]]]]]. subst.
    fa.
    + apply ft_section_symbol_start.
    + constructor; [|constructor]. apply ft_outsec.
      apply Forall_app; split; [apply fs_opt_fill|]. eapply fs_emit_section; eassumption.
    + apply ft_section_symbol_end.
    + ft_leaf.
    + eapply IH; eassumption.
Qed.

Lemma ft_write_single_segment rt st cfg seg sections noload ws s ws' :
  write_single_segment rt st cfg seg sections noload ws = Ok (s, ws') -> Forall ft s.
Proof.
  intro H. apply write_single_segment_inv in H. destruct H as [body [E H]]. subst.
  fa; [apply ft_kind_start | | apply ft_kind_end]. eapply ft_single_groups; eassumption.
Qed.

Lemma ft_class_start st c cn : Forall ft (class_start_stmts st c cn).
Proof.
  unfold class_start_stmts. apply Forall_app; split; [|ft_leaf].
  destruct (vc_fixed_vram c); [ft_leaf|]. destruct (vc_fixed_symbol c); [ft_leaf|].
  constructor; [eapply ft_linker; sn|]. apply Forall_map_intro. reflexivity.
Qed.

Lemma ft_seg_head st seg : Forall ft (seg_head st seg).
Proof. unfold seg_head. ft_leaf. Qed.

Lemma ft_seg_foot st seg : Forall ft (seg_foot st seg).
Proof. unfold seg_foot, sym_end_size. cbv zeta. ft_leaf. Qed.

Lemma ft_add_segment rt st cfg classes seg ws s ws' :
  add_segment rt st cfg classes seg ws = Ok (s, ws') -> Forall ft s.
Proof.
  intro H. apply add_segment_inv in H.
  destruct H as [[_ [E _]] | [_ [cls [ws1 [s1 [ws2 [s2 [Ec [E1 [E2 E]]]]]]]]]]; subst; [constructor|].
  fa.
  - apply class_part_inv in Ec. destruct Ec as [[E _] | [cn [c [_ [_ [_ [E _]]]]]]]; subst;
      [constructor | apply ft_class_start].
  - apply ft_seg_head.
  - eapply ft_write_segment; eassumption.
  - ft_leaf.
  - eapply ft_write_segment; eassumption.
  - ft_leaf.
  - apply ft_seg_foot.
Qed.

Lemma ft_fold_add_segment rt st cfg classes segs ws s ws' :
  fold_out (add_segment rt st cfg classes) segs ws = Ok (s, ws') -> Forall ft s.
Proof.
  apply (fold_out_rel (fun _ s _ => Forall ft s)).
  - constructor.
  - intros. apply Forall_app; split; assumption.
  - intros seg w t w' _ H. eapply ft_add_segment; eassumption.
Qed.

Lemma ft_end_sections st classes ws : Forall ft (end_sections_body st classes ws).
Proof.
  rewrite end_sections_layout.
  assert (Hparts : Forall (Forall ft)
                     [tail_sizes st classes ws; tail_allow st; tail_extra st; tail_discard st]).
  { repeat constructor.
    - apply Forall_map_intro. intro cn. eapply ft_linker. sn.
    - apply Forall_map_intro. reflexivity.
    - apply Forall_map_intro. reflexivity.
    - unfold tail_discard. ft_leaf. }
  induction Hparts as [|p r Hp Hr IH]; [constructor|]. simpl. destruct p as [|y p]; [exact IH|].
  apply Forall_app; split; [exact Hp|]. destruct (sep_concat r); [constructor|].
  constructor; [reflexivity | exact IH].
Qed.

Lemma ft_begin st : Forall ft (begin_sections_body st).
Proof. unfold begin_sections_body, hardcoded_gp_stmts. ft_leaf. Qed.

Lemma ft_single_head st cfg seg : Forall ft (single_head st cfg seg).
Proof.
  rewrite single_head_shape. destruct (section_syms cfg), (hardcoded_gp_value st), (sg_fixed_vram seg);
    repeat constructor.
Qed.

Lemma Forall_forallb {A} (f : A -> bool) l : Forall (fun x => f x = true) l -> forallb f l = true.
Proof. intro H. apply forallb_forall. rewrite Forall_forall in H. exact H. Qed.

Lemma flat_add_all_segments rt st cfg classes segs ws s ws' :
  add_all_segments rt st cfg classes segs ws = Ok (s, ws') -> script_flat s = true.
Proof.
  intro H. apply add_all_segments_inv in H. destruct H as [[_ [seg [_ H]]] | [_ [body [E H]]]].
  - apply add_single_segment_inv in H. destruct H as [s1 [ws1 [s2 [E1 [E2 E]]]]]. subst s.
    unfold script_flat. cbn [forallb flat_stmt]. rewrite andb_true_r. apply Forall_forallb. fa.
    + apply ft_single_head.
    + eapply ft_write_single_segment; eassumption.
    + repeat constructor.
    + eapply ft_write_single_segment; eassumption.
    + repeat constructor.
    + apply ft_end_sections.
  - subst s. unfold script_flat. cbn [forallb flat_stmt]. rewrite andb_true_r. apply Forall_forallb. fa.
    + apply ft_begin.
    + eapply ft_fold_add_segment; eassumption.
    + apply ft_end_sections.
Qed.

Lemma flat_tail_stmts rt d : script_flat (tail_stmts rt d) = true.
Proof.
  unfold script_flat. rewrite tail_stmts_layout, !forallb_app.
  assert (E1 : forall l, forallb flat_stmt (map assign_stmt l) = true)
    by (intro l; induction l; simpl; auto).
  assert (E2 : forall l, forallb flat_stmt (flat_map required_pair l) = true)
    by (intro l; induction l; simpl; auto).
  assert (E3 : forall l, forallb flat_stmt (map assert_stmt l) = true)
    by (intro l; induction l; simpl; auto).
  destruct (doc_entry d), (nonempty (doc_symbol_assignments d)), (nonempty (doc_required_symbols d)),
    (nonempty (doc_asserts d)); cbn [forallb flat_stmt flat_top andb]; rewrite ?E1, ?E2, ?E3; reflexivity.
Qed.

Theorem flat_gen_normal d rt w : gen_normal d rt = Ok w -> script_flat (wo_script w) = true.
Proof.
  intro H. apply gen_normal_inv in H. destruct H as [s [ws' [E H]]]. subst w. cbn [wo_script].
  unfold script_flat. rewrite !forallb_app. fold (script_flat s). fold (script_flat (tail_stmts rt d)).
  rewrite (flat_add_all_segments _ _ _ _ _ _ _ _ E), flat_tail_stmts.
  unfold version_stmts. destruct (rt_emit_version_comment rt); reflexivity.
Qed.

(* every name the symbols header declares is defined by a final pass that ends without error *)
Theorem header_symbols_defined env senv ext d rt w st sym :
  gen_normal d rt = Ok w ->
  let st' := exec_script env senv ext true (wo_script w) st in
  l_errors st' = [] -> In sym (linker_symbols w) -> exists v, lookup sym (l_syms st') = Some v.
Proof.
  intros H st' He Hin. apply (recorded_defined env senv ext (wo_script w) st sym He).
  rewrite <- exec_recorded_flat by (eapply flat_gen_normal; eassumption).
  apply linker_symbols_in. exact Hin.
Qed.

(* ... in particular by ld's last pass *)
Theorem header_symbols_defined_layout d rt w u ext0 sym :
  gen_normal d rt = Ok w ->
  let st' := layout (wo_script w) u ext0 in
  l_errors st' = [] -> In sym (linker_symbols w) -> exists v, lookup sym (l_syms st') = Some v.
Proof. intros H st' He Hin. unfold st', layout in *. eapply header_symbols_defined; eassumption. Qed.

(* ---------- partial linking: the main script and the per-segment scripts ---------- *)

Lemma flat_add_single_segment rt st cfg classes seg ws s ws' :
  add_single_segment rt st cfg classes seg ws = Ok (s, ws') -> script_flat s = true.
Proof.
  intro H. apply add_single_segment_inv in H. destruct H as [s1 [ws1 [s2 [E1 [E2 E]]]]]. subst s.
  unfold script_flat. cbn [forallb flat_stmt]. rewrite andb_true_r. apply Forall_forallb. fa.
  - apply ft_single_head.
  - eapply ft_write_single_segment; eassumption.
  - repeat constructor.
  - eapply ft_write_single_segment; eassumption.
  - repeat constructor.
  - apply ft_end_sections.
Qed.

Lemma flat_version rt : script_flat (version_stmts rt) = true.
Proof. unfold version_stmts. destruct (rt_emit_version_comment rt); reflexivity. Qed.

Lemma script_flat_app a b : script_flat (a ++ b) = script_flat a && script_flat b.
Proof. apply forallb_app. Qed.

Definition sub_flat (sub : string * writer_out) : Prop := script_flat (wo_script (snd sub)) = true.

Lemma ft_partial_segments d rt folder segs : forall ws subs s ws' subs',
  partial_segments d rt folder segs (ws, subs) = Ok (s, (ws', subs')) ->
  Forall ft s /\ (Forall sub_flat subs -> Forall sub_flat subs').
Proof.
  induction segs as [|seg r IH]; intros ws subs s ws' subs' H.
  - apply ok_inj in H. inversion H; subst. split; [constructor|auto].
  - apply partial_segments_cons in H. destruct H as [s1 [[ws1 subs1] [s2 [E1 [E2 E]]]]]. subst.
    apply IH in E2. destruct E2 as [Hs2 Hsub2].
    apply partial_segment_inv in E1.
    destruct E1 as [[_ [E [Ew Es]]] | [_ [sub [wsub [Ea [Eb Es]]]]]]; subst.
    + split; [exact Hs2 | exact Hsub2].
    + split.
      * apply Forall_app; split; [eapply ft_add_segment; eassumption | exact Hs2].
      * intro Hsubs. apply Hsub2. apply Forall_app; split; [assumption|]. constructor; [|constructor].
        unfold sub_flat. cbn [snd wo_script]. rewrite script_flat_app, flat_version.
        eapply flat_add_single_segment; eassumption.
Qed.

(* the main script of a partial build is flat, and so is each per-segment script *)
Theorem flat_gen_partial d rt p :
  gen_partial d rt = Ok p ->
  script_flat (wo_script (po_main p)) = true /\
  Forall (fun sub => script_flat (wo_script (snd sub)) = true) (po_subs p).
Proof.
  intro H. apply gen_partial_inv in H. destruct H as [folder [body [ws [subs [Ef [E H]]]]]]. subst p.
  apply ft_partial_segments in E. destruct E as [Hs Hsub]. cbn [po_main po_subs wo_script]. split.
  - rewrite !script_flat_app, flat_version, flat_tail_stmts.
    unfold script_flat. cbn [forallb flat_stmt]. rewrite !andb_true_r. apply Forall_forallb. fa.
    + apply ft_begin.
    + exact Hs.
    + apply ft_end_sections.
  - apply Hsub. constructor.
Qed.

(* the symbols header of a partial build is written from the main writer ([save_other_files_partial]
   passes [po_main p] to [save_other_files_normal], hence to [header_text]): every name it declares is
   defined by a final pass over the main script that ends without error *)
Theorem header_symbols_defined_partial env senv ext d rt p st sym :
  gen_partial d rt = Ok p ->
  let st' := exec_script env senv ext true (wo_script (po_main p)) st in
  l_errors st' = [] -> In sym (linker_symbols (po_main p)) -> exists v, lookup sym (l_syms st') = Some v.
Proof.
  intros H st' He Hin. apply (recorded_defined env senv ext (wo_script (po_main p)) st sym He).
  rewrite <- exec_recorded_flat by (apply (flat_gen_partial d rt p H)).
  apply linker_symbols_in. exact Hin.
Qed.

Theorem header_symbols_defined_partial_layout d rt p u ext0 sym :
  gen_partial d rt = Ok p ->
  let st' := layout (wo_script (po_main p)) u ext0 in
  l_errors st' = [] -> In sym (linker_symbols (po_main p)) -> exists v, lookup sym (l_syms st') = Some v.
Proof. intros H st' He Hin. unfold st', layout in *. eapply header_symbols_defined_partial; eassumption. Qed.

(* the same for every per-segment script: the names it records (none with slinky's sub-script
   configuration, see C11) are defined by a final pass over it that ends without error *)
Theorem sub_symbols_defined_partial env senv ext d rt p name w st sym :
  gen_partial d rt = Ok p -> In (name, w) (po_subs p) ->
  let st' := exec_script env senv ext true (wo_script w) st in
  l_errors st' = [] -> In sym (linker_symbols w) -> exists v, lookup sym (l_syms st') = Some v.
Proof.
  intros H Hw st' He Hin. apply (recorded_defined env senv ext (wo_script w) st sym He).
  destruct (flat_gen_partial d rt p H) as [_ Hsubs]. rewrite Forall_forall in Hsubs.
  rewrite <- exec_recorded_flat by (apply (Hsubs (name, w) Hw)).
  apply linker_symbols_in. exact Hin.
Qed.
