(* to be filled *)
