(* C17: lemmas about the top-level statements and the definitions of _gp. *)
From Slinky Require Import Model.Types Model.Generated Model.Runtime Model.Style Model.Script Model.Writer
  Model.Exports.
From Slinky Require Import Spec.C17 Proofs.C06 Proofs.C18.
From Coq Require Import Lia.

(* ====================================================================== *)
(* the statements after SECTIONS                                           *)
(* ====================================================================== *)

Lemma flat_map_if_flat {A B} (p : A -> bool) (f : A -> list B) l :
  flat_map (fun x => if p x then f x else []) l = flat_map f (filter p l).
Proof.
  induction l as [|x r IH]; simpl; [reflexivity|]. destruct (p x); simpl; rewrite IH; reflexivity.
Qed.

Lemma strip_blank_cons_blank l : strip_blank (SBlank :: l) = strip_blank l.
Proof. reflexivity. Qed.

Lemma strip_entry e : strip_blank (entry_stmts e) = match e with Some s => [SEntry s] | None => [] end.
Proof. destruct e; reflexivity. Qed.

Lemma strip_assignments rt l :
  strip_blank (assignment_stmts rt l) =
  map assign_stmt (filter (fun a => should_emit rt (sa_conds a)) l).
Proof.
  assert (E : strip_blank (assignment_stmts rt l) =
              strip_blank (flat_map (fun a => if should_emit rt (sa_conds a) then [assign_stmt a] else []) l))
    by (destruct l; reflexivity).
  rewrite E, flat_map_if_map. apply strip_blank_id. apply Forall_map_intro. reflexivity.
Qed.

Lemma strip_required rt l :
  strip_blank (required_stmts rt l) =
  flat_map required_pair (filter (fun r => should_emit rt (rq_conds r)) l).
Proof.
  assert (E : strip_blank (required_stmts rt l) =
              strip_blank (flat_map (fun r => if should_emit rt (rq_conds r) then required_pair r else []) l))
    by (destruct l; reflexivity).
  rewrite E, flat_map_if_flat. apply strip_blank_id. apply Forall_flat_map_intro.
  intro r. repeat constructor.
Qed.

Lemma strip_asserts rt l :
  strip_blank (assert_stmts rt l) =
  map assert_stmt (filter (fun a => should_emit rt (ae_conds a)) l).
Proof.
  assert (E : strip_blank (assert_stmts rt l) =
              strip_blank (flat_map (fun a => if should_emit rt (ae_conds a) then [assert_stmt a] else []) l))
    by (destruct l; reflexivity).
  rewrite E, flat_map_if_map. apply strip_blank_id. apply Forall_map_intro. reflexivity.
Qed.

Lemma tail_stmts_strip rt d : strip_blank (tail_stmts rt d) = tail_spec rt d.
Proof.
  unfold tail_stmts, tail_spec. rewrite !strip_blank_app, strip_entry, strip_assignments, strip_required,
    strip_asserts. reflexivity.
Qed.

(* blank lines: each non-empty group is preceded by exactly one blank line *)
Lemma tail_stmts_layout rt d :
  tail_stmts rt d =
  (match doc_entry d with Some e => [SBlank; SEntry e] | None => [] end) ++
  (if nonempty (doc_symbol_assignments d)
   then SBlank :: map assign_stmt (filter (fun a => should_emit rt (sa_conds a)) (doc_symbol_assignments d))
   else []) ++
  (if nonempty (doc_required_symbols d)
   then SBlank :: flat_map required_pair
                    (filter (fun r => should_emit rt (rq_conds r)) (doc_required_symbols d))
   else []) ++
  (if nonempty (doc_asserts d)
   then SBlank :: map assert_stmt (filter (fun a => should_emit rt (ae_conds a)) (doc_asserts d))
   else []).
Proof.
  unfold tail_stmts, entry_stmts, assignment_stmts, required_stmts, assert_stmts.
  f_equal. f_equal; [|f_equal].
  - destruct (doc_symbol_assignments d) as [|a l]; [reflexivity|]. cbn [nonempty]. f_equal.
    apply (flat_map_if_map (fun a => should_emit rt (sa_conds a)) assign_stmt).
  - destruct (doc_required_symbols d) as [|a l]; [reflexivity|]. cbn [nonempty]. f_equal.
    apply (flat_map_if_flat (fun r => should_emit rt (rq_conds r)) required_pair).
  - destruct (doc_asserts d) as [|a l]; [reflexivity|]. cbn [nonempty]. f_equal.
    apply (flat_map_if_map (fun a => should_emit rt (ae_conds a)) assert_stmt).
Qed.

(* rendering *)
Lemma render_assign_wrap ind p h r sym e :
  render_stmt ind (SAssign p h r sym e) = [(indent_str ind ++ wrap_assign p h sym (render_expr e))%string].
Proof. reflexivity. Qed.

Lemma render_user_assign a :
  render_stmt 0 (assign_stmt a) = [wrap_assign (sa_provide a) (sa_hidden a) (sa_name a) (sa_value a)].
Proof. reflexivity. Qed.

Lemma render_top_forms e n c m :
  render_stmt 0 (SEntry e) = [("ENTRY(" ++ e ++ ");")%string] /\
  render_stmt 0 (SExtern n) = [("EXTERN(" ++ n ++ ");")%string] /\
  render_stmt 0 (SAssert c m) = [("ASSERT((" ++ c ++ "), ""Error: " ++ m ++ """);")%string].
Proof. repeat split. Qed.

(* order: after the SECTIONS block *)
Lemma order_normal d rt w :
  gen_normal d rt = Ok w ->
  exists body, wo_script w = version_stmts rt ++ [SSections body] ++ tail_stmts rt d.
Proof.
  intro H. apply tail_last_normal in H. destruct H as [body [E _]]. exists body. assumption.
Qed.

Lemma order_partial d rt p :
  gen_partial d rt = Ok p ->
  (exists body, wo_script (po_main p) = version_stmts rt ++ [SSections body] ++ tail_stmts rt d) /\
  Forall (fun sub => exists body, wo_script (snd sub) = version_stmts rt ++ [SSections body]) (po_subs p).
Proof.
  intro H. apply tail_last_partial in H. destruct H as [[body [E _]] Hs]. split.
  - exists body. assumption.
  - eapply Forall_impl; [|exact Hs]. intros sub [b [Eb _]]. exists b. assumption.
Qed.

Lemma version_stmts_shape rt :
  version_stmts rt = if rt_emit_version_comment rt then [SComment version_comment_text; SBlank] else [].
Proof. reflexivity. Qed.

(* ====================================================================== *)
(* _gp                                                                     *)
(* ====================================================================== *)

Lemma gp_stmt_here rt seg section g :
  GpHere rt seg section g -> gp_stmt rt seg section = [gp_assign g].
Proof.
  intros [Hg [He Hs]]. unfold gp_stmt. rewrite Hg, He. subst. rewrite String.eqb_refl. reflexivity.
Qed.

Lemma gp_stmt_not_here rt seg section :
  (forall g, ~ GpHere rt seg section g) -> gp_stmt rt seg section = [].
Proof.
  intro H. unfold gp_stmt. destruct (sg_gp_info seg) as [g|] eqn:Hg; [|reflexivity].
  destruct (should_emit rt (gp_conds g)) eqn:He; [|reflexivity].
  destruct (String.eqb (gp_section g) section) eqn:Hs; [|reflexivity].
  exfalso. apply (H g). apply String.eqb_eq in Hs. repeat split; assumption.
Qed.

Lemma section_symbol_start_shape rt sty cfg seg section :
  section_symbol_start rt sty cfg seg section =
  if section_syms cfg
  then opt_align (section_start_align seg) ++
       opt_align (lookup section (sections_start_alignment seg)) ++
       gp_stmt rt seg section ++
       [linker_symbol (segment_section_start sty (sg_name seg) section) EDot]
  else [].
Proof. reflexivity. Qed.

Lemma hardcoded_gp_shape st :
  hardcoded_gp_stmts st =
  match hardcoded_gp_value st with Some v => [SAssign false false false "_gp" (EHex8 v)] | None => [] end.
Proof. reflexivity. Qed.

Lemma begin_sections_shape st :
  begin_sections_body st =
  [SAssign false false false "__romPos" (ERaw "0x0")] ++ hardcoded_gp_stmts st ++ [SBlank].
Proof. reflexivity. Qed.

Lemma single_head_shape st cfg seg :
  single_head st cfg seg =
  (if section_syms cfg then match hardcoded_gp_value st with
                            | Some v => [SAssign false false false "_gp" (EHex8 v); SBlank]
                            | None => [] end
   else []) ++
  match sg_fixed_vram seg with
  | Some v => [SAssign false false false "." (EHex8 v); SBlank] | None => [] end.
Proof. unfold single_head, hardcoded_gp_stmts. destruct (hardcoded_gp_value st); reflexivity. Qed.

(* ---------- counting ---------- *)

Lemma count_gp_app a b : count_gp (a ++ b) = count_gp a + count_gp b.
Proof. unfold count_gp. rewrite map_app, list_sum_app. reflexivity. Qed.

Lemma count_gp_outsec n a at_ nl sub body : count_gp [SOutSec n a at_ nl sub body] = count_gp body.
Proof. unfold count_gp. simpl. lia. Qed.

Lemma count_gp_sections body : count_gp [SSections body] = count_gp body.
Proof. unfold count_gp. simpl. lia. Qed.

Definition gp_free (s : stmt) : Prop := count_gp_stmt s = 0.

Lemma count_gp_free l : Forall gp_free l -> count_gp l = 0.
Proof.
  induction 1 as [|x r Hx Hr IH]; [reflexivity|]. unfold count_gp in *. simpl. rewrite Hx, IH. reflexivity.
Qed.

(* every name produced by a style function is too long to be "_gp" *)
Definition all_templates : list (list string * list string) :=
  [tpl_segment_rom_start; tpl_segment_rom_end; tpl_segment_rom_size; tpl_segment_vram_start;
   tpl_segment_vram_end; tpl_segment_vram_size; tpl_segment_section_start; tpl_segment_section_end;
   tpl_segment_section_size; tpl_linker_offset; tpl_vram_class_start; tpl_vram_class_end;
   tpl_vram_class_size].

Definition style_name (sty : style) (s : string) : Prop :=
  exists tpl args, In tpl all_templates /\ s = fmt (pick sty tpl) args.

Lemma slen_app a b : String.length (a ++ b)%string = String.length a + String.length b.
Proof. induction a as [|c a IH]; simpl; [reflexivity|]. rewrite IH. reflexivity. Qed.

Lemma list_sum_cons x l : list_sum (x :: l) = x + list_sum l.
Proof. reflexivity. Qed.

Lemma fmt_length pieces : forall args,
  list_sum (map String.length pieces) <= String.length (fmt pieces args).
Proof.
  induction pieces as [|p ps IH]; intro args; [simpl; lia|].
  cbn [fmt map]. rewrite list_sum_cons. destruct args as [|a rest].
  - rewrite slen_app. specialize (IH []). lia.
  - destruct ps as [|p2 ps'].
    + simpl. lia.
    + rewrite !slen_app. specialize (IH rest). lia.
Qed.

Lemma templates_long :
  Forall (fun tpl => 3 < list_sum (map String.length (fst tpl)) /\
                     3 < list_sum (map String.length (snd tpl))) all_templates.
Proof. repeat constructor; cbn; lia. Qed.

Lemma style_name_not_gp sty s : style_name sty s -> String.eqb s "_gp" = false.
Proof.
  intros [tpl [args [Hin E]]]. subst. apply String.eqb_neq. intro H.
  pose proof (fmt_length (pick sty tpl) args) as L. rewrite H in L. simpl in L.
  pose proof templates_long as T. rewrite Forall_forall in T. destruct (T tpl Hin) as [T1 T2].
  destruct sty; simpl in L; lia.
Qed.

Lemma gp_free_linker sty sym e : style_name sty sym -> gp_free (linker_symbol sym e).
Proof. intro H. unfold gp_free, linker_symbol. simpl. rewrite (style_name_not_gp sty sym H). reflexivity. Qed.

Ltac sn := eexists _, _; split; [|reflexivity]; simpl; tauto.

Ltac gf_leaf :=
  repeat match goal with
         | |- Forall _ (_ ++ _) => apply Forall_app; split
         | |- Forall _ (match ?x with _ => _ end) => destruct x
         | |- Forall _ (if ?x then _ else _) => destruct x
         | |- Forall _ (_ :: _) => constructor
         | |- Forall _ [] => constructor
         | |- gp_free (linker_symbol _ _) => eapply gp_free_linker; sn
         | |- gp_free _ => reflexivity
         end.

Lemma gf_opt_align a : Forall gp_free (opt_align a).
Proof. unfold opt_align. gf_leaf. Qed.

Lemma gf_section_symbol_end sty cfg seg section : Forall gp_free (section_symbol_end sty cfg seg section).
Proof.
  unfold section_symbol_end. destruct (section_syms cfg); [|constructor].
  fa; try apply gf_opt_align. unfold sym_end_size. gf_leaf.
Qed.

Lemma gf_kind_start sty cfg seg noload : Forall gp_free (sections_kind_start sty cfg seg noload).
Proof. unfold sections_kind_start. gf_leaf. Qed.

Lemma gf_kind_end sty cfg seg noload : Forall gp_free (sections_kind_end sty cfg seg noload).
Proof. unfold sections_kind_end, sym_end_size. gf_leaf. Qed.

Lemma gf_opt_fill seg : Forall gp_free (opt_fill seg).
Proof. unfold opt_fill. gf_leaf. Qed.

Lemma gf_seg_head st seg : Forall gp_free (seg_head st seg).
Proof. unfold seg_head. gf_leaf. Qed.

Lemma gf_seg_foot st seg : Forall gp_free (seg_foot st seg).
Proof. unfold seg_foot, sym_end_size. cbv zeta. gf_leaf. Qed.

Lemma gf_class_start st c cn : Forall gp_free (class_start_stmts st c cn).
Proof.
  unfold class_start_stmts. apply Forall_app; split; [|gf_leaf].
  destruct (vc_fixed_vram c); [gf_leaf|]. destruct (vc_fixed_symbol c); [gf_leaf|].
  constructor; [eapply gp_free_linker; sn|]. apply Forall_map_intro. reflexivity.
Qed.

Lemma gf_end_sections st classes ws : Forall gp_free (end_sections_body st classes ws).
Proof.
  rewrite end_sections_layout.
  assert (Hparts : Forall (Forall gp_free)
                     [tail_sizes st classes ws; tail_allow st; tail_extra st; tail_discard st]).
  { repeat constructor.
    - apply Forall_map_intro. intro cn. eapply gp_free_linker. sn.
    - apply Forall_map_intro. reflexivity.
    - apply Forall_map_intro. reflexivity.
    - unfold tail_discard. gf_leaf. }
  induction Hparts as [|p r Hp Hr IH]; [constructor|]. simpl. destruct p as [|x p]; [exact IH|].
  apply Forall_app; split; [exact Hp|]. destruct (sep_concat r); [constructor|].
  constructor; [reflexivity | exact IH].
Qed.

Lemma gf_emitter sty wild offs g : emitter sty wild offs g ->
  forall ws s ws', g ws = Ok (s, ws') -> Forall gp_free s.
Proof.
  apply (emitter_rel sty wild offs (fun _ s _ => Forall gp_free s)); intros.
  - constructor.
  - apply Forall_app; split; assumption.
  - repeat constructor.
  - repeat constructor.
  - constructor; [|constructor]. apply (gp_free_linker sty). sn.
Qed.

Lemma gf_emit_section rt sty cfg seg sections base section ws s ws' :
  emit_section rt sty cfg seg sections base section ws = Ok (s, ws') -> Forall gp_free s.
Proof. apply (gf_emitter sty (wildcard_sections seg) (offs_of_segment rt seg)). apply emit_section_emitter. Qed.

(* the _gp statements of a list of section groups *)
Definition gp_hits (rt : runtime) (seg : segment) (l : list string) : nat :=
  list_sum (map (fun section => List.length (gp_stmt rt seg section)) l).

Lemma count_gp_stmt_gp rt seg section : count_gp (gp_stmt rt seg section) = List.length (gp_stmt rt seg section).
Proof.
  unfold gp_stmt. destruct (sg_gp_info seg) as [g|]; [|reflexivity].
  destruct (andb _ _); reflexivity.
Qed.

Lemma count_section_symbol_start rt sty cfg seg section :
  count_gp (section_symbol_start rt sty cfg seg section) =
  if section_syms cfg then List.length (gp_stmt rt seg section) else 0.
Proof.
  rewrite section_symbol_start_shape. destruct (section_syms cfg); [|reflexivity].
  rewrite !count_gp_app, count_gp_stmt_gp, !(count_gp_free _ (gf_opt_align _)).
  rewrite (count_gp_free [_]); [lia|]. gf_leaf.
Qed.

Lemma count_part_groups rt st cfg seg sections rest : forall ws s ws',
  part_groups rt st cfg seg sections rest ws = Ok (s, ws') ->
  count_gp s = if section_syms cfg then gp_hits rt seg rest else 0.
Proof.
  induction rest as [|section rest IH]; intros ws s ws' H.
  - apply ok_inj in H. inversion H; subst. destruct (section_syms cfg); reflexivity.
  - apply part_groups_cons in H. destruct H as [s1 [ws1 [s2 [E1 [E2 E]]]]]. subst.
    rewrite !count_gp_app, count_section_symbol_start, (IH _ _ _ E2).
    rewrite (count_gp_free s1) by (eapply gf_emit_section; eassumption).
    rewrite (count_gp_free _ (gf_section_symbol_end _ _ _ _)).
    assert (Eb : count_gp (match rest with [] => [] | _ :: _ => [SBlank] end) = 0) by (destruct rest; reflexivity).
    rewrite Eb. unfold gp_hits. cbn [map]. rewrite list_sum_cons. destruct (section_syms cfg); lia.
Qed.

Lemma count_single_groups rt st cfg seg sections noload rest : forall ws s ws',
  single_groups rt st cfg seg sections noload rest ws = Ok (s, ws') ->
  count_gp s = if section_syms cfg then gp_hits rt seg rest else 0.
Proof.
  induction rest as [|section rest IH]; intros ws s ws' H.
  - apply ok_inj in H. inversion H; subst. destruct (section_syms cfg); reflexivity.
  - apply single_groups_cons in H. destruct H as [s1 [ws1 [s2 [E1 [E2 E]]]]]. subst.
    rewrite !count_gp_app, count_section_symbol_start, (IH _ _ _ E2), count_gp_outsec, count_gp_app.
    rewrite (count_gp_free s1) by (eapply gf_emit_section; eassumption).
    rewrite (count_gp_free _ (gf_opt_fill _)).
    rewrite (count_gp_free _ (gf_section_symbol_end _ _ _ _)).
    assert (Eb : count_gp (match rest with [] => [] | _ :: _ => [SBlank] end) = 0) by (destruct rest; reflexivity).
    rewrite Eb. unfold gp_hits. cbn [map]. rewrite list_sum_cons. destruct (section_syms cfg); lia.
Qed.

Lemma count_write_segment rt st cfg seg sections noload ws s ws' :
  write_segment rt st cfg seg sections noload ws = Ok (s, ws') ->
  count_gp s = if section_syms cfg then gp_hits rt seg sections else 0.
Proof.
  intro H. apply write_segment_inv in H. destruct H as [body [E H]]. subst.
  rewrite !count_gp_app. unfold outsec_of. rewrite count_gp_outsec, count_gp_app.
  rewrite (count_part_groups _ _ _ _ _ _ _ _ _ E).
  rewrite (count_gp_free _ (gf_kind_start _ _ _ _)), (count_gp_free _ (gf_kind_end _ _ _ _)),
    (count_gp_free _ (gf_opt_fill _)). lia.
Qed.

Lemma count_write_single_segment rt st cfg seg sections noload ws s ws' :
  write_single_segment rt st cfg seg sections noload ws = Ok (s, ws') ->
  count_gp s = if section_syms cfg then gp_hits rt seg sections else 0.
Proof.
  intro H. apply write_single_segment_inv in H. destruct H as [body [E H]]. subst.
  rewrite !count_gp_app. rewrite (count_single_groups _ _ _ _ _ _ _ _ _ _ E).
  rewrite (count_gp_free _ (gf_kind_start _ _ _ _)), (count_gp_free _ (gf_kind_end _ _ _ _)). lia.
Qed.

Lemma gp_hits_app rt seg a b : gp_hits rt seg (a ++ b) = gp_hits rt seg a + gp_hits rt seg b.
Proof. unfold gp_hits. rewrite map_app, list_sum_app. reflexivity. Qed.

Lemma gp_hits_occ rt seg l :
  gp_hits rt seg l =
  match sg_gp_info seg with
  | Some g => if should_emit rt (gp_conds g) then count_occ string_dec l (gp_section g) else 0
  | None => 0
  end.
Proof.
  unfold gp_hits, gp_stmt. destruct (sg_gp_info seg) as [g|].
  - destruct (should_emit rt (gp_conds g)); simpl.
    + induction l as [|a l IH]; [reflexivity|]. cbn [map count_occ]. rewrite list_sum_cons, IH.
      destruct (string_dec a (gp_section g)) as [E|E].
      * subst. rewrite String.eqb_refl. reflexivity.
      * assert (E' : String.eqb (gp_section g) a = false) by (apply String.eqb_neq; congruence).
        rewrite E'. reflexivity.
    + induction l as [|a l IH]; [reflexivity|]. cbn [map]. rewrite list_sum_cons, IH. reflexivity.
  - induction l as [|a l IH]; [reflexivity|]. cbn [map]. rewrite list_sum_cons, IH. reflexivity.
Qed.

Lemma gp_hits_occurrences rt seg :
  gp_hits rt seg (alloc_sections seg ++ noload_sections seg) = gp_occurrences rt seg.
Proof. rewrite gp_hits_occ. reflexivity. Qed.

Lemma count_add_segment rt st cfg classes seg ws s ws' :
  add_segment rt st cfg classes seg ws = Ok (s, ws') ->
  count_gp s = if andb (should_emit rt (sg_conds seg)) (section_syms cfg) then gp_occurrences rt seg else 0.
Proof.
  intro H. apply add_segment_inv in H.
  destruct H as [[Hc [E _]] | [Hc [cls [ws1 [s1 [ws2 [s2 [Ec [E1 [E2 E]]]]]]]]]]; subst; rewrite Hc;
    [reflexivity|].
  rewrite !count_gp_app.
  rewrite (count_write_segment _ _ _ _ _ _ _ _ _ E1), (count_write_segment _ _ _ _ _ _ _ _ _ E2).
  rewrite (count_gp_free _ (gf_seg_head _ _)), (count_gp_free _ (gf_seg_foot _ _)).
  assert (Ecls : count_gp cls = 0).
  { apply count_gp_free. apply class_part_inv in Ec.
    destruct Ec as [[E _] | [cn [c [_ [_ [_ [E _]]]]]]]; subst; [constructor | apply gf_class_start]. }
  rewrite Ecls, <- gp_hits_occurrences, gp_hits_app. simpl. destruct (section_syms cfg); simpl; lia.
Qed.

(* the clone used by the main partial script has the same gp_info and section lists *)
Lemma gp_occurrences_clone rt seg files :
  gp_occurrences rt (clone_with_new_files seg files) = gp_occurrences rt seg.
Proof. reflexivity. Qed.

Lemma count_hardcoded st : count_gp (hardcoded_gp_stmts st) = hardcoded_count st.
Proof. unfold hardcoded_gp_stmts, hardcoded_count. destruct (hardcoded_gp_value st); reflexivity. Qed.

Lemma count_begin st : count_gp (begin_sections_body st) = hardcoded_count st.
Proof. rewrite begin_sections_shape, !count_gp_app, count_hardcoded. simpl. unfold count_gp. simpl. lia. Qed.

Lemma count_single_head st cfg seg :
  count_gp (single_head st cfg seg) = if section_syms cfg then hardcoded_count st else 0.
Proof.
  rewrite single_head_shape, count_gp_app. unfold hardcoded_count.
  destruct (section_syms cfg), (hardcoded_gp_value st), (sg_fixed_vram seg); reflexivity.
Qed.

Lemma count_add_single_segment rt st cfg classes seg ws s ws' :
  add_single_segment rt st cfg classes seg ws = Ok (s, ws') ->
  count_gp s = if section_syms cfg then hardcoded_count st + gp_occurrences rt seg else 0.
Proof.
  intro H. apply add_single_segment_inv in H. destruct H as [s1 [ws1 [s2 [E1 [E2 E]]]]]. subst.
  rewrite count_gp_sections, !count_gp_app, count_single_head.
  rewrite (count_write_single_segment _ _ _ _ _ _ _ _ _ E1), (count_write_single_segment _ _ _ _ _ _ _ _ _ E2).
  rewrite (count_gp_free _ (gf_end_sections _ _ _)), <- gp_hits_occurrences, gp_hits_app.
  simpl. destruct (section_syms cfg); simpl; lia.
Qed.

Lemma count_sub_partial rt st classes seg ws s ws' :
  add_single_segment rt st cfg_sub_partial classes seg ws = Ok (s, ws') -> count_gp s = 0.
Proof. intro H. apply count_add_single_segment in H. exact H. Qed.


Lemma count_fold_add_segment rt st cfg classes segs : forall ws s ws',
  section_syms cfg = true ->
  fold_out (add_segment rt st cfg classes) segs ws = Ok (s, ws') ->
  count_gp s = segments_gp rt segs.
Proof.
  induction segs as [|seg r IH]; intros ws s ws' Hc H.
  - apply fold_out_nil in H. destruct H; subst. reflexivity.
  - apply fold_out_cons in H. destruct H as [s1 [ws1 [s2 [E1 [E2 E]]]]]. subst.
    rewrite count_gp_app, (IH _ _ _ Hc E2), (count_add_segment _ _ _ _ _ _ _ _ E1), Hc, andb_true_r.
    reflexivity.
Qed.

Lemma count_add_all_segments rt st cfg classes segs ws s ws' :
  section_syms cfg = true ->
  add_all_segments rt st cfg classes segs ws = Ok (s, ws') ->
  count_gp s = hardcoded_count st +
               (if single_segment_mode st then list_sum (map (gp_occurrences rt) segs)
                else segments_gp rt segs).
Proof.
  intros Hc H. apply add_all_segments_inv in H.
  destruct H as [[Hm [seg [Es H]]] | [Hm [body [E H]]]]; rewrite Hm; subst.
  - rewrite (count_add_single_segment _ _ _ _ _ _ _ _ H), Hc. simpl. lia.
  - rewrite count_gp_sections, !count_gp_app, count_begin, (count_fold_add_segment _ _ _ _ _ _ _ _ Hc E),
      (count_gp_free _ (gf_end_sections _ _ _)). lia.
Qed.

Lemma count_partial_segments d rt folder segs : forall ws subs s ws' subs',
  partial_segments d rt folder segs (ws, subs) = Ok (s, (ws', subs')) ->
  count_gp s = segments_gp rt segs /\
  (Forall (fun sub => count_gp (wo_script (snd sub)) = 0) subs ->
   Forall (fun sub => count_gp (wo_script (snd sub)) = 0) subs').
Proof.
  induction segs as [|seg r IH]; intros ws subs s ws' subs' H.
  - apply ok_inj in H. inversion H; subst. split; [reflexivity|auto].
  - apply partial_segments_cons in H. destruct H as [s1 [[ws1 subs1] [s2 [E1 [E2 E]]]]]. subst.
    apply IH in E2. destruct E2 as [Hs2 Hsub2]. unfold segments_gp. cbn [map]. rewrite list_sum_cons.
    fold (segments_gp rt r). rewrite count_gp_app, Hs2.
    apply partial_segment_inv in E1.
    destruct E1 as [[Hc [E [Ew Es]]] | [Hc [sub [wsub [Ea [Eb Es]]]]]]; subst; rewrite Hc.
    + split; [reflexivity | exact Hsub2].
    + split.
      * rewrite (count_add_segment _ _ _ _ _ _ _ _ Eb). cbn [sg_conds clone_with_new_files]. rewrite Hc.
        reflexivity.
      * intro Hsubs. apply Hsub2. apply Forall_app; split; [assumption|]. constructor; [|constructor].
        cbn [snd wo_script]. rewrite count_gp_app, (count_sub_partial _ _ _ _ _ _ _ Ea).
        unfold version_stmts. destruct (rt_emit_version_comment rt); reflexivity.
Qed.

Lemma count_version rt : count_gp (version_stmts rt) = 0.
Proof. unfold version_stmts. destruct (rt_emit_version_comment rt); reflexivity. Qed.


Lemma count_gp_blank_cons l : count_gp (SBlank :: l) = count_gp l.
Proof. reflexivity. Qed.

Lemma count_tail_stmts rt d : count_gp (tail_stmts rt d) = user_gp rt d.
Proof.
  rewrite tail_stmts_layout, !count_gp_app. unfold user_gp.
  assert (E1 : count_gp (match doc_entry d with Some e => [SBlank; SEntry e] | None => [] end) = 0)
    by (destruct (doc_entry d); reflexivity).
  assert (E3 : forall l, count_gp (flat_map required_pair l) = 0).
  { intro l. apply count_gp_free. apply Forall_flat_map_intro. intro r. repeat constructor. }
  assert (E4 : forall l, count_gp (map assert_stmt l) = 0).
  { intro l. apply count_gp_free. apply Forall_map_intro. reflexivity. }
  assert (E2 : forall l, count_gp (map assign_stmt (filter (fun a => should_emit rt (sa_conds a)) l)) =
                         List.length (filter (fun a => andb (should_emit rt (sa_conds a))
                                                            (String.eqb (sa_name a) "_gp")) l)).
  { induction l as [|a l IH]; [reflexivity|]. simpl. destruct (should_emit rt (sa_conds a)); simpl; [|exact IH].
    unfold count_gp in *. cbn [map count_gp_stmt assign_stmt]. rewrite list_sum_cons, IH.
    destruct (String.eqb (sa_name a) "_gp"); reflexivity. }
  rewrite E1.
  assert (Eblank : forall (b : bool) l, count_gp (if b then SBlank :: l else []) = if b then count_gp l else 0)
    by (intros [|] l; reflexivity).
  rewrite !Eblank, E2, E3, E4.
  destruct (nonempty (doc_symbol_assignments d)) eqn:En,
           (nonempty (doc_required_symbols d)), (nonempty (doc_asserts d)); try lia.
  all: apply nonempty_false in En; rewrite En; reflexivity.
Qed.

Lemma count_gen_normal d rt w :
  gen_normal d rt = Ok w ->
  count_gp (wo_script w) =
  hardcoded_count (doc_settings d) +
  (if single_segment_mode (doc_settings d) then list_sum (map (gp_occurrences rt) (doc_segments d))
   else segments_gp rt (doc_segments d)) +
  user_gp rt d.
Proof.
  intro H. apply gen_normal_inv in H. destruct H as [s [ws' [E H]]]. subst. cbn [wo_script].
  rewrite !count_gp_app, count_version, count_tail_stmts.
  rewrite (count_add_all_segments rt _ cfg_normal _ _ _ _ _ eq_refl E). lia.
Qed.

Lemma count_gen_partial d rt p :
  gen_partial d rt = Ok p ->
  count_gp (wo_script (po_main p)) =
    hardcoded_count (doc_settings d) + segments_gp rt (doc_segments d) + user_gp rt d /\
  Forall (fun sub => count_gp (wo_script (snd sub)) = 0) (po_subs p).
Proof.
  intro H. apply gen_partial_inv in H. destruct H as [folder [body [ws [subs [Ef [E H]]]]]]. subst.
  apply count_partial_segments in E. destruct E as [Hs Hsub]. split.
  - cbn [po_main wo_script]. rewrite !count_gp_app, count_gp_sections, !count_gp_app, count_version,
      count_tail_stmts, count_begin, Hs, (count_gp_free _ (gf_end_sections _ _ _)). lia.
  - apply Hsub. constructor.
Qed.

(* exactly once *)
Lemma gp_once_segment rt st cfg classes seg ws s ws' g :
  add_segment rt st cfg classes seg ws = Ok (s, ws') ->
  should_emit rt (sg_conds seg) = true -> section_syms cfg = true ->
  sg_gp_info seg = Some g -> should_emit rt (gp_conds g) = true ->
  count_occ string_dec (alloc_sections seg ++ noload_sections seg) (gp_section g) = 1 ->
  count_gp s = 1.
Proof.
  intros H Hc Hs Hg He Ho. rewrite (count_add_segment _ _ _ _ _ _ _ _ H), Hc, Hs. simpl.
  unfold gp_occurrences. rewrite Hg, He. exact Ho.
Qed.

Lemma gp_none_segment rt st cfg classes seg ws s ws' :
  add_segment rt st cfg classes seg ws = Ok (s, ws') ->
  (sg_gp_info seg = None \/ exists g, sg_gp_info seg = Some g /\ should_emit rt (gp_conds g) = false) ->
  count_gp s = 0.
Proof.
  intros H Hg. rewrite (count_add_segment _ _ _ _ _ _ _ _ H). unfold gp_occurrences.
  destruct Hg as [Hg | [g [Hg He]]]; rewrite Hg; [|rewrite He]; destruct (andb _ _); reflexivity.
Qed.

Lemma single_script_shape rt st cfg classes seg ws s ws' :
  add_single_segment rt st cfg classes seg ws = Ok (s, ws') ->
  exists s1 ws1 s2,
    write_single_segment rt st cfg seg (alloc_sections seg) false ws = Ok (s1, ws1) /\
    write_single_segment rt st cfg seg (noload_sections seg) true ws1 = Ok (s2, ws') /\
    s = [SSections
           ((if section_syms cfg then match hardcoded_gp_value st with
                                      | Some v => [SAssign false false false "_gp" (EHex8 v); SBlank]
                                      | None => [] end
             else []) ++
            match sg_fixed_vram seg with
            | Some v => [SAssign false false false "." (EHex8 v); SBlank] | None => [] end ++
            s1 ++ [SBlank] ++ s2 ++ [SBlank] ++ end_sections_body st classes ws')].
Proof.
  intro H. apply add_single_segment_inv in H. destruct H as [s1 [ws1 [s2 [E1 [E2 E]]]]].
  exists s1, ws1, s2. repeat split; try assumption. rewrite E, single_head_shape, <- app_assoc. reflexivity.
Qed.

(* where the hard-coded _gp sits: the SECTIONS block of a multi-segment script and of the main
   partial script begins with begin_sections_body *)
Lemma begins_multi rt st cfg classes segs ws s ws' :
  single_segment_mode st = false ->
  add_all_segments rt st cfg classes segs ws = Ok (s, ws') ->
  exists rest, s = [SSections (begin_sections_body st ++ rest)].
Proof.
  intros Hm H. apply add_all_segments_inv in H. destruct H as [[Hs _] | [_ [body [E H]]]]; [congruence|].
  subst. eexists. reflexivity.
Qed.

Lemma begins_partial d rt p :
  gen_partial d rt = Ok p ->
  exists rest, wo_script (po_main p) =
               version_stmts rt ++ [SSections (begin_sections_body (doc_settings d) ++ rest)] ++ tail_stmts rt d.
Proof.
  intro H. apply gen_partial_inv in H. destruct H as [folder [body [ws [subs [Ef [E H]]]]]]. subst.
  eexists. reflexivity.
Qed.
