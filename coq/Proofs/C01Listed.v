(* C01Listed: lemmas.  1. what one input statement captures; 2. the first matching statement of a script
   gets an input section; 3. the claims of a generated script and the placement of a listed section;
   4. document-side conditions for "no earlier statement matches". *)
From Slinky Require Import Model.Types Model.Generated Model.Runtime Model.Style Model.Script Model.Writer Model.LdSem.
From Slinky Require Import Spec.C17 Spec.C18 Spec.C04 Spec.C09 Spec.C01 Spec.DocLevel Spec.C01Doc Spec.C01Listed.
From Slinky Require Import Proofs.C06 Proofs.C18 Proofs.C17 Proofs.LdLemmas Proofs.C04 Proofs.C02 Proofs.C01
  Proofs.C18Link Proofs.DocLevel Proofs.C01Doc Proofs.C06More.
From Coq Require Import Lia ZArith Permutation.
Local Open Scope Z_scope.

(* ====================================================================== *)
(* 1. the matching predicate; one input statement                          *)
(* ====================================================================== *)

Lemma prefix_spec s : forall n, String.prefix s n = true <-> exists rest, n = (s ++ rest)%string.
Proof.
  induction s as [|a s IH]; intro n.
  - split; [intros _; exists n; reflexivity | intros _; destruct n; reflexivity].
  - destruct n as [|b n].
    + split; [discriminate | intros [r E]; discriminate].
    + cbn [String.prefix append]. destruct (Ascii.ascii_dec a b) as [E|E].
      * subst b. rewrite IH. split; intros [r H]; exists r; [rewrite H; reflexivity | inversion H; reflexivity].
      * split; [discriminate | intros [r H]; inversion H; congruence].
Qed.

Lemma name_matches_spec sect wild n : name_matches sect wild n = true <-> name_match sect wild n.
Proof.
  unfold name_matches, name_match. destruct wild; [apply prefix_spec|].
  rewrite String.eqb_eq. split; congruence.
Qed.

Lemma file_matches_spec path member x :
  file_matches path member x = true <-> u_path x = path /\ member_match member x.
Proof.
  unfold file_matches, member_match. destruct member as [m|], (u_member x) as [um|].
  - rewrite andb_true_iff, orb_true_iff, !String.eqb_eq. split; intros [H1 H2]; split; auto.
  - split; [discriminate | intros [_ []]].
  - split; [discriminate | intros [_ []]].
  - rewrite String.eqb_eq. split; [intro H; split; [auto | exact I] | intros [H _]; auto].
Qed.

(* C01_input_matches_sel *)
Lemma input_matches_sel path member sect wild x :
  sel false path member sect wild x = true <-> input_matches path member sect wild x.
Proof.
  unfold sel, input_matches. cbn [orb]. rewrite andb_true_iff, file_matches_spec, name_matches_spec. tauto.
Qed.

Lemma input_matches_dec path member sect wild x :
  input_matches path member sect wild x \/ ~ input_matches path member sect wild x.
Proof.
  destruct (sel false path member sect wild x) eqn:E.
  - left. apply input_matches_sel. exact E.
  - right. intro H. apply input_matches_sel in H. congruence.
Qed.

Lemma placed_at_incl st st' x o : incl (l_placed st) (l_placed st') -> placed_at st x o -> placed_at st' x o.
Proof. intros Hi [p [Hp H]]. exists p. split; [apply Hi; exact Hp | exact H]. Qed.

(* the placements made for a selection: one per selected section, all in [outsec] *)
Lemma markers_placed (l : list usec) (new : list placement) outsec :
  map pl_marker new = map u_marker l -> Forall (fun p => pl_outsec p = outsec) new ->
  (forall x, In x l -> exists p, In p new /\ pl_marker p = u_marker x /\ pl_outsec p = outsec) /\
  (forall p, In p new -> pl_outsec p = outsec /\ exists x, In x l /\ pl_marker p = u_marker x).
Proof.
  intros M F. rewrite Forall_forall in F. split.
  - intros x Hx. assert (Hm : In (u_marker x) (map pl_marker new)) by (rewrite M; apply in_map; exact Hx).
    apply in_map_iff in Hm. destruct Hm as [p [E Hp]]. exists p. auto.
  - intros p Hp. split; [apply F; exact Hp|].
    assert (Hm : In (pl_marker p) (map u_marker l)) by (rewrite <- M; apply in_map; exact Hp).
    apply in_map_iff in Hm. destruct Hm as [x [E Hx]]. exists x. auto.
Qed.

Section Capture.
  Variables (env : list (string * Z)) (senv : list osec) (ext : list (string * Z)) (final : bool).
  Notation top := (exec_top_stmt env senv ext final).
  Notation runl := (run env senv ext final).
  Notation secs vma sub name := (exec_sec_stmt env senv ext final vma sub name).

  (* C01_input_captures *)
  Theorem input_captures vma sub outsec ss kp path member sect wild :
    let ss' := secs vma sub outsec ss (SInput kp path member sect wild) in
    let st := s_st ss in
    let st' := s_st ss' in
    (forall x, In x (l_remaining st) -> input_matches path member sect wild x ->
               placed_at st' x outsec /\ ~ In x (l_remaining st')) /\
    (forall x, In x (l_remaining st) -> ~ input_matches path member sect wild x -> In x (l_remaining st')) /\
    (forall p, In p (l_placed st') ->
               In p (l_placed st) \/
               (pl_outsec p = outsec /\
                exists x, In x (l_remaining st) /\ input_matches path member sect wild x /\
                          pl_marker p = u_marker x)) /\
    incl (l_placed st) (l_placed st') /\
    incl (l_remaining st') (l_remaining st) /\
    l_discarded st' = l_discarded st /\ l_errors st' = l_errors st.
  Proof.
    intros ss' st st'.
    destruct (input_moves env ext senv final vma sub outsec ss kp path member sect wild)
      as [Hr [Hd [new [Hp [M F]]]]].
    fold ss' in Hr, Hd, Hp. fold st st' in Hr, Hd, Hp. fold st in M.
    destruct (markers_placed _ _ _ M F) as [G1 G2].
    split; [|split; [|split; [|split; [|split; [|split]]]]].
    - intros x Hx Hm. apply input_matches_sel in Hm. split.
      + destruct (G1 x) as [p [Hp1 Hp2]]; [apply filter_In; split; assumption|].
        exists p. split; [rewrite Hp; apply in_or_app; right; exact Hp1 | exact Hp2].
      + rewrite Hr. intro Hin. apply filter_In in Hin. destruct Hin as [_ Hn]. rewrite Hm in Hn. discriminate.
    - intros x Hx Hn. rewrite Hr. apply filter_In. split; [exact Hx|].
      destruct (sel false path member sect wild x) eqn:E; [|reflexivity].
      exfalso. apply Hn. apply input_matches_sel. exact E.
    - intros p Hin. rewrite Hp in Hin. apply in_app_or in Hin. destruct Hin as [Hin|Hin]; [left; exact Hin|].
      right. destruct (G2 p Hin) as [Ho [x [Hx Em]]]. split; [exact Ho|]. exists x.
      apply filter_In in Hx. destruct Hx as [Hx Hs]. split; [exact Hx|].
      split; [apply input_matches_sel; exact Hs | exact Em].
    - rewrite Hp. apply incl_appl, incl_refl.
    - rewrite Hr. apply incl_filter.
    - exact Hd.
    - unfold st', ss'. cbn [exec_sec_stmt].
      destruct (place vma sub outsec _ _ _ _) as [[o p] c]. reflexivity.
  Qed.

  (* ---------- what any piece of execution keeps ---------- *)

  Definition grown (st st' : lstate) : Prop :=
    incl (l_remaining st') (l_remaining st) /\ incl (l_placed st) (l_placed st') /\
    incl (l_discarded st) (l_discarded st') /\ incl (l_errors st) (l_errors st').

  Lemma grown_run l st : grown st (runl l st).
  Proof.
    destruct (run_remaining env senv ext final l st) as [f Ef].
    destruct (run_accounted env senv ext final l st) as [_ [[n En] [dn Ed]]].
    destruct (run_errors env senv ext final l st) as [e Ee].
    split; [rewrite Ef; apply incl_filter|]. split; [rewrite En; apply incl_appl, incl_refl|].
    split; [rewrite Ed; apply incl_appl, incl_refl | rewrite Ee; apply incl_appl, incl_refl].
  Qed.

  Lemma captured_grown st st' x c : grown st st' -> captured st x c -> captured st' x c.
  Proof.
    intros [Hr [Hp [Hd _]]] [H1 H2]. split.
    - destruct (claim_outsec c) as [o|]; [eapply placed_at_incl; eassumption | apply Hd; exact H1].
    - intro Hin. apply H2. apply Hr. exact Hin.
  Qed.

  Lemma failed_grown st st' c : grown st st' -> claim_failed st c -> claim_failed st' c.
  Proof. intros [_ [_ [_ He]]] H. destruct c; try exact H. apply He. exact H. Qed.

  (* ---------- the body of an output section ---------- *)

  Lemma body_claims_app o a b : body_claims o (a ++ b) = (body_claims o a ++ body_claims o b)%list.
  Proof. apply flat_map_app. Qed.

  Lemma find_app {A} (f : A -> bool) a b :
    find f (a ++ b) = match find f a with Some c => Some c | None => find f b end.
  Proof. induction a as [|x a IH]; [reflexivity|]. cbn [app find]. destruct (f x); [reflexivity | exact IH]. Qed.

  Lemma sec_fold_grown vma sub name body ss :
    let ss' := fold_left (secs vma sub name) body ss in
    incl (l_remaining (s_st ss')) (l_remaining (s_st ss)) /\ incl (l_placed (s_st ss)) (l_placed (s_st ss')).
  Proof.
    intro ss'. pose proof (Proofs.C01.sec_fold_remaining env ext senv final vma sub name body ss) as Hr.
    destruct (sec_fold_accounted env senv ext final vma sub name body ss) as [_ [[n En] _]].
    fold ss' in Hr, En. split; [exact Hr | rewrite En; apply incl_appl, incl_refl].
  Qed.

  Lemma body_first vma sub name x : forall body ss,
    In x (l_remaining (s_st ss)) ->
    let ss' := fold_left (secs vma sub name) body ss in
    match first_claim (body_claims name body) x with
    | None => In x (l_remaining (s_st ss'))
    | Some c => placed_at (s_st ss') x name /\ ~ In x (l_remaining (s_st ss'))
    end.
  Proof.
    induction body as [|s body IH]; intros ss Hx; [exact Hx|]. cbn [fold_left].
    rewrite (body_claims_app name [s] body : body_claims name (s :: body) = _).
    unfold first_claim. rewrite find_app. fold (first_claim (body_claims name body) x).
    destruct (sec_stmt_cases env senv ext final vma sub name ss s)
      as [[p [h [r [sym [e [Es E]]]]]] | [[k [path [member [sect [wild [off' [pls [c [Es [Ep E]]]]]]]]]] | [E [N1 N2]]]].
    - subst s. cbn [body_claims flat_map find app]. apply IH. rewrite E. cbn [s_st].
      rewrite assign_remaining. exact Hx.
    - subst s. clear E Ep.
      destruct (input_captures vma sub name ss k path member sect wild) as [C1 [C2 _]].
      cbn [body_claims flat_map find app claim_matches].
      destruct (sel false path member sect wild x) eqn:Em.
      + assert (Hm : input_matches path member sect wild x) by (apply input_matches_sel; exact Em).
        destruct (C1 x Hx Hm) as [Hp Hn].
        destruct (sec_fold_grown vma sub name body (secs vma sub name ss (SInput k path member sect wild))) as [G1 G2].
        split; [eapply placed_at_incl; eassumption|]. intro Hin. apply Hn. apply G1. exact Hin.
      + apply IH. apply C2; [exact Hx|]. intro Hm. apply input_matches_sel in Hm. congruence.
    - assert (Eb : body_claims name [s] = []) by (destruct s; try reflexivity; exfalso; eapply N2; reflexivity).
      rewrite Eb. cbn [find]. apply IH. rewrite E. exact Hx.
  Qed.

  (* ---------- one top-level statement ---------- *)

  Lemma in_remaining_same st st' x : l_remaining st' = l_remaining st -> In x (l_remaining st) -> In x (l_remaining st').
  Proof. intros E H. rewrite E. exact H. Qed.

  Lemma top_first st s x :
    In x (l_remaining st) ->
    match first_claim (top_claims s) x with
    | None => In x (l_remaining (top st s))
    | Some c => (claim_failed (top st s) c /\ In x (l_remaining (top st s))) \/ captured (top st s) x c
    end.
  Proof.
    intro Hx.
    destruct s; try (cbn [top_claims first_claim find]; exact Hx).
    - cbn [top_claims first_claim find]. apply (in_remaining_same st); [|exact Hx]. cbn [exec_top_stmt].
      destruct (String.eqb sym ".").
      + destruct (eval_expr env senv ext st (l_dot st) e); reflexivity.
      + apply assign_remaining.
    - cbn [top_claims first_claim find]. apply (in_remaining_same st); [|exact Hx]. cbn [exec_top_stmt].
      destruct (String.eqb sym "."); [reflexivity|]. destruct (sym_lookup sym st env ext); reflexivity.
    - cbn [top_claims first_claim find]. apply (in_remaining_same st); [|exact Hx]. cbn [exec_top_stmt].
      destruct (sym_lookup sym st env ext); [destruct (sym_lookup other st env ext)|];
        try (destruct final; reflexivity).
    - cbn [top_claims first_claim find]. apply (in_remaining_same st); [|exact Hx]. cbn [exec_top_stmt].
      destruct (sym_lookup "__romPos" st env ext); [destruct (sec_lookup sec st senv)|];
        try (destruct final; reflexivity).
    - (* an output section *)
      cbn [top_claims exec_top_stmt].
      destruct (outsec_vma env senv ext addr sub body st) as [vma|e] eqn:E.
      + destruct (exec_outsec_ok env senv ext final name addr at_ noload sub body st vma E)
          as [_ [_ [_ [_ [Hp [Hr _]]]]]].
        pose proof (body_first vma (option_map Z.of_N sub) name x body (SState 0 false st) Hx) as B.
        cbv zeta in B. fold (outsec_body env senv ext final name sub body vma st) in B.
        destruct (first_claim (body_claims name body) x) as [c|] eqn:Ec.
        * right. unfold first_claim in Ec. apply find_some in Ec. destruct Ec as [Hc _].
          unfold body_claims in Hc. apply in_flat_map in Hc. destruct Hc as [s0 [_ Hc]].
          destruct s0; try contradiction. destruct Hc as [Hc|[]]. subst c.
          unfold captured. cbn [claim_outsec]. unfold placed_at. rewrite Hp, Hr. exact B.
        * rewrite Hr. exact B.
      + rewrite (exec_outsec_err _ _ _ _ _ _ _ _ _ _ _ _ E).
        destruct (first_claim (body_claims name body) x) as [c|] eqn:Ec; [|exact Hx].
        left. split; [|exact Hx].
        unfold first_claim in Ec. apply find_some in Ec. destruct Ec as [Hc _].
        unfold body_claims in Hc. apply in_flat_map in Hc. destruct Hc as [s0 [_ Hc]].
        destruct s0; try contradiction. destruct Hc as [Hc|[]]. subst c.
        cbn [claim_failed add_err l_errors]. apply in_or_app. right. left. reflexivity.
    - (* an allow-list entry *)
      cbn [top_claims first_claim find claim_matches].
      destruct (allow_placed env senv ext final st sect) as [Hr [[pls [Hp [M F]]] _]].
      destruct (markers_placed _ _ _ M F) as [G1 _].
      change (sel true "" None sect false x) with (named sect x).
      destruct (named sect x) eqn:En.
      + right. split.
        * cbn [claim_outsec]. destruct (G1 x) as [p [Hp1 Hp2]]; [apply filter_In; split; assumption|].
          exists p. split; [rewrite Hp; apply in_or_app; right; exact Hp1 | exact Hp2].
        * rewrite Hr. intro Hin. apply filter_In in Hin. destruct Hin as [_ Hn]. rewrite En in Hn. discriminate.
      + rewrite Hr. apply filter_In. split; [exact Hx|]. rewrite En. reflexivity.
    - (* /DISCARD/ *)
      cbn [top_claims first_claim find claim_matches].
      destruct (discard env senv ext final st pats wild) as [Hd [Hr _]].
      change (existsb (fun p => name_matches p false (u_name x)) pats || wild)%bool with (hit pats wild x).
      destruct (hit pats wild x) eqn:Eh.
      + right. split.
        * cbn [claim_outsec]. rewrite Hd. apply in_or_app. right. apply in_map. apply filter_In. split; assumption.
        * rewrite Hr. intro Hin. apply filter_In in Hin. destruct Hin as [_ Hn]. rewrite Eh in Hn. discriminate.
      + rewrite Hr. apply filter_In. split; [exact Hx|]. rewrite Eh. reflexivity.
    - cbn [top_claims first_claim find]. apply (in_remaining_same st); [|exact Hx]. cbn [exec_top_stmt].
      destruct (eval_raw env ext st cond) as [v|e]; [destruct (v =? 0); reflexivity|].
      destruct e; destruct final; reflexivity.
  Qed.

  (* ---------- a list of statements; a script ---------- *)

  Lemma run_first l x : forall st,
    In x (l_remaining st) ->
    match first_claim (flat_map top_claims l) x with
    | None => In x (l_remaining (runl l st))
    | Some c => claim_failed (runl l st) c \/ captured (runl l st) x c
    end.
  Proof.
    induction l as [|s l IH]; intros st Hx; [exact Hx|].
    cbn [flat_map]. unfold first_claim. rewrite find_app.
    fold (first_claim (top_claims s) x). fold (first_claim (flat_map top_claims l) x).
    rewrite run_cons. pose proof (top_first st s x Hx) as T.
    destruct (first_claim (top_claims s) x) as [c|].
    - destruct T as [[Hf _]|Hc].
      + left. eapply failed_grown; [apply grown_run | exact Hf].
      + right. eapply captured_grown; [apply grown_run | exact Hc].
    - apply IH. exact T.
  Qed.

  (* C01_script_first_match *)
  Theorem script_first_match script st x :
    In x (l_remaining st) ->
    let st' := exec_script env senv ext final script st in
    match first_claim (script_claims script) x with
    | None => In x (l_remaining st')
    | Some c => claim_failed st' c \/ captured st' x c
    end.
  Proof. intros Hx st'. unfold st'. rewrite exec_script_flat. apply run_first. exact Hx. Qed.
End Capture.

(* what [first_claim] means *)
Lemma first_claim_some cs x c :
  first_claim cs x = Some c <->
  exists pre post, cs = (pre ++ c :: post)%list /\ (forall c', In c' pre -> claim_matches c' x = false) /\
                   claim_matches c x = true.
Proof.
  unfold first_claim. split.
  - induction cs as [|a cs IH]; [discriminate|]. cbn [find]. destruct (claim_matches a x) eqn:E.
    + intro H. inversion H; subst a. exists [], cs. split; [reflexivity|]. split; [intros c' []|exact E].
    + intro H. destruct (IH H) as [pre [post [Ec [Hp Hm]]]]. exists (a :: pre), post.
      split; [rewrite Ec; reflexivity|]. split; [|exact Hm]. intros c' [Hc|Hc]; [subst; exact E | apply Hp; exact Hc].
  - intros [pre [post [Ec [Hp Hm]]]]. subst cs. rewrite find_app.
    assert (Hn : find (fun c0 => claim_matches c0 x) pre = None).
    { clear -Hp. induction pre as [|a pre IH]; [reflexivity|]. cbn [find]. rewrite (Hp a (or_introl eq_refl)).
      apply IH. intros c' Hc. apply Hp. right. exact Hc. }
    rewrite Hn. cbn [find]. rewrite Hm. reflexivity.
Qed.

Lemma first_claim_none cs x : first_claim cs x = None <-> forall c, In c cs -> claim_matches c x = false.
Proof.
  unfold first_claim. split.
  - intros H c Hc. exact (find_none _ _ H c Hc).
  - intro H. induction cs as [|a cs IH]; [reflexivity|]. cbn [find]. rewrite (H a (or_introl eq_refl)).
    apply IH. intros c Hc. apply H. right. exact Hc.
Qed.

Lemma first_claim_exists cs x c :
  In c cs -> claim_matches c x = true -> exists c', first_claim cs x = Some c'.
Proof.
  intros Hc Hm. destruct (first_claim cs x) as [c'|] eqn:E; [eauto|].
  rewrite (proj1 (first_claim_none cs x) E c Hc) in Hm. discriminate.
Qed.

(* the last pass of layout is an exec_script from the initial state *)
Theorem script_first_match_layout script u ext0 x :
  In x u ->
  let st' := layout script u ext0 in
  match first_claim (script_claims script) x with
  | None => In x (l_remaining st')
  | Some c => claim_failed st' c \/ captured st' x c
  end.
Proof. intros Hx. unfold layout. apply script_first_match. exact Hx. Qed.

(* with pairwise different markers an input section has one placement: it is in one output section *)
Lemma nodup_map_inj {A B} (f : A -> B) l a b : NoDup (map f l) -> In a l -> In b l -> f a = f b -> a = b.
Proof.
  induction l as [|y l IH]; intros Hn Ha Hb E; [contradiction|]. cbn [map] in Hn. inversion Hn as [|? ? Hy Hr]; subst.
  destruct Ha as [Ha|Ha], Hb as [Hb|Hb]; subst.
  - reflexivity.
  - exfalso. apply Hy. rewrite E. apply in_map. exact Hb.
  - exfalso. apply Hy. rewrite <- E. apply in_map. exact Ha.
  - apply IH; assumption.
Qed.

Theorem placed_once env senv ext final script st x o o' :
  NoDup (all_markers st) ->
  let st' := exec_script env senv ext final script st in
  placed_at st' x o -> placed_at st' x o' -> o = o'.
Proof.
  intros Hnd st' [p [Hp [Em Eo]]] [p' [Hp' [Em' Eo']]].
  destruct (placed_not_discarded env senv ext final script st Hnd) as [N _]. fold st' in N.
  unfold all_markers in N. apply Proofs.C01Doc.NoDup_app_l in N.
  assert (E : p = p') by (eapply nodup_map_inj; [exact N | exact Hp | exact Hp' | congruence]).
  subst p'. congruence.
Qed.

(* ====================================================================== *)
(* 3. the claims of a generated script (multi-segment mode)                *)
(* ====================================================================== *)

(* ---------- statements that take nothing ---------- *)

Definition claimless (s : stmt) : Prop := top_claims s = [].

Lemma claimless_list l : Forall claimless l -> flat_map top_claims l = [].
Proof. induction 1 as [|s l Hs Hl IH]; [reflexivity|]. cbn [flat_map]. rewrite Hs, IH. reflexivity. Qed.

Lemma noinput_list o l : Forall (fun s => is_input s = false) l -> body_claims o l = [].
Proof.
  induction 1 as [|s l Hs Hl IH]; [reflexivity|]. unfold body_claims in *. cbn [flat_map]. rewrite IH.
  destruct s; try reflexivity. discriminate.
Qed.

Ltac q_leaf :=
  repeat match goal with
         | |- Forall _ (_ ++ _) => apply Forall_app; split
         | |- Forall _ (match ?x with _ => _ end) => destruct x
         | |- Forall _ (if ?x then _ else _) => destruct x
         | |- Forall _ (_ :: _) => constructor
         | |- Forall _ [] => constructor
         | |- claimless _ => reflexivity
         | |- is_input _ = false => reflexivity
         end.

Lemma q_version rt : Forall claimless (version_stmts rt).
Proof. unfold version_stmts. q_leaf. Qed.

Lemma q_begin st : Forall claimless (begin_sections_body st).
Proof. unfold begin_sections_body, hardcoded_gp_stmts. q_leaf. Qed.

Lemma q_tail_stmts rt d : Forall claimless (tail_stmts rt d).
Proof.
  unfold tail_stmts, entry_stmts, assignment_stmts, required_stmts, assert_stmts.
  repeat (apply Forall_app; split).
  - q_leaf.
  - destruct (doc_symbol_assignments d); [constructor|]. constructor; [reflexivity|].
    apply Forall_flat_map_intro. intro x0. q_leaf.
  - destruct (doc_required_symbols d); [constructor|]. constructor; [reflexivity|].
    apply Forall_flat_map_intro. intro x0. q_leaf.
  - destruct (doc_asserts d); [constructor|]. constructor; [reflexivity|].
    apply Forall_flat_map_intro. intro x0. q_leaf.
Qed.

Lemma q_class_start st c cn : Forall claimless (class_start_stmts st c cn).
Proof.
  unfold class_start_stmts. apply Forall_app; split; [|q_leaf].
  destruct (vc_fixed_vram c); [q_leaf|]. destruct (vc_fixed_symbol c); [q_leaf|].
  constructor; [reflexivity|]. apply Forall_map_intro. reflexivity.
Qed.

Lemma q_class_part st classes seg ws cls ws1 : class_part st classes seg ws = Ok (cls, ws1) -> Forall claimless cls.
Proof.
  intro Ec. apply class_part_inv in Ec. destruct Ec as [[E _] | [cn [c [_ [_ [_ [E _]]]]]]]; subst;
    [constructor | apply q_class_start].
Qed.

Lemma q_seg_head st seg : Forall claimless (seg_head st seg).
Proof. unfold seg_head. q_leaf. Qed.

Lemma q_seg_foot st seg : Forall claimless (seg_foot st seg).
Proof. unfold seg_foot, sym_end_size. cbv zeta. q_leaf. Qed.

Lemma q_kind_start sty cfg seg noload : Forall claimless (sections_kind_start sty cfg seg noload).
Proof. unfold sections_kind_start. q_leaf. Qed.

Lemma q_kind_end sty cfg seg noload : Forall claimless (sections_kind_end sty cfg seg noload).
Proof. unfold sections_kind_end, sym_end_size. q_leaf. Qed.

Lemma q_tail_sizes st classes ws : Forall claimless (tail_sizes st classes ws).
Proof. unfold tail_sizes. apply Forall_map_intro. reflexivity. Qed.

Lemma ni_opt_align a : Forall (fun s => is_input s = false) (opt_align a).
Proof. unfold opt_align. q_leaf. Qed.

Lemma ni_gp_stmt rt seg section : Forall (fun s => is_input s = false) (gp_stmt rt seg section).
Proof. unfold gp_stmt. q_leaf. Qed.

Lemma ni_section_symbol_start rt sty cfg seg section :
  Forall (fun s => is_input s = false) (section_symbol_start rt sty cfg seg section).
Proof.
  unfold section_symbol_start. destruct (section_syms cfg); [|constructor].
  repeat (apply Forall_app; split); try apply ni_opt_align; try apply ni_gp_stmt. q_leaf.
Qed.

Lemma ni_section_symbol_end sty cfg seg section :
  Forall (fun s => is_input s = false) (section_symbol_end sty cfg seg section).
Proof.
  unfold section_symbol_end. destruct (section_syms cfg); [|constructor].
  repeat (apply Forall_app; split); try apply ni_opt_align. unfold sym_end_size. q_leaf.
Qed.

Lemma ni_opt_fill seg : Forall (fun s => is_input s = false) (opt_fill seg).
Proof. unfold opt_fill. q_leaf. Qed.

(* ---------- the tail of SECTIONS ---------- *)

Lemma claims_sep_concat parts : flat_map top_claims (sep_concat parts) = flat_map top_claims (List.concat parts).
Proof.
  induction parts as [|p r IH]; [reflexivity|]. cbn [sep_concat List.concat]. rewrite flat_map_app.
  destruct p as [|x p]; [exact IH|]. rewrite flat_map_app. f_equal. rewrite <- IH.
  destruct (sep_concat r); reflexivity.
Qed.

Lemma claims_single l : flat_map top_claims (map SSingleEntry l) = map CEntry l.
Proof. induction l as [|x l IH]; [reflexivity|]. cbn [map flat_map top_claims app]. rewrite IH. reflexivity. Qed.

Lemma claims_end_sections stg classes ws :
  flat_map top_claims (end_sections_body stg classes ws) = tail_claims stg.
Proof.
  rewrite end_sections_layout, claims_sep_concat. cbn [List.concat]. rewrite !flat_map_app.
  rewrite (claimless_list _ (q_tail_sizes stg classes ws)). unfold tail_allow, tail_extra. rewrite !claims_single.
  unfold tail_claims, tail_discard. cbn [app flat_map].
  destruct (discard_wildcard_section stg || nonempty (sections_denylist stg))%bool; reflexivity.
Qed.

(* ---------- what emit_section returns: input statements, pads, offsets ---------- *)

Definition simple (s : stmt) : Prop :=
  match s with SInput _ _ _ _ _ | SDotAdd _ | SAssign _ _ _ _ _ => True | _ => False end.

Lemma emit_section_simple rt sty cfg seg sections bp section ws s ws' :
  emit_section rt sty cfg seg sections bp section ws = Ok (s, ws') -> Forall simple s.
Proof.
  apply (emitter_rel sty (wildcard_sections seg) (offs_of_segment rt seg) (fun _ s _ => Forall simple s));
    intros; try (repeat constructor).
  - apply Forall_app; split; assumption.
  - apply emit_section_emitter.
Qed.

Lemma deep_in_simple T s : Forall simple s -> In T (flat_map deep_inputs s) -> In T s.
Proof.
  induction 1 as [|a s Ha Hs IH]; [intros []|]. cbn [flat_map]. intro H. apply in_app_or in H.
  destruct H as [H|H]; [|right; apply IH; exact H].
  destruct a; try contradiction; cbn [deep_inputs] in H; try contradiction. destruct H as [H|[]]. left. exact H.
Qed.

Lemma in_body_claims o kp path member sect wild body :
  In (SInput kp path member sect wild) body -> In (CInput o path member sect wild) (body_claims o body).
Proof. intro H. unfold body_claims. apply in_flat_map. eexists. split; [exact H|]. left. reflexivity. Qed.

Lemma body_claims_inv o c body :
  In c (body_claims o body) ->
  exists kp path member sect wild, c = CInput o path member sect wild /\ In (SInput kp path member sect wild) body.
Proof.
  unfold body_claims. intro H. apply in_flat_map in H. destruct H as [s [Hs H]].
  destruct s; try contradiction. destruct H as [H|[]]. subst c. repeat eexists. exact Hs.
Qed.

Lemma doc_base_seg_base rt d seg b :
  doc_base rt d seg b <-> seg_base rt cfg_normal seg (base_path (doc_settings d)) b.
Proof.
  unfold doc_base, seg_base. cbn [reference_partial cfg_normal]. split.
  - intros [b0 [dd [H1 [H2 H3]]]]. exists b0. split; [exact H1|]. exists dd. auto.
  - intros [b0 [H1 [dd [H2 H3]]]]. exists b0, dd. auto.
Qed.

(* from the hypotheses of C06_included_leaf_normal (any sort key [sections]) *)
Lemma leaf_reaches_intro rt d seg nl b c0 lf bc chain section sections k p :
  seg_base rt cfg_normal seg (base_path (doc_settings d)) b -> In c0 (sg_files seg) ->
  In (lf, bc, chain) (leaves rt b c0) -> In section (part_sections seg nl) ->
  reach_via cfg_normal seg sections chain section k -> escape_path rt (fi_path lf) = Ok p ->
  leaf_reaches rt d seg nl lf bc p k.
Proof.
  intros Hb Hc0 Hl Hs Hr Hp. exists b, c0, chain, section. split; [apply doc_base_seg_base; exact Hb|].
  repeat (split; [assumption|]). split; [|exact Hp]. eapply reach_via_sections. exact Hr.
Qed.

Lemma part_name_outsec stg seg noload body :
  top_claims (outsec_of stg seg noload body) = body_claims (part_name seg noload) (opt_fill seg ++ body).
Proof. destruct noload; [reflexivity|]. rewrite alloc_name_outsec. reflexivity. Qed.

Section DocClaims.
  Variables (rt : runtime) (d : document).
  Let stg := doc_settings d.
  Let sty := linker_symbols_style stg.
  Let classes := doc_vram_classes d.

  (* ---------- one half of a segment ---------- *)

  (* every input statement the group of [section] contains is the statement of a leaf and a section it
     reaches; the base directory is the one of the document *)
  Lemma emit_section_listed seg sections section ws s ws' :
    emit_section rt sty cfg_normal seg sections (base_path stg) section ws = Ok (s, ws') ->
    forall kp path member sect wild, In (SInput kp path member sect wild) s ->
    exists b c0 lf bc chain p,
      doc_base rt d seg b /\ In c0 (sg_files seg) /\ In (lf, bc, chain) (leaves rt b c0) /\
      reach_via cfg_normal seg sections chain section sect /\ escape_path rt (fi_path lf) = Ok p /\
      path = display (push bc p) /\ member = member_of lf /\ wild = wildcard_sections seg.
  Proof.
    intros H kp path member sect wild Hin. apply emit_section_sound in H. destruct H as [b [Hb HK]].
    destruct (unlisted_all rt sty cfg_normal seg sections) as [_ [_ [_ Hkids]]].
    destruct (Hkids _ _ _ _ HK _ Hin eq_refl) as [c0 [Hc0 [lf [bc [chain [Hl [[p [Hp Es]] Hr]]]]]]].
    cbn [input_section] in Es, Hr. inversion Es; subst.
    exists b, c0, lf, bc, chain, p. split; [apply doc_base_seg_base; exact Hb|]. repeat split; assumption.
  Qed.

  Lemma part_groups_listed seg noload o : forall rest ws s ws',
    part_groups rt stg cfg_normal seg (part_sections seg noload) rest ws = Ok (s, ws') ->
    incl rest (part_sections seg noload) ->
    forall c, In c (body_claims o s) ->
    exists lf bc p k, leaf_reaches rt d seg noload lf bc p k /\
                      c = CInput o (display (push bc p)) (member_of lf) k (wildcard_sections seg).
  Proof.
    induction rest as [|section rest IH]; intros ws s ws' H Hi c Hc.
    - apply ok_inj in H. inversion H; subst. destruct Hc.
    - apply part_groups_cons in H. destruct H as [s1 [ws1 [s2 [E1 [E2 E]]]]]. subst s.
      rewrite !body_claims_app in Hc.
      rewrite (noinput_list o _ (ni_section_symbol_start rt _ cfg_normal seg section)) in Hc.
      rewrite (noinput_list o _ (ni_section_symbol_end _ cfg_normal seg section)) in Hc.
      assert (Hb : body_claims o (match rest with [] => [] | _ :: _ => [SBlank] end) = [])
        by (destruct rest; reflexivity).
      rewrite Hb in Hc. cbn [app] in Hc. apply in_app_or in Hc. destruct Hc as [Hc|Hc].
      + apply body_claims_inv in Hc. destruct Hc as [kp [path [member [sect [wild [Ec Hin]]]]]].
        destruct (emit_section_listed _ _ _ _ _ _ E1 _ _ _ _ _ Hin)
          as [b [c0 [lf [bc [chain [p [Hb0 [Hc0 [Hl [Hr [Hp [E3 [E4 E5]]]]]]]]]]]]]. subst.
        exists lf, bc, p, sect. split; [|reflexivity].
        exists b, c0, chain, section. repeat split; try assumption. apply Hi. left. reflexivity.
      + eapply IH; [exact E2 | | exact Hc]. intros y Hy. apply Hi. right. exact Hy.
  Qed.

  (* the statement of a leaf for a section it reaches is in the body of its half *)
  Lemma part_groups_leaf seg noload lf bc p k ws s ws' :
    leaf_reaches rt d seg noload lf bc p k ->
    part_groups rt stg cfg_normal seg (part_sections seg noload) (part_sections seg noload) ws = Ok (s, ws') ->
    In (trace_stmt seg lf bc p k) s.
  Proof.
    intros [b [c0 [chain [section [Hb [Hc0 [Hl [Hs [Hr Hp]]]]]]]]].
    refine (part_groups_some rt stg cfg_normal seg (fun s _ => In (trace_stmt seg lf bc p k) s) _ _ section
              (part_sections seg noload) (part_sections seg noload) _ Hs ws s ws').
    - intros s0 _ s2 _ H _. apply in_or_app. left. exact H.
    - intros s1 s0 _ H. apply in_or_app. right. exact H.
    - intros w t w' H.
      pose proof (emit_section_simple _ _ _ _ _ _ _ _ _ _ H) as Hsim.
      apply doc_base_seg_base in Hb.
      destruct (emit_section_leaf_traced _ _ _ _ _ _ _ _ _ _ _ _ _ _ _ _ Hb Hc0 Hl Hr H) as [p' [Hp' [Hd _]]].
      rewrite Hp in Hp'. apply ok_inj in Hp'. subst p'. apply deep_in_simple; assumption.
  Qed.

  Lemma write_segment_claims seg noload ws s ws' :
    write_segment rt stg cfg_normal seg (part_sections seg noload) noload ws = Ok (s, ws') ->
    exists body,
      part_groups rt stg cfg_normal seg (part_sections seg noload) (part_sections seg noload) ws = Ok (body, ws') /\
      flat_map top_claims s = body_claims (part_name seg noload) body.
  Proof.
    intro H. apply write_segment_inv in H. destruct H as [body [E Es]]. exists body. split; [exact E|]. subst s.
    rewrite !flat_map_app, (claimless_list _ (q_kind_start _ _ _ _)), (claimless_list _ (q_kind_end _ _ _ _)).
    cbn [flat_map app]. rewrite !app_nil_r, part_name_outsec, body_claims_app.
    rewrite (noinput_list _ _ (ni_opt_fill seg)). reflexivity.
  Qed.

  (* ---------- one segment ---------- *)

  Lemma add_segment_claims seg ws s ws' :
    add_segment rt stg cfg_normal classes seg ws = Ok (s, ws') -> should_emit rt (sg_conds seg) = true ->
    exists ws1 body1 ws2 body2,
      part_groups rt stg cfg_normal seg (alloc_sections seg) (alloc_sections seg) ws1 = Ok (body1, ws2) /\
      part_groups rt stg cfg_normal seg (noload_sections seg) (noload_sections seg) ws2 = Ok (body2, ws') /\
      flat_map top_claims s = (body_claims (alloc_name seg) body1 ++ body_claims (noload_name seg) body2)%list.
  Proof.
    intros H Hc. apply add_segment_inv in H.
    destruct H as [[Hc' _] | [_ [cls [ws1 [s1 [ws2 [s2 [Ec [E1 [E2 E]]]]]]]]]]; [congruence|]. subst s.
    apply (write_segment_claims seg false) in E1. destruct E1 as [body1 [G1 C1]].
    apply (write_segment_claims seg true) in E2. destruct E2 as [body2 [G2 C2]].
    exists ws1, body1, ws2, body2. split; [exact G1|]. split; [exact G2|].
    rewrite !flat_map_app, (claimless_list _ (q_class_part _ _ _ _ _ _ Ec)), (claimless_list _ (q_seg_head _ _)),
      (claimless_list _ (q_seg_foot _ _)), C1, C2. cbn [flat_map top_claims app part_name]. rewrite app_nil_r. reflexivity.
  Qed.

  Lemma add_segment_listed seg ws s ws' :
    add_segment rt stg cfg_normal classes seg ws = Ok (s, ws') -> should_emit rt (sg_conds seg) = true ->
    (forall c, In c (flat_map top_claims s) -> exists nl, listed rt d seg nl c) /\
    (forall nl lf bc p k, leaf_reaches rt d seg nl lf bc p k ->
                          In (leaf_claim seg nl lf bc p k) (flat_map top_claims s)).
  Proof.
    intros H Hc. destruct (add_segment_claims seg ws s ws' H Hc) as [ws1 [body1 [ws2 [body2 [G1 [G2 E]]]]]].
    rewrite E. split.
    - intros c Hin. apply in_app_or in Hin. destruct Hin as [Hin|Hin].
      + exists false. destruct (part_groups_listed seg false _ _ _ _ _ G1 (incl_refl _) c Hin)
          as [lf [bc [p [k [Hl Ec]]]]]. exists lf, bc, p, k. split; [exact Hl | exact Ec].
      + exists true. destruct (part_groups_listed seg true _ _ _ _ _ G2 (incl_refl _) c Hin)
          as [lf [bc [p [k [Hl Ec]]]]]. exists lf, bc, p, k. split; [exact Hl | exact Ec].
    - intros nl lf bc p k Hl. apply in_or_app. destruct nl; [right|left]; unfold leaf_claim; cbn [part_name].
      + apply (in_body_claims _ (keeps (fi_keep lf) k)). exact (part_groups_leaf seg true lf bc p k _ _ _ Hl G2).
      + apply (in_body_claims _ (keeps (fi_keep lf) k)). exact (part_groups_leaf seg false lf bc p k _ _ _ Hl G1).
  Qed.

  (* ---------- all segments ---------- *)

  Lemma fold_listed segs : forall ws body ws',
    fold_out (add_segment rt stg cfg_normal classes) segs ws = Ok (body, ws') ->
    (forall c, In c (flat_map top_claims body) ->
               exists s nl, In s (included rt segs) /\ listed rt d s nl c) /\
    (forall s nl lf bc p k, In s (included rt segs) -> leaf_reaches rt d s nl lf bc p k ->
                            In (leaf_claim s nl lf bc p k) (flat_map top_claims body)).
  Proof.
    induction segs as [|seg r IH]; intros ws body ws' H.
    - apply fold_out_nil in H. destruct H; subst. split; [intros c [] | intros s nl lf bc p k []].
    - apply fold_out_cons in H. destruct H as [s1 [ws1 [s2 [E1 [E2 E]]]]]. subst body.
      destruct (IH _ _ _ E2) as [I1 I2]. unfold included. cbn [filter].
      destruct (should_emit rt (sg_conds seg)) eqn:Hc.
      + destruct (add_segment_listed seg ws s1 ws1 E1 Hc) as [A1 A2]. split.
        * intros c Hin. rewrite flat_map_app in Hin. apply in_app_or in Hin. destruct Hin as [Hin|Hin].
          -- destruct (A1 c Hin) as [nl Hl]. exists seg, nl. split; [left; reflexivity | exact Hl].
          -- destruct (I1 c Hin) as [s [nl [Hs Hl]]]. exists s, nl. split; [right; exact Hs | exact Hl].
        * intros s nl lf bc p k [Hs|Hs] Hl; rewrite flat_map_app; apply in_or_app.
          -- subst s. left. apply A2. exact Hl.
          -- right. eapply I2; eassumption.
      + rewrite (add_segment_excluded _ _ _ _ _ _ Hc) in E1. apply ok_inj in E1. inversion E1; subst s1 ws1.
        cbn [app]. split; assumption.
  Qed.

  (* C01_document_claims *)
  Theorem document_claims w :
    gen_normal d rt = Ok w -> single_segment_mode stg = false ->
    exists A, script_claims (wo_script w) = (A ++ tail_claims stg)%list /\
      (forall c, In c A -> exists s nl, In s (included rt (doc_segments d)) /\ listed rt d s nl c) /\
      (forall s nl lf bc p k, In s (included rt (doc_segments d)) -> leaf_reaches rt d s nl lf bc p k ->
                              In (leaf_claim s nl lf bc p k) A).
  Proof.
    intros H Hm. apply gen_normal_inv in H. destruct H as [s [ws' [E Hw]]].
    apply add_all_segments_inv in E. destruct E as [[Hs _] | [_ [body [E Es]]]]; [unfold stg in *; congruence|].
    subst s w. exists (flat_map top_claims body). split.
    - unfold script_claims. cbn [wo_script].
      rewrite !flat_app, (flat_plain _ (plain_version rt)), (flat_plain _ (plain_tail rt d)).
      change (flat_stmts [SSections (begin_sections_body (doc_settings d) ++ body ++
                                     end_sections_body (doc_settings d) (doc_vram_classes d) ws')])
        with ((begin_sections_body (doc_settings d) ++ body ++
               end_sections_body (doc_settings d) (doc_vram_classes d) ws') ++ [])%list.
      rewrite app_nil_r, !flat_map_app, (claimless_list _ (q_version rt)), (claimless_list _ (q_begin _)),
        (claimless_list _ (q_tail_stmts rt d)), claims_end_sections, app_nil_r. reflexivity.
    - exact (fold_listed _ _ _ _ E).
  Qed.
End DocClaims.

(* ====================================================================== *)
(* 4. which output sections can fail with LForwardRef                      *)
(* ====================================================================== *)

(* the names under which a statement can record LForwardRef: an output section with an address
   expression; "." for an assignment to the location counter *)
Definition fwd_names (s : stmt) : list string :=
  match s with
  | SOutSec n (Some _) _ _ _ _ => [n]
  | SAssign _ _ _ _ _ => ["."%string]
  | _ => []
  end.

Section Fwd.
  Variables (env : list (string * Z)) (senv : list osec) (ext : list (string * Z)) (final : bool).
  Notation top := (exec_top_stmt env senv ext final).
  Notation runl := (run env senv ext final).
  Notation secs vma sub name := (exec_sec_stmt env senv ext final vma sub name).

  Lemma add_err_no_fwd e st n :
    (forall m, e <> LForwardRef m) -> In (LForwardRef n) (l_errors (add_err e st)) -> In (LForwardRef n) (l_errors st).
  Proof.
    intros He H. cbn [add_err l_errors] in H. apply in_app_or in H. destruct H as [H|[H|[]]]; [exact H|].
    exfalso. eapply He. exact H.
  Qed.

  Lemma assign_no_fwd p sym r text st n :
    In (LForwardRef n) (l_errors (assign ext final p sym r text st)) -> In (LForwardRef n) (l_errors st).
  Proof.
    unfold assign. destruct r as [v|e].
    - destruct (p && is_some (lookup sym ext))%bool; intro H; exact H.
    - destruct e; try (destruct (final && negb p)%bool); intro H; try exact H;
        (eapply add_err_no_fwd; [|exact H]); intros m; discriminate.
  Qed.

  Lemma sec_stmt_no_fwd vma sub name ss s n :
    In (LForwardRef n) (l_errors (s_st (secs vma sub name ss s))) -> In (LForwardRef n) (l_errors (s_st ss)).
  Proof.
    destruct (sec_stmt_cases env senv ext final vma sub name ss s)
      as [[p [h [r [sym [e [Es E]]]]]] | [[k [path [member [sect [wild [off' [pls [c [Es [Ep E]]]]]]]]]] | [E _]]];
      rewrite E; cbn [s_st l_errors]; [apply assign_no_fwd | auto | auto].
  Qed.

  Lemma sec_fold_no_fwd vma sub name body n : forall ss,
    In (LForwardRef n) (l_errors (s_st (fold_left (secs vma sub name) body ss))) ->
    In (LForwardRef n) (l_errors (s_st ss)).
  Proof.
    induction body as [|s body IH]; intros ss H; [exact H|]. cbn [fold_left] in H. apply IH in H.
    eapply sec_stmt_no_fwd. exact H.
  Qed.

  Lemma top_fwd st s n :
    In (LForwardRef n) (l_errors (top st s)) -> In (LForwardRef n) (l_errors st) \/ In n (fwd_names s).
  Proof.
    destruct s; try (intro H; left; exact H); cbn [exec_top_stmt fwd_names].
    - destruct (String.eqb sym ".") eqn:Es.
      + destruct (eval_expr env senv ext st (l_dot st) e); [intro H; left; exact H|].
        cbn [add_err l_errors]. intro H. apply in_app_or in H. destruct H as [H|[H|[]]]; [left; exact H|].
        inversion H; subst. right. left. reflexivity.
      + intro H. left. eapply assign_no_fwd. exact H.
    - destruct (String.eqb sym "."); [intro H; left; exact H|].
      destruct (sym_lookup sym st env ext); intro H; left; exact H.
    - destruct (sym_lookup sym st env ext); [destruct (sym_lookup other st env ext)|];
        try (destruct final); intro H; left; try exact H; (eapply add_err_no_fwd; [|exact H]); intros m; discriminate.
    - destruct (sym_lookup "__romPos" st env ext); [destruct (sec_lookup sec st senv)|];
        try (destruct final); intro H; left; try exact H; (eapply add_err_no_fwd; [|exact H]); intros m; discriminate.
    - destruct (outsec_vma env senv ext addr sub body st) as [vma|e] eqn:E.
      + destruct (exec_outsec_ok env senv ext final name addr at_ noload sub body st vma E)
          as [_ [_ [_ [_ [_ [_ [_ He]]]]]]].
        intro H. left.
        assert (H' : In (LForwardRef n) (l_errors (s_st (outsec_body env senv ext final name sub body vma st)))).
        { destruct He as [He|He]; rewrite He in H; [exact H|].
          apply in_app_or in H. destruct H as [H|[H|[]]]; [exact H | discriminate]. }
        unfold outsec_body in H'. apply sec_fold_no_fwd in H'. exact H'.
      + rewrite (exec_outsec_err _ _ _ _ _ _ _ _ _ _ _ _ E). cbn [add_err l_errors]. intro H.
        apply in_app_or in H. destruct H as [H|[H|[]]]; [left; exact H|]. inversion H; subst. right.
        destruct addr as [a|]; [left; reflexivity | discriminate E].
    - destruct (place 0 None sect _ 0 [] false) as [[off' pls] c]. intro H. left. exact H.
    - destruct (eval_raw env ext st cond) as [v|e].
      + destruct (v =? 0); intro H; left; try exact H. (eapply add_err_no_fwd; [|exact H]); intros m; discriminate.
      + destruct e; try (destruct final); intro H; left; try exact H;
          (eapply add_err_no_fwd; [|exact H]); intros m; discriminate.
  Qed.

  Lemma run_fwd l n : forall st,
    In (LForwardRef n) (l_errors (runl l st)) -> In (LForwardRef n) (l_errors st) \/ In n (flat_map fwd_names l).
  Proof.
    induction l as [|s l IH]; intros st H; [left; exact H|]. rewrite run_cons in H. cbn [flat_map].
    destruct (IH _ H) as [H1|H1]; [|right; apply in_or_app; right; exact H1].
    destruct (top_fwd st s n H1) as [H2|H2]; [left; exact H2 | right; apply in_or_app; left; exact H2].
  Qed.
End Fwd.

Lemma fwd_in_headers l n :
  In n (flat_map fwd_names l) -> n = "."%string \/ exists e at_ nl, In (n, Some e, at_, nl) (headers l).
Proof.
  intro H. apply in_flat_map in H. destruct H as [s [Hs H]].
  destruct s; try contradiction.
  - destruct H as [H|[]]. left. auto.
  - destruct addr as [e|]; [|contradiction]. destruct H as [H|[]]. subst n. right. exists e, at_, noload.
    unfold headers. apply in_flat_map. eexists. split; [exact Hs|]. left. reflexivity.
Qed.

Lemma header_makes l h : In h (headers l) -> In (fst (fst (fst h))) (flat_map makes_sec l).
Proof.
  unfold headers. intro H. apply in_flat_map in H. destruct H as [s [Hs H]].
  destruct s; try contradiction. destruct H as [H|[]]. subst h. apply in_flat_map. eexists. split; [exact Hs|].
  left. reflexivity.
Qed.

(* in a generated script only "." and the allocatable output section of an included segment can *)
Theorem document_forward_refs env senv ext final d rt w st n :
  gen_normal d rt = Ok w -> single_segment_mode (doc_settings d) = false ->
  In (LForwardRef n) (l_errors (exec_script env senv ext final (wo_script w) st)) ->
  In (LForwardRef n) (l_errors st) \/ n = "."%string \/
  exists seg, In seg (included rt (doc_segments d)) /\ n = alloc_name seg.
Proof.
  intros Hg Hm H. rewrite exec_script_flat in H. apply run_fwd in H. destruct H as [H|H]; [left; exact H|]. right.
  apply fwd_in_headers in H. destruct H as [H|[e [at_ [nl H]]]]; [left; exact H|]. right.
  apply gen_normal_inv in Hg. destruct Hg as [s [ws' [E Hw]]]. subst w. cbn [wo_script] in H.
  destruct (script_multi _ _ _ _ _ _ _ _ Hm E) as [all [rest [Es [_ [_ [Hh _]]]]]]. subst s.
  rewrite !flat_app, (flat_plain _ (plain_version rt)), (flat_plain _ (plain_tail rt d)) in H.
  change (flat_stmts [SSections all]) with (all ++ [])%list in H. rewrite app_nil_r in H.
  unfold headers in H. rewrite !flat_map_app in H. fold (headers all) in H. rewrite Hh in H.
  apply in_app_or in H. destruct H as [H|H].
  { exfalso. apply header_makes in H. cbn [fst] in H. unfold version_stmts in H.
    destruct (rt_emit_version_comment rt); exact H. }
  apply in_app_or in H. destruct H as [H|H].
  - apply in_flat_map in H. destruct H as [seg [Hs H]]. exists seg. split; [exact Hs|].
    destruct H as [H|[H|[]]]; inversion H. reflexivity.
  - exfalso. apply header_makes in H. rewrite makes_sec_tail in H. exact H.
Qed.

Lemma out_names_distinct segs : NoDup (out_names segs) ->
  forall a b, In a segs -> In b segs -> noload_name a <> alloc_name b.
Proof.
  induction segs as [|x r IH]; intros Hn a b Ha Hb; [contradiction|].
  cbn [out_names flat_map app] in Hn. inversion Hn as [|? ? H1 Hn1]; subst. inversion Hn1 as [|? ? H2 Hn2]; subst.
  assert (Hin : forall s, In s r -> In (alloc_name s) (out_names r) /\ In (noload_name s) (out_names r)).
  { intros s Hs. split; unfold out_names; apply in_flat_map; exists s; (split; [exact Hs|]);
      [left; reflexivity | right; left; reflexivity]. }
  destruct Ha as [Ha|Ha], Hb as [Hb|Hb]; subst.
  - intro E. apply H1. left. exact E.
  - intro E. apply H2. rewrite E. apply Hin. exact Hb.
  - intro E. apply H1. right. rewrite <- E. apply Hin. exact Ha.
  - apply IH; assumption.
Qed.

(* ====================================================================== *)
(* 5. a listed input section is placed in its segment                      *)
(* ====================================================================== *)

Lemma leaf_claim_matches seg nl lf bc p k x :
  claim_matches (leaf_claim seg nl lf bc p k) x = true <->
  input_matches (display (push bc p)) (member_of lf) k (wildcard_sections seg) x.
Proof. apply input_matches_sel. Qed.

(* the document-side condition is sufficient *)
Theorem first_goes_of_leaves d rt w x P :
  gen_normal d rt = Ok w -> single_segment_mode (doc_settings d) = false ->
  matching_leaves_in rt d x P ->
  (exists s nl lf bc p k, In s (included rt (doc_segments d)) /\ leaf_reaches rt d s nl lf bc p k /\
                          input_matches (display (push bc p)) (member_of lf) k (wildcard_sections s) x) ->
  first_goes (wo_script w) x P.
Proof.
  intros Hg Hm HP [s [nl [lf [bc [p [k [Hs [Hl Hx]]]]]]]] c Hc.
  destruct (document_claims rt d w Hg Hm) as [A [EA [A1 A2]]].
  rewrite EA in Hc. unfold first_claim in Hc. rewrite find_app in Hc.
  pose proof (A2 s nl lf bc p k Hs Hl) as HT.
  destruct (first_claim_exists A x _ HT (proj2 (leaf_claim_matches s nl lf bc p k x) Hx)) as [c' Ec'].
  unfold first_claim in Ec'. rewrite Ec' in Hc. inversion Hc; subst c'.
  apply find_some in Ec'. destruct Ec' as [HcA Hcm].
  destruct (A1 c HcA) as [s' [nl' [Hs' [lf' [bc' [p' [k' [Hl' Ec]]]]]]]]. subst c.
  exists (part_name s' nl'). split; [reflexivity|].
  exact (HP s' nl' lf' bc' p' k' Hs' Hl' (proj1 (leaf_claim_matches s' nl' lf' bc' p' k' x) Hcm)).
Qed.

Lemma silent_of_path_only rt d x seg :
  path_only_in rt d x seg -> matching_leaves_in rt d x (seg_outsec seg).
Proof.
  intros H s nl lf bc p k Hs Hl [Hp _]. rewrite (H s nl lf bc p k Hs Hl Hp).
  destruct nl; [right | left]; reflexivity.
Qed.

Lemma silent_of_half rt d x seg nl :
  path_only_in rt d x seg -> half_silent rt d x seg (negb nl) ->
  matching_leaves_in rt d x (eq (part_name seg nl)).
Proof.
  intros H Hh s nl' lf bc p k Hs Hl [Hp [_ Hn]]. pose proof (H s nl' lf bc p k Hs Hl Hp) as Es. subst s.
  destruct (Bool.bool_dec nl' nl) as [E|E]; [subst; reflexivity|]. exfalso.
  assert (E' : nl' = negb nl) by (destruct nl, nl'; try reflexivity; exfalso; apply E; reflexivity).
  subst nl'. exact (Hh lf bc p k Hl Hp Hn).
Qed.

Section Placed.
  Variables (env : list (string * Z)) (senv : list osec) (ext : list (string * Z)) (final : bool).

  Theorem document_listed_placed_gen d rt w u seg nl lf bc p k x (P : string -> Prop) :
    gen_normal d rt = Ok w -> single_segment_mode (doc_settings d) = false ->
    In seg (included rt (doc_segments d)) -> leaf_reaches rt d seg nl lf bc p k ->
    In x u -> input_matches (display (push bc p)) (member_of lf) k (wildcard_sections seg) x ->
    first_goes (wo_script w) x P ->
    let st' := exec_script env senv ext final (wo_script w) (init_state u) in
    (forall o, P o -> ~ In (LForwardRef o) (l_errors st')) ->
    exists o, P o /\ placed_at st' x o /\ ~ In x (l_remaining st').
  Proof.
    intros Hg Hm Hs Hl Hx Hmx Hf st' Herr.
    destruct (document_claims rt d w Hg Hm) as [A [EA [_ A2]]].
    pose proof (A2 seg nl lf bc p k Hs Hl) as HT.
    assert (HT' : In (leaf_claim seg nl lf bc p k) (script_claims (wo_script w)))
      by (rewrite EA; apply in_or_app; left; exact HT).
    destruct (first_claim_exists _ x _ HT' (proj2 (leaf_claim_matches seg nl lf bc p k x) Hmx)) as [c Ec].
    destruct (Hf c Ec) as [o [Eo Po]].
    pose proof (script_first_match env senv ext final (wo_script w) (init_state u) x Hx) as S.
    cbv zeta in S. rewrite Ec in S. fold st' in S.
    exists o. split; [exact Po|].
    destruct S as [Sf|[S1 S2]].
    - exfalso. destruct c; cbn [claim_failed] in Sf; try contradiction. cbn [claim_outsec] in Eo.
      inversion Eo; subst. exact (Herr _ Po Sf).
    - rewrite Eo in S1. split; assumption.
  Qed.

  (* C01_document_listed_placed *)
  Theorem document_listed_placed d rt w u seg nl lf bc p k x :
    gen_normal d rt = Ok w -> single_segment_mode (doc_settings d) = false ->
    In seg (included rt (doc_segments d)) -> leaf_reaches rt d seg nl lf bc p k ->
    In x u -> input_matches (display (push bc p)) (member_of lf) k (wildcard_sections seg) x ->
    first_goes (wo_script w) x (eq (part_name seg nl)) ->
    let st' := exec_script env senv ext final (wo_script w) (init_state u) in
    ~ In (LForwardRef (part_name seg nl)) (l_errors st') ->
    placed_at st' x (part_name seg nl) /\ ~ In x (l_remaining st').
  Proof.
    intros Hg Hm Hs Hl Hx Hmx Hf st' Herr.
    destruct (document_listed_placed_gen d rt w u seg nl lf bc p k x _ Hg Hm Hs Hl Hx Hmx Hf) as [o [Eo H]].
    - intros o Eo. subst o. exact Herr.
    - subst o. exact H.
  Qed.

  (* with pairwise different markers: what is placed is neither discarded nor waiting *)
  Lemma placed_exclusive script u x o :
    NoDup (map u_marker u) ->
    let st' := exec_script env senv ext final script (init_state u) in
    placed_at st' x o ->
    ~ In (u_marker x) (l_discarded st') /\ ~ In (u_marker x) (map u_marker (l_remaining st')).
  Proof.
    intros Hnd st' [p [Hp [Em _]]].
    destruct (placed_never_discarded env senv ext final script u Hnd) as [_ [H1 H2]]. fold st' in H1, H2.
    rewrite <- Em. split; [apply H1 | apply H2]; apply in_map; exact Hp.
  Qed.

  (* the noload output section of an included segment cannot fail *)
  Lemma noload_never_fails d rt w u seg :
    gen_normal d rt = Ok w -> doc_link_wf d rt = true -> In seg (included rt (doc_segments d)) ->
    ~ In (LForwardRef (noload_name seg)) (l_errors (exec_script env senv ext final (wo_script w) (init_state u))).
  Proof.
    intros Hg Hwf Hs H. destruct (doc_link_wf_inv d rt Hwf) as (body & ws' & _ & Hm & Hnd & _).
    apply (document_forward_refs env senv ext final d rt w _ _ Hg Hm) in H.
    destruct H as [[]|[H|[s [Hs' H]]]].
    - unfold noload_name in H. cbn [append] in H. inversion H as [H0]. destruct (sg_name seg); discriminate H0.
    - exact (out_names_distinct _ Hnd seg s Hs Hs' H).
  Qed.

  (* C01_document_listed_in_segment *)
  Theorem document_listed_in_segment d rt w u seg nl lf bc p k x :
    gen_normal d rt = Ok w -> doc_link_wf d rt = true -> doc_outsecs_fresh d rt = true ->
    Forall (fun y => 0 <= u_size y) u -> NoDup (map u_marker u) ->
    In seg (included rt (doc_segments d)) -> leaf_reaches rt d seg nl lf bc p k ->
    In x u -> input_matches (display (push bc p)) (member_of lf) k (wildcard_sections seg) x ->
    first_goes (wo_script w) x (seg_outsec seg) ->
    let sty := linker_symbols_style (doc_settings d) in
    let st' := exec_script env senv ext final (wo_script w) (init_state u) in
    (forall s, In s (included rt (doc_segments d)) -> ~ In (LForwardRef (alloc_name s)) (l_errors st')) ->
    InsideSegment sty st' seg x /\
    ~ In x (l_remaining st') /\ ~ In (u_marker x) (map u_marker (l_remaining st')) /\
    ~ In (u_marker x) (l_discarded st').
  Proof.
    intros Hg Hwf Hfresh Hu Hnd Hs Hl Hx Hmx Hf sty st' Herr.
    destruct (doc_link_wf_inv d rt Hwf) as (_ & _ & _ & Hm & _).
    destruct (document_listed_placed_gen d rt w u seg nl lf bc p k x _ Hg Hm Hs Hl Hx Hmx Hf) as [o [Po [Hp Hr]]].
    { intros o [Eo|Eo]; subst o; [apply Herr; exact Hs | apply (noload_never_fails d rt); assumption]. }
    fold st' in Hp, Hr.
    destruct (placed_exclusive (wo_script w) u x o Hnd Hp) as [Hd Hw]. fold st' in Hd, Hw.
    split; [|split; [exact Hr | split; [exact Hw | exact Hd]]].
    destruct (document_in_segment_range env senv ext final d rt w u seg Hg Hwf Hfresh Hu Hs Herr)
      as (o1 & o2 & ve & F1 & F2 & VE & Z1 & Z2 & L1 & L2 & _ & _ & R).
    fold st' sty in F1, F2, VE, R.
    destruct Hp as [pl [Hpl [Em Eo]]].
    assert (Hin : In pl (placed_in (alloc_name seg) st' ++ placed_in (noload_name seg) st')).
    { apply in_or_app. unfold placed_in. destruct Po as [Eo'|Eo']; [left|right];
        (apply filter_In; split; [exact Hpl|]); rewrite Eo, Eo'; apply String.eqb_refl. }
    rewrite Forall_forall in R. destruct (R pl Hin) as [x' [Hx' [Em' [A B]]]].
    assert (Ex : x' = x) by (eapply nodup_map_inj; [exact Hnd | exact Hx' | exact Hx | congruence]).
    subst x'. exists pl, o1, ve. split; [exact Hpl|]. split; [exact Em|]. split; [rewrite Eo; exact Po|].
    repeat (split; [assumption|]). exact B.
  Qed.
End Placed.

(* ---------- the last pass of layout ---------- *)

Theorem document_listed_placed_layout d rt w u ext0 seg nl lf bc p k x :
  gen_normal d rt = Ok w -> single_segment_mode (doc_settings d) = false ->
  In seg (included rt (doc_segments d)) -> leaf_reaches rt d seg nl lf bc p k ->
  In x u -> input_matches (display (push bc p)) (member_of lf) k (wildcard_sections seg) x ->
  first_goes (wo_script w) x (eq (part_name seg nl)) ->
  let st' := layout (wo_script w) u ext0 in
  ~ In (LForwardRef (part_name seg nl)) (l_errors st') ->
  placed_at st' x (part_name seg nl) /\ ~ In x (l_remaining st').
Proof. intros Hg Hm Hs Hl Hx Hmx Hf. unfold layout. apply (document_listed_placed _ _ _ _ d rt w u seg nl lf bc p k x); assumption. Qed.

Theorem document_listed_in_segment_layout d rt w u ext0 seg nl lf bc p k x :
  gen_normal d rt = Ok w -> doc_link_wf d rt = true -> doc_outsecs_fresh d rt = true ->
  Forall (fun y => 0 <= u_size y) u -> NoDup (map u_marker u) ->
  In seg (included rt (doc_segments d)) -> leaf_reaches rt d seg nl lf bc p k ->
  In x u -> input_matches (display (push bc p)) (member_of lf) k (wildcard_sections seg) x ->
  first_goes (wo_script w) x (seg_outsec seg) ->
  let sty := linker_symbols_style (doc_settings d) in
  let st' := layout (wo_script w) u ext0 in
  (forall s, In s (included rt (doc_segments d)) -> ~ In (LForwardRef (alloc_name s)) (l_errors st')) ->
  InsideSegment sty st' seg x /\
  ~ In x (l_remaining st') /\ ~ In (u_marker x) (map u_marker (l_remaining st')) /\
  ~ In (u_marker x) (l_discarded st').
Proof.
  intros Hg Hwf Hfresh Hu Hnd Hs Hl Hx Hmx Hf. unfold layout. apply (document_listed_in_segment _ _ _ _ d rt w u seg nl lf bc p k x); assumption.
Qed.

(* ====================================================================== *)
(* 6. documents without section_order and sub-groups; examples             *)
(* ====================================================================== *)

(* an entry without section_order in a segment without sub-groups reaches, from a section, that
   section only *)
Lemma reaches_plain cfg seg sections f a k :
  fi_section_order f = [] -> sections_subgroups seg = [] -> Reaches cfg seg sections f a k -> k = a.
Proof.
  intros Ho Hs H. induction H as [a k Hk | a k s m Hk Hm _ _].
  - unfold here, sections_here in Hk. rewrite Ho in Hk. destruct Hk as [Hk|[]]. auto.
  - exfalso. unfold entry_members, members in Hm. rewrite Hs in Hm.
    destruct (fi_kind f), (reference_partial cfg); simpl in Hm; exact Hm.
Qed.

Lemma reach_via_plain cfg seg sections chain : forall a b,
  Forall (fun f => fi_section_order f = []) chain -> sections_subgroups seg = [] ->
  reach_via cfg seg sections chain a b -> b = a.
Proof.
  induction chain as [|f r IH]; intros a b Hf Hs H; cbn [reach_via] in H; [auto|].
  destruct H as [m [Hr H]]. inversion Hf as [|? ? Hf1 Hf2]; subst.
  apply reaches_plain in Hr; try assumption. subst m. apply IH; assumption.
Qed.

Local Open Scope string_scope.

Definition dl_seg_b : segment :=
  ex_segment "ovl_b" [ex_obj "b.o"; ex_offset ".data" "b_mid"] (Some "overlay") None no_conds.
Definition dl_b_data : usec := USec "build/src/b.o" None ".data" 16 4 false "b_data".
Definition dl_b_bss : usec := USec "build/src/b.o" None ".bss" 4 4 true "b_bss".

Ltac split_or H :=
  match type of H with
  | _ \/ _ => destruct H as [H|H]; [|split_or H]
  | False => contradiction
  | _ => idtac
  end.

Lemma ex_leaf_reaches :
  leaf_reaches ex_rt dl_doc dl_seg_b false (ex_obj "b.o") "build/src" "b.o" ".data" /\
  leaf_reaches ex_rt dl_doc dl_seg_b true (ex_obj "b.o") "build/src" "b.o" ".bss".
Proof.
  split; exists "build/src", (ex_obj "b.o"), [ex_obj "b.o"].
  - exists ".data". split; [exists "build", "src"; repeat split; vm_compute; reflexivity|].
    split; [left; reflexivity|]. split; [left; reflexivity|]. split; [right; left; reflexivity|].
    split; [|vm_compute; reflexivity]. exists ".data". split; [|reflexivity]. apply Reach_here. left. reflexivity.
  - exists ".bss". split; [exists "build", "src"; repeat split; vm_compute; reflexivity|].
    split; [left; reflexivity|]. split; [left; reflexivity|]. split; [left; reflexivity|].
    split; [|vm_compute; reflexivity]. exists ".bss". split; [|reflexivity]. apply Reach_here. left. reflexivity.
Qed.

(* the file of b_data is listed by ovl_b only *)
Lemma ex_path_only : path_only_in ex_rt dl_doc dl_b_data dl_seg_b.
Proof.
  intros s nl lf bc p k Hs [b [c0 [chain [section [[b0 [dd [E1 [E2 E3]]]] [Hc0 [Hleaf [_ [_ Hesc]]]]]]]]] Hp.
  vm_compute in Hs. split_or Hs; subst s; try reflexivity; exfalso;
    vm_compute in E1, E2; inversion E1; inversion E2; subst b0 dd b;
    vm_compute in Hc0; split_or Hc0; subst c0; vm_compute in Hleaf; split_or Hleaf; inversion Hleaf; subst;
    vm_compute in Hesc; inversion Hesc; subst; vm_compute in Hp; discriminate Hp.
Qed.

(* no section of the noload half of ovl_b selects the name .data *)
Lemma ex_half_silent : half_silent ex_rt dl_doc dl_b_data dl_seg_b true.
Proof.
  intros lf bc p k [b [c0 [chain [section [_ [Hc0 [Hleaf [Hsec [Hr _]]]]]]]]] _ Hn.
  assert (Hk : k = section).
  { vm_compute in Hc0. split_or Hc0; subst c0; cbn in Hleaf; split_or Hleaf. inversion Hleaf; subst.
    refine (reach_via_plain cfg_normal dl_seg_b _ _ _ _ _ eq_refl Hr). repeat constructor. }
  subst k. destruct Hsec as [Hsec|[]]. subst section. destruct Hn as [rest Hn]. discriminate Hn.
Qed.

(* ---------- document-side conditions, combined with the link theorems ---------- *)

Section Combined.
  Variables (env : list (string * Z)) (senv : list osec) (ext : list (string * Z)) (final : bool).

  (* the file of [x] is listed by [seg] only: [x] ends up inside [seg] *)
  Theorem document_path_only_in_segment d rt w u seg nl lf bc p k x :
    gen_normal d rt = Ok w -> doc_link_wf d rt = true -> doc_outsecs_fresh d rt = true ->
    Forall (fun y => 0 <= u_size y) u -> NoDup (map u_marker u) ->
    In seg (included rt (doc_segments d)) -> leaf_reaches rt d seg nl lf bc p k ->
    In x u -> input_matches (display (push bc p)) (member_of lf) k (wildcard_sections seg) x ->
    path_only_in rt d x seg ->
    let sty := linker_symbols_style (doc_settings d) in
    let st' := exec_script env senv ext final (wo_script w) (init_state u) in
    (forall s, In s (included rt (doc_segments d)) -> ~ In (LForwardRef (alloc_name s)) (l_errors st')) ->
    InsideSegment sty st' seg x /\
    ~ In x (l_remaining st') /\ ~ In (u_marker x) (map u_marker (l_remaining st')) /\
    ~ In (u_marker x) (l_discarded st').
  Proof.
    intros Hg Hwf Hfresh Hu Hnd Hs Hl Hx Hmx Hpo.
    destruct (doc_link_wf_inv d rt Hwf) as (_ & _ & _ & Hm & _).
    apply (document_listed_in_segment env senv ext final d rt w u seg nl lf bc p k x); try assumption.
    apply (first_goes_of_leaves d rt w x _ Hg Hm (silent_of_path_only rt d x seg Hpo)).
    exists seg, nl, lf, bc, p, k. auto.
  Qed.

  (* ... and no section of the other half selects its name: [x] is in the output section of its half *)
  Theorem document_path_only_placed d rt w u seg nl lf bc p k x :
    gen_normal d rt = Ok w -> single_segment_mode (doc_settings d) = false ->
    In seg (included rt (doc_segments d)) -> leaf_reaches rt d seg nl lf bc p k ->
    In x u -> input_matches (display (push bc p)) (member_of lf) k (wildcard_sections seg) x ->
    path_only_in rt d x seg -> half_silent rt d x seg (negb nl) ->
    let st' := exec_script env senv ext final (wo_script w) (init_state u) in
    ~ In (LForwardRef (part_name seg nl)) (l_errors st') ->
    placed_at st' x (part_name seg nl) /\ ~ In x (l_remaining st').
  Proof.
    intros Hg Hm Hs Hl Hx Hmx Hpo Hh.
    apply (document_listed_placed env senv ext final d rt w u seg nl lf bc p k x); try assumption.
    apply (first_goes_of_leaves d rt w x _ Hg Hm (silent_of_half rt d x seg nl Hpo Hh)).
    exists seg, nl, lf, bc, p, k. auto.
  Qed.
End Combined.

(* ---------- the hypothesis on the first match cannot be dropped ---------- *)

(* what C01 says literally: every listed input section is placed in the output section of its half /
   in one of the two output sections of its segment - with no condition on earlier statements *)
Definition listed_placed_unconditional : Prop :=
  forall d rt w u ext0 seg nl lf bc p k x,
    gen_normal d rt = Ok w -> single_segment_mode (doc_settings d) = false ->
    In seg (included rt (doc_segments d)) -> leaf_reaches rt d seg nl lf bc p k ->
    In x u -> input_matches (display (push bc p)) (member_of lf) k (wildcard_sections seg) x ->
    let st' := layout (wo_script w) u ext0 in
    l_errors st' = [] -> placed_at st' x (part_name seg nl).

Definition listed_in_segment_unconditional : Prop :=
  forall d rt w u ext0 seg nl lf bc p k x,
    gen_normal d rt = Ok w -> single_segment_mode (doc_settings d) = false ->
    In seg (included rt (doc_segments d)) -> leaf_reaches rt d seg nl lf bc p k ->
    In x u -> input_matches (display (push bc p)) (member_of lf) k (wildcard_sections seg) x ->
    let st' := layout (wo_script w) u ext0 in
    l_errors st' = [] -> exists o, seg_outsec seg o /\ placed_at st' x o.

Definition cap_seg : segment :=
  cap_segment "main" [ex_obj "a.o"] [".text"; ".data"] [".data.noinit"; ".bss"] true.
Definition cap_noinit : usec := USec "build/src/a.o" None ".data.noinit" 32 4 true "a_noinit".

Lemma cap_leaf_reaches : leaf_reaches ex_rt cap_doc cap_seg true (ex_obj "a.o") "build/src" "a.o" ".data.noinit".
Proof.
  exists "build/src", (ex_obj "a.o"), [ex_obj "a.o"], ".data.noinit".
  split; [exists "build", "src"; repeat split; vm_compute; reflexivity|].
  split; [left; reflexivity|]. split; [left; reflexivity|]. split; [left; reflexivity|].
  split; [|vm_compute; reflexivity]. exists ".data.noinit". split; [|reflexivity]. apply Reach_here. left. reflexivity.
Qed.

(* prefix capture: .data.noinit of a.o, listed in the noload half, is taken by the statement for .data
   (with the wildcard flag) of the allocatable half, which comes first *)
Lemma refuted_prefix_capture :
  exists w, gen_normal cap_doc ex_rt = Ok w /\
    first_claim (script_claims (wo_script w)) cap_noinit = Some (CInput ".main" "build/src/a.o" None ".data" true) /\
    let st := layout (wo_script w) cap_universe [] in
    l_errors st = [] /\
    map (fun p => (pl_marker p, pl_addr p, pl_outsec p)) (l_placed st) =
      [("a_text", 0, ".main"); ("a_data", 16, ".main"); ("a_noinit", 24, ".main"); ("a_bss", 56, ".main.noload")].
Proof. eexists. split; [vm_compute; reflexivity|]. vm_compute. repeat split; reflexivity. Qed.

Theorem refuted_unconditional : ~ listed_placed_unconditional.
Proof.
  intro H. destruct refuted_prefix_capture as [w [Hg [_ [He Hp]]]].
  specialize (H cap_doc ex_rt w cap_universe [] cap_seg true (ex_obj "a.o") "build/src" "a.o" ".data.noinit" cap_noinit
                Hg eq_refl (or_introl eq_refl) cap_leaf_reaches).
  destruct H as [pl [Hin [Em Eo]]].
  - right. right. left. reflexivity.
  - apply input_matches_sel. reflexivity.
  - exact He.
  - apply (in_map (fun p => (pl_marker p, pl_addr p, pl_outsec p))) in Hin. rewrite Hp in Hin.
    cbn [pl_marker pl_addr pl_outsec] in Hin. rewrite Em, Eo in Hin. cbn in Hin.
    split_or Hin; inversion Hin.
Qed.

Definition twice_seg : segment := cap_segment "two" [ex_obj "a.o"; ex_obj "b.o"] [".text"] [".bss"] false.
Definition twice_a_text : usec := USec "build/src/a.o" None ".text" 16 4 false "a_text".

Lemma twice_leaf_reaches : leaf_reaches ex_rt twice_doc twice_seg false (ex_obj "a.o") "build/src" "a.o" ".text".
Proof.
  exists "build/src", (ex_obj "a.o"), [ex_obj "a.o"], ".text".
  split; [exists "build", "src"; repeat split; vm_compute; reflexivity|].
  split; [left; reflexivity|]. split; [left; reflexivity|]. split; [left; reflexivity|].
  split; [|vm_compute; reflexivity]. exists ".text". split; [|reflexivity]. apply Reach_here. left. reflexivity.
Qed.

(* one object listed by two segments: everything of a.o goes to the first, outside the range
   [16, 24] of the second *)
Lemma refuted_listed_twice :
  exists w, gen_normal twice_doc ex_rt = Ok w /\
    first_claim (script_claims (wo_script w)) twice_a_text = Some (CInput ".one" "build/src/a.o" None ".text" false) /\
    let st := layout (wo_script w) twice_universe [] in
    l_errors st = [] /\
    map (fun p => (pl_marker p, pl_addr p, pl_outsec p)) (l_placed st) = [("a_text", 0, ".one"); ("b_text", 16, ".two")] /\
    option_map os_vma (find_sec ".two" (l_secs st)) = Some 16 /\ val st "two_VRAM_END" = Some 24.
Proof. eexists. split; [vm_compute; reflexivity|]. vm_compute. repeat split; reflexivity. Qed.

Theorem refuted_in_segment_unconditional : ~ listed_in_segment_unconditional.
Proof.
  intro H. destruct refuted_listed_twice as [w [Hg [_ [He [Hp _]]]]].
  specialize (H twice_doc ex_rt w twice_universe [] twice_seg false (ex_obj "a.o") "build/src" "a.o" ".text" twice_a_text
                Hg eq_refl (or_intror (or_introl eq_refl)) twice_leaf_reaches).
  destruct H as [o [Ho [pl [Hin [Em Eo]]]]].
  - left. reflexivity.
  - apply input_matches_sel. reflexivity.
  - exact He.
  - apply (in_map (fun p => (pl_marker p, pl_addr p, pl_outsec p))) in Hin. rewrite Hp in Hin.
    cbn [pl_marker pl_addr pl_outsec] in Hin. rewrite Em, Eo in Hin. cbn in Hin.
    destruct Ho as [Ho|Ho]; subst o; split_or Hin; inversion Hin.
Qed.
