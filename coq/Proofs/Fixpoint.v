(* Fixpoint: two passes of LdSem over a script accepted by [chk_list] compute the same geometry (location
   counter, output sections, placements, unplaced and discarded input sections) and the same values for
   the symbols [chk_list] keeps; hence the last pass of [layout] reproduces the second one. *)
From Slinky Require Import Model.Types Model.Generated Model.Runtime Model.Style Model.Script Model.Writer Model.LdSem.
From Slinky Require Import Spec.C17 Spec.C04 Spec.C03 Spec.C09 Spec.C05 Spec.C10 Spec.DocLevel Spec.Fixpoint.
From Slinky Require Import Proofs.C06 Proofs.C18 Proofs.C17 Proofs.LdLemmas Proofs.C09 Proofs.C05 Proofs.C04 Proofs.C03 Proofs.C10
                           Proofs.DocLevel.
From Coq Require Import Lia ZArith.
Local Open Scope Z_scope.

(* ====================================================================== *)
(* small facts                                                             *)
(* ====================================================================== *)

Lemma in_remove_str x y l : In x (remove_str y l) <-> In x l /\ x <> y.
Proof.
  unfold remove_str. rewrite filter_In. split; intros [H1 H2]; split; try assumption.
  - apply negb_true_iff, String.eqb_neq in H2. congruence.
  - apply negb_true_iff, String.eqb_neq. congruence.
Qed.

Lemma sym_lookup_eq x st st' env ext :
  lookup x (l_syms st') = lookup x (l_syms st) -> sym_lookup x st' env ext = sym_lookup x st env ext.
Proof. unfold sym_lookup. intro H. rewrite H. reflexivity. Qed.

Lemma sym_lookup_init x u env ext : sym_lookup x (init_state u) env ext = outer_lookup env ext x.
Proof. reflexivity. Qed.

Lemma no_fwd_add l e : no_fwd l -> not_fwd e -> no_fwd (l ++ [e]).
Proof. intros H He. apply Forall_app. split; [exact H | constructor; [exact He | constructor]]. Qed.

Lemma no_fwd_not_in l n : no_fwd l -> ~ In (LForwardRef n) l.
Proof. intros H Hin. unfold no_fwd in H. rewrite Forall_forall in H. apply (H _ Hin). Qed.

Lemma geom_dot st1 st2 : geom st1 = geom st2 -> l_dot st1 = l_dot st2.
Proof. unfold geom. intro H. inversion H. reflexivity. Qed.
Lemma geom_secs st1 st2 : geom st1 = geom st2 -> l_secs st1 = l_secs st2.
Proof. unfold geom. intro H. inversion H. reflexivity. Qed.
Lemma geom_placed st1 st2 : geom st1 = geom st2 -> l_placed st1 = l_placed st2.
Proof. unfold geom. intro H. inversion H. reflexivity. Qed.
Lemma geom_remaining st1 st2 : geom st1 = geom st2 -> l_remaining st1 = l_remaining st2.
Proof. unfold geom. intro H. inversion H. reflexivity. Qed.
Lemma geom_discarded st1 st2 : geom st1 = geom st2 -> l_discarded st1 = l_discarded st2.
Proof. unfold geom. intro H. inversion H. reflexivity. Qed.

Lemma find_sec_snoc_some name l o : os_name o = name -> exists o', find_sec name (l ++ [o]) = Some o'.
Proof.
  intro E. destruct (find_sec name l) as [o0|] eqn:F.
  - exists o0. apply find_sec_app. exact F.
  - exists o. rewrite find_sec_app_none by exact F. unfold find_sec. cbn [find]. rewrite E, String.eqb_refl. reflexivity.
Qed.

(* ====================================================================== *)
(* two passes side by side                                                 *)
(* ====================================================================== *)

Section Stable.
  Variables (env1 : list (string * Z)) (senv1 : list osec) (ext1 : list (string * Z)) (f1 : bool).
  Variables (env2 : list (string * Z)) (senv2 : list osec) (ext2 : list (string * Z)) (f2 : bool).

  Notation top1 := (exec_top_stmt env1 senv1 ext1 f1).
  Notation top2 := (exec_top_stmt env2 senv2 ext2 f2).
  Notation run1 := (run env1 senv1 ext1 f1).
  Notation run2 := (run env2 senv2 ext2 f2).

  Notation Kok := (Kok env1 ext1 env2 ext2).
  Notation sim := (sim env1 ext1 env2 ext2).

  Lemma sim_weaken K K' S st1 st2 : (forall x, In x K' -> In x K) -> sim K S st1 st2 -> sim K' S st1 st2.
  Proof. intros H [G Hk Hs E1 E2]. constructor; try assumption. intros x Hx. apply Hk, H, Hx. Qed.

  (* both states change only in their symbols (and errors), the names of K' keeping their value *)
  Lemma sim_frame K K' S st1 st2 st1' st2' :
    sim K S st1 st2 ->
    geom st1' = geom st1 -> geom st2' = geom st2 ->
    (forall x, In x K' -> In x K /\ lookup x (l_syms st1') = lookup x (l_syms st1) /\
                          lookup x (l_syms st2') = lookup x (l_syms st2)) ->
    no_fwd (l_errors st1') -> no_fwd (l_errors st2') ->
    sim K' S st1' st2'.
  Proof.
    intros [G Hk Hs E1 E2] G1 G2 Hf E1' E2'. constructor; try assumption.
    - rewrite G1, G2. exact G.
    - intros x Hx. destruct (Hf x Hx) as [Hin [L1 L2]]. destruct (Hk x Hin) as [v [V1 V2]]. exists v.
      rewrite (sym_lookup_eq x st1 st1' env1 ext1 L1), (sym_lookup_eq x st2 st2' env2 ext2 L2). split; assumption.
    - intros n Hn. rewrite (geom_secs _ _ G1). apply Hs. exact Hn.
  Qed.

  (* both states set the same symbol to the same value *)
  Lemma sim_set K S sym v p1 p2 st1 st2 :
    sim K S st1 st2 -> sim (sym :: K) S (set_sym sym v p1 st1) (set_sym sym v p2 st2).
  Proof.
    intros [G Hk Hs E1 E2]. constructor; [exact G | | exact Hs | exact E1 | exact E2].
    intros x [Hx|Hx].
    -
      subst x. exists v. split; apply sym_lookup_defined, lookup_set_sym_same.
    - destruct (string_dec sym x) as [->|Hne].
      + exists v. split; apply sym_lookup_defined, lookup_set_sym_same.
      + destruct (Hk x Hx) as [w [W1 W2]]. exists w.
        rewrite (sym_lookup_eq x st1 (set_sym sym v p1 st1) env1 ext1) by (apply lookup_set_sym_other; exact Hne).
        rewrite (sym_lookup_eq x st2 (set_sym sym v p2 st2) env2 ext2) by (apply lookup_set_sym_other; exact Hne).
        split; assumption.
  Qed.

  Lemma sim_set_dot K S v st1 st2 : sim K S st1 st2 -> sim K S (set_dot v st1) (set_dot v st2).
  Proof.
    intros [G Hk Hs E1 E2]. constructor; try assumption.
    unfold geom in *. cbn [set_dot l_dot l_secs l_placed l_remaining l_discarded]. inversion G. reflexivity.
  Qed.

  (* ---------- expressions ---------- *)

  Lemma Kok_mem K st1 st2 x : Kok K st1 st2 -> mem_str x K = true ->
    exists v, sym_lookup x st1 env1 ext1 = Some v /\ sym_lookup x st2 env2 ext2 = Some v.
  Proof. intros Hk Hx. apply Hk. apply mem_str_in. exact Hx. Qed.

  Lemma atom_closed K st1 st2 a : Kok K st1 st2 -> known_atom K a = true ->
    exists v, atom env1 ext1 st1 a = Some v /\ atom env2 ext2 st2 a = Some v.
  Proof.
    intros Hk H. unfold known_atom in H. unfold atom. destruct (parse_num a) as [n|]; [exists n; auto|].
    cbn [is_some orb] in H. apply (Kok_mem K); assumption.
  Qed.

  Lemma raw_closed K st1 st2 t : Kok K st1 st2 -> closed_raw K t = true ->
    exists v, eval_raw env1 ext1 st1 t = Ok v /\ eval_raw env2 ext2 st2 t = Ok v.
  Proof.
    intros Hk H. unfold closed_raw in H. unfold eval_raw. destruct (defined_arg t) as [s|].
    - destruct (Kok_mem K st1 st2 s Hk H) as [v [V1 V2]]. rewrite V1, V2. eexists. split; reflexivity.
    - destruct (split_on " " t) as [|a [|op [|b [|c r]]]]; try discriminate.
      + destruct (atom_closed K st1 st2 a Hk H) as [v [V1 V2]]. rewrite V1, V2. eexists. split; reflexivity.
      + apply andb_true_iff in H. destruct H as [H Hop]. apply andb_true_iff in H. destruct H as [Ha Hb].
        destruct (atom_closed K st1 st2 a Hk Ha) as [x [X1 X2]]. destruct (atom_closed K st1 st2 b Hk Hb) as [y [Y1 Y2]].
        rewrite X1, X2, Y1, Y2. apply mem_str_in in Hop. unfold raw_ops in Hop. cbn [In] in Hop.
        repeat (destruct Hop as [Hop|Hop]; [subst op; eexists; split; reflexivity|]). contradiction.
  Qed.

  Lemma expr_closed K S st1 st2 here e : sim K S st1 st2 -> closed_expr K S e = true ->
    exists v, eval_expr env1 senv1 ext1 st1 here e = Ok v /\ eval_expr env2 senv2 ext2 st2 here e = Ok v.
  Proof.
    intros [G Hk Hs E1 E2] H. destruct e as [n|t|s| |sec|a b|a b|off]; cbn [closed_expr] in H; cbn [eval_expr].
    - eexists. split; reflexivity.
    - apply (raw_closed K); assumption.
    - destruct (Kok_mem K st1 st2 s Hk H) as [v [V1 V2]]. rewrite V1, V2. eexists. split; reflexivity.
    - eexists. split; reflexivity.
    - apply mem_str_in in H. destruct (Hs sec H) as [o Ho]. unfold sec_lookup.
      rewrite <- (geom_secs _ _ G), Ho. eexists. split; reflexivity.
    - apply andb_true_iff in H. destruct H as [Ha Hb].
      destruct (Kok_mem K st1 st2 a Hk Ha) as [x [X1 X2]]. destruct (Kok_mem K st1 st2 b Hk Hb) as [y [Y1 Y2]].
      rewrite X1, X2, Y1, Y2. eexists. split; reflexivity.
    - apply andb_true_iff in H. destruct H as [Ha Hb].
      destruct (Kok_mem K st1 st2 a Hk Ha) as [x [X1 X2]]. destruct (Kok_mem K st1 st2 b Hk Hb) as [y [Y1 Y2]].
      rewrite X1, X2, Y1, Y2. eexists. split; reflexivity.
    - eexists. split; reflexivity.
  Qed.

  (* ---------- assignments ---------- *)

  Lemma assign_geom ext final p sym r text st : geom (assign ext final p sym r text st) = geom st.
  Proof.
    unfold geom. rewrite assign_dot, assign_secs, assign_placed, assign_remaining, assign_discarded. reflexivity.
  Qed.

  Lemma assign_no_fwd ext final p sym r text st :
    no_fwd (l_errors st) -> no_fwd (l_errors (assign ext final p sym r text st)).
  Proof.
    intro H. unfold assign. destruct r as [v|e].
    - destruct (p && is_some (lookup sym ext))%bool; exact H.
    - destruct e; try (destruct (final && negb p)%bool; [apply no_fwd_add; [exact H | exact I] | exact H]).
      apply no_fwd_add; [exact H | exact I].
  Qed.

  Lemma assign_sim K S p sym e here st1 st2 :
    sim K S st1 st2 ->
    sim (after_assign K S p sym e) S
        (assign ext1 f1 p sym (eval_expr env1 senv1 ext1 st1 here e) (render_expr e) st1)
        (assign ext2 f2 p sym (eval_expr env2 senv2 ext2 st2 here e) (render_expr e) st2).
  Proof.
    intro H. unfold after_assign. destruct (negb p && closed_expr K S e)%bool eqn:C.
    - apply andb_true_iff in C. destruct C as [Hp Hc]. apply negb_true_iff in Hp. subst p.
      destruct (expr_closed K S st1 st2 here e H Hc) as [v [V1 V2]]. rewrite V1, V2, !assign_ok.
      apply sim_set. exact H.
    - eapply sim_frame; [exact H | apply assign_geom | apply assign_geom | |
                         apply assign_no_fwd, (sim_e1 H) | apply assign_no_fwd, (sim_e2 H)].
      intros x Hx. apply in_remove_str in Hx. destruct Hx as [Hin Hne].
      split; [exact Hin|]. split; apply assign_syms_other; congruence.
  Qed.

  (* ---------- inside an output section ---------- *)

  Definition ssim (K S : list string) (ss1 ss2 : sstate) : Prop :=
    s_off ss1 = s_off ss2 /\ s_contents ss1 = s_contents ss2 /\ sim K S (s_st ss1) (s_st ss2).

  Lemma ssim_intro K S ss1 ss2 :
    s_off ss1 = s_off ss2 -> s_contents ss1 = s_contents ss2 -> sim K S (s_st ss1) (s_st ss2) -> ssim K S ss1 ss2.
  Proof. intros H1 H2 H3. split; [exact H1 | split; [exact H2 | exact H3]]. Qed.

  Lemma sec_stmt_sim K S vma sub name ss1 ss2 s :
    ssim K S ss1 ss2 ->
    ssim (chk_sec_stmt S K s) S (exec_sec_stmt env1 senv1 ext1 f1 vma sub name ss1 s)
                                (exec_sec_stmt env2 senv2 ext2 f2 vma sub name ss2 s).
  Proof.
    intros [Ho [Hc H]].
    destruct s; cbn [chk_sec_stmt exec_sec_stmt]; try (apply ssim_intro; assumption).
    - (* SAssign *)
      apply ssim_intro; cbn [s_off s_contents s_st]; try assumption. rewrite Ho. apply assign_sim. exact H.
    - (* SAlign *)
      destruct (String.eqb sym "."); [|apply ssim_intro; assumption].
      apply ssim_intro; cbn [s_off s_contents s_st]; try assumption. rewrite Ho. reflexivity.
    - (* SDotAdd *)
      apply ssim_intro; cbn [s_off s_contents s_st]; try assumption. rewrite Ho. reflexivity.
    - (* SInput *)
      pose proof (sim_geom H) as G.
      rewrite <- (geom_remaining _ _ G), <- Ho, <- Hc.
      destruct (place vma sub name (filter (sel false path member sect wild) (l_remaining (s_st ss1))) (s_off ss1) []
                      (s_contents ss1)) as [[off' pls] c].
      apply ssim_intro; cbn [s_off s_contents s_st]; try reflexivity.
      destruct H as [_ Hk Hs E1 E2]. constructor; cbn [l_secs l_errors]; [ | | exact Hs | exact E1 | exact E2].
      + unfold geom in *. cbn [l_dot l_secs l_placed l_remaining l_discarded]. inversion G. reflexivity.
      + intros x Hx. destruct (Hk x Hx) as [v [V1 V2]]. exists v. split; [rewrite <- V1 | rewrite <- V2]; reflexivity.
  Qed.

  Lemma sec_fold_sim S vma sub name body : forall K ss1 ss2,
    ssim K S ss1 ss2 ->
    ssim (fold_left (chk_sec_stmt S) body K) S
         (fold_left (exec_sec_stmt env1 senv1 ext1 f1 vma sub name) body ss1)
         (fold_left (exec_sec_stmt env2 senv2 ext2 f2 vma sub name) body ss2).
  Proof.
    induction body as [|s body IH]; intros K ss1 ss2 H; [exact H|].
    cbn [fold_left]. apply IH. apply sec_stmt_sim. exact H.
  Qed.

  (* ---------- an output section ---------- *)

  Lemma outsec_sim K S name addr at_ noload sub body K' S' st1 st2 :
    chk_top K S (SOutSec name addr at_ noload sub body) = Some (K', S') ->
    sim K S st1 st2 ->
    sim K' S' (exec_outsec env1 senv1 ext1 f1 name addr at_ noload sub body st1)
              (exec_outsec env2 senv2 ext2 f2 name addr at_ noload sub body st2).
  Proof.
    cbn [chk_top]. intros Hchk H.
    destruct (match addr with Some e => closed_expr K S e | None => true end &&
              match at_ with Some s => mem_str s (fold_left (chk_sec_stmt S) body K) | None => true end)%bool eqn:C;
      [|discriminate].
    inversion Hchk; subst K' S'. clear Hchk.
    apply andb_true_iff in C. destruct C as [Ca Cl].
    pose proof (sim_geom H) as G.
    assert (Hv : exists vma, outsec_vma env1 senv1 ext1 addr sub body st1 = Ok vma /\
                             outsec_vma env2 senv2 ext2 addr sub body st2 = Ok vma).
    { unfold outsec_vma. destruct addr as [e|].
      - rewrite <- (geom_dot _ _ G). apply (expr_closed K S); assumption.
      - rewrite <- (geom_dot _ _ G), <- (geom_remaining _ _ G). eexists. split; reflexivity. }
    destruct Hv as [vma [V1 V2]].
    destruct (exec_outsec_ok env1 senv1 ext1 f1 name addr at_ noload sub body st1 vma V1)
      as (D1 & Y1 & _ & C1 & P1 & R1 & X1 & Er1).
    destruct (exec_outsec_ok env2 senv2 ext2 f2 name addr at_ noload sub body st2 vma V2)
      as (D2 & Y2 & _ & C2 & P2 & R2 & X2 & Er2).
    assert (Hb : ssim (fold_left (chk_sec_stmt S) body K) S
                      (outsec_body env1 senv1 ext1 f1 name sub body vma st1)
                      (outsec_body env2 senv2 ext2 f2 name sub body vma st2)).
    { unfold outsec_body. apply sec_fold_sim. apply ssim_intro; [reflexivity | reflexivity | exact H]. }
    set (ss1 := outsec_body env1 senv1 ext1 f1 name sub body vma st1) in *.
    set (ss2 := outsec_body env2 senv2 ext2 f2 name sub body vma st2) in *.
    set (K' := fold_left (chk_sec_stmt S) body K) in *.
    destruct Hb as [Ho [Hc [Gb Hk Hs E1 E2]]].
    assert (Hlma : match at_ with Some s => sym_lookup s (s_st ss1) env1 ext1 | None => None end =
                   match at_ with Some s => sym_lookup s (s_st ss2) env2 ext2 | None => None end).
    { destruct at_ as [s|]; [|reflexivity]. destruct (Kok_mem K' _ _ s Hk Cl) as [v [A1 A2]]. rewrite A1, A2. reflexivity. }
    constructor.
    - unfold geom. rewrite D1, D2, C1, C2, P1, P2, R1, R2, X1, X2, Ho, Hc, Hlma.
      rewrite (geom_secs _ _ G), (geom_placed _ _ Gb), (geom_remaining _ _ Gb), (geom_discarded _ _ Gb). reflexivity.
    - intros x Hx. destruct (Hk x Hx) as [v [A1 A2]]. exists v.
      split; [rewrite <- A1 | rewrite <- A2]; apply sym_lookup_eq; [rewrite Y1 | rewrite Y2]; reflexivity.
    - intros n [Hn|Hn].
      + subst n. rewrite C1. apply find_sec_snoc_some. reflexivity.
      + destruct (Hs n Hn) as [o Hfo]. exists o. rewrite C1. apply find_sec_app.
        unfold ss1, outsec_body in Hfo. rewrite sec_fold_secs in Hfo. exact Hfo.
    - destruct Er1 as [Er|Er]; rewrite Er; [exact E1 | apply no_fwd_add; [exact E1 | exact I]].
    - destruct Er2 as [Er|Er]; rewrite Er; [exact E2 | apply no_fwd_add; [exact E2 | exact I]].
  Qed.

  (* ---------- top-level statements ---------- *)

  Lemma set_sym_geom s v p st : geom (set_sym s v p st) = geom st.
  Proof. reflexivity. Qed.

  Lemma add_err_geom e st : geom (add_err e st) = geom st.
  Proof. reflexivity. Qed.

  Lemma top_sim K S s K' S' st1 st2 :
    chk_top K S s = Some (K', S') -> sim K S st1 st2 -> sim K' S' (top1 st1 s) (top2 st2 s).
  Proof.
    intros Hchk H. pose proof (sim_geom H) as G.
    destruct s; try (cbn [chk_top] in Hchk; inversion Hchk; subst K' S'; exact H).
    - (* SAssign *)
      cbn [chk_top] in Hchk. cbn [exec_top_stmt]. destruct (String.eqb sym ".").
      + destruct (closed_expr K S e) eqn:C; [|discriminate]. inversion Hchk; subst K' S'.
        rewrite <- (geom_dot _ _ G).
        destruct (expr_closed K S st1 st2 (l_dot st1) e H C) as [v [V1 V2]]. rewrite V1, V2.
        apply sim_set_dot. exact H.
      + inversion Hchk; subst K' S'. rewrite <- (geom_dot _ _ G). apply assign_sim. exact H.
    - (* SAlign *)
      cbn [chk_top] in Hchk. inversion Hchk; subst K' S'. cbn [exec_top_stmt]. destruct (String.eqb sym ".").
      + rewrite <- (geom_dot _ _ G). apply sim_set_dot. exact H.
      + destruct (mem_str sym K) eqn:M.
        * destruct (Kok_mem K st1 st2 sym (sim_K H) M) as [v [V1 V2]]. rewrite V1, V2.
          apply (sim_weaken (sym :: K)); [intros x Hx; right; exact Hx|]. apply sim_set. exact H.
        * eapply sim_frame; [exact H | | | | |].
          -- destruct (sym_lookup sym st1 env1 ext1); reflexivity.
          -- destruct (sym_lookup sym st2 env2 ext2); reflexivity.
          -- intros x Hx. split; [exact Hx|].
             assert (Hne : sym <> x). { intro E. subst x. apply mem_str_in in Hx. congruence. }
             split; [destruct (sym_lookup sym st1 env1 ext1) | destruct (sym_lookup sym st2 env2 ext2)];
               try reflexivity; apply lookup_set_sym_other; exact Hne.
          -- destruct (sym_lookup sym st1 env1 ext1); apply (sim_e1 H).
          -- destruct (sym_lookup sym st2 env2 ext2); apply (sim_e2 H).
    - (* SMaxSelf *)
      cbn [chk_top] in Hchk. inversion Hchk; subst K' S'. cbn [exec_top_stmt].
      destruct (mem_str sym K && mem_str other K)%bool eqn:M.
      + apply andb_true_iff in M. destruct M as [Ma Mb].
        destruct (Kok_mem K st1 st2 sym (sim_K H) Ma) as [a [A1 A2]].
        destruct (Kok_mem K st1 st2 other (sim_K H) Mb) as [b [B1 B2]]. rewrite A1, A2, B1, B2.
        apply (sim_weaken (sym :: K)); [intros x Hx; right; exact Hx|]. apply sim_set. exact H.
      + eapply sim_frame; [exact H | | | | |].
        * destruct (sym_lookup sym st1 env1 ext1); [destruct (sym_lookup other st1 env1 ext1)|];
            try reflexivity; destruct f1; reflexivity.
        * destruct (sym_lookup sym st2 env2 ext2); [destruct (sym_lookup other st2 env2 ext2)|];
            try reflexivity; destruct f2; reflexivity.
        * intros x Hx. apply in_remove_str in Hx. destruct Hx as [Hin Hne]. split; [exact Hin|].
          assert (Hne' : sym <> x) by congruence.
          split; [destruct (sym_lookup sym st1 env1 ext1); [destruct (sym_lookup other st1 env1 ext1)|];
                    try (destruct f1; reflexivity)
                 | destruct (sym_lookup sym st2 env2 ext2); [destruct (sym_lookup other st2 env2 ext2)|];
                    try (destruct f2; reflexivity)];
            apply lookup_set_sym_other; exact Hne'.
        * destruct (sym_lookup sym st1 env1 ext1); [destruct (sym_lookup other st1 env1 ext1)|];
            try apply (sim_e1 H);
            (destruct f1; [apply no_fwd_add; [apply (sim_e1 H) | exact I] | apply (sim_e1 H)]).
        * destruct (sym_lookup sym st2 env2 ext2); [destruct (sym_lookup other st2 env2 ext2)|];
            try apply (sim_e2 H);
            (destruct f2; [apply no_fwd_add; [apply (sim_e2 H) | exact I] | apply (sim_e2 H)]).
    - (* SRomAdd *)
      cbn [chk_top] in Hchk. inversion Hchk; subst K' S'. cbn [exec_top_stmt].
      destruct (mem_str "__romPos" K && mem_str sec S)%bool eqn:M.
      + apply andb_true_iff in M. destruct M as [Ma Mb].
        destruct (Kok_mem K st1 st2 "__romPos"%string (sim_K H) Ma) as [a [A1 A2]].
        apply mem_str_in in Mb. destruct (sim_S H sec Mb) as [o Ho].
        unfold sec_lookup. rewrite <- (geom_secs _ _ G), Ho, A1, A2.
        apply (sim_weaken ("__romPos"%string :: K)); [intros x Hx; right; exact Hx|]. apply sim_set. exact H.
      + eapply sim_frame; [exact H | | | | |].
        * destruct (sym_lookup "__romPos" st1 env1 ext1); [destruct (sec_lookup sec st1 senv1)|];
            try reflexivity; destruct f1; reflexivity.
        * destruct (sym_lookup "__romPos" st2 env2 ext2); [destruct (sec_lookup sec st2 senv2)|];
            try reflexivity; destruct f2; reflexivity.
        * intros x Hx. apply in_remove_str in Hx. destruct Hx as [Hin Hne]. split; [exact Hin|].
          assert (Hne' : "__romPos"%string <> x) by congruence.
          split; [destruct (sym_lookup "__romPos" st1 env1 ext1); [destruct (sec_lookup sec st1 senv1)|];
                    try (destruct f1; reflexivity)
                 | destruct (sym_lookup "__romPos" st2 env2 ext2); [destruct (sec_lookup sec st2 senv2)|];
                    try (destruct f2; reflexivity)];
            apply lookup_set_sym_other; exact Hne'.
        * destruct (sym_lookup "__romPos" st1 env1 ext1); [destruct (sec_lookup sec st1 senv1)|];
            try apply (sim_e1 H);
            (destruct f1; [apply no_fwd_add; [apply (sim_e1 H) | exact I] | apply (sim_e1 H)]).
        * destruct (sym_lookup "__romPos" st2 env2 ext2); [destruct (sec_lookup sec st2 senv2)|];
            try apply (sim_e2 H);
            (destruct f2; [apply no_fwd_add; [apply (sim_e2 H) | exact I] | apply (sim_e2 H)]).
    - (* SOutSec *)
      cbn [exec_top_stmt]. eapply outsec_sim; eassumption.
    - (* SSingleEntry *)
      cbn [chk_top] in Hchk. inversion Hchk; subst K' S'. cbn [exec_top_stmt].
      rewrite <- (geom_remaining _ _ G).
      destruct (place 0 None sect (filter (sel true "" None sect false) (l_remaining st1)) 0 [] false) as [[off' pls] c].
      destruct H as [_ Hk Hs E1 E2]. constructor; cbn [l_secs l_errors]; [ | | | exact E1 | exact E2].
      + unfold geom in *. cbn [l_dot l_secs l_placed l_remaining l_discarded]. inversion G. reflexivity.
      + intros x Hx. destruct (Hk x Hx) as [v [V1 V2]]. exists v. split; [rewrite <- V1 | rewrite <- V2]; reflexivity.
      + intros n [Hn|Hn].
        * subst n. apply find_sec_snoc_some. reflexivity.
        * destruct (Hs n Hn) as [o Ho]. exists o. apply find_sec_app. exact Ho.
    - (* SDiscard *)
      cbn [chk_top] in Hchk. inversion Hchk; subst K' S'. cbn [exec_top_stmt].
      destruct H as [_ Hk Hs E1 E2]. constructor; cbn [l_secs l_errors]; [ | | exact Hs | exact E1 | exact E2].
      + unfold geom in *. cbn [l_dot l_secs l_placed l_remaining l_discarded]. inversion G. reflexivity.
      + intros x Hx. destruct (Hk x Hx) as [v [V1 V2]]. exists v. split; [rewrite <- V1 | rewrite <- V2]; reflexivity.
    - (* SAssert *)
      cbn [chk_top] in Hchk. inversion Hchk; subst K' S'. cbn [exec_top_stmt].
      eapply sim_frame; [exact H | | | | |].
      + destruct (eval_raw env1 ext1 st1 cond) as [v|e]; [destruct (v =? 0); reflexivity|].
        destruct e; destruct f1; reflexivity.
      + destruct (eval_raw env2 ext2 st2 cond) as [v|e]; [destruct (v =? 0); reflexivity|].
        destruct e; destruct f2; reflexivity.
      + intros x Hx. split; [exact Hx|].
        split; [destruct (eval_raw env1 ext1 st1 cond) as [v|e]; [destruct (v =? 0); reflexivity|];
                destruct e; destruct f1; reflexivity
               | destruct (eval_raw env2 ext2 st2 cond) as [v|e]; [destruct (v =? 0); reflexivity|];
                destruct e; destruct f2; reflexivity].
      + destruct (eval_raw env1 ext1 st1 cond) as [v|e];
          [destruct (v =? 0); [apply no_fwd_add; [apply (sim_e1 H) | exact I] | apply (sim_e1 H)]|].
        destruct e; destruct f1; try apply (sim_e1 H); apply no_fwd_add; try apply (sim_e1 H); exact I.
      + destruct (eval_raw env2 ext2 st2 cond) as [v|e];
          [destruct (v =? 0); [apply no_fwd_add; [apply (sim_e2 H) | exact I] | apply (sim_e2 H)]|].
        destruct e; destruct f2; try apply (sim_e2 H); apply no_fwd_add; try apply (sim_e2 H); exact I.
  Qed.

  Lemma run_sim l : forall K S K' S' st1 st2,
    chk_list K S l = Some (K', S') -> sim K S st1 st2 -> sim K' S' (run1 l st1) (run2 l st2).
  Proof.
    induction l as [|s l IH]; intros K S K' S' st1 st2 Hchk H.
    - cbn [chk_list] in Hchk. inversion Hchk; subst. exact H.
    - cbn [chk_list] in Hchk. destruct (chk_top K S s) as [[K1 S1]|] eqn:C; [|discriminate].
      rewrite !run_cons. eapply IH; [exact Hchk|]. eapply top_sim; eassumption.
  Qed.

  Lemma sim_init R u : agree_on R env1 ext1 env2 ext2 -> sim R [] (init_state u) (init_state u).
  Proof.
    intro HR. constructor.
    - reflexivity.
    - intros x Hx. destruct (HR x Hx) as [v [V1 V2]]. exists v. rewrite !sym_lookup_init. split; assumption.
    - intros n [].
    - constructor.
    - constructor.
  Qed.

  (* the stability theorem for two arbitrary passes *)
  Theorem passes_agree R script u :
    script_stable R script = true -> agree_on R env1 ext1 env2 ext2 ->
    let st1 := exec_script env1 senv1 ext1 f1 script (init_state u) in
    let st2 := exec_script env2 senv2 ext2 f2 script (init_state u) in
    geom st1 = geom st2 /\
    (forall x, In x (stable_syms R script) ->
               exists v, sym_lookup x st1 env1 ext1 = Some v /\ sym_lookup x st2 env2 ext2 = Some v) /\
    (forall n, ~ In (LForwardRef n) (l_errors st1)) /\ (forall n, ~ In (LForwardRef n) (l_errors st2)).
  Proof.
    intros Hst HR st1 st2. unfold st1, st2. rewrite !exec_script_flat.
    unfold script_stable in Hst. unfold stable_syms.
    destruct (chk_list R [] (flat_stmts script)) as [[K S]|] eqn:C; [|discriminate].
    destruct (run_sim _ _ _ _ _ _ _ C (sim_init R u HR)) as [G Hk Hs E1 E2].
    split; [exact G|]. split; [exact Hk|]. split; intro n; apply no_fwd_not_in; assumption.
  Qed.
End Stable.

(* ====================================================================== *)
(* the passes of layout                                                    *)
(* ====================================================================== *)

Lemma lookup_app_some {A} x (l m : list (string * A)) v : lookup x l = Some v -> lookup x (l ++ m) = Some v.
Proof.
  induction l as [|[k w] l IH]; cbn [lookup app]; [discriminate|].
  destruct (String.eqb x k); [auto | exact IH].
Qed.

Lemma outside_agree R script u ext0 env1 senv1 ext1 fa env2 senv2 ext2 fb m1 m2 :
  outside_ok R script ext0 = true ->
  agree_on R (l_syms (exec_script env1 senv1 ext1 fa script (init_state u))) (ext0 ++ m1)
             (l_syms (exec_script env2 senv2 ext2 fb script (init_state u))) (ext0 ++ m2).
Proof.
  intros H x Hx. unfold outside_ok in H. rewrite forallb_forall in H. specialize (H x Hx).
  apply andb_true_iff in H. destruct H as [Hd Hn]. apply negb_true_iff in Hn.
  destruct (lookup x ext0) as [v|] eqn:L; [|discriminate]. exists v.
  unfold outer_lookup. rewrite !exec_script_flat, !run_syms by exact Hn. cbn [init_state l_syms lookup].
  split; apply lookup_app_some; exact L.
Qed.

(* the last pass of layout against the second one *)
Theorem layout_fixpoint R script u ext0 :
  script_stable R script = true -> outside_ok R script ext0 = true ->
  let p1 := exec_script [] [] ext0 false script (init_state u) in
  let ext2 := (ext0 ++ markers_of p1)%list in
  let p2 := exec_script (l_syms p1) (l_secs p1) ext2 false script (init_state u) in
  let ext3 := (ext0 ++ markers_of p2)%list in
  let st' := layout script u ext0 in
  geom p2 = geom st' /\
  (forall x, In x (stable_syms R script) ->
             exists v, sym_lookup x p2 (l_syms p1) ext2 = Some v /\ sym_lookup x st' (l_syms p2) ext3 = Some v) /\
  (forall n, ~ In (LForwardRef n) (l_errors p2)) /\ (forall n, ~ In (LForwardRef n) (l_errors st')).
Proof.
  intros Hst Hout p1 ext2 p2 ext3 st'. unfold st', layout. fold p1. fold ext2. fold p2. fold ext3.
  apply (passes_agree (l_syms p1) (l_secs p1) ext2 false (l_syms p2) (l_secs p2) ext3 true R script u Hst).
  unfold p1, p2, ext2, ext3. apply outside_agree. exact Hout.
Qed.

(* ====================================================================== *)
(* C03: the VRAM symbol is the start of the section in the final state      *)
(* ====================================================================== *)

Lemma VramChain_in sty senv st' segs seg : forall dt,
  VramChain sty senv st' dt segs -> In seg segs ->
  exists o1 o2,
    find_sec (alloc_name seg) (l_secs st') = Some o1 /\
    find_sec (noload_name seg) (l_secs st') = Some o2 /\
    os_vma o1 + os_size o1 <= os_vma o2 /\ 0 <= os_size o1 /\ 0 <= os_size o2 /\
    let ve := align_up (os_vma o2 + os_size o2) (align_z (segment_end_align seg)) in
    val st' (segment_vram_end sty (sg_name seg)) = Some ve /\
    (forall v, val st' (segment_vram_start sty (sg_name seg)) = Some v ->
               val st' (segment_vram_size sty (sg_name seg)) = Some (ve - v)) /\
    (forall o, find_sec (alloc_name seg) senv = Some o ->
               val st' (segment_vram_start sty (sg_name seg)) = Some (os_vma o)).
Proof.
  induction segs as [|s rest IH]; intros dt H Hin; [contradiction|].
  cbn [VramChain] in H. cbv zeta in H.
  destruct H as (o1 & o2 & A2 & F1 & F2 & N1 & Z1 & N2 & C2 & Z2 & V2 & L2 & VE & VZ & VS & DS & Hrest).
  destruct Hin as [Hin|Hin].
  - subst s. exists o1, o2. cbv zeta. repeat (split; [assumption|]). assumption.
  - eapply IH; eassumption.
Qed.

Theorem vram_is_section_start_layout R d rt w u ext0 seg :
  gen_normal d rt = Ok w -> doc_link_wf d rt = true ->
  script_stable R (wo_script w) = true -> outside_ok R (wo_script w) ext0 = true ->
  Forall (fun x => 0 <= u_size x) u ->
  let sty := linker_symbols_style (doc_settings d) in
  let st' := layout (wo_script w) u ext0 in
  In seg (included rt (doc_segments d)) ->
  exists o1 o2,
    find_sec (alloc_name seg) (l_secs st') = Some o1 /\
    find_sec (noload_name seg) (l_secs st') = Some o2 /\
    os_vma o1 + os_size o1 <= os_vma o2 /\ 0 <= os_size o1 /\ 0 <= os_size o2 /\
    let ve := align_up (os_vma o2 + os_size o2) (align_z (segment_end_align seg)) in
    val st' (segment_vram_start sty (sg_name seg)) = Some (os_vma o1) /\
    val st' (segment_vram_end sty (sg_name seg)) = Some ve /\
    val st' (segment_vram_size sty (sg_name seg)) = Some (ve - os_vma o1).
Proof.
  intros Hg Hwf Hst Hout Hu sty st' Hin.
  destruct (layout_fixpoint R (wo_script w) u ext0 Hst Hout) as [G [_ [_ Hnf]]]. cbv zeta in G, Hnf.
  destruct (document_vram_layout d rt w u ext0 Hg Hwf Hu) as [Hchain _].
  { intros s _. apply Hnf. }
  cbv zeta in Hchain. fold sty st' in Hchain.
  destruct (VramChain_in _ _ _ _ seg _ Hchain Hin) as (o1 & o2 & F1 & F2 & L & Z1 & Z2 & VE & VZ & VS).
  cbv zeta in VE, VZ, VS.
  exists o1, o2. repeat (split; [assumption|]). cbv zeta.
  assert (Hs : val st' (segment_vram_start sty (sg_name seg)) = Some (os_vma o1)).
  { apply VS. rewrite (geom_secs _ _ G). exact F1. }
  split; [exact Hs|]. split; [exact VE|]. apply VZ. exact Hs.
Qed.

(* the target statement *)
Theorem vram_is_section_start R d rt w u ext0 seg o :
  gen_normal d rt = Ok w -> doc_link_wf d rt = true ->
  script_stable R (wo_script w) = true -> outside_ok R (wo_script w) ext0 = true ->
  Forall (fun x => 0 <= u_size x) u ->
  let sty := linker_symbols_style (doc_settings d) in
  let st' := layout (wo_script w) u ext0 in
  In seg (included rt (doc_segments d)) ->
  find_sec (alloc_name seg) (l_secs st') = Some o ->
  val st' (segment_vram_start sty (sg_name seg)) = Some (os_vma o).
Proof.
  intros Hg Hwf Hst Hout Hu sty st' Hin Ho.
  destruct (vram_is_section_start_layout R d rt w u ext0 seg Hg Hwf Hst Hout Hu Hin)
    as (o1 & o2 & F1 & _ & _ & _ & _ & Hs & _).
  fold st' in F1. rewrite Ho in F1. inversion F1; subst o1. exact Hs.
Qed.

(* ====================================================================== *)
(* the checker: generic facts                                              *)
(* ====================================================================== *)

Lemma chk_list_app K S a : forall b,
  chk_list K S (a ++ b) =
  match chk_list K S a with Some (K', S') => chk_list K' S' b | None => None end.
Proof.
  revert K S. induction a as [|s a IH]; intros K S b; [reflexivity|].
  cbn [app chk_list]. destruct (chk_top K S s) as [[K1 S1]|]; [apply IH | reflexivity].
Qed.

(* top-level statements the checker never rejects *)
Definition safe_stmt (s : stmt) : bool :=
  match s with
  | SAssign _ _ _ sym _ => negb (String.eqb sym ".")
  | SOutSec _ addr at_ _ _ _ => negb (is_some addr) && negb (is_some at_)
  | _ => true
  end.

Definition safe (s : stmt) : Prop := safe_stmt s = true.

Lemma after_assign_frame K S p sym e x : In x K -> sym <> x -> In x (after_assign K S p sym e).
Proof.
  intros Hx Hne. unfold after_assign. destruct (negb p && closed_expr K S e)%bool.
  - right. exact Hx.
  - apply in_remove_str. split; [exact Hx | congruence].
Qed.

Lemma chk_sec_frame S K s x : In x K -> assigns x s = false -> In x (chk_sec_stmt S K s).
Proof.
  intros Hx Ha. destruct s; cbn [chk_sec_stmt]; try exact Hx.
  apply after_assign_frame; [exact Hx|]. cbn [assigns] in Ha. apply String.eqb_neq. exact Ha.
Qed.

Lemma chk_sec_fold_frame S body x : forall K,
  In x K -> existsb (assigns x) body = false -> In x (fold_left (chk_sec_stmt S) body K).
Proof.
  induction body as [|s body IH]; intros K Hx Ha; [exact Hx|].
  cbn [existsb] in Ha. apply orb_false_iff in Ha. destruct Ha as [Ha1 Ha2].
  cbn [fold_left]. apply IH; [|exact Ha2]. apply chk_sec_frame; assumption.
Qed.

Lemma chk_top_frame K S s K' S' x :
  chk_top K S s = Some (K', S') -> In x K -> assigns x s = false -> In x K'.
Proof.
  intros H Hx Ha. destruct s; cbn [chk_top] in H; try (inversion H; subst; exact Hx).
  - cbn [assigns] in Ha. destruct (String.eqb sym ".").
    + destruct (closed_expr K S e); inversion H; subst. exact Hx.
    + inversion H; subst. apply after_assign_frame; [exact Hx | apply String.eqb_neq; exact Ha].
  - cbn [assigns] in Ha. destruct (_ && _)%bool; inversion H; subst; [exact Hx|].
    apply in_remove_str. split; [exact Hx|]. apply String.eqb_neq in Ha. congruence.
  - cbn [assigns] in Ha. destruct (_ && _)%bool; inversion H; subst; [exact Hx|].
    apply in_remove_str. split; [exact Hx|]. apply String.eqb_neq in Ha. congruence.
  - destruct (_ && _)%bool; inversion H; subst. cbn [assigns] in Ha. apply chk_sec_fold_frame; assumption.
Qed.

Lemma chk_top_incl K S s K' S' : chk_top K S s = Some (K', S') -> incl S S'.
Proof.
  intro H. destruct s; cbn [chk_top] in H; try (inversion H; subst; apply incl_refl).
  - destruct (String.eqb sym "."); [destruct (closed_expr K S e)|]; inversion H; subst; apply incl_refl.
  - destruct (_ && _)%bool; inversion H; subst. apply incl_tl, incl_refl.
  - inversion H; subst. apply incl_tl, incl_refl.
Qed.

Lemma chk_top_safe K S s : safe s -> exists K' S', chk_top K S s = Some (K', S').
Proof.
  unfold safe. intro H. destruct s; cbn [chk_top]; try (eexists _, _; reflexivity).
  - cbn [safe_stmt] in H. apply negb_true_iff in H. rewrite H. eexists _, _; reflexivity.
  - cbn [safe_stmt] in H. apply andb_true_iff in H. destruct H as [H1 H2].
    destruct addr; [discriminate|]. destruct at_; [discriminate|]. eexists _, _; reflexivity.
Qed.

(* ---------- Hoare-style composition ---------- *)

Definition passes (P : list string -> list string -> Prop) (l : list stmt)
           (Q : list string -> list string -> Prop) : Prop :=
  forall K S, P K S -> exists K' S', chk_list K S l = Some (K', S') /\ Q K' S'.

Lemma passes_nil (P : list string -> list string -> Prop) : passes P [] P.
Proof. intros K S H. exists K, S. split; [reflexivity | exact H]. Qed.

Lemma passes_app P Q R a b : passes P a Q -> passes Q b R -> passes P (a ++ b) R.
Proof.
  intros Ha Hb K S H. destruct (Ha K S H) as [K1 [S1 [E1 H1]]]. destruct (Hb K1 S1 H1) as [K2 [S2 [E2 H2]]].
  exists K2, S2. rewrite chk_list_app, E1. split; assumption.
Qed.

Lemma passes_weaken (P P' Q Q' : list string -> list string -> Prop) l :
  (forall K S, P' K S -> P K S) -> (forall K S, Q K S -> Q' K S) -> passes P l Q -> passes P' l Q'.
Proof.
  intros HP HQ H K S Hk. destruct (H K S (HP K S Hk)) as [K1 [S1 [E1 H1]]]. exists K1, S1. split; [exact E1 | auto].
Qed.

Lemma passes_one (P Q : list string -> list string -> Prop) s :
  (forall K S, P K S -> exists K' S', chk_top K S s = Some (K', S') /\ Q K' S') -> passes P [s] Q.
Proof.
  intros H K S Hk. destruct (H K S Hk) as [K1 [S1 [E1 H1]]]. exists K1, S1. cbn [chk_list]. rewrite E1.
  split; [reflexivity | exact H1].
Qed.

(* the invariant: the names of E are known, the sections of T exist *)
Definition Inv (E T K S : list string) : Prop := incl E K /\ incl T S.

Lemma passes_safe E T l :
  Forall safe l -> (forall x, In x E -> existsb (assigns x) l = false) ->
  passes (Inv E T) l (Inv E T).
Proof.
  induction l as [|s l IH]; intros Hs Hf; [apply passes_nil|].
  inversion Hs as [|s' l' Hs1 Hs2]; subst s' l'.
  change (s :: l) with ([s] ++ l). apply (passes_app _ (Inv E T)).
  - apply passes_one. intros K S [HE HT]. destruct (chk_top_safe K S s Hs1) as [K1 [S1 E1]].
    exists K1, S1. split; [exact E1|]. split.
    + intros x Hx. apply (chk_top_frame K S s K1 S1 x E1 (HE x Hx)).
      specialize (Hf x Hx). cbn [existsb] in Hf. apply orb_false_iff in Hf. apply Hf.
    + intros n Hn. apply (chk_top_incl _ _ _ _ _ E1). apply HT. exact Hn.
  - apply IH; [exact Hs2|]. intros x Hx. specialize (Hf x Hx). cbn [existsb] in Hf. apply orb_false_iff in Hf. apply Hf.
Qed.

Lemma passes_Inv_weaken E T E' T' l (Q : list string -> list string -> Prop) :
  incl E E' -> incl T T' -> passes (Inv E T) l Q -> passes (Inv E' T') l Q.
Proof.
  intros HE HT. apply passes_weaken; [|auto]. intros K S [H1 H2].
  split; eapply incl_tran; eassumption.
Qed.

(* the pair "__romPos = ALIGN(__romPos, a); . = ALIGN(., a);" *)
Lemma passes_align_pair E T a : passes (Inv E T) (align_pair a) (Inv E T).
Proof.
  destruct a as [n|]; [|apply passes_nil]. intros K S H. exists K, S. split; [reflexivity | exact H].
Qed.

(* "sym = x" for a known x: sym becomes known *)
Lemma passes_assign_sym E T sym x :
  In x E -> sym <> "."%string -> passes (Inv E T) [linker_symbol sym (ESym x)] (Inv (sym :: E) T).
Proof.
  intros Hx Hd. apply passes_one. intros K S [HE HT]. unfold linker_symbol. cbn [chk_top].
  apply String.eqb_neq in Hd. rewrite Hd. unfold after_assign. cbn [negb andb closed_expr].
  assert (M : mem_str x K = true) by (apply mem_str_in, HE, Hx). rewrite M.
  eexists _, _. split; [reflexivity|]. split; [|exact HT].
  intros y [Hy|Hy]; [left; exact Hy | right; apply HE; exact Hy].
Qed.

(* "__romPos += SIZEOF(sec)" for a section of this pass *)
Lemma passes_rom_add E T sec :
  In "__romPos"%string E -> In sec T -> passes (Inv E T) [SRomAdd sec] (Inv E T).
Proof.
  intros Hr Hs. apply passes_one. intros K S [HE HT]. cbn [chk_top].
  assert (M1 : mem_str "__romPos" K = true) by (apply mem_str_in, HE, Hr).
  assert (M2 : mem_str sec S = true) by (apply mem_str_in, HT, Hs).
  rewrite M1, M2. eexists _, _. split; [reflexivity|]. split; assumption.
Qed.

(* an output section whose address and load address read known names *)
Lemma passes_outsec E T name addr at_ nl sub body :
  (forall K S, incl E K -> match addr with Some e => closed_expr K S e | None => true end = true) ->
  match at_ with Some s => In s E | None => True end ->
  (forall x, In x E -> existsb (assigns x) body = false) ->
  passes (Inv E T) [SOutSec name addr at_ nl sub body] (Inv E (name :: T)).
Proof.
  intros Ha Hl Hf. apply passes_one. intros K S [HE HT]. cbn [chk_top]. rewrite (Ha K S HE).
  assert (HK' : incl E (fold_left (chk_sec_stmt S) body K)).
  { intros x Hx. apply chk_sec_fold_frame; [apply HE; exact Hx | apply Hf; exact Hx]. }
  assert (M : match at_ with Some s => mem_str s (fold_left (chk_sec_stmt S) body K) | None => true end = true).
  { destruct at_ as [s|]; [|reflexivity]. apply mem_str_in, HK', Hl. }
  rewrite M. eexists _, _. split; [reflexivity|]. split; [exact HK'|].
  intros n [Hn|Hn]; [left; exact Hn | right; apply HT; exact Hn].
Qed.

(* ---------- monotonicity of closedness ---------- *)

Lemma mem_str_incl K K' x : incl K K' -> mem_str x K = true -> mem_str x K' = true.
Proof. intros H Hx. apply mem_str_in. apply H. apply mem_str_in. exact Hx. Qed.

Lemma closed_raw_mono K K' t : incl K K' -> closed_raw K t = true -> closed_raw K' t = true.
Proof.
  intros H. unfold closed_raw, known_atom. destruct (defined_arg t) as [s|]; [apply mem_str_incl; exact H|].
  destruct (split_on " " t) as [|a [|op [|b [|c r]]]]; try discriminate.
  - intro Ha. apply orb_true_iff in Ha. apply orb_true_iff. destruct Ha as [Ha|Ha]; [left; exact Ha|].
    right. eapply mem_str_incl; eassumption.
  - intro Hc. apply andb_true_iff in Hc. destruct Hc as [Hc Hop]. apply andb_true_iff in Hc. destruct Hc as [Ha Hb].
    rewrite Hop, andb_true_r. apply andb_true_iff. split.
    + apply orb_true_iff in Ha. apply orb_true_iff. destruct Ha as [Ha|Ha]; [left; exact Ha|].
      right. eapply mem_str_incl; eassumption.
    + apply orb_true_iff in Hb. apply orb_true_iff. destruct Hb as [Hb|Hb]; [left; exact Hb|].
      right. eapply mem_str_incl; eassumption.
Qed.

(* ====================================================================== *)
(* the checker on the statements slinky generates                          *)
(* ====================================================================== *)

Lemma existsb_false_incl {A} (f : A -> bool) l m : incl m l -> existsb f l = false -> existsb f m = false.
Proof.
  intros Hi H. apply existsb_false_Forall. apply existsb_false_Forall in H. rewrite Forall_forall in *.
  intros x Hx. apply H, Hi, Hx.
Qed.

Ltac in_sub :=
  first [ assumption
        | match goal with
          | |- In _ (_ ++ _) => apply in_or_app; ((left; in_sub) || (right; in_sub))
          | |- In _ (_ :: _) => (left; reflexivity) || (right; in_sub)
          end ].

Ltac sub_incl := let y := fresh "y" in let Hy := fresh "Hy" in intros y Hy; in_sub.

Lemma rf_ex l : Forall (nf "__romPos") l -> existsb (assigns "__romPos") l = false.
Proof. apply existsb_false_Forall. Qed.

Lemma safe_linker sty sym e : style_name sty sym -> safe (linker_symbol sym e).
Proof.
  intro H. unfold safe, linker_symbol. cbn [safe_stmt]. apply negb_true_iff.
  apply (style_name_eqb sty); [exact H | reflexivity].
Qed.

Lemma safe_kind_start sty cfg seg nl : Forall safe (sections_kind_start sty cfg seg nl).
Proof.
  unfold sections_kind_start. destruct (kind_syms cfg); [|constructor].
  constructor; [apply (safe_linker sty); sn|]. constructor; [reflexivity | constructor].
Qed.

Lemma safe_sym_end_size sty a b c e :
  style_name sty b -> style_name sty c -> Forall safe (sym_end_size a b c e).
Proof.
  intros Hb Hc. unfold sym_end_size. constructor; [apply (safe_linker sty); exact Hb|].
  constructor; [apply (safe_linker sty); exact Hc | constructor].
Qed.

Lemma safe_kind_end sty cfg seg nl : Forall safe (sections_kind_end sty cfg seg nl).
Proof.
  unfold sections_kind_end. destruct (kind_syms cfg); [|constructor].
  constructor; [reflexivity|]. apply (safe_sym_end_size sty); sn.
Qed.

Lemma safe_blank : Forall safe [SBlank].
Proof. constructor; [reflexivity | constructor]. Qed.

Lemma backward_seg_addr R prev sty seg E K S :
  backward_seg R prev seg = true -> incl R E -> (forall f, In f prev -> In (segment_vram_end sty f) E) ->
  incl E K ->
  match segment_addr sty seg with Some e => closed_expr K S e | None => true end = true.
Proof.
  unfold backward_seg, segment_addr. intros H HR Hprev HK.
  apply andb_true_iff in H. destruct H as [Hc Ha].
  destruct (sg_fixed_vram seg); [reflexivity|]. destruct (sg_fixed_symbol seg) as [t|].
  - cbn [closed_expr]. eapply closed_raw_mono; [|exact Ha]. eapply incl_tran; eassumption.
  - destruct (sg_follows_segment seg) as [f|].
    + cbn [closed_expr]. apply mem_str_in. apply HK, Hprev. apply mem_str_in. exact Ha.
    + destruct (sg_vram_class seg); [discriminate|]. reflexivity.
Qed.

Lemma passes_assign_dot E T sym :
  sym <> "."%string -> passes (Inv E T) [linker_symbol sym EDot] (Inv (sym :: E) T).
Proof.
  intros Hd. apply passes_one. intros K S [HE HT]. unfold linker_symbol. cbn [chk_top].
  apply String.eqb_neq in Hd. rewrite Hd. unfold after_assign. cbn [negb andb closed_expr].
  eexists _, _. split; [reflexivity|]. split; [|exact HT].
  intros y [Hy|Hy]; [left; exact Hy | right; apply HE; exact Hy].
Qed.

Section GenStable.
  Variables (rt : runtime) (stg : settings) (classes : list vram_class) (R : list string).
  Let sty := linker_symbols_style stg.
  Notation E0 := ("__romPos"%string :: R).

  Lemma stable_segment seg ws s ws' E :
    add_segment rt stg cfg_normal classes seg ws = Ok (s, ws') -> should_emit rt (sg_conds seg) = true ->
    sg_vram_class seg = None ->
    (forall K S, incl E K -> match segment_addr sty seg with Some e => closed_expr K S e | None => true end = true) ->
    rom_names_distinct sty (sg_name seg) s = true -> vram_names_distinct sty (sg_name seg) s = true ->
    In "__romPos"%string E ->
    (forall x, In x E -> x <> "__romPos"%string -> existsb (assigns x) s = false) ->
    passes (Inv E []) s (Inv (segment_vram_end sty (sg_name seg) :: E) []).
  Proof.
    intros H Hc Hcls Haddr Hd Hdv Hrom HE. apply add_segment_inv in H.
    destruct H as [[Hc' _] | [_ [cls [ws1 [s1 [ws2 [s2 [Ec [E1 [E2 E']]]]]]]]]]; [congruence|].
    unfold class_part in Ec. rewrite Hcls in Ec. apply ok_inj in Ec. inversion Ec; subst cls ws1. clear Ec.
    destruct (write_segment_inv _ _ _ _ _ _ _ _ _ E1) as [body1 [G1 Es1]].
    destruct (write_segment_inv _ _ _ _ _ _ _ _ _ E2) as [body2 [G2 Es2]].
    fold sty in Es1, Es2.
    set (name := sg_name seg) in *.
    set (RS := segment_rom_start sty name) in *.
    set (VE := segment_vram_end sty name) in *.
    set (romstart := linker_symbol RS (ESym "__romPos")).
    set (vram := linker_symbol (segment_vram_start sty name) (EAddr ("." ++ name)%string)).
    set (vend := linker_symbol VE EDot).
    set (ks1 := sections_kind_start sty cfg_normal seg false) in *.
    set (ke1 := sections_kind_end sty cfg_normal seg false) in *.
    set (out1 := outsec_of stg seg false body1) in *.
    set (footrest := ([linker_symbol (segment_vram_size sty name) (EAbsSub VE (segment_vram_start sty name))] ++
                      sym_end_size RS (segment_rom_end sty name) (segment_rom_size sty name) (ESym "__romPos") ++
                      [SBlank])%list).
    set (mid := (ke1 ++ [SBlank] ++ s2 ++ [SBlank])%list).
    set (pre := (align_pair (segment_start_align seg) ++ [romstart] ++ [vram] ++ ks1 ++ [out1] ++ mid ++
                 [SRomAdd (alloc_name seg)] ++ align_pair (segment_end_align seg))%list).
    assert (Es : s = (align_pair (segment_start_align seg) ++ [romstart] ++ [vram] ++ ks1 ++ [out1] ++ mid ++
                      [SRomAdd (alloc_name seg)] ++ align_pair (segment_end_align seg) ++ [vend] ++ footrest)%list).
    { subst s s1. unfold seg_head, seg_foot, mid, footrest, align_pair, alloc_name, sym_end_size. cbv zeta.
      fold sty name RS VE. rewrite Hcls. fold romstart vram vend. cbn [app]. repeat rewrite <- app_assoc. cbn [app].
      repeat rewrite <- app_assoc. cbn [app]. reflexivity. }
    clear E'.
    (* nothing after its definition assigns the ROM start symbol *)
    assert (Hafter : existsb (assigns RS) ([vram] ++ ks1 ++ [out1] ++ mid ++ [SRomAdd (alloc_name seg)] ++
                                           align_pair (segment_end_align seg) ++ [vend] ++ footrest) = false).
    { unfold rom_names_distinct in Hd. apply andb_true_iff in Hd. destruct Hd as [Hd _].
      apply andb_true_iff in Hd. destruct Hd as [Hd _]. fold name RS in Hd. rewrite Es in Hd.
      change ([romstart] ++ ?l)%list with (romstart :: l) in Hd.
      apply defined_once_split in Hd; [apply Hd|]. unfold romstart, linker_symbol. cbn [assigns]. apply String.eqb_refl. }
    (* nor the VRAM end symbol *)
    assert (Hafter2 : existsb (assigns VE) footrest = false).
    { unfold vram_names_distinct in Hdv. apply andb_true_iff in Hdv. destruct Hdv as [Hdv _].
      apply andb_true_iff in Hdv. destruct Hdv as [_ Hdv]. fold name VE in Hdv. rewrite Es in Hdv.
      assert (Er : (align_pair (segment_start_align seg) ++ [romstart] ++ [vram] ++ ks1 ++ [out1] ++ mid ++
                    [SRomAdd (alloc_name seg)] ++ align_pair (segment_end_align seg) ++ [vend] ++ footrest =
                    pre ++ vend :: footrest)%list).
      { unfold pre. repeat rewrite <- app_assoc. reflexivity. }
      rewrite Er in Hdv.
      apply defined_once_split in Hdv; [apply Hdv|]. unfold vend, linker_symbol. cbn [assigns]. apply String.eqb_refl. }
    assert (HRS : RS <> "."%string) by apply segment_rom_start_not_dot.
    assert (HVE : VE <> "."%string) by (apply (style_name_neq sty); [sn | reflexivity]).
    assert (Hend : ends_ok "__romPos" = false) by reflexivity.
    rewrite Es in HE |- *. clear Es.
    (* frames *)
    assert (Fr0 : forall piece, incl piece ([vram] ++ ks1 ++ [out1] ++ mid ++ [SRomAdd (alloc_name seg)] ++
                                           align_pair (segment_end_align seg) ++ [vend] ++ footrest)%list ->
                 existsb (assigns "__romPos") piece = false ->
                 forall x, In x E -> existsb (assigns x) piece = false).
    { intros piece Hi Hrf x Hx. destruct (string_dec x "__romPos") as [->|Hne]; [exact Hrf|].
      eapply existsb_false_incl; [|apply (HE x Hx Hne)]. intros y Hy. apply in_or_app. right.
      apply in_or_app. right. apply Hi. exact Hy. }
    assert (Fr : forall piece, incl piece ([vram] ++ ks1 ++ [out1] ++ mid ++ [SRomAdd (alloc_name seg)] ++
                                           align_pair (segment_end_align seg) ++ [vend] ++ footrest)%list ->
                 existsb (assigns "__romPos") piece = false ->
                 forall x, In x (RS :: E) -> existsb (assigns x) piece = false).
    { intros piece Hi Hrf x [Hx|Hx].
      - subst x. eapply existsb_false_incl; [exact Hi | exact Hafter].
      - apply Fr0; assumption. }
    apply (passes_app _ (Inv E [])); [apply passes_align_pair|].
    apply (passes_app _ (Inv (RS :: E) [])); [apply passes_assign_sym; [exact Hrom | exact HRS]|].
    apply (passes_app _ (Inv (RS :: E) [])).
    { apply passes_safe; [constructor; [apply (safe_linker sty); sn | constructor]|].
      apply Fr; [sub_incl|]. cbn [existsb]. unfold vram. rewrite (rf_linker sty) by sn. reflexivity. }
    apply (passes_app _ (Inv (RS :: E) [])).
    { apply passes_safe; [apply safe_kind_start|]. apply Fr; [sub_incl|]. apply rf_ex, nf_kind_start. exact Hend. }
    pose proof (nf_write_segment "__romPos" Hend rompos_gp rompos_dot _ _ _ _ _ _ _ _ _ E1) as N1.
    pose proof (nf_write_segment "__romPos" Hend rompos_gp rompos_dot _ _ _ _ _ _ _ _ _ E2) as N2.
    rewrite Es1 in N1. apply Forall_app in N1. destruct N1 as [_ N1]. apply Forall_app in N1. destruct N1 as [N1 _].
    apply (passes_app _ (Inv (RS :: E) [alloc_name seg])).
    { unfold out1. rewrite alloc_name_outsec. fold sty name RS. apply passes_outsec.
      - intros K S HK. apply Haddr. intros y Hy. apply HK. right. exact Hy.
      - left. reflexivity.
      - intros x Hx. assert (F : existsb (assigns x) [out1] = false).
        { apply Fr; [sub_incl | apply rf_ex; exact N1 | exact Hx]. }
        cbn [existsb] in F. rewrite orb_false_r in F. unfold out1 in F. rewrite alloc_name_outsec in F. exact F. }
    apply (passes_app _ (Inv E [alloc_name seg])).
    { apply (passes_Inv_weaken E [alloc_name seg]); [intros y Hy; right; exact Hy | apply incl_refl|].
      apply passes_safe.
      - unfold mid. repeat (apply Forall_app; split); try apply safe_kind_end; try apply safe_blank.
        rewrite Es2. repeat (apply Forall_app; split); try apply safe_kind_end; try apply safe_kind_start.
        constructor; [|constructor]. rewrite noload_name_outsec. reflexivity.
      - apply Fr0; [sub_incl|]. apply rf_ex. unfold mid.
        repeat (apply Forall_app; split); try (apply nf_kind_end; exact Hend); try exact N2;
          (constructor; [reflexivity | constructor]). }
    apply (passes_app _ (Inv E [alloc_name seg])).
    { apply passes_rom_add; [exact Hrom | left; reflexivity]. }
    apply (passes_app _ (Inv E [alloc_name seg])); [apply passes_align_pair|].
    apply (passes_app _ (Inv (VE :: E) [alloc_name seg])); [apply passes_assign_dot; exact HVE|].
    apply (passes_weaken (Inv (VE :: E) [alloc_name seg]) _ (Inv (VE :: E) [alloc_name seg])); [auto | |].
    { intros K S [H1 _]. split; [exact H1 | intros y []]. }
    assert (Hrf : existsb (assigns "__romPos") footrest = false).
    { unfold footrest, sym_end_size. cbn [app existsb]. rewrite !(rf_linker sty) by sn. reflexivity. }
    apply passes_safe.
    - unfold footrest. repeat (apply Forall_app; split); try apply safe_blank.
      + constructor; [apply (safe_linker sty); sn | constructor].
      + apply (safe_sym_end_size sty); sn.
    - intros x [Hx|Hx]; [subst x; exact Hafter2|]. apply Fr0; [sub_incl | exact Hrf | exact Hx].
  Qed.

  Lemma stable_fold segs : forall ws body ws' E prev,
    fold_out (add_segment rt stg cfg_normal classes) segs ws = Ok (body, ws') ->
    In "__romPos"%string E -> incl R E -> (forall f, In f prev -> In (segment_vram_end sty f) E) ->
    backward_segs R prev (included rt segs) = true ->
    (forall seg, In seg (included rt segs) -> rom_names_distinct sty (sg_name seg) body = true) ->
    (forall seg, In seg (included rt segs) -> vram_names_distinct sty (sg_name seg) body = true) ->
    (forall x, In x E -> x <> "__romPos"%string -> existsb (assigns x) body = false) ->
    passes (Inv E []) body (Inv E []).
  Proof.
    induction segs as [|seg rest IH]; intros ws body ws' E prev H Hrom HR Hprev Hb Hd Hdv HE.
    - apply fold_out_nil in H. destruct H; subst. apply passes_nil.
    - apply fold_out_cons in H. destruct H as [s1 [ws1 [body_r [E1 [E2 Eb]]]]]. subst body.
      unfold included in *. cbn [filter] in *. destruct (should_emit rt (sg_conds seg)) eqn:Hc.
      + cbn [backward_segs] in Hb. apply andb_true_iff in Hb. destruct Hb as [Hb1 Hb2].
        pose proof (rom_assigned_add_segment _ _ _ _ _ _ _ _ E1 Hc) as Hass.
        destruct (rnd_app_l _ _ _ _ (Hd seg (or_introl eq_refl)) Hass) as [Hd1 _].
        pose proof (vram_assigned_add_segment _ _ _ _ _ _ _ _ E1 Hc) as Hassv.
        destruct (vnd_app_l _ _ _ _ (Hdv seg (or_introl eq_refl)) Hassv) as [Hdv1 [_ [U2 _]]].
        set (VE := segment_vram_end sty (sg_name seg)) in *.
        apply (passes_app _ (Inv (VE :: E) [])).
        * eapply stable_segment; try eassumption.
          -- unfold backward_seg in Hb1. apply andb_true_iff in Hb1. destruct Hb1 as [Hb1 _].
             destruct (sg_vram_class seg); [discriminate | reflexivity].
          -- intros K S HK. eapply backward_seg_addr; eassumption.
          -- intros x Hx Hne. specialize (HE x Hx Hne). rewrite existsb_app in HE. apply orb_false_iff in HE. apply HE.
        * apply (passes_weaken (Inv (VE :: E) []) _ (Inv (VE :: E) [])); [auto | |].
          { intros K S [H1 H2]. split; [|exact H2]. intros y Hy. apply H1. right. exact Hy. }
          eapply (IH ws1 body_r ws' (VE :: E) (sg_name seg :: prev)); [exact E2 | | | | | | |].
          -- right. exact Hrom.
          -- intros y Hy. right. apply HR. exact Hy.
          -- intros f [Hf|Hf]; [subst f; left; reflexivity | right; apply Hprev; exact Hf].
          -- exact Hb2.
          -- intros s Hs. apply (rnd_app_r _ _ s1 body_r (Hd s (or_intror Hs))).
             eapply rom_assigned_fold; eassumption.
          -- intros s Hs. apply (vnd_app_r _ _ s1 body_r (Hdv s (or_intror Hs))).
             eapply vram_assigned_fold; eassumption.
          -- intros x [Hx|Hx] Hne; [subst x; exact U2|].
             specialize (HE x Hx Hne). rewrite existsb_app in HE. apply orb_false_iff in HE. apply HE.
      + rewrite (add_segment_excluded _ _ _ _ _ _ Hc) in E1. apply ok_inj in E1. inversion E1; subst s1 ws1.
        cbn [app] in *. eapply IH; eassumption.
  Qed.
End GenStable.

Lemma safe_end_sections stg classes ws : Forall safe (end_sections_body stg classes ws).
Proof.
  rewrite end_sections_layout.
  assert (Hparts : Forall (Forall safe)
                     [tail_sizes stg classes ws; tail_allow stg; tail_extra stg; tail_discard stg]).
  { repeat constructor.
    - apply Forall_map_intro. intro cn. apply (safe_linker (linker_symbols_style stg)). sn.
    - apply Forall_map_intro. reflexivity.
    - apply Forall_map_intro. reflexivity.
    - unfold tail_discard. destruct (_ || _)%bool; repeat constructor. }
  induction Hparts as [|p r Hp Hr IH]; [constructor|]. simpl. destruct p as [|y p]; [exact IH|].
  apply Forall_app; split; [exact Hp|]. destruct (sep_concat r); [constructor|].
  constructor; [reflexivity | exact IH].
Qed.

Lemma safe_tail rt d :
  forallb (fun a => negb (String.eqb (sa_name a) ".")) (doc_symbol_assignments d) = true ->
  Forall safe (tail_stmts rt d).
Proof.
  intro H. unfold tail_stmts, entry_stmts, assignment_stmts, required_stmts, assert_stmts.
  repeat (apply Forall_app; split).
  - destruct (doc_entry d); repeat constructor.
  - destruct (doc_symbol_assignments d) as [|a0 l0] eqn:El; [constructor|]. constructor; [reflexivity|].
    rewrite forallb_forall in H. apply Forall_forall. intros s Hs. apply in_flat_map in Hs.
    destruct Hs as [a [Ha Hs]]. destruct (should_emit rt (sa_conds a)); [|contradiction].
    destruct Hs as [Hs|[]]. subst s. unfold safe. cbn [safe_stmt]. apply H. exact Ha.
  - destruct (doc_required_symbols d); [constructor|]. constructor; [reflexivity|].
    apply Forall_flat_map_intro. intro x0. destruct (should_emit rt (rq_conds x0)); repeat constructor.
  - destruct (doc_asserts d); [constructor|]. constructor; [reflexivity|].
    apply Forall_flat_map_intro. intro x0. destruct (should_emit rt (ae_conds x0)); repeat constructor.
Qed.

Lemma safe_version rt : Forall safe (version_stmts rt).
Proof. unfold version_stmts. destruct (rt_emit_version_comment rt); repeat constructor. Qed.

Lemma flat_script rt d B :
  flat_stmts (version_stmts rt ++ [SSections B] ++ tail_stmts rt d) = (version_stmts rt ++ B ++ tail_stmts rt d)%list.
Proof.
  rewrite !flat_app, (flat_plain _ (plain_version rt)), (flat_plain _ (plain_tail rt d)).
  change (flat_stmts [SSections B]) with (B ++ [])%list. rewrite app_nil_r. reflexivity.
Qed.

(* the class of documents: the generated script passes the check *)
Theorem backward_script_stable R d rt w :
  gen_normal d rt = Ok w -> doc_link_wf d rt = true -> backward_addresses R d rt = true ->
  (forall x, In x R -> no_assign x (flat_stmts (wo_script w)) = true) ->
  script_stable R (wo_script w) = true.
Proof.
  intros Hg Hwf Hpl HR.
  destruct (doc_link_wf_inv d rt Hwf) as (body & ws' & E & Hm & Hnd & Hseg & _ & Hrom).
  set (stg := doc_settings d) in *. set (classes := doc_vram_classes d) in *.
  set (sty := linker_symbols_style stg) in *.
  apply gen_normal_inv in Hg. destruct Hg as [s [ws2 [E2 Hw]]].
  apply add_all_segments_inv in E2. destruct E2 as [[Hs _] | [_ [body2 [E2 Es]]]]; [unfold stg in *; congruence|].
  fold stg classes in E2. rewrite E in E2. apply ok_inj in E2. inversion E2; subst body2 ws2. subst s w.
  cbn [wo_script] in *. rewrite flat_script in HR. unfold script_stable. rewrite flat_script.
  unfold backward_addresses in Hpl. apply andb_true_iff in Hpl. destruct Hpl as [Hps Hdot].
  set (fin := end_sections_body stg classes ws') in *. set (tl := tail_stmts rt d) in *.
  set (all := (version_stmts rt ++ (begin_sections_body stg ++ body ++ fin) ++ tl)%list) in *.
  assert (HR' : forall piece, incl piece all -> forall x, In x R -> existsb (assigns x) piece = false).
  { intros piece Hi x Hx. eapply existsb_false_incl; [exact Hi|]. apply negb_true_iff. apply HR. exact Hx. }
  assert (HE0 : forall piece, incl piece all -> existsb (assigns "__romPos") piece = false ->
                forall x, In x ("__romPos"%string :: R) -> existsb (assigns x) piece = false).
  { intros piece Hi Hrf x [Hx|Hx]; [subst x; exact Hrf | apply HR'; assumption]. }
  assert (Hend : ends_ok "__romPos" = false) by reflexivity.
  assert (P : passes (Inv R []) all (Inv ("__romPos"%string :: R) [])).
  { unfold all.
    apply (passes_app _ (Inv R [])); [apply passes_safe; [apply safe_version | apply HR'; (unfold all; sub_incl)]|].
    apply (passes_app _ (Inv ("__romPos"%string :: R) [])).
    2:{ apply passes_safe; [apply safe_tail; exact Hdot|]. apply HE0; [(unfold all; sub_incl)|]. apply negb_true_iff. exact Hrom. }
    rewrite begin_sections_rom. change (rom_init :: ?l)%list with ([rom_init] ++ l)%list.
    rewrite <- app_assoc.
    apply (passes_app _ (Inv ("__romPos"%string :: R) [])).
    { apply passes_one. intros K S [HK HS]. unfold rom_init. cbn [chk_top].
      change (String.eqb "__romPos" ".") with false. cbv iota. unfold after_assign. cbn [negb andb closed_expr].
      assert (C : closed_raw K "0x0" = true) by reflexivity. rewrite C.
      eexists _, _. split; [reflexivity|]. split; [|exact HS].
      intros y [Hy|Hy]; [left; exact Hy | right; apply HK; exact Hy]. }
    rewrite <- app_assoc.
    apply (passes_app _ (Inv ("__romPos"%string :: R) [])).
    { apply passes_safe.
      - unfold hardcoded_gp_stmts. destruct (hardcoded_gp_value stg); repeat constructor.
      - apply HE0; [unfold all; rewrite begin_sections_rom; sub_incl|]. unfold hardcoded_gp_stmts.
        destruct (hardcoded_gp_value stg); reflexivity. }
    apply (passes_app _ (Inv ("__romPos"%string :: R) [])).
    { apply passes_safe; [apply safe_blank|]. apply HE0; [unfold all; rewrite begin_sections_rom; sub_incl | reflexivity]. }
    apply (passes_app _ (Inv ("__romPos"%string :: R) [])).
    { eapply (stable_fold rt stg classes R (doc_segments d) ws0 body ws' _ []); [exact E | | | | | | |].
      - left. reflexivity.
      - intros y Hy. right. exact Hy.
      - intros f [].
      - exact Hps.
      - intros seg Hin. destruct (seg_wf_parts _ _ _ (Hseg seg Hin)) as [D _].
        pose proof (rom_assigned_fold _ _ _ _ _ _ _ _ _ E Hin) as Hass.
        destruct (rnd_app_r _ _ _ _ D (rom_assigned_app_l _ _ _ _ Hass)) as [D' _].
        apply (rnd_app_l _ _ _ _ D' Hass).
      - intros seg Hin. destruct (seg_wf_parts _ _ _ (Hseg seg Hin)) as [_ [D _]].
        pose proof (vram_assigned_fold _ _ _ _ _ _ _ _ _ E Hin) as Hass.
        destruct (vnd_app_r _ _ _ _ D (vram_assigned_app_l _ _ _ _ Hass)) as [D' _].
        apply (vnd_app_l _ _ _ _ D' Hass).
      - intros x [Hx|Hx] Hne; [congruence|]. apply HR'; [(unfold all; sub_incl) | exact Hx]. }
    apply passes_safe; [apply safe_end_sections|]. apply HE0; [(unfold all; sub_incl)|].
    apply rf_ex. apply nf_end_sections; solve [reflexivity | discriminate]. }
  destruct (P R []) as [K' [S' [C _]]]; [split; apply incl_refl|].
  change (is_some (chk_list R [] all) = true). rewrite C. reflexivity.
Qed.

(* ====================================================================== *)
(* the target statement for the class, and the unconditioned statement     *)
(* ====================================================================== *)

Lemma outside_ok_no_assign R script ext0 :
  outside_ok R script ext0 = true -> forall x, In x R -> no_assign x (flat_stmts script) = true.
Proof.
  unfold outside_ok. intros H x Hx. rewrite forallb_forall in H. specialize (H x Hx).
  apply andb_true_iff in H. apply H.
Qed.

Theorem vram_is_section_start_backward R d rt w u ext0 seg o :
  gen_normal d rt = Ok w -> doc_link_wf d rt = true ->
  backward_addresses R d rt = true -> outside_ok R (wo_script w) ext0 = true ->
  Forall (fun x => 0 <= u_size x) u ->
  let sty := linker_symbols_style (doc_settings d) in
  let st' := layout (wo_script w) u ext0 in
  In seg (included rt (doc_segments d)) ->
  find_sec (alloc_name seg) (l_secs st') = Some o ->
  val st' (segment_vram_start sty (sg_name seg)) = Some (os_vma o).
Proof.
  intros Hg Hwf Hb Hout Hu sty st' Hin Ho.
  apply (vram_is_section_start R d rt w u ext0 seg o Hg Hwf); try assumption.
  apply (backward_script_stable R d rt w); try assumption. eapply outside_ok_no_assign. exact Hout.
Qed.

(* the statement without a condition on what the address expressions read is false of the model *)
Theorem statement_false : ~ C03_vram_is_section_start_statement.
Proof.
  intro H.
  set (w := match gen_normal fx_counter_doc ex_rt with Ok w => w | Err _ => WriterOut [] [] end).
  assert (Hg : gen_normal fx_counter_doc ex_rt = Ok w) by (vm_compute; reflexivity).
  assert (Hwf : doc_link_wf fx_counter_doc ex_rt = true) by (vm_compute; reflexivity).
  assert (Hu : Forall (fun x => 0 <= u_size x) dl_universe) by (repeat constructor; vm_compute; discriminate).
  pose proof (H fx_counter_doc ex_rt w dl_universe []
                (fx_segment "mid" [ex_obj "a.o"] None (Some "b_text + 0x1000"%string) None None)
                (OSec ".mid" 8400 24 (Some 64) false true) Hg Hwf Hu) as C.
  cbv zeta in C.
  assert (C' : val (layout (wo_script w) dl_universe []) "mid_VRAM" = Some 8400).
  { apply C; vm_compute; [reflexivity | right; left; reflexivity | reflexivity]. }
  vm_compute in C'. discriminate.
Qed.
