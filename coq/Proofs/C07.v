From Slinky Require Import Model.Types Model.Generated Model.Parse Model.Runtime Model.Style Model.Script Model.Writer Model.Exports Spec.C07.
From Coq Require Import Lia.
Local Open Scope string_scope.

(* ---------- strings ---------- *)

Lemma app_nil_r_s (s : string) : s ++ "" = s.
Proof. induction s as [|c s IH]; simpl; [reflexivity | rewrite IH; reflexivity]. Qed.

Lemma app_assoc_s (a b c : string) : (a ++ b) ++ c = a ++ (b ++ c).
Proof. induction a as [|x a IH]; simpl; [reflexivity | rewrite IH; reflexivity]. Qed.

Lemma contains_app ch (a b : string) :
  contains_char ch (a ++ b) = orb (contains_char ch a) (contains_char ch b).
Proof.
  induction a as [|x a IH]; simpl; [reflexivity|].
  destruct (Ascii.eqb ch x); [reflexivity | exact IH].
Qed.

Lemma length_app_s (a b : string) : String.length (a ++ b) = String.length a + String.length b.
Proof. induction a as [|x a IH]; simpl; [reflexivity | rewrite IH; reflexivity]. Qed.

(* a string holding [ch] splits at its first occurrence *)
Lemma split_first ch (s : string) :
  contains_char ch s = true ->
  exists a b, s = a ++ String ch b /\ contains_char ch a = false.
Proof.
  induction s as [|x s IH]; simpl; [discriminate|].
  destruct (Ascii.eqb ch x) eqn:E.
  - intros _. apply Ascii.eqb_eq in E. subst x. exists "", s. split; reflexivity.
  - intro H. destruct (IH H) as [a [b [Hs Ha]]]. exists (String x a), b. split.
    + simpl. rewrite Hs. reflexivity.
    + simpl. rewrite E. exact Ha.
Qed.

(* ... and the split is unique *)
Lemma split_first_unique ch (a a' b b' : string) :
  contains_char ch a = false -> contains_char ch a' = false ->
  a ++ String ch b = a' ++ String ch b' -> a = a' /\ b = b'.
Proof.
  revert a'. induction a as [|x a IH]; intros [|x' a'] Ha Ha' E; simpl in *.
  - inversion E. split; reflexivity.
  - inversion E. subst x'. rewrite Ascii.eqb_refl in Ha'. discriminate.
  - inversion E. subst x. rewrite Ascii.eqb_refl in Ha. discriminate.
  - inversion E. subst x'. destruct (Ascii.eqb ch x); [discriminate|].
    destruct (IH a' Ha Ha' H1) as [-> ->]. split; reflexivity.
Qed.

(* ---------- split_on / join ---------- *)

Lemma split_on_aux_cur c s cur :
  split_on_aux c s cur =
  match split_on c s with x :: r => (cur ++ x) :: r | [] => [cur] end.
Proof.
  unfold split_on. revert cur. induction s as [|d s IH]; intro cur; cbn [split_on_aux].
  - rewrite app_nil_r_s. reflexivity.
  - destruct (Ascii.eqb c d).
    + rewrite app_nil_r_s. reflexivity.
    + rewrite (IH (cur ++ String d "")), (IH ("" ++ String d "")).
      destruct (split_on_aux c s "") as [|x r]; [reflexivity|].
      rewrite app_assoc_s. reflexivity.
Qed.

Lemma split_on_nil c : split_on c "" = [""].
Proof. reflexivity. Qed.

Lemma split_on_sep c s : split_on c (String c s) = "" :: split_on c s.
Proof. unfold split_on. cbn [split_on_aux]. rewrite Ascii.eqb_refl. reflexivity. Qed.

Lemma split_on_other c d s :
  Ascii.eqb c d = false ->
  split_on c (String d s) = match split_on c s with x :: r => String d x :: r | [] => [String d ""] end.
Proof.
  intro H. unfold split_on at 1. cbn [split_on_aux]. rewrite H. rewrite split_on_aux_cur. reflexivity.
Qed.

Lemma split_on_nonempty c s : split_on c s <> [].
Proof.
  induction s as [|d s IH]; [discriminate|].
  destruct (Ascii.eqb c d) eqn:E.
  - apply Ascii.eqb_eq in E. subst d. rewrite split_on_sep. discriminate.
  - rewrite split_on_other by assumption. destruct (split_on c s); discriminate.
Qed.

(* a text without the separator is a single piece; text up to the first separator is the first piece *)
Lemma split_on_none c s : contains_char c s = false -> split_on c s = [s].
Proof.
  induction s as [|d s IH]; cbn [contains_char]; intro H; [reflexivity|].
  destruct (Ascii.eqb c d) eqn:E; [discriminate|].
  rewrite split_on_other by assumption. rewrite IH by assumption. reflexivity.
Qed.

Lemma split_on_app c a b :
  contains_char c a = false -> split_on c (a ++ String c b) = a :: split_on c b.
Proof.
  induction a as [|d a IH]; cbn [contains_char append]; intro H.
  - apply split_on_sep.
  - destruct (Ascii.eqb c d) eqn:E; [discriminate|].
    rewrite split_on_other by assumption. rewrite IH by assumption. reflexivity.
Qed.

(* the pieces joined by the separator give the text back, and no piece holds the separator *)
Lemma join_cons2 sep (a b : string) l : join sep (a :: b :: l) = a ++ sep ++ join sep (b :: l).
Proof. reflexivity. Qed.

Lemma join_split_on c s : join (String c "") (split_on c s) = s.
Proof.
  induction s as [|d s IH]; [reflexivity|].
  pose proof (split_on_nonempty c s) as Hn.
  destruct (Ascii.eqb c d) eqn:E.
  - apply Ascii.eqb_eq in E. subst d. rewrite split_on_sep.
    destruct (split_on c s) as [|x r] eqn:Hs; [congruence|].
    rewrite join_cons2, IH. reflexivity.
  - rewrite split_on_other by assumption.
    destruct (split_on c s) as [|x r] eqn:Hs; [congruence|].
    destruct r as [|y r].
    + cbn [join] in *. rewrite IH. reflexivity.
    + rewrite join_cons2 in *. rewrite <- IH. reflexivity.
Qed.

Lemma split_on_pieces c s : Forall (fun p => contains_char c p = false) (split_on c s).
Proof.
  induction s as [|d s IH]; [repeat constructor|].
  destruct (Ascii.eqb c d) eqn:E.
  - apply Ascii.eqb_eq in E. subst d. rewrite split_on_sep. constructor; [reflexivity | assumption].
  - rewrite split_on_other by assumption.
    destruct (split_on c s) as [|x r]; [repeat constructor; cbn [contains_char]; rewrite E; reflexivity|].
    inversion IH; subst. constructor; [|assumption]. cbn [contains_char]. rewrite E. assumption.
Qed.

(* ... and [split_on] is the only such decomposition *)
Lemma split_on_join c l :
  l <> [] -> Forall (fun p => contains_char c p = false) l -> split_on c (join (String c "") l) = l.
Proof.
  induction l as [|x l IH]; [congruence|]. intros _ HF. inversion HF; subst.
  destruct l as [|y l].
  - cbn [join]. apply split_on_none. assumption.
  - change (join (String c "") (x :: y :: l)) with (x ++ String c (join (String c "") (y :: l))).
    rewrite split_on_app by assumption. rewrite IH; [reflexivity | discriminate | assumption].
Qed.

Lemma prefix_res_nil r : prefix_res "" r = r.
Proof. destruct r; reflexivity. Qed.

Lemma prefix_res_app a b r : prefix_res a (prefix_res b r) = prefix_res (a ++ b) r.
Proof. destruct r; simpl; [rewrite app_assoc_s|]; reflexivity. Qed.

(* ---------- inversion of the relation ---------- *)

(* tactics for the inversions of [Subst] *)
Ltac no_lbrace :=
  match goal with Hn : "{"%char <> "{"%char |- _ => exfalso; apply Hn; reflexivity end.

Ltac same_key Hk :=
  match goal with
  | E : (?k0 ++ String "}" ?r0) = (_ ++ String "}" _), Hc : contains_char "}" ?k0 = false,
    Hv : opt_get _ ?k0 = _ |- _ =>
      let Hv' := fresh "Hv'" in
      destruct (split_first_unique "}" _ _ _ _ Hk Hc (eq_sym E)) as [<- <-]; rename Hv into Hv'
  end.

Ltac has_rbrace :=
  match goal with
  | Hc : contains_char "}" (_ ++ String "}" _) = false |- _ =>
      rewrite contains_app in Hc; simpl in Hc; rewrite Bool.orb_true_r in Hc; discriminate
  | E : ?t = (_ ++ String "}" _), Hc : contains_char "}" ?t = false |- _ =>
      rewrite E in Hc; rewrite contains_app in Hc; simpl in Hc; rewrite Bool.orb_true_r in Hc; discriminate
  | E : (_ ++ String "}" _) = ?t, Hc : contains_char "}" ?t = false |- _ =>
      rewrite <- E in Hc; rewrite contains_app in Hc; simpl in Hc; rewrite Bool.orb_true_r in Hc; discriminate
  end.

Section Component.
  Variable rt : runtime.
  Variable orig : string.

  Lemma Subst_inv_nil r : Subst rt orig "" r -> r = Ok "".
  Proof. intro H. inversion H. reflexivity. Qed.

  Lemma Subst_inv_lit c s r :
    c <> "{"%char -> Subst rt orig (String c s) r ->
    exists r', Subst rt orig s r' /\ r = prefix_res (String c "") r'.
  Proof.
    intros Hc H. inversion H; subst; try (exfalso; apply Hc; reflexivity).
    - eexists (Ok _). split; [eassumption | reflexivity].
    - eexists (Err _). split; [eassumption | reflexivity].
  Qed.

  Lemma Subst_inv_key key rest r :
    contains_char "}" key = false -> Subst rt orig ("{" ++ key ++ "}" ++ rest) r ->
    match opt_get rt key with
    | Some v => exists r', Subst rt orig rest r' /\ r = prefix_res v r'
    | None => r = Err (ECustomOptionNotProvided orig key)
    end.
  Proof.
    intros Hk H. simpl in H. inversion H; subst; try no_lbrace.
    - same_key Hk. rewrite Hv'. eexists (Ok _). split; [eassumption | reflexivity].
    - same_key Hk. rewrite Hv'. eexists (Err _). split; [eassumption | reflexivity].
    - same_key Hk. rewrite Hv'. reflexivity.
    - exfalso. has_rbrace.
  Qed.

  Lemma Subst_inv_open t r :
    contains_char "}" t = false -> Subst rt orig ("{" ++ t) r -> r = Ok ("{" ++ t).
  Proof.
    intros Ht H. simpl in H. inversion H; subst; try no_lbrace; try reflexivity; exfalso; has_rbrace.
  Qed.

  (* the relation is functional ... *)
  Lemma Subst_functional s r1 r2 : Subst rt orig s r1 -> Subst rt orig s r2 -> r1 = r2.
  Proof.
    intro H1. revert r2. induction H1 as
      [ | c s r Hc H IH | c s e Hc H IH | key v rest r Hk Hv H IH | key v rest e Hk Hv H IH
        | key rest Hk Hv | t Ht ]; intros r2 H2.
    - symmetry. apply Subst_inv_nil. assumption.
    - destruct (Subst_inv_lit _ _ _ Hc H2) as [r' [Hr' ->]]. rewrite <- (IH _ Hr'). reflexivity.
    - destruct (Subst_inv_lit _ _ _ Hc H2) as [r' [Hr' ->]]. rewrite <- (IH _ Hr'). reflexivity.
    - pose proof (Subst_inv_key _ _ _ Hk H2) as Hi. rewrite Hv in Hi.
      destruct Hi as [r' [Hr' ->]]. rewrite <- (IH _ Hr'). reflexivity.
    - pose proof (Subst_inv_key _ _ _ Hk H2) as Hi. rewrite Hv in Hi.
      destruct Hi as [r' [Hr' ->]]. rewrite <- (IH _ Hr'). reflexivity.
    - pose proof (Subst_inv_key _ _ _ Hk H2) as Hi. rewrite Hv in Hi. symmetry. assumption.
    - symmetry. apply Subst_inv_open; assumption.
  Qed.

  (* ... and total: by induction on the length, without reference to the scanner *)
  Lemma Subst_total_len n : forall s, String.length s <= n -> exists r, Subst rt orig s r.
  Proof.
    induction n as [|n IH]; intros s Hl.
    - destruct s; [|simpl in Hl; lia]. exists (Ok ""). constructor.
    - destruct s as [|c s]; [exists (Ok ""); constructor|]. simpl in Hl.
      destruct (Ascii.eqb c "{") eqn:Ec.
      + apply Ascii.eqb_eq in Ec. subst c.
        destruct (contains_char "}" s) eqn:Hc.
        * destruct (split_first _ _ Hc) as [key [rest [-> Hk]]].
          destruct (opt_get rt key) as [v|] eqn:Hv.
          -- assert (Hr : String.length rest <= n).
             { rewrite length_app_s in Hl. simpl in Hl. lia. }
             destruct (IH rest Hr) as [[r|e] Hrest].
             ++ exists (Ok (v ++ r)). apply (Subst_key_ok rt orig key v rest r); assumption.
             ++ exists (Err e). apply (Subst_key_err_later rt orig key v rest e); assumption.
          -- exists (Err (ECustomOptionNotProvided orig key)).
             apply (Subst_key_missing rt orig key rest); assumption.
        * exists (Ok ("{" ++ s)). apply Subst_open. assumption.
      + apply Ascii.eqb_neq in Ec. destruct (IH s ltac:(lia)) as [[r|e] Hs].
        * exists (Ok (String c r)). constructor; assumption.
        * exists (Err e). constructor; assumption.
  Qed.

  Lemma Subst_total s : exists r, Subst rt orig s r.
  Proof. apply (Subst_total_len (String.length s)). lia. Qed.

  (* ---------- the scanner ---------- *)

  (* inside a replacement: up to the next "}" the characters extend the key *)
  Lemma scan_key key rest out k :
    contains_char "}" key = false ->
    escape_scan rt orig (key ++ "}" ++ rest) out true k =
    match opt_get rt (k ++ key) with
    | Some v => escape_scan rt orig rest (out ++ v) false ""
    | None => Err (ECustomOptionNotProvided orig (k ++ key))
    end.
  Proof.
    revert k. induction key as [|c key IH]; intros k Hk.
    - simpl. rewrite app_nil_r_s. reflexivity.
    - cbn [contains_char] in Hk. destruct (Ascii.eqb "}" c) eqn:Ec; [discriminate|].
      cbn [append escape_scan]. rewrite Ascii.eqb_sym, Ec. rewrite IH by assumption.
      rewrite app_assoc_s. reflexivity.
  Qed.

  (* inside a replacement that is never closed: kept literally *)
  Lemma scan_open t out k :
    contains_char "}" t = false ->
    escape_scan rt orig t out true k = Ok (out ++ "{" ++ k ++ t).
  Proof.
    revert k. induction t as [|c t IH]; intros k Ht.
    - simpl. rewrite app_nil_r_s. reflexivity.
    - cbn [contains_char] in Ht. destruct (Ascii.eqb "}" c) eqn:Ec; [discriminate|].
      cbn [append escape_scan]. rewrite Ascii.eqb_sym, Ec. rewrite IH by assumption.
      rewrite app_assoc_s. reflexivity.
  Qed.

  Lemma scan_lit c s out :
    c <> "{"%char ->
    escape_scan rt orig (String c s) out false "" = escape_scan rt orig s (out ++ String c "") false "".
  Proof. intro Hc. apply Ascii.eqb_neq in Hc. cbn [escape_scan]. rewrite Hc. reflexivity. Qed.

  (* outside a replacement the scanner computes the relation, after what it has already emitted *)
  Lemma scan_subst s r :
    Subst rt orig s r -> forall out, escape_scan rt orig s out false "" = prefix_res out r.
  Proof.
    induction 1 as
      [ | c s r Hc H IH | c s e Hc H IH | key v rest r Hk Hv H IH | key v rest e Hk Hv H IH
        | key rest Hk Hv | t Ht ]; intro out.
    - simpl. rewrite app_nil_r_s. reflexivity.
    - rewrite scan_lit by assumption. rewrite IH. simpl. rewrite app_assoc_s. reflexivity.
    - rewrite scan_lit by assumption. rewrite IH. reflexivity.
    - change (escape_scan rt orig ("{" ++ key ++ "}" ++ rest) out false "")
        with (escape_scan rt orig (key ++ "}" ++ rest) out true "").
      rewrite scan_key by assumption. simpl. rewrite Hv, IH. simpl. rewrite app_assoc_s. reflexivity.
    - change (escape_scan rt orig ("{" ++ key ++ "}" ++ rest) out false "")
        with (escape_scan rt orig (key ++ "}" ++ rest) out true "").
      rewrite scan_key by assumption. simpl. rewrite Hv, IH. reflexivity.
    - change (escape_scan rt orig ("{" ++ key ++ "}" ++ rest) out false "")
        with (escape_scan rt orig (key ++ "}" ++ rest) out true "").
      rewrite scan_key by assumption. simpl. rewrite Hv. reflexivity.
    - change (escape_scan rt orig ("{" ++ t) out false "") with (escape_scan rt orig t out true "").
      rewrite scan_open by assumption. reflexivity.
  Qed.

  (* inside a replacement with key-so-far [k]: as the relation on "{" ++ k ++ s *)
  Lemma scan_within s k r :
    contains_char "}" k = false -> Subst rt orig ("{" ++ k ++ s) r ->
    forall out, escape_scan rt orig s out true k = prefix_res out r.
  Proof.
    intros Hk H out. destruct (contains_char "}" s) eqn:Hs.
    - destruct (split_first _ _ Hs) as [key [rest [-> Hkey]]].
      change (String "}" rest) with ("}" ++ rest). rewrite scan_key by assumption.
      assert (Hkk : contains_char "}" (k ++ key) = false).
      { rewrite contains_app, Hk, Hkey. reflexivity. }
      assert (H' : Subst rt orig ("{" ++ (k ++ key) ++ "}" ++ rest) r).
      { rewrite app_assoc_s. exact H. }
      pose proof (Subst_inv_key _ _ _ Hkk H') as Hi.
      destruct (opt_get rt (k ++ key)) as [v|].
      + destruct Hi as [r' [Hr' ->]]. rewrite (scan_subst _ _ Hr'). apply eq_sym, prefix_res_app.
      + rewrite Hi. reflexivity.
    - rewrite scan_open by assumption.
      assert (Hks : contains_char "}" (k ++ s) = false).
      { rewrite contains_app, Hk, Hs. reflexivity. }
      rewrite (Subst_inv_open _ _ Hks H). reflexivity.
  Qed.

  (* ---------- the two shortcuts of escape_component ---------- *)

  Lemma Subst_no_lbrace c : contains_char "{" c = false -> Subst rt orig c (Ok c).
  Proof.
    induction c as [|x c IH]; cbn [contains_char]; intro H; [constructor|].
    destruct (Ascii.eqb "{" x) eqn:E; [discriminate|].
    constructor; [|apply IH; assumption].
    intro Hx. subst x. rewrite Ascii.eqb_refl in E. discriminate.
  Qed.

  Lemma Subst_no_rbrace c : contains_char "}" c = false -> Subst rt orig c (Ok c).
  Proof.
    induction c as [|x c IH]; cbn [contains_char]; intro H; [constructor|].
    destruct (Ascii.eqb "}" x) eqn:E; [discriminate|].
    destruct (Ascii.eqb x "{") eqn:Ex.
    - apply Ascii.eqb_eq in Ex. subst x. apply (Subst_open rt orig c). assumption.
    - apply Ascii.eqb_neq in Ex. constructor; [assumption | apply IH; assumption].
  Qed.

  (* a string whose last character is [b] *)
  Lemma last_char_split s b : last_char s = Some b -> exists t, s = t ++ String b "".
  Proof.
    induction s as [|x s IH]; [discriminate|].
    destruct s as [|y s'].
    - intro H. inversion H. exists "". reflexivity.
    - intro H. change (last_char (String x (String y s'))) with (last_char (String y s')) in H.
      destruct (IH H) as [t Ht]. exists (String x t). rewrite Ht. reflexivity.
  Qed.

  Lemma substring_prefix t u : substring 0 (String.length t) (t ++ u) = t.
  Proof.
    induction t as [|x t IH]; cbn [String.length append substring].
    - destruct u; reflexivity.
    - rewrite IH. reflexivity.
  Qed.

  (* a component that starts with "{" and ends with "}" is "{" ++ inner_of c ++ "}" *)
  Lemma whole_component c :
    starts_with_char "{" c = true -> ends_with_char "}" c = true -> c = "{" ++ inner_of c ++ "}".
  Proof.
    unfold starts_with_char, ends_with_char. destruct c as [|x c]; [discriminate|].
    intros Hx He. apply Ascii.eqb_eq in Hx. subst x.
    destruct c as [|y c].
    - cbn in He. discriminate.
    - change (last_char (String "{" (String y c))) with (last_char (String y c)) in He.
      destruct (last_char (String y c)) as [d|] eqn:Hl; [|discriminate].
      apply Ascii.eqb_eq in He. subst d.
      destruct (last_char_split _ _ Hl) as [t Ht]. rewrite Ht.
      unfold inner_of. cbn [String.length]. rewrite length_app_s. cbn [String.length].
      replace (S (String.length t + 1) - 2) with (String.length t) by lia.
      cbn [substring]. rewrite substring_prefix. reflexivity.
  Qed.

  (* ---------- escape_component computes the relation ---------- *)

  Lemma escape_component_subst c : Subst rt orig c (escape_component rt orig c).
  Proof.
    unfold escape_component.
    destruct (starts_with_char "{" c && ends_with_char "}" c &&
              negb (contains_char "{" (inner_of c) || contains_char "}" (inner_of c)))%bool eqn:Hw.
    - apply andb_true_iff in Hw. destruct Hw as [Hw Hin]. apply andb_true_iff in Hw.
      destruct Hw as [Hs He]. apply negb_true_iff, orb_false_iff in Hin. destruct Hin as [_ Hr].
      pose proof (whole_component c Hs He) as Hc.
      destruct (opt_get rt (inner_of c)) as [v|] eqn:Hv.
      + rewrite Hc at 1. rewrite <- (app_nil_r_s v).
        apply (Subst_key_ok rt orig (inner_of c) v "" ""); [assumption | assumption | constructor].
      + rewrite Hc at 1. apply (Subst_key_missing rt orig (inner_of c) ""); assumption.
    - destruct (negb (contains_char "{" c) || negb (contains_char "}" c))%bool eqn:Hn.
      + apply orb_true_iff in Hn. destruct Hn as [Hn|Hn]; apply negb_true_iff in Hn.
        * apply Subst_no_lbrace. assumption.
        * apply Subst_no_rbrace. assumption.
      + destruct (Subst_total c) as [r Hr]. rewrite (scan_subst _ _ Hr "").
        rewrite prefix_res_nil. assumption.
  Qed.

  (* hence the relation characterises the function *)
  Lemma escape_component_iff c r : Subst rt orig c r <-> escape_component rt orig c = r.
  Proof.
    split.
    - intro H. apply (Subst_functional c); [apply escape_component_subst | assumption].
    - intros <-. apply escape_component_subst.
  Qed.

  (* ---------- keys ---------- *)

  Lemma Keys_total_len n : forall s, String.length s <= n -> exists l, Keys s l.
  Proof.
    induction n as [|n IH]; intros s Hl.
    - destruct s; [|simpl in Hl; lia]. exists []. constructor.
    - destruct s as [|c s]; [exists []; constructor|]. simpl in Hl.
      destruct (Ascii.eqb c "{") eqn:Ec.
      + apply Ascii.eqb_eq in Ec. subst c.
        destruct (contains_char "}" s) eqn:Hc.
        * destruct (split_first _ _ Hc) as [key [rest [-> Hk]]].
          assert (Hr : String.length rest <= n).
          { rewrite length_app_s in Hl. simpl in Hl. lia. }
          destruct (IH rest Hr) as [l Hrest].
          exists (key :: l). apply (Keys_key key rest l); assumption.
        * exists []. apply Keys_open. assumption.
      + apply Ascii.eqb_neq in Ec. destruct (IH s ltac:(lia)) as [l Hs].
        exists l. constructor; assumption.
  Qed.

  Lemma Keys_total s : exists l, Keys s l.
  Proof. apply (Keys_total_len (String.length s)). lia. Qed.

  (* the result, from the keys: Ok when all are provided, else the error of the first missing one *)
  Lemma Keys_subst s l :
    Keys s l ->
    ((forall k, In k l -> Provided rt k) -> exists t, Subst rt orig s (Ok t)) /\
    (forall k, FirstMissing rt l k -> Subst rt orig s (Err (ECustomOptionNotProvided orig k))).
  Proof.
    induction 1 as [ | c s l Hc H [IH1 IH2] | key rest l Hk H [IH1 IH2] | t Ht ].
    - split.
      + intros _. exists "". constructor.
      + intros k [l1 [l2 [E _]]]. destruct l1; discriminate.
    - split.
      + intro Hp. destruct (IH1 Hp) as [t Ht]. exists (String c t). constructor; assumption.
      + intros k Hm. constructor; [assumption | apply IH2; assumption].
    - split.
      + intro Hp. destruct (Hp key (or_introl eq_refl)) as [v Hv].
        destruct (IH1 (fun k Hin => Hp k (or_intror Hin))) as [t Ht].
        exists (v ++ t). apply (Subst_key_ok rt orig key v rest t); assumption.
      + intros k [l1 [l2 [E [Hp Hn]]]]. destruct l1 as [|k1 l1]; simpl in E; inversion E; subst.
        * apply (Subst_key_missing rt orig k rest); assumption.
        * destruct (Hp k1 (or_introl eq_refl)) as [v Hv].
          apply (Subst_key_err_later rt orig k1 v rest); try assumption.
          apply IH2. exists l1, l2. split; [reflexivity|]. split; [|assumption].
          intros k' Hin. apply Hp. right. assumption.
    - split.
      + intros _. exists ("{" ++ t). apply Subst_open. assumption.
      + intros k [l1 [l2 [E _]]]. destruct l1; discriminate.
  Qed.

  (* every list of keys has all keys provided or a first missing one *)
  Lemma provided_or_missing (l : list string) :
    (forall k, In k l -> Provided rt k) \/ exists k, FirstMissing rt l k.
  Proof.
    induction l as [|k l IH].
    - left. intros k [].
    - destruct (opt_get rt k) as [v|] eqn:Hv.
      + destruct IH as [IH|[k' [l1 [l2 [E [Hp Hn]]]]]].
        * left. intros k' [<-|Hin]; [exists v; assumption | apply IH; assumption].
        * right. exists k', (k :: l1), l2. split; [simpl; rewrite E; reflexivity|].
          split; [|assumption]. intros k'' [<-|Hin]; [exists v; assumption | apply Hp; assumption].
      + right. exists k, [], l. split; [reflexivity|]. split; [intros k' []|assumption].
  Qed.

  Lemma FirstMissing_unique l k1 k2 : FirstMissing rt l k1 -> FirstMissing rt l k2 -> k1 = k2.
  Proof.
    intros [l1 [l2 [E1 [Hp1 Hn1]]]] [m1 [m2 [E2 [Hp2 Hn2]]]]. subst l.
    revert m1 E2 Hp2. induction l1 as [|a l1 IH]; intros [|b m1] E2 Hp2; simpl in E2; inversion E2; subst.
    - reflexivity.
    - destruct (Hp2 b (or_introl eq_refl)) as [v Hv]. congruence.
    - destruct (Hp1 k2 (or_introl eq_refl)) as [v Hv]. congruence.
    - apply (IH (fun k' Hin => Hp1 k' (or_intror Hin)) m1 H1).
      intros k' Hin. apply Hp2. right. assumption.
  Qed.

  (* never rejects a component whose keys were all provided *)
  Lemma no_reject c l :
    Keys c l -> (forall k, In k l -> Provided rt k) -> exists t, escape_component rt orig c = Ok t.
  Proof.
    intros HK Hp. destruct (Keys_subst c l HK) as [H1 _]. destruct (H1 Hp) as [t Ht].
    exists t. apply escape_component_iff. assumption.
  Qed.

  (* the error is exactly "first missing key" *)
  Lemma error_iff c l e :
    Keys c l ->
    (escape_component rt orig c = Err e <->
     exists k, FirstMissing rt l k /\ e = ECustomOptionNotProvided orig k).
  Proof.
    intro HK. destruct (Keys_subst c l HK) as [H1 H2]. split.
    - intro He. destruct (provided_or_missing l) as [Hp|[k Hm]].
      + destruct (H1 Hp) as [t Ht]. apply escape_component_iff in Ht. congruence.
      + exists k. split; [assumption|]. pose proof (H2 k Hm) as Hs.
        apply escape_component_iff in Hs. congruence.
    - intros [k [Hm ->]]. apply escape_component_iff. apply H2. assumption.
  Qed.

  Lemma no_braces_identity c : contains_char "{" c = false -> escape_component rt orig c = Ok c.
  Proof. intro H. apply escape_component_iff. apply Subst_no_lbrace. assumption. Qed.
End Component.

(* ---------- monadic helpers ---------- *)

Lemma bind_ok {A B} (r : res A) (f : A -> res B) b :
  bind r f = Ok b -> exists a, r = Ok a /\ f a = Ok b.
Proof. destruct r as [a|e]; simpl; intro H; [exists a; split; [reflexivity | assumption] | discriminate]. Qed.

Lemma bind_err {A B} (r : res A) (f : A -> res B) e : r = Err e -> bind r f = Err e.
Proof. intros ->. reflexivity. Qed.

Lemma fold_out_ext {A} (f g : A -> wstate -> res out) l :
  (forall x ws, f x ws = g x ws) -> forall ws, fold_out f l ws = fold_out g l ws.
Proof.
  intro H. induction l as [|x r IH]; intro ws; cbn [fold_out]; [reflexivity|].
  rewrite H. destruct (g x ws) as [o1|e]; cbn [bind]; [rewrite IH|]; reflexivity.
Qed.

(* ---------- emit_sff: one step of the nested fixpoint ---------- *)

(* emit_file, the treatment of the files of a group being a parameter *)
Definition emit_file_gen (group : list file_info -> string -> wstate -> res out)
           (rt : runtime) (sty : style) (seg : segment) (f : file_info) (k base : string) (ws : wstate)
  : res out :=
  if negb (should_emit rt (fi_conds f)) then Ok ([], ws) else
  match fi_kind f with
  | KObject =>
      do p <- escape_path rt (fi_path f);
      Ok ([SInput (keeps (fi_keep f) k) (display (push base p)) None k (wildcard_sections seg)],
          add_path (push base p) ws)
  | KArchive =>
      do p <- escape_path rt (fi_path f);
      Ok ([SInput (keeps (fi_keep f) k) (display (push base p)) (Some (fi_subfile f)) k
                  (wildcard_sections seg)],
          add_path (push base p) ws)
  | KPad => Ok (if String.eqb (fi_section f) k then [SDotAdd (fi_pad_amount f)] else [], ws)
  | KLinkerOffset =>
      Ok (if String.eqb (fi_section f) k
          then [SAssign false false true (linker_offset sty (fi_linker_offset_name f)) EDot]
          else [], ws)
  | KGroup =>
      do d <- escape_path rt (fi_dir f);
      group (fi_files f) (push base d) ws
  end.

(* the files of a group, as the inner [fix kids] of the model ... *)
Definition group_raw rt sty cfg seg sections (k : string) : list file_info -> string -> wstate -> res out :=
  fun l nb ws =>
    (fix kids (l : list file_info) (ws : wstate) : res out :=
       match l with
       | [] => Ok ([], ws)
       | c :: r =>
           do o1 <- emit_sff rt sty cfg seg sections c (chain_fuel seg) [] k nb ws;
           do o2 <- kids r (snd o1);
           Ok ((fst o1 ++ fst o2)%list, snd o2)
       end) l ws.

(* ... which is a [fold_out] *)
Definition group_fold rt sty cfg seg sections (k : string) : list file_info -> string -> wstate -> res out :=
  fun l nb ws =>
    fold_out (fun c ws => emit_sff rt sty cfg seg sections c (chain_fuel seg) [] k nb ws) l ws.

Lemma group_eq rt sty cfg seg sections k l nb ws :
  group_raw rt sty cfg seg sections k l nb ws = group_fold rt sty cfg seg sections k l nb ws.
Proof.
  unfold group_raw, group_fold. revert ws. induction l as [|c r IH]; intro ws; [reflexivity|].
  cbn [fold_out].
  destruct (emit_sff rt sty cfg seg sections c (chain_fuel seg) [] k nb ws) as [o1|e]; [|reflexivity].
  cbn [bind]. rewrite IH. reflexivity.
Qed.

Definition emit_file_of rt sty cfg seg sections (f : file_info) (k base : string) : wstate -> res out :=
  emit_file_gen (group_fold rt sty cfg seg sections k) rt sty seg f k base.

Lemma emit_file_gen_ext g1 g2 rt sty seg f k base ws :
  (forall l nb ws, g1 l nb ws = g2 l nb ws) ->
  emit_file_gen g1 rt sty seg f k base ws = emit_file_gen g2 rt sty seg f k base ws.
Proof.
  intro H. unfold emit_file_gen. destruct (negb (should_emit rt (fi_conds f))); [reflexivity|].
  destruct (fi_kind f); try reflexivity.
  destruct (escape_path rt (fi_dir f)); cbn [bind]; [apply H | reflexivity].
Qed.

(* the sub-group table consulted by an entry: the segment's one, except for a group (empty) *)
Lemma subgroups_for_sub seg f k others :
  lookup k (subgroups_for seg f) = Some others -> lookup k (sections_subgroups seg) = Some others.
Proof. unfold subgroups_for. destruct (fi_kind f); try (intro H; exact H); discriminate. Qed.

Lemma subgroups_for_leaf seg f : fi_kind f <> KGroup -> subgroups_for seg f = sections_subgroups seg.
Proof. unfold subgroups_for. destruct (fi_kind f); try reflexivity. intro H. elim H. reflexivity. Qed.

Lemma subgroups_for_group seg f : fi_kind f = KGroup -> subgroups_for seg f = [].
Proof. unfold subgroups_for. intros ->. reflexivity. Qed.

(* one step of the chain of sub-group expansions: for each section emitted here, the file itself,
   then (unless partial objects are referenced) the sections grouped under it *)
Definition chain_step (ef : string -> string -> wstate -> res out)
           (rec : string -> string -> wstate -> res out)
           (cfg : wcfg) (seg : segment) (f : file_info) (sections : list string)
           (section base : string) (ws : wstate) : res out :=
  fold_out (fun k ws =>
      do o1 <- ef k base ws;
      do o2 <- (if reference_partial cfg then Ok ([], snd o1) else
                match lookup k (subgroups_for seg f) with
                | Some others => fold_out (fun other ws => rec other base ws) others (snd o1)
                | None => Ok ([], snd o1)
                end);
      Ok ((fst o1 ++ fst o2)%list, snd o2)) (sections_here f section sections) ws.

Lemma emit_sff_S_raw rt sty cfg seg sections f n stack section base ws :
  emit_sff rt sty cfg seg sections f (S n) stack section base ws =
  if mem_str section stack then Err (ESubgroupCycle (sg_name seg) section) else
  chain_step (fun k => emit_file_gen (group_raw rt sty cfg seg sections k) rt sty seg f k)
             (emit_sff rt sty cfg seg sections f n (section :: stack)) cfg seg f sections section base ws.
Proof. destruct f. reflexivity. Qed.

Lemma emit_sff_O rt sty cfg seg sections f stack section base ws :
  emit_sff rt sty cfg seg sections f O stack section base ws =
  Err (ECrash "emit_section_for_file: recursion bound").
Proof. destruct f. reflexivity. Qed.

Lemma emit_sff_S rt sty cfg seg sections f n stack section base ws :
  emit_sff rt sty cfg seg sections f (S n) stack section base ws =
  if mem_str section stack then Err (ESubgroupCycle (sg_name seg) section) else
  chain_step (emit_file_of rt sty cfg seg sections f)
             (emit_sff rt sty cfg seg sections f n (section :: stack)) cfg seg f sections section base ws.
Proof.
  rewrite emit_sff_S_raw. destruct (mem_str section stack); [reflexivity|].
  unfold chain_step. apply fold_out_ext. intros k ws0. unfold emit_file_of.
  rewrite (emit_file_gen_ext (group_raw rt sty cfg seg sections k) (group_fold rt sty cfg seg sections k));
    [reflexivity|]. intros. apply group_eq.
Qed.

(* nested induction on file trees *)
Fixpoint file_info_ind' (P : file_info -> Prop)
         (H : forall p k sf pa sec lon so files d c kp,
             Forall P files -> P (FileInfo p k sf pa sec lon so files d c kp))
         (f : file_info) : P f :=
  match f with
  | FileInfo p k sf pa sec lon so files d c kp =>
      H p k sf pa sec lon so files d c kp
        ((fix go (l : list file_info) : Forall P l :=
            match l with
            | [] => Forall_nil P
            | x :: r => Forall_cons x (file_info_ind' P H x) (go r)
            end) files)
  end.

(* ====================================================================== *)
(* paths: components, push, display                                        *)
(* ====================================================================== *)

Lemma split_on_app_gen c a b : split_on c (a ++ String c b) = (split_on c a ++ split_on c b)%list.
Proof.
  induction a as [|d a IH]; cbn [append].
  - rewrite split_on_sep. reflexivity.
  - destruct (Ascii.eqb c d) eqn:E.
    + apply Ascii.eqb_eq in E. subst d. rewrite !split_on_sep, IH. reflexivity.
    + rewrite !split_on_other by assumption. rewrite IH.
      pose proof (split_on_nonempty c a) as Hn.
      destruct (split_on c a) as [|x r]; [congruence | reflexivity].
Qed.

Lemma drop_dots_app a b : drop_dots (a ++ b)%list = (drop_dots a ++ drop_dots b)%list.
Proof.
  induction a as [|x a IH]; [reflexivity|]. cbn [app drop_dots].
  destruct (is_empty x || String.eqb x ".")%bool; [exact IH | cbn [app]; rewrite IH; reflexivity].
Qed.

Lemma components_empty : components "" = [].
Proof. reflexivity. Qed.

(* pushing a relative path after a non-empty one, the separator being written *)
Lemma components_sep p q :
  is_empty p = false -> components (p ++ "/" ++ q) = (components p ++ rel_comps q)%list.
Proof.
  intro Hp. destruct p as [|x p]; [discriminate|]. unfold components, rel_comps.
  change (is_absolute (String x p ++ "/" ++ q)) with (is_absolute (String x p)).
  change (String x p ++ "/" ++ q) with (String x p ++ String "/" q).
  rewrite split_on_app_gen.
  destruct (is_absolute (String x p)).
  - rewrite drop_dots_app. reflexivity.
  - pose proof (split_on_nonempty "/" (String x p)) as Hn.
    destruct (split_on "/" (String x p)) as [|c r]; [congruence|].
    cbn [app]. rewrite drop_dots_app, app_assoc. reflexivity.
Qed.

Lemma ends_with_split p : ends_with_char "/" p = true -> exists a, p = a ++ "/".
Proof.
  unfold ends_with_char. destruct (last_char p) as [d|] eqn:Hl; [|discriminate].
  intro H. apply Ascii.eqb_eq in H. subst d. apply last_char_split. assumption.
Qed.

(* PathBuf::push, on components: the exact law, for all p and q *)
Lemma components_push p q :
  components (push p q) =
  if is_absolute q then components q
  else if is_empty p then components q
  else (components p ++ rel_comps q)%list.
Proof.
  unfold push. destruct (is_absolute q) eqn:Hq; [reflexivity|].
  destruct (is_empty p) eqn:Hp; [reflexivity|].
  destruct (ends_with_char "/" p) eqn:He; [|apply components_sep; assumption].
  destruct (ends_with_split p He) as [a ->].
  rewrite app_assoc_s. destruct a as [|x a].
  - (* p = "/" *)
    cbn [append]. unfold components, rel_comps.
    change (is_absolute (String "/" q)) with true. change (is_absolute "/") with true. cbv iota.
    rewrite split_on_sep. reflexivity.
  - rewrite (components_sep (String x a) q) by reflexivity.
    change (String x a ++ "/") with (String x a ++ "/" ++ "").
    rewrite (components_sep (String x a) "") by reflexivity.
    unfold rel_comps at 2. cbn [split_on split_on_aux drop_dots is_empty orb]. rewrite app_nil_r.
    reflexivity.
Qed.

Lemma push_relative_nonempty p q :
  is_absolute q = false -> is_empty p = false -> is_empty (push p q) = false.
Proof.
  intros Hq Hp. unfold push. rewrite Hq, Hp. destruct p as [|x p]; [discriminate|].
  destruct (ends_with_char "/" (String x p)); reflexivity.
Qed.

Lemma push_empty q : push "" q = q.
Proof. unfold push. destruct (is_absolute q); reflexivity. Qed.

(* any number of relative parts pushed on any path *)
Lemma components_push_all parts : forall acc,
  Forall relative parts -> components (push_all acc parts) = joined acc parts.
Proof.
  induction parts as [|q r IH]; intros acc HF; unfold push_all, joined; cbn [fold_left].
  - destruct acc as [|x acc]; [reflexivity|]. cbn [is_empty flat_map]. rewrite app_nil_r. reflexivity.
  - inversion HF as [|q' r' Hq Hr]; subst. fold (push_all (push acc q) r). rewrite (IH _ Hr).
    unfold joined. destruct (is_empty acc) eqn:Ha.
    + destruct acc; [|discriminate]. rewrite push_empty. reflexivity.
    + rewrite (push_relative_nonempty acc q Hq Ha). rewrite components_push, Hq, Ha.
      cbn [flat_map]. rewrite app_assoc. reflexivity.
Qed.

Lemma display_push_all acc parts :
  Forall relative parts -> display (push_all acc parts) = join "/" (joined acc parts).
Proof. intro H. unfold display. rewrite components_push_all by assumption. reflexivity. Qed.

Lemma push_all_app acc l1 l2 : push_all acc (l1 ++ l2)%list = push_all (push_all acc l1) l2.
Proof. unfold push_all. apply fold_left_app. Qed.

(* the relation between what a relative path contributes first and later: a leading "." *)
Lemma drop_dots_strip l : strip_cur (drop_dots l) = drop_dots l.
Proof.
  induction l as [|y l IH]; [reflexivity|]. cbn [drop_dots].
  destruct (is_empty y); cbn [orb]; [exact IH|].
  destruct (String.eqb y ".") eqn:Ed; [exact IH|]. cbn [strip_cur]. rewrite Ed. reflexivity.
Qed.

Lemma rel_comps_components q : is_absolute q = false -> rel_comps q = strip_cur (components q).
Proof.
  intro Hq. unfold rel_comps, components. rewrite Hq.
  pose proof (split_on_nonempty "/" q) as Hn.
  destruct (split_on "/" q) as [|c r]; [congruence|]. cbn [drop_dots].
  destruct (is_empty c) eqn:Ec; cbn [orb app].
  - symmetry. apply drop_dots_strip.
  - cbn [strip_cur]. destruct (String.eqb c "."); reflexivity.
Qed.

(* ---------- escape_path folds push over the escaped components ---------- *)

Lemma escape_components_push_all rt orig l : forall acc,
  escape_components rt orig l acc =
  (do l' <- map_res (escape_component rt orig) l; Ok (push_all acc l')).
Proof.
  induction l as [|c l IH]; intro acc; cbn [escape_components map_res]; [reflexivity|].
  destruct (escape_component rt orig c) as [c'|e]; cbn [bind]; [|reflexivity].
  rewrite IH. destruct (map_res (escape_component rt orig) l) as [l'|e]; reflexivity.
Qed.

Lemma escape_path_push_all rt p :
  escape_path rt p = (do l' <- map_res (escape_component rt p) (components p); Ok (push_all "" l')).
Proof. apply escape_components_push_all. Qed.

(* hence an escaped path is the result of the substitution on each component, or the error of the
   first component that has one *)
Lemma map_res_ok_iff {A B} (f : A -> res B) l l' :
  map_res f l = Ok l' <-> Forall2 (fun x y => f x = Ok y) l l'.
Proof.
  revert l'. induction l as [|x l IH]; intro l'; cbn [map_res].
  - split; intro H; [injection H as <-; constructor | inversion H; reflexivity].
  - split.
    + intro H. apply bind_ok in H. destruct H as [y [Hy H]]. apply bind_ok in H.
      destruct H as [ys [Hys H]]. injection H as <-. constructor; [assumption | apply IH; assumption].
    + intro H. inversion H as [|x0 y l0 ys Hy Hys]; subst. apply IH in Hys. rewrite Hy, Hys. reflexivity.
Qed.

Lemma escape_path_ok_iff rt p r :
  escape_path rt p = Ok r <->
  exists l', Forall2 (fun c c' => Subst rt p c (Ok c')) (components p) l' /\ r = push_all "" l'.
Proof.
  rewrite escape_path_push_all. split.
  - intro H. apply bind_ok in H. destruct H as [l' [Hl H]]. injection H as <-. exists l'. split; [|reflexivity].
    apply map_res_ok_iff in Hl. induction Hl; constructor; [apply escape_component_iff|]; assumption.
  - intros [l' [HF ->]]. assert (Hl : map_res (escape_component rt p) (components p) = Ok l').
    { apply map_res_ok_iff. induction HF; constructor; [apply escape_component_iff|]; assumption. }
    rewrite Hl. reflexivity.
Qed.

(* an error of escape_path is the error of one of its components, those before it being fine *)
Lemma map_res_err_iff {A B} (f : A -> res B) l e :
  map_res f l = Err e <->
  exists l1 x l2, l = (l1 ++ x :: l2)%list /\ f x = Err e /\ forall y, In y l1 -> exists z, f y = Ok z.
Proof.
  induction l as [|x l IH]; cbn [map_res].
  - split; [discriminate|]. intros [l1 [x [l2 [E _]]]]. destruct l1; discriminate.
  - split.
    + destruct (f x) as [y|e'] eqn:Hx; cbn [bind].
      * destruct (map_res f l) as [ys|e'] eqn:Hl; cbn [bind]; [discriminate|].
        intro H. injection H as ->. destruct (proj1 IH eq_refl) as [l1 [x0 [l2 [-> [Hx0 Hok]]]]].
        exists (x :: l1), x0, l2. split; [reflexivity|]. split; [assumption|].
        intros y0 [<-|Hin]; [exists y; assumption | apply Hok; assumption].
      * intro H. injection H as ->. exists [], x, l. split; [reflexivity|]. split; [assumption|].
        intros y [].
    + intros [l1 [x0 [l2 [E [Hx0 Hok]]]]]. destruct l1 as [|a l1]; cbn [app] in E.
      * injection E as Ex El. subst x0 l2. rewrite Hx0. reflexivity.
      * injection E as Ex El. subst a l.
        destruct (Hok x (or_introl eq_refl)) as [z Hz]. rewrite Hz. cbn [bind].
        assert (Hm : map_res f (l1 ++ x0 :: l2) = Err e).
        { apply IH. exists l1, x0, l2. split; [reflexivity|]. split; [assumption|].
          intros y Hin. apply Hok. right. assumption. }
        rewrite Hm. reflexivity.
Qed.

Lemma escape_path_err_iff rt p e :
  escape_path rt p = Err e <->
  exists l1 c l2, components p = (l1 ++ c :: l2)%list /\ Subst rt p c (Err e) /\
                  forall c0, In c0 l1 -> exists t, Subst rt p c0 (Ok t).
Proof.
  rewrite escape_path_push_all. split.
  - intro H. destruct (map_res (escape_component rt p) (components p)) as [l'|e'] eqn:Hm; [discriminate|].
    injection H as <-. apply map_res_err_iff in Hm. destruct Hm as [l1 [c [l2 [E [Hc Hok]]]]].
    exists l1, c, l2. split; [assumption|]. split; [apply escape_component_iff; assumption|].
    intros c0 Hin. destruct (Hok c0 Hin) as [t Ht]. exists t. apply escape_component_iff. assumption.
  - intros [l1 [c [l2 [E [Hc Hok]]]]].
    assert (Hm : map_res (escape_component rt p) (components p) = Err e).
    { apply map_res_err_iff. exists l1, c, l2. split; [assumption|].
      split; [apply escape_component_iff; assumption|].
      intros c0 Hin. destruct (Hok c0 Hin) as [t Ht]. exists t. apply escape_component_iff. assumption. }
    rewrite Hm. reflexivity.
Qed.

(* ====================================================================== *)
(* the paths emit_sff emits                                                *)
(* ====================================================================== *)

Section EmitPaths.
  Variable rt : runtime.
  Variable sty : style.
  Variable cfg : wcfg.
  Variable seg : segment.
  Variable sections : list string.

  (* ---------- what one call does, by kind ---------- *)

  Lemma emit_file_excluded f k base ws :
    should_emit rt (fi_conds f) = false -> emit_file_of rt sty cfg seg sections f k base ws = Ok ([], ws).
  Proof. intro Hs. unfold emit_file_of, emit_file_gen. rewrite Hs. reflexivity. Qed.

  Lemma emit_file_object f k base ws p' :
    should_emit rt (fi_conds f) = true -> fi_kind f = KObject -> escape_path rt (fi_path f) = Ok p' ->
    emit_file_of rt sty cfg seg sections f k base ws =
    Ok ([SInput (keeps (fi_keep f) k) (display (push base p')) None k (wildcard_sections seg)],
        add_path (push base p') ws).
  Proof. intros Hs Hk Hp. unfold emit_file_of, emit_file_gen. rewrite Hs, Hk, Hp. reflexivity. Qed.

  Lemma emit_file_archive f k base ws p' :
    should_emit rt (fi_conds f) = true -> fi_kind f = KArchive -> escape_path rt (fi_path f) = Ok p' ->
    emit_file_of rt sty cfg seg sections f k base ws =
    Ok ([SInput (keeps (fi_keep f) k) (display (push base p')) (Some (fi_subfile f)) k (wildcard_sections seg)],
        add_path (push base p') ws).
  Proof. intros Hs Hk Hp. unfold emit_file_of, emit_file_gen. rewrite Hs, Hk, Hp. reflexivity. Qed.

  Lemma emit_file_group f k base ws d' :
    should_emit rt (fi_conds f) = true -> fi_kind f = KGroup -> escape_path rt (fi_dir f) = Ok d' ->
    emit_file_of rt sty cfg seg sections f k base ws =
    fold_out (fun c ws => emit_sff rt sty cfg seg sections c (chain_fuel seg) [] k (push base d') ws)
             (fi_files f) ws.
  Proof. intros Hs Hk Hp. unfold emit_file_of, emit_file_gen. rewrite Hs, Hk, Hp. reflexivity. Qed.

  (* an entry whose path misses a key makes the call fail with that error: no statement is made *)
  Lemma emit_file_path_error f k base ws e :
    should_emit rt (fi_conds f) = true -> fi_kind f = KObject \/ fi_kind f = KArchive ->
    escape_path rt (fi_path f) = Err e ->
    emit_file_of rt sty cfg seg sections f k base ws = Err e.
  Proof.
    intros Hs Hk Hp. unfold emit_file_of, emit_file_gen. rewrite Hs, Hp.
    destruct Hk as [-> | ->]; reflexivity.
  Qed.

  Lemma emit_file_dir_error f k base ws e :
    should_emit rt (fi_conds f) = true -> fi_kind f = KGroup -> escape_path rt (fi_dir f) = Err e ->
    emit_file_of rt sty cfg seg sections f k base ws = Err e.
  Proof. intros Hs Hk Hp. unfold emit_file_of, emit_file_gen. rewrite Hs, Hk, Hp. reflexivity. Qed.

  Lemma emit_sff_path_error f n stack section base ws e k rest :
    mem_str section stack = false -> sections_here f section sections = k :: rest ->
    should_emit rt (fi_conds f) = true -> fi_kind f = KObject \/ fi_kind f = KArchive ->
    escape_path rt (fi_path f) = Err e ->
    emit_sff rt sty cfg seg sections f (S n) stack section base ws = Err e.
  Proof.
    intros Hm Hsh Hs Hk Hp. rewrite emit_sff_S, Hm. unfold chain_step. rewrite Hsh. cbn [fold_out].
    rewrite (emit_file_path_error f k base ws e Hs Hk Hp). reflexivity.
  Qed.

  Lemma emit_sff_dir_error f n stack section base ws e k rest :
    mem_str section stack = false -> sections_here f section sections = k :: rest ->
    should_emit rt (fi_conds f) = true -> fi_kind f = KGroup ->
    escape_path rt (fi_dir f) = Err e ->
    emit_sff rt sty cfg seg sections f (S n) stack section base ws = Err e.
  Proof.
    intros Hm Hsh Hs Hk Hp. rewrite emit_sff_S, Hm. unfold chain_step. rewrite Hsh. cbn [fold_out].
    rewrite (emit_file_dir_error f k base ws e Hs Hk Hp). reflexivity.
  Qed.

  (* ---------- the invariant: every emitted or recorded path is a RawPath ---------- *)

  Definition InvOut (base : string) (files : list file_info) (ws : wstate) (o : out) : Prop :=
    InputsFrom rt base files (fst o) /\ PathsFrom rt base files ws (snd o).

  Lemma inv_nil base files ws : InvOut base files ws ([], ws).
  Proof. split; [constructor | intros c Hc; left; assumption]. Qed.

  Lemma inv_seq base files ws o1 o2 :
    InvOut base files ws o1 -> InvOut base files (snd o1) o2 ->
    InvOut base files ws ((fst o1 ++ fst o2)%list, snd o2).
  Proof.
    intros [H1 P1] [H2 P2]. split; cbn [fst snd].
    - apply Forall_app. split; assumption.
    - intros c Hc. destruct (P2 c Hc) as [Hin|Hr]; [apply P1; assumption | right; assumption].
  Qed.

  Lemma inv_weaken base files base' files' ws o :
    (forall f raw, In f files -> RawPath rt base f raw ->
                   exists f', In f' files' /\ RawPath rt base' f' raw) ->
    InvOut base files ws o -> InvOut base' files' ws o.
  Proof.
    intros Hw [H1 P1]. split.
    - eapply Forall_impl; [|exact H1]. intros s Hs keep path sub k w E.
      destruct (Hs keep path sub k w E) as (f & raw & Hin & Hr & ->).
      destruct (Hw f raw Hin Hr) as (f' & Hin' & Hr'). exists f', raw. repeat split; assumption.
    - intros c Hc. destruct (P1 c Hc) as [Hin|(f & raw & Hin & Hr & ->)]; [left; assumption|].
      right. destruct (Hw f raw Hin Hr) as (f' & Hin' & Hr'). exists f', raw. repeat split; assumption.
  Qed.

  Lemma fold_out_inv {A} (g : A -> wstate -> res out) l base files :
    (forall x, In x l -> forall ws o, g x ws = Ok o -> InvOut base files ws o) ->
    forall ws o, fold_out g l ws = Ok o -> InvOut base files ws o.
  Proof.
    induction l as [|x l IH]; intros Hg ws o H; cbn [fold_out] in H.
    - injection H as <-. apply inv_nil.
    - apply bind_ok in H. destruct H as [o1 [H1 H]]. apply bind_ok in H. destruct H as [o2 [H2 H]].
      injection H as <-. apply inv_seq.
      + apply (Hg x (or_introl eq_refl)). assumption.
      + apply IH; [|assumption]. intros y Hy. apply Hg. right. assumption.
  Qed.

  Lemma add_path_in p ws c :
    In c (ws_paths (add_path p ws)) -> In c (ws_paths ws) \/ c = components p.
  Proof.
    unfold add_path. destruct (comps_mem (components p) (ws_paths ws)); [left; assumption|].
    cbn [ws_paths]. intro H. apply in_app_or in H. destruct H as [H|[<-|[]]]; [left; assumption | right; reflexivity].
  Qed.

  Lemma raw_here f base p' :
    should_emit rt (fi_conds f) = true -> fi_kind f = KObject \/ fi_kind f = KArchive ->
    escape_path rt (fi_path f) = Ok p' -> RawPath rt base f (push base p').
  Proof.
    intros Hs Hk Hp. exists [], f, [], p'. split; [constructor; assumption|].
    split; [reflexivity|]. split; [assumption | reflexivity].
  Qed.

  Lemma raw_group f base d' c raw :
    should_emit rt (fi_conds f) = true -> fi_kind f = KGroup -> escape_path rt (fi_dir f) = Ok d' ->
    In c (fi_files f) -> RawPath rt (push base d') c raw -> RawPath rt base f raw.
  Proof.
    intros Hs Hk Hd Hin (dirs & leaf & dirs' & p' & Hpt & Hm & Hp & ->).
    exists (fi_dir f :: dirs), leaf, (d' :: dirs'), p'. split; [apply (PathTo_group rt f c); assumption|].
    split; [cbn [map_res]; rewrite Hd, Hm; reflexivity|]. split; [assumption | reflexivity].
  Qed.

  Lemma inv_leaf f base p' keep sub k w ws :
    should_emit rt (fi_conds f) = true -> fi_kind f = KObject \/ fi_kind f = KArchive ->
    escape_path rt (fi_path f) = Ok p' ->
    InvOut base [f] ws ([SInput keep (display (push base p')) sub k w], add_path (push base p') ws).
  Proof.
    intros Hs Hk Hp. pose proof (raw_here f base p' Hs Hk Hp) as Hr. split; cbn [fst snd].
    - constructor; [|constructor]. intros keep0 path sub0 k0 w0 E. injection E as _ <- _ _ _.
      exists f, (push base p'). split; [left; reflexivity|]. split; [assumption | reflexivity].
    - intros c Hc. apply add_path_in in Hc. destruct Hc as [Hc| ->]; [left; assumption|].
      right. exists f, (push base p'). split; [left; reflexivity|]. split; [assumption | reflexivity].
  Qed.

  Lemma inv_no_input base files ws stmts :
    (forall s, In s stmts -> forall keep path sub k w, s <> SInput keep path sub k w) ->
    InvOut base files ws (stmts, ws).
  Proof.
    intro H. split; cbn [fst snd]; [|intros c Hc; left; assumption].
    apply Forall_forall. intros s Hs keep path sub k w E. exfalso. exact (H s Hs keep path sub k w E).
  Qed.

  Lemma emit_file_inv f k base ws o :
    Forall (fun c => forall n stack section base ws o,
                       emit_sff rt sty cfg seg sections c n stack section base ws = Ok o ->
                       InvOut base [c] ws o) (fi_files f) ->
    emit_file_of rt sty cfg seg sections f k base ws = Ok o -> InvOut base [f] ws o.
  Proof.
    intros HF H. unfold emit_file_of, emit_file_gen in H.
    destruct (should_emit rt (fi_conds f)) eqn:Hs; cbn [negb] in H; [|injection H as <-; apply inv_nil].
    destruct (fi_kind f) eqn:Hk.
    - apply bind_ok in H. destruct H as [p' [Hp H]]. injection H as <-.
      apply inv_leaf; [assumption | left; assumption | assumption].
    - apply bind_ok in H. destruct H as [p' [Hp H]]. injection H as <-.
      apply inv_leaf; [assumption | right; assumption | assumption].
    - injection H as <-. apply inv_no_input. intros s Hin.
      destruct (String.eqb (fi_section f) k); [destruct Hin as [<-|[]]; discriminate | destruct Hin].
    - injection H as <-. apply inv_no_input. intros s Hin.
      destruct (String.eqb (fi_section f) k); [destruct Hin as [<-|[]]; discriminate | destruct Hin].
    - apply bind_ok in H. destruct H as [d' [Hd H]]. unfold group_fold in H.
      apply (inv_weaken (push base d') (fi_files f)).
      + intros c raw Hin Hr. exists f. split; [left; reflexivity|].
        apply (raw_group f base d' c raw); assumption.
      + eapply fold_out_inv; [|exact H]. intros c Hin ws1 o1 H1. rewrite Forall_forall in HF.
        apply (inv_weaken (push base d') [c]); [|apply (HF c Hin _ _ _ _ _ _ H1)].
        intros c0 raw [<-|[]] Hr. exists c. split; assumption.
  Qed.

  (* every input-section statement and every recorded path of emit_sff, at any depth of nesting and
     through any sub-group expansion, is base / escaped group dirs / escaped entry path *)
  Lemma emit_sff_inv f : forall n stack section base ws o,
    emit_sff rt sty cfg seg sections f n stack section base ws = Ok o -> InvOut base [f] ws o.
  Proof.
    induction f as [p k sf pa sec lon so files dir c kp HF] using file_info_ind'.
    induction n as [|n IHn]; intros stack section base ws o H.
    - rewrite emit_sff_O in H. discriminate.
    - rewrite emit_sff_S in H. destruct (mem_str section stack); [discriminate|].
      unfold chain_step in H. eapply fold_out_inv; [|exact H].
      intros k0 _ ws0 o0 H0. apply bind_ok in H0. destruct H0 as [o1 [H1 H0]].
      apply bind_ok in H0. destruct H0 as [o2 [H2 H0]]. injection H0 as <-.
      apply inv_seq.
      + apply (emit_file_inv _ k0 base ws0 o1); [exact HF | exact H1].
      + destruct (reference_partial cfg); [injection H2 as <-; apply inv_nil|].
        destruct (lookup k0 (subgroups_for seg _)) as [others|]; [|injection H2 as <-; apply inv_nil].
        eapply fold_out_inv; [|exact H2]. intros other _ ws1 o3 H3. apply (IHn _ _ _ _ _ H3).
  Qed.

  (* emit_section: base is the escaped base_path, then (unless partial objects are referenced) the
     escaped segment dir *)
  Lemma emit_section_inv bp section ws o :
    emit_section rt sty cfg seg sections bp section ws = Ok o ->
    exists b0 base,
      escape_path rt bp = Ok b0 /\
      (if reference_partial cfg then base = b0
       else exists d, escape_path rt (sg_dir seg) = Ok d /\ base = push b0 d) /\
      InvOut base (sg_files seg) ws o.
  Proof.
    unfold emit_section. intro H. apply bind_ok in H. destruct H as [b0 [Hb H]].
    apply bind_ok in H. destruct H as [base [Hbase H]]. exists b0, base. split; [assumption|]. split.
    - destruct (reference_partial cfg).
      + injection Hbase as <-. reflexivity.
      + apply bind_ok in Hbase. destruct Hbase as [d [Hd Hbase]]. injection Hbase as <-.
        exists d. split; [assumption | reflexivity].
    - eapply fold_out_inv; [|exact H]. intros f Hin ws0 o0 H0.
      apply (inv_weaken base [f]); [|apply (emit_sff_inv f _ _ _ _ _ _ H0)].
      intros f0 raw [<-|[]] Hr. exists f. split; assumption.
  Qed.

  Lemma emit_section_base_error bp section ws e :
    escape_path rt bp = Err e -> emit_section rt sty cfg seg sections bp section ws = Err e.
  Proof. intro H. unfold emit_section. rewrite H. reflexivity. Qed.

  Lemma emit_section_dir_error bp section ws b0 e :
    escape_path rt bp = Ok b0 -> reference_partial cfg = false -> escape_path rt (sg_dir seg) = Err e ->
    emit_section rt sty cfg seg sections bp section ws = Err e.
  Proof. intros Hb Hr H. unfold emit_section. rewrite Hb, Hr, H. reflexivity. Qed.
End EmitPaths.

(* the displayed path of a RawPath, when the escaped dirs and path are relative: the "/"-join of the
   components of base, of the group dirs outermost first and of the path, empty and "." parts dropped *)
Lemma display_raw base dirs' p' :
  Forall relative (dirs' ++ [p'])%list ->
  display (push_all base (dirs' ++ [p'])%list) = join "/" (joined base (dirs' ++ [p'])%list).
Proof. apply display_push_all. Qed.

(* ---------- partial objects ---------- *)

Lemma should_emit_no_conds rt : should_emit rt no_conds = true.
Proof. reflexivity. Qed.

(* the main partial script references <segment>.o under partial_build_segments_folder, escaped,
   under the escaped base_path (no segment dir) *)
Lemma partial_object_emit rt sty seg0 sections bp section ws p b0 p' :
  escape_path rt bp = Ok b0 -> escape_path rt p = Ok p' ->
  emit_section rt sty cfg_main_partial (clone_with_new_files seg0 [new_object p]) sections bp section ws =
  Ok ([SInput false (display (push b0 p')) None section (wildcard_sections seg0)],
      add_path (push b0 p') ws).
Proof.
  intros Hb Hp. unfold emit_section. rewrite Hb. cbn [bind reference_partial cfg_main_partial sg_files clone_with_new_files fold_out].
  unfold chain_fuel at 1. rewrite emit_sff_S. cbn [mem_str]. unfold chain_step.
  change (sections_here (new_object p) section sections) with [section]. cbn [fold_out].
  rewrite (emit_file_object rt sty cfg_main_partial _ sections (new_object p) section b0 ws p'
             (should_emit_no_conds rt) eq_refl Hp).
  reflexivity.
Qed.

Lemma partial_object_error rt sty seg0 sections bp section ws p b0 e :
  escape_path rt bp = Ok b0 -> escape_path rt p = Err e ->
  emit_section rt sty cfg_main_partial (clone_with_new_files seg0 [new_object p]) sections bp section ws = Err e.
Proof.
  intros Hb Hp. unfold emit_section. rewrite Hb. cbn [bind reference_partial cfg_main_partial sg_files clone_with_new_files fold_out].
  unfold chain_fuel at 1.
  rewrite (emit_sff_path_error rt sty cfg_main_partial _ sections (new_object p) _ [] section b0 ws e section []
             eq_refl eq_refl (should_emit_no_conds rt) (or_introl eq_refl) Hp).
  reflexivity.
Qed.

Lemma display_push p q :
  is_absolute q = false -> is_empty p = false ->
  display (push p q) = join "/" (components p ++ rel_comps q)%list.
Proof. intros Hq Hp. unfold display. rewrite components_push, Hq, Hp. reflexivity. Qed.

(* partial_segment: the object referenced for a segment is <name>.o pushed on the folder *)
Lemma partial_segment_unfold d rt folder seg acc :
  should_emit rt (sg_conds seg) = true ->
  partial_segment d rt folder seg acc =
  (do sub <- add_single_segment rt (doc_settings d) cfg_sub_partial (doc_vram_classes d) seg ws0;
   do o <- add_segment rt (doc_settings d) cfg_main_partial (doc_vram_classes d)
             (clone_with_new_files seg [new_object (push folder (sg_name seg ++ ".o"))]) (fst acc);
   Ok (fst o,
       (snd o, (snd acc ++ [(sg_name seg,
                             WriterOut (version_stmts rt ++ fst sub)%list (ws_paths (snd sub)))])%list))).
Proof. intro H. unfold partial_segment. rewrite H. reflexivity. Qed.

Lemma object_name_comps name : contains_char "/" name = false -> rel_comps (name ++ ".o") = [name ++ ".o"].
Proof.
  intro H. unfold rel_comps. rewrite split_on_none.
  - cbn [drop_dots]. destruct name as [|a name]; [reflexivity|].
    cbn [append is_empty orb]. cbn [String.eqb]. destruct (Ascii.eqb a "."); [|reflexivity].
    destruct name; reflexivity.
  - rewrite contains_app, H. reflexivity.
Qed.

Lemma partial_object_components folder name :
  is_empty folder = false -> contains_char "/" name = false ->
  components (push folder (name ++ ".o")) = (components folder ++ [(name ++ ".o")%string])%list.
Proof.
  intros Hf Hn. rewrite components_push, Hf.
  assert (Ha : is_absolute (name ++ ".o") = false).
  { destruct name as [|a name]; [reflexivity|]. cbn [contains_char] in Hn. unfold is_absolute.
    cbn [append starts_with_char]. destruct (Ascii.eqb "/" a); [discriminate | reflexivity]. }
  rewrite Ha, object_name_comps by assumption. reflexivity.
Qed.

(* ---------- concrete instances of the hypotheses (used by the Examples) ---------- *)

Lemma ex_keys_1 : Keys "x{a}_{b}.o" ["a"; "b"].
Proof.
  apply Keys_lit; [discriminate|].
  apply (Keys_key "a" "_{b}.o" ["b"]); [reflexivity|].
  apply Keys_lit; [discriminate|].
  apply (Keys_key "b" ".o" []); [reflexivity|].
  apply Keys_lit; [discriminate|]. apply Keys_lit; [discriminate|]. constructor.
Qed.

Lemma ex_keys_provided rt :
  is_some (opt_get rt "a") = true -> is_some (opt_get rt "b") = true ->
  forall k, In k ["a"; "b"] -> Provided rt k.
Proof.
  intros Ha Hb k [<-|[<-|[]]]; unfold Provided.
  - destruct (opt_get rt "a") as [v|] eqn:E; [exists v; first [exact E | reflexivity] | discriminate].
  - destruct (opt_get rt "b") as [v|] eqn:E; [exists v; first [exact E | reflexivity] | discriminate].
Qed.

Lemma ex_keys_2 : Keys "{a}{zz}{yy}{b}" ["a"; "zz"; "yy"; "b"].
Proof.
  apply (Keys_key "a" "{zz}{yy}{b}" ["zz"; "yy"; "b"]); [reflexivity|].
  apply (Keys_key "zz" "{yy}{b}" ["yy"; "b"]); [reflexivity|].
  apply (Keys_key "yy" "{b}" ["b"]); [reflexivity|].
  apply (Keys_key "b" "" []); [reflexivity|]. constructor.
Qed.

Lemma ex_first_missing rt :
  is_some (opt_get rt "a") = true -> opt_get rt "zz" = None ->
  FirstMissing rt ["a"; "zz"; "yy"; "b"] "zz".
Proof.
  intros Ha Hz. exists ["a"], ["yy"; "b"]. split; [reflexivity|]. split; [|assumption].
  intros k [<-|[]]. destruct (opt_get rt "a") as [v|] eqn:E; [exists v; first [exact E | reflexivity] | discriminate].
Qed.

(* a file tree: a group holding an object, under a two-level base *)
Definition ex_segment : segment :=
  Segment "main" [] None None None None "" None no_conds [".text"] [".bss"] None None None None None
          [] [] true None [] KAbsent.
Definition ex_object (p : string) : file_info := new_object p.
Definition ex_group_of (dir : string) (l : list file_info) : file_info :=
  FileInfo "" KGroup "" 0%N "" "" [] l dir no_conds KAbsent.
Definition ex_tree : file_info := ex_group_of "lib{w}" [ex_group_of "./x//{v}/." [ex_object "{v}{w}.o"]].
Definition ex_inputs (rt : runtime) (base : string) : res (list stmt) :=
  match emit_sff rt Splat cfg_normal ex_segment [".text"] ex_tree (chain_fuel ex_segment) [] ".text" base ws0 with
  | Ok o => Ok (fst o)
  | Err e => Err e
  end.

Lemma ex_relative : Forall relative ["lib1"; "x/eu"; "eu1.o"].
Proof. repeat constructor. Qed.

(* run-time settings of the Examples: a repeated key (the last value wins), an empty value *)
Definition rt_ex : runtime := Runtime [("a", "X"); ("b", "Y"); ("e", ""); ("a", "Z")] true.
Definition rt_ex2 : runtime := Runtime [("v", "eu"); ("w", "1")] true.
