(* C12: lemmas.  The first part (plain statements) is shared with C13. *)
From Slinky Require Import Model.Types Model.Runtime Model.Style Model.Script Model.Writer Model.Exports.
From Slinky Require Import Spec.C12 Spec.C13 Proofs.C06 Proofs.C18.
From Coq Require Import Lia.

(* ====================================================================== *)
(* plain statements: everything the writer emits around the file statements *)
(* ====================================================================== *)

(* not an input statement, not a block; its recorded symbol, if any, satisfies [G] *)
Definition plain_stmt (G : string -> Prop) (s : stmt) : Prop :=
  match s with
  | SInput _ _ _ _ _ | SOutSec _ _ _ _ _ _ | SSections _ => False
  | SAssign _ _ true sym _ => G sym
  | _ => True
  end.

Lemma plain_mono (G G' : string -> Prop) l :
  (forall x, G x -> G' x) -> Forall (plain_stmt G) l -> Forall (plain_stmt G') l.
Proof.
  intros H. apply Forall_impl. intros s Hs. destruct s; simpl in *; auto. destruct recorded; auto.
Qed.

Ltac pl_leaf tac :=
  repeat match goal with
         | |- Forall _ (_ ++ _) => apply Forall_app; split
         | |- Forall _ (match ?x with _ => _ end) => destruct x
         | |- Forall _ (if ?x then _ else _) => destruct x
         | |- Forall _ (_ :: _) => constructor
         | |- Forall _ [] => constructor
         | |- plain_stmt _ (linker_symbol _ _) => cbn [plain_stmt linker_symbol]; tac
         | |- plain_stmt _ _ => exact I
         end.

Ltac seg_level := left; cbn [In segment_level_names]; tauto.
Ltac seg_section :=
  right; eexists; split; [eassumption | cbn [In section_names]; tauto].

Lemma pl_opt_align G a : Forall (plain_stmt G) (opt_align a).
Proof. unfold opt_align. pl_leaf idtac. Qed.

Lemma pl_gp_stmt G rt seg section : Forall (plain_stmt G) (gp_stmt rt seg section).
Proof. unfold gp_stmt. pl_leaf idtac. Qed.

Lemma pl_section_symbol_start rt sty cfg seg section :
  In section (alloc_sections seg ++ noload_sections seg) ->
  Forall (plain_stmt (segment_form sty seg)) (section_symbol_start rt sty cfg seg section).
Proof.
  intro Hin. unfold section_symbol_start. destruct (section_syms cfg); [|constructor].
  fa; try apply pl_opt_align; try apply pl_gp_stmt. pl_leaf seg_section.
Qed.

Lemma pl_section_symbol_end sty cfg seg section :
  In section (alloc_sections seg ++ noload_sections seg) ->
  Forall (plain_stmt (segment_form sty seg)) (section_symbol_end sty cfg seg section).
Proof.
  intro Hin. unfold section_symbol_end. destruct (section_syms cfg); [|constructor].
  fa; try apply pl_opt_align. unfold sym_end_size. pl_leaf seg_section.
Qed.

Lemma pl_kind_start sty cfg seg noload :
  Forall (plain_stmt (segment_form sty seg)) (sections_kind_start sty cfg seg noload).
Proof. unfold sections_kind_start. destruct noload; pl_leaf seg_level. Qed.

Lemma pl_kind_end sty cfg seg noload :
  Forall (plain_stmt (segment_form sty seg)) (sections_kind_end sty cfg seg noload).
Proof. unfold sections_kind_end, sym_end_size. destruct noload; pl_leaf seg_level. Qed.

Lemma pl_opt_fill G seg : Forall (plain_stmt G) (opt_fill seg).
Proof. unfold opt_fill. pl_leaf idtac. Qed.

Lemma pl_seg_head st seg :
  Forall (plain_stmt (segment_form (linker_symbols_style st) seg)) (seg_head st seg).
Proof. unfold seg_head. pl_leaf seg_level. Qed.

Lemma pl_seg_foot st seg :
  Forall (plain_stmt (segment_form (linker_symbols_style st) seg)) (seg_foot st seg).
Proof. unfold seg_foot, sym_end_size. cbv zeta. pl_leaf seg_level. Qed.

Lemma pl_class_start st c cn :
  Forall (plain_stmt (class_form (linker_symbols_style st) cn)) (class_start_stmts st c cn).
Proof.
  unfold class_start_stmts, class_form. apply Forall_app; split; [|pl_leaf ltac:(cbn [In]; tauto)].
  destruct (vc_fixed_vram c); [pl_leaf ltac:(cbn [In]; tauto)|].
  destruct (vc_fixed_symbol c); [pl_leaf ltac:(cbn [In]; tauto)|].
  constructor; [cbn [plain_stmt linker_symbol In]; tauto|]. apply Forall_map_intro. intro x. exact I.
Qed.

Lemma pl_hardcoded G st : Forall (plain_stmt G) (hardcoded_gp_stmts st).
Proof. unfold hardcoded_gp_stmts. pl_leaf idtac. Qed.

Lemma pl_begin G st : Forall (plain_stmt G) (begin_sections_body st).
Proof. unfold begin_sections_body. fa; try apply pl_hardcoded; pl_leaf idtac. Qed.

Lemma pl_single_head G st cfg seg : Forall (plain_stmt G) (single_head st cfg seg).
Proof.
  unfold single_head. apply Forall_app; split.
  - destruct (section_syms cfg); [|constructor].
    pose proof (pl_hardcoded G st) as H. destruct (hardcoded_gp_stmts st); [constructor|].
    apply Forall_app; split; [assumption | pl_leaf idtac].
  - pl_leaf idtac.
Qed.

Lemma pl_version G rt : Forall (plain_stmt G) (version_stmts rt).
Proof. unfold version_stmts. pl_leaf idtac. Qed.

Lemma pl_tail_stmts G rt d : Forall (plain_stmt G) (tail_stmts rt d).
Proof.
  unfold tail_stmts, entry_stmts, assignment_stmts, required_stmts, assert_stmts. fa.
  - pl_leaf idtac.
  - destruct (doc_symbol_assignments d); [constructor|]. constructor; [exact I|].
    apply Forall_flat_map_intro. intro x0. pl_leaf idtac.
  - destruct (doc_required_symbols d); [constructor|]. constructor; [exact I|].
    apply Forall_flat_map_intro. intro x0. pl_leaf idtac.
  - destruct (doc_asserts d); [constructor|]. constructor; [exact I|].
    apply Forall_flat_map_intro. intro x0. pl_leaf idtac.
Qed.

Definition any_class_form (sty : style) (classes : list vram_class) (sym : string) : Prop :=
  exists c, In c classes /\ class_form sty (vc_name c) sym.

Lemma keep_first_incl {A} (eqb : A -> A -> bool) l x : In x (keep_first eqb l) -> In x l.
Proof.
  revert x. induction l as [|y r IH]; intros x H; [assumption|]. simpl in H. destruct H as [H|H].
  - left; assumption.
  - right. apply IH. apply filter_In in H. tauto.
Qed.

Lemma pl_end_sections st classes ws :
  Forall (plain_stmt (any_class_form (linker_symbols_style st) classes)) (end_sections_body st classes ws).
Proof.
  rewrite end_sections_layout.
  assert (Hparts : Forall (Forall (plain_stmt (any_class_form (linker_symbols_style st) classes)))
                     [tail_sizes st classes ws; tail_allow st; tail_extra st; tail_discard st]).
  { repeat constructor.
    - unfold tail_sizes, emitted_classes. apply Forall_forall. intros s Hs. apply in_map_iff in Hs.
      destruct Hs as [cn [E Hin]]. subst. apply filter_In in Hin. destruct Hin as [Hin _].
      apply keep_first_incl in Hin. apply in_map_iff in Hin. destruct Hin as [c [E Hc]]. subst.
      cbn [plain_stmt class_size_stmt linker_symbol]. exists c. split; [assumption|].
      unfold class_form. cbn [In]. tauto.
    - apply Forall_map_intro. intro x. exact I.
    - apply Forall_map_intro. intro x. exact I.
    - unfold tail_discard. pl_leaf idtac. }
  induction Hparts as [|p r Hp Hr IH]; [constructor|]. simpl. destruct p as [|x p]; [exact IH|].
  apply Forall_app; split; [exact Hp|]. destruct (sep_concat r); [constructor|].
  constructor; [exact I | exact IH].
Qed.

(* ====================================================================== *)
(* C12: the text                                                           *)
(* ====================================================================== *)

Lemma deps_text_spec rt w target : deps_text rt w target = deps_spec rt target (wo_paths w).
Proof. reflexivity. Qed.

(* ====================================================================== *)
(* C12: inputs of a script against the recorded paths                      *)
(* ====================================================================== *)

Lemma input_paths_app a b : input_paths (a ++ b) = input_paths a ++ input_paths b.
Proof. unfold input_paths. apply flat_map_app. Qed.

Lemma input_paths_outsec n a at_ nl sub body : input_paths [SOutSec n a at_ nl sub body] = input_paths body.
Proof. unfold input_paths. simpl. apply app_nil_r. Qed.

Lemma input_paths_sections body : input_paths [SSections body] = input_paths body.
Proof. unfold input_paths. simpl. apply app_nil_r. Qed.

Lemma plain_no_inputs G l : Forall (plain_stmt G) l -> input_paths l = [].
Proof.
  induction 1 as [|x r Hx Hr IH]; [reflexivity|]. unfold input_paths in *. simpl. rewrite IH.
  destruct x; simpl in *; try reflexivity; contradiction.
Qed.

Definition PathsRel (ws : wstate) (s : list stmt) (ws' : wstate) : Prop :=
  exists L, input_paths s = map display L /\ ws_paths ws' = add_paths L (ws_paths ws).

(* the file-level functions do not touch the class flags *)
Definition FileRel (ws : wstate) (s : list stmt) (ws' : wstate) : Prop :=
  ws_emitted ws' = ws_emitted ws /\ PathsRel ws s ws'.

Lemma PathsRel_nil ws : PathsRel ws [] ws.
Proof. exists []. split; reflexivity. Qed.

Lemma PathsRel_app ws s1 ws1 s2 ws2 : PathsRel ws s1 ws1 -> PathsRel ws1 s2 ws2 -> PathsRel ws (s1 ++ s2) ws2.
Proof.
  intros [L1 [E1 P1]] [L2 [E2 P2]]. exists (L1 ++ L2). split.
  - rewrite input_paths_app, map_app, E1, E2. reflexivity.
  - unfold add_paths in *. rewrite fold_left_app, <- P1. exact P2.
Qed.

Lemma PathsRel_inputs ws s s' ws' : input_paths s' = input_paths s -> PathsRel ws s ws' -> PathsRel ws s' ws'.
Proof. intros E [L [E1 P]]. exists L. split; [congruence | assumption]. Qed.

Lemma FileRel_nil ws : FileRel ws [] ws.
Proof. split; [reflexivity | apply PathsRel_nil]. Qed.

Lemma FileRel_app ws s1 ws1 s2 ws2 : FileRel ws s1 ws1 -> FileRel ws1 s2 ws2 -> FileRel ws (s1 ++ s2) ws2.
Proof.
  intros [E1 P1] [E2 P2]. split; [congruence | eapply PathsRel_app; eassumption].
Qed.

Lemma FileRel_inputs ws s s' ws' : input_paths s' = input_paths s -> FileRel ws s ws' -> FileRel ws s' ws'.
Proof. intros E [E1 P]. split; [assumption | eapply PathsRel_inputs; eassumption]. Qed.

Lemma add_path_paths p ws : ws_paths (add_path p ws) = add_comps (components p) (ws_paths ws).
Proof. unfold add_path, add_comps. destruct (comps_mem (components p) (ws_paths ws)); reflexivity. Qed.

Lemma add_path_emitted p ws : ws_emitted (add_path p ws) = ws_emitted ws.
Proof. unfold add_path. destruct (comps_mem (components p) (ws_paths ws)); reflexivity. Qed.

Lemma FileRel_emitter sty wild offs g : emitter sty wild offs g ->
  forall ws s ws', g ws = Ok (s, ws') -> FileRel ws s ws'.
Proof.
  apply (emitter_rel sty wild offs FileRel).
  - apply FileRel_nil.
  - apply FileRel_app.
  - intros ws keep path member k. split; [apply add_path_emitted|]. exists [path]. split; [reflexivity|].
    apply add_path_paths.
  - intros ws n. split; [reflexivity|]. exists []. split; reflexivity.
  - intros ws name _. split; [reflexivity|]. exists []. split; reflexivity.
Qed.

Lemma FileRel_emit_section rt sty cfg seg sections base section ws s ws' :
  emit_section rt sty cfg seg sections base section ws = Ok (s, ws') -> FileRel ws s ws'.
Proof. apply (FileRel_emitter sty (wildcard_sections seg) (offs_of_segment rt seg)). apply emit_section_emitter. Qed.

Lemma FileRel_part_groups rt st cfg seg sections rest : forall ws s ws',
  incl rest (alloc_sections seg ++ noload_sections seg) ->
  part_groups rt st cfg seg sections rest ws = Ok (s, ws') -> FileRel ws s ws'.
Proof.
  induction rest as [|section rest IH]; intros ws s ws' Hin H.
  - apply ok_inj in H. inversion H; subst. apply FileRel_nil.
  - apply part_groups_cons in H. destruct H as [s1 [ws1 [s2 [E1 [E2 E]]]]]. subst.
    apply FileRel_inputs with (s := s1 ++ s2).
    + rewrite !input_paths_app.
      rewrite (plain_no_inputs _ _ (pl_section_symbol_start rt _ cfg seg section (Hin _ (or_introl eq_refl)))).
      rewrite (plain_no_inputs _ _ (pl_section_symbol_end _ cfg seg section (Hin _ (or_introl eq_refl)))).
      destruct rest; reflexivity.
    + eapply FileRel_app; [eapply FileRel_emit_section; eassumption|].
      eapply IH; [|eassumption]. intros x Hx. apply Hin. right; assumption.
Qed.

Lemma FileRel_single_groups rt st cfg seg sections noload rest : forall ws s ws',
  incl rest (alloc_sections seg ++ noload_sections seg) ->
  single_groups rt st cfg seg sections noload rest ws = Ok (s, ws') -> FileRel ws s ws'.
Proof.
  induction rest as [|section rest IH]; intros ws s ws' Hin H.
  - apply ok_inj in H. inversion H; subst. apply FileRel_nil.
  - apply single_groups_cons in H. destruct H as [s1 [ws1 [s2 [E1 [E2 E]]]]]. subst.
    apply FileRel_inputs with (s := s1 ++ s2).
    + rewrite !input_paths_app, input_paths_outsec, input_paths_app.
      rewrite (plain_no_inputs _ _ (pl_section_symbol_start rt _ cfg seg section (Hin _ (or_introl eq_refl)))).
      rewrite (plain_no_inputs _ _ (pl_section_symbol_end _ cfg seg section (Hin _ (or_introl eq_refl)))).
      rewrite (plain_no_inputs _ _ (pl_opt_fill (fun _ => True) seg)).
      destruct rest; reflexivity.
    + eapply FileRel_app; [eapply FileRel_emit_section; eassumption|].
      eapply IH; [|eassumption]. intros x Hx. apply Hin. right; assumption.
Qed.

Lemma FileRel_write_segment rt st cfg seg sections noload ws s ws' :
  incl sections (alloc_sections seg ++ noload_sections seg) ->
  write_segment rt st cfg seg sections noload ws = Ok (s, ws') -> FileRel ws s ws'.
Proof.
  intros Hin H. apply write_segment_inv in H. destruct H as [body [E H]]. subst.
  apply FileRel_inputs with (s := body); [|eapply FileRel_part_groups; eassumption].
  rewrite !input_paths_app. unfold outsec_of. rewrite input_paths_outsec, input_paths_app.
  rewrite (plain_no_inputs _ _ (pl_kind_start _ cfg seg noload)),
    (plain_no_inputs _ _ (pl_kind_end _ cfg seg noload)),
    (plain_no_inputs _ _ (pl_opt_fill (fun _ => True) seg)).
  simpl. apply app_nil_r.
Qed.

Lemma FileRel_write_single_segment rt st cfg seg sections noload ws s ws' :
  incl sections (alloc_sections seg ++ noload_sections seg) ->
  write_single_segment rt st cfg seg sections noload ws = Ok (s, ws') -> FileRel ws s ws'.
Proof.
  intros Hin H. apply write_single_segment_inv in H. destruct H as [body [E H]]. subst.
  apply FileRel_inputs with (s := body); [|eapply FileRel_single_groups; eassumption].
  rewrite !input_paths_app.
  rewrite (plain_no_inputs _ _ (pl_kind_start _ cfg seg noload)),
    (plain_no_inputs _ _ (pl_kind_end _ cfg seg noload)).
  simpl. apply app_nil_r.
Qed.

Lemma incl_alloc seg : incl (alloc_sections seg) (alloc_sections seg ++ noload_sections seg).
Proof. apply incl_appl, incl_refl. Qed.

Lemma incl_noload seg : incl (noload_sections seg) (alloc_sections seg ++ noload_sections seg).
Proof. apply incl_appr, incl_refl. Qed.

Lemma PathsRel_add_segment rt st cfg classes seg ws s ws' :
  add_segment rt st cfg classes seg ws = Ok (s, ws') -> PathsRel ws s ws'.
Proof.
  intro H. apply add_segment_inv in H.
  destruct H as [[_ [E Ew]] | [_ [cls [ws1 [s1 [ws2 [s2 [Ec [E1 [E2 E]]]]]]]]]]; subst; [apply PathsRel_nil|].
  apply FileRel_write_segment in E1; [|apply incl_alloc].
  apply FileRel_write_segment in E2; [|apply incl_noload].
  destruct E1 as [_ P1], E2 as [_ P2].
  apply PathsRel_inputs with (s := s1 ++ s2).
  - rewrite !input_paths_app.
    rewrite (plain_no_inputs _ _ (pl_seg_head st seg)), (plain_no_inputs _ _ (pl_seg_foot st seg)).
    assert (Ecls : input_paths cls = []).
    { apply class_part_inv in Ec. destruct Ec as [[E _] | [cn [c [_ [_ [_ [E _]]]]]]]; subst;
        [reflexivity | apply (plain_no_inputs _ _ (pl_class_start st c cn))]. }
    rewrite Ecls. simpl. rewrite app_nil_r. reflexivity.
  - assert (Ep : ws_paths ws1 = ws_paths ws).
    { apply class_part_inv in Ec. destruct Ec as [[_ E] | [cn [c [_ [_ [_ [_ E]]]]]]]; subst; reflexivity. }
    destruct P1 as [L1 [I1 Q1]]. rewrite Ep in Q1.
    eapply PathsRel_app; [exists L1; split; eassumption | exact P2].
Qed.

Lemma PathsRel_fold_add_segment rt st cfg classes segs ws s ws' :
  fold_out (add_segment rt st cfg classes) segs ws = Ok (s, ws') -> PathsRel ws s ws'.
Proof.
  apply (fold_out_rel PathsRel); [apply PathsRel_nil | apply PathsRel_app |].
  intros seg w t w' _ H. eapply PathsRel_add_segment; eassumption.
Qed.

Lemma PathsRel_add_single_segment rt st cfg classes seg ws s ws' :
  add_single_segment rt st cfg classes seg ws = Ok (s, ws') -> PathsRel ws s ws'.
Proof.
  intro H. apply add_single_segment_inv in H. destruct H as [s1 [ws1 [s2 [E1 [E2 E]]]]]. subst.
  apply FileRel_write_single_segment in E1; [|apply incl_alloc].
  apply FileRel_write_single_segment in E2; [|apply incl_noload].
  destruct E1 as [_ P1], E2 as [_ P2].
  apply PathsRel_inputs with (s := s1 ++ s2); [|eapply PathsRel_app; eassumption].
  rewrite input_paths_sections, !input_paths_app.
  rewrite (plain_no_inputs _ _ (pl_single_head (fun _ => True) st cfg seg)),
    (plain_no_inputs _ _ (pl_end_sections st classes ws')).
  simpl. rewrite app_nil_r. reflexivity.
Qed.

Lemma PathsRel_add_all_segments rt st cfg classes segs ws s ws' :
  add_all_segments rt st cfg classes segs ws = Ok (s, ws') -> PathsRel ws s ws'.
Proof.
  intro H. apply add_all_segments_inv in H.
  destruct H as [[_ [seg [_ H]]] | [_ [body [E H]]]].
  - eapply PathsRel_add_single_segment; eassumption.
  - subst. apply PathsRel_inputs with (s := body); [|eapply PathsRel_fold_add_segment; eassumption].
    rewrite input_paths_sections, !input_paths_app.
    rewrite (plain_no_inputs _ _ (pl_begin (fun _ => True) st)),
      (plain_no_inputs _ _ (pl_end_sections st classes ws')).
    simpl. apply app_nil_r.
Qed.

(* from the empty state: first-occurrence deduplication *)
Lemma comps_eqb_spec a b : comps_eqb a b = true <-> a = b.
Proof.
  unfold comps_eqb. destruct (list_eq_dec string_dec a b); split; intro H; try reflexivity; try assumption;
    try discriminate; contradiction.
Qed.

Lemma add_paths_keep_first L : add_paths L [] = keep_first comps_eqb (map components L).
Proof.
  rewrite <- (fold_add_keep_first_nil comps_eqb comps_eqb_spec).
  unfold add_paths. generalize (@nil (list string)).
  induction L as [|p L IH]; intro acc; [reflexivity|]. simpl. rewrite IH. reflexivity.
Qed.

Lemma PathsRel_lists s ws' : PathsRel ws0 s ws' -> ListsExactly s (ws_paths ws').
Proof.
  intros [L [E P]]. exists (map components L). split.
  - rewrite E, map_map. reflexivity.
  - rewrite P. apply add_paths_keep_first.
Qed.

Lemma lists_exactly_normal d rt w : gen_normal d rt = Ok w -> ListsExactly (wo_script w) (wo_paths w).
Proof.
  intro H. apply gen_normal_inv in H. destruct H as [s [ws' [E H]]]. subst. cbn [wo_script wo_paths].
  apply PathsRel_lists. apply PathsRel_inputs with (s := s); [|eapply PathsRel_add_all_segments; eassumption].
  rewrite !input_paths_app, (plain_no_inputs _ _ (pl_version (fun _ => True) rt)),
    (plain_no_inputs _ _ (pl_tail_stmts (fun _ => True) rt d)).
  simpl. apply app_nil_r.
Qed.

Lemma partial_segments_paths d rt folder segs : forall ws subs s ws' subs',
  partial_segments d rt folder segs (ws, subs) = Ok (s, (ws', subs')) ->
  PathsRel ws s ws' /\
  (Forall (fun sub => ListsExactly (wo_script (snd sub)) (wo_paths (snd sub))) subs ->
   Forall (fun sub => ListsExactly (wo_script (snd sub)) (wo_paths (snd sub))) subs').
Proof.
  induction segs as [|seg r IH]; intros ws subs s ws' subs' H.
  - apply ok_inj in H. inversion H; subst. split; [apply PathsRel_nil | auto].
  - apply partial_segments_cons in H. destruct H as [s1 [[ws1 subs1] [s2 [E1 [E2 E]]]]]. subst.
    apply IH in E2. destruct E2 as [Hs2 Hsub2]. apply partial_segment_inv in E1.
    destruct E1 as [[_ [E [Ew Es]]] | [_ [sub [wsub [Ea [Eb Es]]]]]]; subst.
    + split; [exact Hs2 | exact Hsub2].
    + split.
      * eapply PathsRel_app; [eapply PathsRel_add_segment; eassumption | exact Hs2].
      * intro Hsubs. apply Hsub2. apply Forall_app; split; [assumption|]. constructor; [|constructor].
        cbn [snd wo_script wo_paths]. apply PathsRel_lists.
        apply PathsRel_inputs with (s := sub); [|eapply PathsRel_add_single_segment; eassumption].
        rewrite input_paths_app, (plain_no_inputs _ _ (pl_version (fun _ => True) rt)). reflexivity.
Qed.

Lemma lists_exactly_partial d rt p :
  gen_partial d rt = Ok p ->
  ListsExactly (wo_script (po_main p)) (wo_paths (po_main p)) /\
  Forall (fun sub => ListsExactly (wo_script (snd sub)) (wo_paths (snd sub))) (po_subs p).
Proof.
  intro H. apply gen_partial_inv in H. destruct H as [folder [body [ws [subs [Ef [E H]]]]]]. subst.
  apply partial_segments_paths in E. destruct E as [Hs Hsub]. split; [|apply Hsub; constructor].
  cbn [po_main wo_script wo_paths]. apply PathsRel_lists. apply PathsRel_inputs with (s := body); [|exact Hs].
  rewrite !input_paths_app, input_paths_sections, !input_paths_app.
  rewrite (plain_no_inputs _ _ (pl_version (fun _ => True) rt)),
    (plain_no_inputs _ _ (pl_tail_stmts (fun _ => True) rt d)),
    (plain_no_inputs _ _ (pl_begin (fun _ => True) (doc_settings d))),
    (plain_no_inputs _ _ (pl_end_sections (doc_settings d) (doc_vram_classes d) ws)).
  simpl. rewrite !app_nil_r. reflexivity.
Qed.

(* the general invariant, from any state *)
Lemma paths_invariant_add_all rt st cfg classes segs ws s ws' :
  add_all_segments rt st cfg classes segs ws = Ok (s, ws') ->
  exists L, input_paths s = map display L /\ ws_paths ws' = add_paths L (ws_paths ws).
Proof. apply PathsRel_add_all_segments. Qed.

(* ---------- pads, linker offsets and excluded files contribute nothing ---------- *)


Lemma emit_file_inert rt sty cfg seg sections f k base ws s ws' :
  InertFile rt f ->
  emit_file_of rt sty cfg seg sections f k base ws = Ok (s, ws') -> input_paths s = [] /\ ws' = ws.
Proof.
  intros Hi. unfold emit_file_of, emit_file_gen.
  destruct (should_emit rt (fi_conds f)) eqn:He; simpl.
  - destruct Hi as [Hk | [Hk | Hk]]; [rewrite Hk | rewrite Hk | congruence];
      intro H; apply ok_inj in H; inversion H; subst; split; try reflexivity;
      destruct (String.eqb (fi_section f) k); reflexivity.
  - intro H. apply ok_inj in H. inversion H; subst. split; reflexivity.
Qed.

Lemma emit_sff_inert rt sty cfg seg sections f :
  InertFile rt f ->
  forall n stack section base ws s ws',
    emit_sff rt sty cfg seg sections f n stack section base ws = Ok (s, ws') ->
    input_paths s = [] /\ ws' = ws.
Proof.
  intro Hi. induction n as [|n IH]; intros stack section base ws s ws' H.
  - rewrite emit_sff_O in H. discriminate.
  - rewrite emit_sff_S in H. destruct (mem_str section stack); [discriminate|].
    unfold chain_step in H. revert ws s ws' H.
    apply (fold_out_rel (fun ws s ws' => input_paths s = [] /\ ws' = ws)).
    + intros; split; reflexivity.
    + intros ws s1 ws1 s2 ws2 [E1 W1] [E2 W2]. subst. rewrite input_paths_app, E1, E2. split; reflexivity.
    + intros k ws s ws' _ H. apply bind_ok_out in H. destruct H as [s1 [ws1 [E1 H]]]. cbn [fst snd] in H.
      apply bind_ok_out in H. destruct H as [s2 [ws2 [E2 H]]]. cbn [fst snd] in H.
      apply ok_inj in H. inversion H; subst.
      apply emit_file_inert in E1; [|assumption]. destruct E1 as [I1 W1]. subst.
      assert (R2 : input_paths s2 = [] /\ ws' = ws).
      { destruct (reference_partial cfg).
        - apply ok_inj in E2. inversion E2; subst. split; reflexivity.
        - destruct (lookup k (subgroups_for seg f)) as [others|].
          + revert E2. apply (fold_out_rel (fun ws s ws' => input_paths s = [] /\ ws' = ws)).
            * intros; split; reflexivity.
            * intros w0 t1 w1 t2 w2 [F1 V1] [F2 V2]. subst. rewrite input_paths_app, F1, F2.
              split; reflexivity.
            * intros other w0 t w0' _ Ho. eapply IH; eassumption.
          + apply ok_inj in E2. inversion E2; subst. split; reflexivity. }
      destruct R2 as [I2 W2]. subst. rewrite input_paths_app, I1, I2. split; reflexivity.
Qed.

(* ====================================================================== *)
(* C12: which files are written                                            *)
(* ====================================================================== *)

Lemma escape_opt_ok rt o r :
  escape_opt rt o = Ok r ->
  match o with
  | Some p => exists p', escape_path rt p = Ok p' /\ r = Some p'
  | None => r = None
  end.
Proof.
  destruct o as [p|]; simpl; intro H.
  - apply bind_ok in H. destruct H as [p' [E H]]. apply ok_inj in H. subst. exists p'. auto.
  - apply ok_inj in H. auto.
Qed.

Lemma save_normal_inv rt st w writes :
  save_other_files_normal rt st w = Ok writes ->
  exists dw hw, writes = dw ++ hw /\
    match d_path st with
    | Some dp =>
        exists dp', escape_path rt dp = Ok dp' /\
          match target_path st with
          | Some tp => exists tp', escape_path rt tp = Ok tp' /\ dw = [(dp', deps_text rt w tp')]
          | None => dw = []
          end
    | None => dw = []
    end /\
    match symbols_header_path st with
    | Some hp => exists hp', escape_path rt hp = Ok hp' /\ hw = [(hp', header_text rt st w)]
    | None => hw = []
    end.
Proof.
  unfold save_other_files_normal. intro H.
  apply bind_ok in H. destruct H as [dp [Ed H]]. apply bind_ok in H. destruct H as [dw [Edw H]].
  apply bind_ok in H. destruct H as [hp [Eh H]]. apply ok_inj in H. subst.
  exists dw. eexists. split; [reflexivity|]. split.
  - apply escape_opt_ok in Ed. destruct (d_path st) as [d0|].
    + destruct Ed as [dp' [E1 E2]]. subst. exists dp'. split; [assumption|].
      apply bind_ok in Edw. destruct Edw as [tp [Et Edw]]. apply escape_opt_ok in Et.
      destruct (target_path st) as [t0|].
      * destruct Et as [tp' [E3 E4]]. subst. exists tp'. split; [assumption|].
        apply ok_inj in Edw. auto.
      * subst. apply ok_inj in Edw. auto.
    + subst. apply ok_inj in Edw. auto.
  - apply escape_opt_ok in Eh. destruct (symbols_header_path st) as [h0|].
    + destruct Eh as [hp' [E1 E2]]. subst. exists hp'. auto.
    + subst. reflexivity.
Qed.

Lemma save_partial_inv rt st p writes :
  save_other_files_partial rt st p = Ok writes ->
  exists base pb pbsf ps psf mainw,
    escape_path rt (base_path st) = Ok base /\
    partial_build_segments_folder st = Some pb /\ escape_path rt pb = Ok pbsf /\
    partial_scripts_folder st = Some ps /\ escape_path rt ps = Ok psf /\
    save_other_files_normal rt st (po_main p) = Ok mainw /\
    writes = mainw ++
      match d_path st with
      | Some _ => map (fun s => (push psf (fst s ++ ".d"),
                                 deps_text rt (snd s) (push (extend_path base pbsf) (fst s ++ ".o"))))
                      (po_subs p)
      | None => []
      end.
Proof.
  unfold save_other_files_partial. intro H.
  apply bind_ok in H. destruct H as [base [Eb H]].
  apply bind_ok in H. destruct H as [pbo [Epb H]]. apply bind_ok in H. destruct H as [pbsf [Epb2 H]].
  apply bind_ok in H. destruct H as [pso [Eps H]]. apply bind_ok in H. destruct H as [psf [Eps2 H]].
  apply bind_ok in H. destruct H as [mainw [Em H]]. apply ok_inj in H. subst.
  apply escape_opt_ok in Epb. apply escape_opt_ok in Eps.
  destruct (partial_build_segments_folder st) as [pb|].
  - destruct Epb as [pb' [E1 E2]]. subst. apply ok_inj in Epb2. subst.
    destruct (partial_scripts_folder st) as [ps|].
    + destruct Eps as [ps' [E3 E4]]. subst. apply ok_inj in Eps2. subst.
      exists base, pb, pbsf, ps, psf, mainw. repeat split; try assumption.
      destruct (d_path st); reflexivity.
    + subst. discriminate.
  - subst. discriminate.
Qed.
