(* C17Doc: the link-level half of C17 over a whole generated document.
   Part 1: which errors a statement can report; nothing before the statements that follow SECTIONS
   reports an assertion failure.  Part 2: the checks (required symbols, asserts) all read the symbols of
   the final state; the errors of the final state.  Part 3: _gp. *)
From Slinky Require Import Model.Types Model.Generated Model.Runtime Model.Style Model.Script Model.Writer Model.LdSem.
From Slinky Require Import Spec.C17 Spec.C18 Spec.C04 Spec.C03 Spec.C05 Spec.C10 Spec.C12 Spec.DocLevel Spec.C01Doc
                           Spec.C17Doc.
From Slinky Require Import Proofs.C06 Proofs.C18 Proofs.C17 Proofs.LdLemmas Proofs.C04 Proofs.C17Link Proofs.DocLevel
                           Proofs.C01Doc Proofs.C18Doc.
From Coq Require Import Lia ZArith.
Local Open Scope Z_scope.

(* ====================================================================== *)
(* 1. only a top-level ASSERT reports an assertion failure                 *)
(* ====================================================================== *)

Notation naf := not_assert_failure.

Definition not_assert_stmt (s : stmt) : bool := match s with SAssert _ _ => false | _ => true end.

(* [new] extends [old] by errors that are not assertion failures *)
Definition quiet_ext (old new : list lerr) : Prop := exists add, new = (old ++ add)%list /\ Forall naf add.

Lemma quiet_refl l : quiet_ext l l.
Proof. exists []. rewrite app_nil_r. split; [reflexivity | constructor]. Qed.

Lemma quiet_trans a b c : quiet_ext a b -> quiet_ext b c -> quiet_ext a c.
Proof.
  intros [x [E1 F1]] [y [E2 F2]]. exists (x ++ y)%list. subst. rewrite app_assoc. split; [reflexivity|].
  apply Forall_app. split; assumption.
Qed.

Lemma quiet_one l e : naf e -> quiet_ext l (l ++ [e]).
Proof. intro H. exists [e]. split; [reflexivity | constructor; [exact H | constructor]]. Qed.

Section Errors.
  Variables (env : list (string * Z)) (senv : list osec) (ext : list (string * Z)) (final : bool).
  Notation top := (exec_top_stmt env senv ext final).
  Notation runl := (run env senv ext final).
  Notation secs vma sub name := (exec_sec_stmt env senv ext final vma sub name).

  Lemma assign_quiet p sym r text st : quiet_ext (l_errors st) (l_errors (assign ext final p sym r text st)).
  Proof.
    unfold assign. destruct r as [v|e].
    - destruct (p && is_some (lookup sym ext))%bool; apply quiet_refl.
    - destruct e; try (destruct (final && negb p)%bool; [apply quiet_one; exact I | apply quiet_refl]).
      apply quiet_one. exact I.
  Qed.

  Lemma sec_stmt_quiet vma sub name ss s :
    quiet_ext (l_errors (s_st ss)) (l_errors (s_st (secs vma sub name ss s))).
  Proof.
    destruct (sec_stmt_cases env senv ext final vma sub name ss s)
      as [[p [h [r [sym [e [Es E]]]]]] | [[k [path [member [sect [wild [off' [pls [c [Es [Ep E]]]]]]]]]] | [E _]]];
      rewrite E; try apply quiet_refl. apply assign_quiet.
  Qed.

  Lemma sec_fold_quiet vma sub name body : forall ss,
    quiet_ext (l_errors (s_st ss)) (l_errors (s_st (fold_left (secs vma sub name) body ss))).
  Proof.
    induction body as [|s body IH]; intro ss; [apply quiet_refl|]. cbn [fold_left].
    eapply quiet_trans; [apply sec_stmt_quiet | apply IH].
  Qed.

  Lemma exec_outsec_quiet name addr at_ noload sub body st :
    quiet_ext (l_errors st) (l_errors (exec_outsec env senv ext final name addr at_ noload sub body st)).
  Proof.
    destruct (outsec_vma env senv ext addr sub body st) as [vma|e] eqn:E.
    - destruct (exec_outsec_ok env senv ext final name addr at_ noload sub body st vma E) as [_ [_ [_ [_ [_ [_ [_ He]]]]]]].
      pose proof (sec_fold_quiet vma (option_map Z.of_N sub) name body (SState 0 false st)) as Hq.
      cbn [s_st] in Hq. unfold outsec_body in He. destruct He as [He|He]; rewrite He; [exact Hq|].
      eapply quiet_trans; [exact Hq | apply quiet_one; exact I].
    - rewrite (exec_outsec_err _ _ _ _ _ _ _ _ _ _ _ _ E). apply quiet_one. exact I.
  Qed.

  Lemma top_quiet st s : not_assert_stmt s = true -> quiet_ext (l_errors st) (l_errors (top st s)).
  Proof.
    intro H. destruct s; try discriminate H; try apply quiet_refl; cbn [exec_top_stmt].
    - destruct (String.eqb sym ".").
      + destruct (eval_expr env senv ext st (l_dot st) e); [apply quiet_refl | apply quiet_one; exact I].
      + apply assign_quiet.
    - destruct (String.eqb sym "."); [apply quiet_refl|]. destruct (sym_lookup sym st env ext); apply quiet_refl.
    - destruct (sym_lookup sym st env ext); [destruct (sym_lookup other st env ext)|];
        try (destruct final; [apply quiet_one; exact I | apply quiet_refl]). apply quiet_refl.
    - destruct (sym_lookup "__romPos" st env ext); [destruct (sec_lookup sec st senv)|];
        try (destruct final; [apply quiet_one; exact I | apply quiet_refl]). apply quiet_refl.
    - apply exec_outsec_quiet.
    - destruct (place 0 None sect _ 0 [] false) as [[off' pls] c]. apply quiet_refl.
  Qed.

  Lemma run_quiet l : forall st, forallb not_assert_stmt l = true -> quiet_ext (l_errors st) (l_errors (runl l st)).
  Proof.
    induction l as [|s l IH]; intros st H; [apply quiet_refl|]. cbn [forallb] in H.
    apply andb_true_iff in H. destruct H as [H1 H2]. rewrite run_cons.
    eapply quiet_trans; [apply top_quiet; exact H1 | apply IH; exact H2].
  Qed.
End Errors.

(* ---------- the SECTIONS block of a generated script holds no top-level ASSERT ---------- *)

Definition nas (s : stmt) : Prop := not_assert_stmt s = true.

Lemma nas_forallb l : Forall nas l -> forallb not_assert_stmt l = true.
Proof. intro H. apply forallb_forall. rewrite Forall_forall in H. exact H. Qed.

Ltac na_leaf :=
  repeat match goal with
         | |- Forall _ (_ ++ _) => apply Forall_app; split
         | |- Forall _ (match ?x with _ => _ end) => destruct x
         | |- Forall _ (if ?x then _ else _) => destruct x
         | |- Forall _ (_ :: _) => constructor
         | |- Forall _ [] => constructor
         | |- nas _ => reflexivity
         end.

Lemma na_section_symbol_start rt sty cfg seg section : Forall nas (section_symbol_start rt sty cfg seg section).
Proof. unfold section_symbol_start, opt_align, gp_stmt. na_leaf. Qed.

Lemma na_section_symbol_end sty cfg seg section : Forall nas (section_symbol_end sty cfg seg section).
Proof. unfold section_symbol_end, opt_align, sym_end_size. na_leaf. Qed.

Lemma na_kind_start sty cfg seg noload : Forall nas (sections_kind_start sty cfg seg noload).
Proof. unfold sections_kind_start. na_leaf. Qed.

Lemma na_kind_end sty cfg seg noload : Forall nas (sections_kind_end sty cfg seg noload).
Proof. unfold sections_kind_end, sym_end_size. na_leaf. Qed.

Lemma na_seg_head st seg : Forall nas (seg_head st seg).
Proof. unfold seg_head. na_leaf. Qed.

Lemma na_seg_foot st seg : Forall nas (seg_foot st seg).
Proof. unfold seg_foot, sym_end_size. cbv zeta. na_leaf. Qed.

Lemma na_class_start st c cn : Forall nas (class_start_stmts st c cn).
Proof.
  unfold class_start_stmts. apply Forall_app; split; [|na_leaf].
  destruct (vc_fixed_vram c); [na_leaf|]. destruct (vc_fixed_symbol c); [na_leaf|].
  constructor; [reflexivity|]. apply Forall_map_intro. reflexivity.
Qed.

Lemma na_begin st : Forall nas (begin_sections_body st).
Proof. unfold begin_sections_body, hardcoded_gp_stmts. na_leaf. Qed.

Lemma na_single_head st cfg seg : Forall nas (single_head st cfg seg).
Proof.
  unfold single_head, hardcoded_gp_stmts. apply Forall_app; split; [|na_leaf].
  destruct (section_syms cfg); [|constructor]. destruct (hardcoded_gp_value st); na_leaf.
Qed.

Lemma na_end_sections st classes ws : Forall nas (end_sections_body st classes ws).
Proof.
  rewrite end_sections_layout.
  assert (Hparts : Forall (Forall nas) [tail_sizes st classes ws; tail_allow st; tail_extra st; tail_discard st]).
  { repeat constructor.
    - apply Forall_map_intro. reflexivity.
    - apply Forall_map_intro. reflexivity.
    - apply Forall_map_intro. reflexivity.
    - unfold tail_discard. na_leaf. }
  induction Hparts as [|p r Hp Hr IH]; [constructor|]. simpl. destruct p as [|x p]; [exact IH|].
  apply Forall_app; split; [exact Hp|]. destruct (sep_concat r); [constructor|].
  constructor; [reflexivity | exact IH].
Qed.

Lemma na_write_segment rt st cfg seg sections noload ws s ws' :
  write_segment rt st cfg seg sections noload ws = Ok (s, ws') -> Forall nas s.
Proof.
  intro H. apply write_segment_inv in H. destruct H as [body [E H]]. subst.
  fa; [apply na_kind_start | | apply na_kind_end]. constructor; [reflexivity | constructor].
Qed.

Lemma na_single_groups rt st cfg seg sections noload rest : forall ws s ws',
  single_groups rt st cfg seg sections noload rest ws = Ok (s, ws') -> Forall nas s.
Proof.
  induction rest as [|section rest IH]; intros ws s ws' H.
  - apply ok_inj in H. inversion H; subst. constructor.
  - apply single_groups_cons in H. destruct H as [s1 [ws1 [s2 [E1 [E2 E]]]]]. subst.
    fa.
    + apply na_section_symbol_start.
    + constructor; [reflexivity | constructor].
    + apply na_section_symbol_end.
    + na_leaf.
    + eapply IH; eassumption.
Qed.

Lemma na_write_single_segment rt st cfg seg sections noload ws s ws' :
  write_single_segment rt st cfg seg sections noload ws = Ok (s, ws') -> Forall nas s.
Proof.
  intro H. apply write_single_segment_inv in H. destruct H as [body [E H]]. subst.
  fa; [apply na_kind_start | | apply na_kind_end]. eapply na_single_groups; eassumption.
Qed.

Lemma na_add_segment rt st cfg classes seg ws s ws' :
  add_segment rt st cfg classes seg ws = Ok (s, ws') -> Forall nas s.
Proof.
  intro H. apply add_segment_inv in H.
  destruct H as [[_ [E _]] | [_ [cls [ws1 [s1 [ws2 [s2 [Ec [E1 [E2 E]]]]]]]]]]; subst; [constructor|].
  fa.
  - apply class_part_inv in Ec. destruct Ec as [[E _] | [cn [c [_ [_ [_ [E _]]]]]]]; subst;
      [constructor | apply na_class_start].
  - apply na_seg_head.
  - eapply na_write_segment; eassumption.
  - na_leaf.
  - eapply na_write_segment; eassumption.
  - na_leaf.
  - apply na_seg_foot.
Qed.

Lemma na_fold_add_segment rt st cfg classes segs ws s ws' :
  fold_out (add_segment rt st cfg classes) segs ws = Ok (s, ws') -> Forall nas s.
Proof.
  apply (fold_out_rel (fun _ s _ => Forall nas s)).
  - constructor.
  - intros. apply Forall_app; split; assumption.
  - intros seg w t w' _ H. eapply na_add_segment; eassumption.
Qed.

Lemma na_add_all_segments rt st cfg classes segs ws s ws' :
  add_all_segments rt st cfg classes segs ws = Ok (s, ws') ->
  exists body, s = [SSections body] /\ Forall nas body.
Proof.
  intro H. apply add_all_segments_inv in H. destruct H as [[_ [seg [_ H]]] | [_ [body [E H]]]].
  - apply add_single_segment_inv in H. destruct H as [s1 [ws1 [s2 [E1 [E2 E]]]]]. subst.
    eexists. split; [reflexivity|]. fa.
    + apply na_single_head.
    + eapply na_write_single_segment; eassumption.
    + na_leaf.
    + eapply na_write_single_segment; eassumption.
    + na_leaf.
    + apply na_end_sections.
  - subst. eexists. split; [reflexivity|]. fa.
    + apply na_begin.
    + eapply na_fold_add_segment; eassumption.
    + apply na_end_sections.
Qed.

(* ====================================================================== *)
(* 2. the checks                                                           *)
(* ====================================================================== *)

(* the (condition, message) pair of an ASSERT statement *)
Definition stmt_check (s : stmt) : list (string * string) :=
  match s with SAssert c m => [(c, m)] | _ => [] end.

(* the statements of the two groups of checks: they change no symbol *)
Definition check_kind (s : stmt) : bool :=
  match s with SBlank | SExtern _ | SAssert _ _ => true | _ => false end.

Lemma checks_of_required rt l :
  flat_map stmt_check (required_stmts rt l) =
  map (fun r => (("DEFINED(" ++ rq_name r ++ ")")%string, required_msg (rq_name r)))
      (filter (fun r => should_emit rt (rq_conds r)) l).
Proof.
  assert (E : flat_map stmt_check (required_stmts rt l) =
              flat_map stmt_check
                (flat_map (fun r => if should_emit rt (rq_conds r) then required_pair r else []) l))
    by (destruct l; reflexivity).
  rewrite E. clear E. induction l as [|r l IH]; [reflexivity|]. cbn [flat_map filter]. rewrite flat_map_app, IH.
  destruct (should_emit rt (rq_conds r)); reflexivity.
Qed.

Lemma checks_of_asserts rt l :
  flat_map stmt_check (assert_stmts rt l) =
  map (fun a => (ae_check a, ae_error_message a)) (filter (fun a => should_emit rt (ae_conds a)) l).
Proof.
  assert (E : flat_map stmt_check (assert_stmts rt l) =
              flat_map stmt_check
                (flat_map (fun a => if should_emit rt (ae_conds a) then [assert_stmt a] else []) l))
    by (destruct l; reflexivity).
  rewrite E. clear E. induction l as [|a l IH]; [reflexivity|]. cbn [flat_map filter]. rewrite flat_map_app, IH.
  destruct (should_emit rt (ae_conds a)); reflexivity.
Qed.

Lemma checks_of_tail rt d :
  flat_map stmt_check (required_stmts rt (doc_required_symbols d) ++ assert_stmts rt (doc_asserts d)) =
  doc_checks rt d.
Proof. rewrite flat_map_app, checks_of_required, checks_of_asserts. reflexivity. Qed.

Lemma check_kind_required rt l : forallb check_kind (required_stmts rt l) = true.
Proof.
  apply forallb_forall. intros s Hs. unfold required_stmts in Hs. destruct l as [|r0 l0]; [contradiction|].
  destruct Hs as [E|Hs]; [subst; reflexivity|]. apply in_flat_map in Hs. destruct Hs as [r [_ Hs]].
  destruct (should_emit rt (rq_conds r)); [|contradiction]. destruct Hs as [E|[E|[]]]; subst; reflexivity.
Qed.

Lemma check_kind_asserts rt l : forallb check_kind (assert_stmts rt l) = true.
Proof.
  apply forallb_forall. intros s Hs. unfold assert_stmts in Hs. destruct l as [|a0 l0]; [contradiction|].
  destruct Hs as [E|Hs]; [subst; reflexivity|]. apply in_flat_map in Hs. destruct Hs as [a [_ Hs]].
  destruct (should_emit rt (ae_conds a)); [|contradiction]. destruct Hs as [E|[]]; subst; reflexivity.
Qed.

Lemma nas_entry_assignments rt d :
  forallb not_assert_stmt (entry_stmts (doc_entry d) ++ assignment_stmts rt (doc_symbol_assignments d)) = true.
Proof.
  rewrite forallb_app. apply andb_true_iff. split.
  - destruct (doc_entry d); reflexivity.
  - apply forallb_forall. intros s Hs. unfold assignment_stmts in Hs.
    destruct (doc_symbol_assignments d) as [|a0 l0]; [contradiction|].
    destruct Hs as [E|Hs]; [subst; reflexivity|]. apply in_flat_map in Hs. destruct Hs as [a [_ Hs]].
    destruct (should_emit rt (sa_conds a)); [|contradiction]. destruct Hs as [E|[]]; subst; reflexivity.
Qed.

Lemma required_msg_inj a b : required_msg a = required_msg b -> a = b.
Proof.
  unfold required_msg. intro H.
  assert (Hpre : forall p x y, (p ++ x = p ++ y)%string -> x = y).
  { induction p as [|c p IH]; intros x y E; [exact E|]. inversion E. apply IH. assumption. }
  apply Hpre in H.
  assert (Hsuf : forall s x y, (x ++ s = y ++ s)%string -> x = y).
  { intros s x. induction x as [|c x IH]; intros y E.
    - destruct y as [|d y]; [reflexivity|]. exfalso. apply (f_equal String.length) in E.
      cbn [append String.length] in E. rewrite slen_app in E. lia.
    - destruct y as [|d y].
      + exfalso. apply (f_equal String.length) in E. cbn [append String.length] in E. rewrite slen_app in E. lia.
      + cbn [append] in E. inversion E. f_equal. apply IH. assumption. }
  apply (Hsuf _ _ _ H).
Qed.

Section Checks.
  Variables (env : list (string * Z)) (senv : list osec) (ext : list (string * Z)) (final : bool).
  Notation top := (exec_top_stmt env senv ext final).
  Notation runl := (run env senv ext final).

  (* a condition is read with the script symbols of the state, nothing else of it *)
  Lemma eval_raw_syms st1 st2 c : l_syms st1 = l_syms st2 -> eval_raw env ext st1 c = eval_raw env ext st2 c.
  Proof. intro H. unfold eval_raw, atom, sym_lookup. rewrite H. reflexivity. Qed.

  Lemma sym_lookup_syms st1 st2 n : l_syms st1 = l_syms st2 -> sym_lookup n st1 env ext = sym_lookup n st2 env ext.
  Proof. intro H. unfold sym_lookup. rewrite H. reflexivity. Qed.

  Lemma check_outcome_syms st1 st2 cm :
    l_syms st1 = l_syms st2 -> check_outcome env ext final st1 cm = check_outcome env ext final st2 cm.
  Proof. intro H. unfold check_outcome. rewrite (eval_raw_syms st1 st2 _ H). reflexivity. Qed.

  Lemma top_check st s :
    check_kind s = true ->
    l_syms (top st s) = l_syms st /\
    l_errors (top st s) = (l_errors st ++ flat_map (check_outcome env ext final st) (stmt_check s))%list.
  Proof.
    intro H. destruct s; try discriminate H; try (split; [reflexivity | cbn [stmt_check flat_map]; rewrite app_nil_r; reflexivity]).
    cbn [exec_top_stmt stmt_check flat_map]. unfold check_outcome. cbn [fst snd]. rewrite app_nil_r.
    destruct (eval_raw env ext st cond) as [v|e].
    - destruct (v =? 0); split; try reflexivity. cbn [l_errors]. rewrite app_nil_r. reflexivity.
    - destruct e; try (destruct final; split; try reflexivity; cbn [l_errors]; rewrite app_nil_r; reflexivity);
        try (split; reflexivity).
  Qed.

  Lemma run_checks l : forall st,
    forallb check_kind l = true ->
    l_syms (runl l st) = l_syms st /\
    l_errors (runl l st) = (l_errors st ++ flat_map (check_outcome env ext final st) (flat_map stmt_check l))%list.
  Proof.
    induction l as [|s l IH]; intros st H.
    - split; [reflexivity|]. cbn [flat_map]. rewrite app_nil_r. reflexivity.
    - cbn [forallb] in H. apply andb_true_iff in H. destruct H as [H1 H2]. rewrite run_cons.
      destruct (top_check st s H1) as [S1 E1]. destruct (IH (top st s) H2) as [S2 E2].
      split; [rewrite S2; exact S1|]. rewrite E2, E1. cbn [flat_map]. rewrite flat_map_app, <- app_assoc.
      f_equal. f_equal. apply flat_map_ext. intro cm. apply check_outcome_syms. exact S1.
  Qed.

  (* ---------- the whole script ---------- *)

  (* the statements LdSem executes: the SECTIONS body [B], ENTRY and the user's assignments, then the
     checks, which change no symbol *)
  Lemma exec_generated d rt w :
    gen_normal d rt = Ok w ->
    exists B, Forall nas B /\
      forall st,
        let st_a := runl (entry_stmts (doc_entry d) ++ assignment_stmts rt (doc_symbol_assignments d)) (runl B st) in
        exec_script env senv ext final (wo_script w) st =
        runl (required_stmts rt (doc_required_symbols d) ++ assert_stmts rt (doc_asserts d)) st_a.
  Proof.
    intro H. apply gen_normal_inv in H. destruct H as [s [ws' [E Hw]]].
    apply na_add_all_segments in E. destruct E as [B [Es HB]]. subst s w.
    exists B. split; [exact HB|]. intro st. cbv zeta. cbn [wo_script].
    rewrite exec_sections_script. unfold tail_stmts. rewrite app_assoc, run_app. reflexivity.
  Qed.

  (* C17_document_checks *)
  Theorem document_checks d rt w u :
    gen_normal d rt = Ok w ->
    ChecksOutcome env ext final rt d (exec_script env senv ext final (wo_script w) (init_state u)).
  Proof.
    intro Hg. destruct (exec_generated d rt w Hg) as [B [HB Hexec]]. rewrite Hexec. cbv zeta.
    set (st_a := runl (entry_stmts (doc_entry d) ++ assignment_stmts rt (doc_symbol_assignments d))
                      (runl B (init_state u))).
    set (checks := (required_stmts rt (doc_required_symbols d) ++ assert_stmts rt (doc_asserts d))%list).
    assert (Hk : forallb check_kind checks = true).
    { unfold checks. rewrite forallb_app, check_kind_required, check_kind_asserts. reflexivity. }
    destruct (run_checks checks st_a Hk) as [Hs He].
    exists (l_errors st_a). split.
    - rewrite He, <- checks_of_tail. fold checks. f_equal. apply flat_map_ext. intro cm.
      apply check_outcome_syms. symmetry. exact Hs.
    - assert (Hq : quiet_ext (l_errors (init_state u)) (l_errors st_a)).
      { unfold st_a. eapply quiet_trans.
        - apply (run_quiet env senv ext final B). apply nas_forallb. exact HB.
        - apply run_quiet. apply nas_entry_assignments. }
      destruct Hq as [add [E F]]. cbn [init_state l_errors app] in E. rewrite E. exact F.
  Qed.

  (* the state in which a check is executed has the symbols of the final state *)
  Theorem document_check_state d rt w u t1 c m t2 :
    gen_normal d rt = Ok w ->
    (required_stmts rt (doc_required_symbols d) ++ assert_stmts rt (doc_asserts d))%list = (t1 ++ SAssert c m :: t2)%list ->
    exists B,
      wo_script w = (version_stmts rt ++ [SSections B] ++ tail_stmts rt d)%list /\
      let st_i := runl (entry_stmts (doc_entry d) ++ assignment_stmts rt (doc_symbol_assignments d) ++ t1)
                       (runl B (init_state u)) in
      let st' := exec_script env senv ext final (wo_script w) (init_state u) in
      st' = runl (SAssert c m :: t2) st_i /\ l_syms st_i = l_syms st' /\
      eval_raw env ext st_i c = eval_raw env ext st' c.
  Proof.
    intros Hg Et. apply gen_normal_inv in Hg. destruct Hg as [s [ws' [E Hw]]].
    apply na_add_all_segments in E. destruct E as [B [Es _]]. subst s w. cbn [wo_script].
    exists B. split; [reflexivity|]. cbv zeta. rewrite exec_sections_script. unfold tail_stmts.
    rewrite Et.
    assert (Hk : forallb check_kind (t1 ++ SAssert c m :: t2) = true).
    { rewrite <- Et, forallb_app, check_kind_required, check_kind_asserts. reflexivity. }
    rewrite forallb_app in Hk. apply andb_true_iff in Hk. destruct Hk as [_ Hk2].
    set (st_i := runl (entry_stmts (doc_entry d) ++ assignment_stmts rt (doc_symbol_assignments d) ++ t1)
                      (runl B (init_state u))).
    assert (Est : runl (entry_stmts (doc_entry d) ++ assignment_stmts rt (doc_symbol_assignments d) ++
                        t1 ++ SAssert c m :: t2) (runl B (init_state u)) = runl (SAssert c m :: t2) st_i).
    { unfold st_i.
      replace (entry_stmts (doc_entry d) ++ assignment_stmts rt (doc_symbol_assignments d) ++ t1 ++ SAssert c m :: t2)%list
        with ((entry_stmts (doc_entry d) ++ assignment_stmts rt (doc_symbol_assignments d) ++ t1) ++ SAssert c m :: t2)%list
        by (repeat rewrite <- app_assoc; reflexivity).
      apply run_app. }
    rewrite Est. split; [reflexivity|].
    destruct (run_checks (SAssert c m :: t2) st_i Hk2) as [Hs _].
    split; [symmetry; exact Hs|]. apply eval_raw_syms. symmetry. exact Hs.
  Qed.

  (* ---------- asserts ---------- *)

  Lemma in_checks_outcome st cm l m :
    In cm l -> In (LAssertFailed m) (check_outcome env ext final st cm) ->
    In (LAssertFailed m) (flat_map (check_outcome env ext final st) l).
  Proof. intros Hin H. apply in_flat_map. exists cm. split; assumption. Qed.

  Lemma check_outcome_failed st c m :
    eval_raw env ext st c = Ok 0 -> check_outcome env ext final st (c, m) = [LAssertFailed m].
  Proof. intro H. unfold check_outcome. cbn [fst snd]. rewrite H. reflexivity. Qed.

  Lemma check_outcome_inv st cm m' :
    In (LAssertFailed m') (check_outcome env ext final st cm) -> snd cm = m' /\ eval_raw env ext st (fst cm) = Ok 0.
  Proof.
    unfold check_outcome. destruct (eval_raw env ext st (fst cm)) as [v|e].
    - destruct (v =? 0) eqn:Ev; [|intros []]. apply Z.eqb_eq in Ev. subst v.
      intros [E|[]]. inversion E. split; reflexivity.
    - destruct e; try destruct final; cbn [In]; intro Hin; try contradiction;
        destruct Hin as [Hin|Hin]; try discriminate Hin; contradiction.
  Qed.

  (* C17_document_asserts: an included assert whose check is 0 (with the symbols of the final state)
     is reported *)
  Theorem document_assert_fails d rt w u a :
    gen_normal d rt = Ok w -> In a (doc_asserts d) -> should_emit rt (ae_conds a) = true ->
    let st' := exec_script env senv ext final (wo_script w) (init_state u) in
    eval_raw env ext st' (ae_check a) = Ok 0 ->
    In (LAssertFailed (ae_error_message a)) (l_errors st').
  Proof.
    intros Hg Ha Hc st' Hv. destruct (document_checks d rt w u Hg) as [before [E _]]. fold st' in E.
    rewrite E. apply in_or_app. right.
    apply (in_checks_outcome st' (ae_check a, ae_error_message a)).
    - unfold doc_checks. apply in_or_app. right. apply (in_map (fun a => (ae_check a, ae_error_message a))).
      apply filter_In. split; assumption.
    - rewrite (check_outcome_failed st' _ _ Hv). left. reflexivity.
  Qed.

  (* C17_document_required: an included required symbol that is defined nowhere is reported *)
  Theorem document_required_fails d rt w u r :
    gen_normal d rt = Ok w -> In r (doc_required_symbols d) -> should_emit rt (rq_conds r) = true ->
    let st' := exec_script env senv ext final (wo_script w) (init_state u) in
    sym_lookup (rq_name r) st' env ext = None ->
    In (LAssertFailed (required_msg (rq_name r))) (l_errors st').
  Proof.
    intros Hg Hr Hc st' Hv. destruct (document_checks d rt w u Hg) as [before [E _]]. fold st' in E.
    rewrite E. apply in_or_app. right.
    apply (in_checks_outcome st' (("DEFINED(" ++ rq_name r ++ ")")%string, required_msg (rq_name r))).
    - unfold doc_checks. apply in_or_app. left.
      apply (in_map (fun r => (("DEFINED(" ++ rq_name r ++ ")")%string, required_msg (rq_name r)))).
      apply filter_In. split; assumption.
    - rewrite check_outcome_failed; [left; reflexivity|]. rewrite required_value, Hv. reflexivity.
  Qed.

  (* the converse: an assertion failure in the final errors comes from an included assert whose check is 0
     or from an included required symbol that is defined nowhere *)
  Theorem document_failure_origin d rt w u m' :
    gen_normal d rt = Ok w ->
    let st' := exec_script env senv ext final (wo_script w) (init_state u) in
    In (LAssertFailed m') (l_errors st') ->
    (exists a, In a (doc_asserts d) /\ should_emit rt (ae_conds a) = true /\ ae_error_message a = m' /\
               eval_raw env ext st' (ae_check a) = Ok 0) \/
    (exists r, In r (doc_required_symbols d) /\ should_emit rt (rq_conds r) = true /\
               m' = required_msg (rq_name r) /\ sym_lookup (rq_name r) st' env ext = None).
  Proof.
    intros Hg st' Hin. destruct (document_checks d rt w u Hg) as [before [E F]]. fold st' in E.
    rewrite E in Hin. apply in_app_or in Hin. destruct Hin as [Hin|Hin].
    { rewrite Forall_forall in F. destruct (F _ Hin). }
    apply in_flat_map in Hin. destruct Hin as [cm [Hcm Hout]].
    apply check_outcome_inv in Hout. destruct Hout as [Em Ev].
    unfold doc_checks in Hcm. apply in_app_or in Hcm. destruct Hcm as [Hcm|Hcm].
    - right. apply in_map_iff in Hcm. destruct Hcm as [r [Er Hr]]. apply filter_In in Hr. destruct Hr as [Hr Hc].
      subst cm. cbn [fst snd] in Em, Ev. exists r. split; [exact Hr|]. split; [exact Hc|]. split; [symmetry; exact Em|].
      rewrite required_value in Ev. destruct (sym_lookup (rq_name r) st' env ext); [discriminate Ev | reflexivity].
    - left. apply in_map_iff in Hcm. destruct Hcm as [a [Ea Ha]]. apply filter_In in Ha. destruct Ha as [Ha Hc].
      subst cm. cbn [fst snd] in Em, Ev. exists a. repeat (split; [assumption|]). exact Ev.
  Qed.

  (* a required symbol that IS defined is not reported - unless an included assert of the user carries
     the very same message and fails *)
  Theorem document_required_holds d rt w u n v :
    gen_normal d rt = Ok w ->
    let st' := exec_script env senv ext final (wo_script w) (init_state u) in
    sym_lookup n st' env ext = Some v ->
    (forall a, In a (doc_asserts d) -> should_emit rt (ae_conds a) = true ->
               ae_error_message a = required_msg n -> eval_raw env ext st' (ae_check a) <> Ok 0) ->
    ~ In (LAssertFailed (required_msg n)) (l_errors st').
  Proof.
    intros Hg st' Hv Hno Hin.
    destruct (document_failure_origin d rt w u (required_msg n) Hg Hin) as [[a [Ha [Hc [Em Ev]]]] | [r [_ [_ [Em Ev]]]]].
    - exact (Hno a Ha Hc Em Ev).
    - apply required_msg_inj in Em. subst n. fold st' in Ev. congruence.
  Qed.

  (* an assert that holds is not reported - unless another check carries the same message and fails *)
  Theorem document_assert_holds d rt w u m' :
    gen_normal d rt = Ok w ->
    let st' := exec_script env senv ext final (wo_script w) (init_state u) in
    (forall a, In a (doc_asserts d) -> should_emit rt (ae_conds a) = true ->
               ae_error_message a = m' -> eval_raw env ext st' (ae_check a) <> Ok 0) ->
    (forall r, In r (doc_required_symbols d) -> should_emit rt (rq_conds r) = true ->
               m' = required_msg (rq_name r) -> sym_lookup (rq_name r) st' env ext <> None) ->
    ~ In (LAssertFailed m') (l_errors st').
  Proof.
    intros Hg st' Hno Hnr Hin.
    destruct (document_failure_origin d rt w u m' Hg Hin) as [[a [Ha [Hc [Em Ev]]]] | [r [Hr [Hc [Em Ev]]]]].
    - exact (Hno a Ha Hc Em Ev).
    - exact (Hnr r Hr Hc Em Ev).
  Qed.
End Checks.

(* "defined nowhere": not by the script in this pass, not in the previous pass, not by the objects *)
Lemma sym_lookup_none n st env ext :
  sym_lookup n st env ext = None <->
  lookup n (l_syms st) = None /\ lookup n env = None /\ lookup n ext = None.
Proof.
  unfold sym_lookup. destruct (lookup n (l_syms st)); [split; [discriminate | intros [H _]; discriminate H]|].
  destruct (lookup n env); [split; [discriminate | intros [_ [H _]]; discriminate H]|].
  split; [auto | intros [_ [_ H]]; exact H].
Qed.

Lemma lookup_app_none {A} n (a b : list (string * A)) :
  lookup n (a ++ b) = None <-> lookup n a = None /\ lookup n b = None.
Proof.
  induction a as [|[k v] a IH]; cbn [app lookup]; [tauto|].
  destruct (String.eqb n k); [split; [discriminate | intros [H _]; discriminate H] | exact IH].
Qed.

(* ====================================================================== *)
(* 3. _gp                                                                  *)
(* ====================================================================== *)

(* ---------- counting the assignments of the script ---------- *)

Lemma count_version x rt : count_assigns x (version_stmts rt) = 0%nat.
Proof. unfold version_stmts. destruct (rt_emit_version_comment rt); reflexivity. Qed.

Lemma count_sections x B : count_assigns x [SSections B] = count_assigns x B.
Proof. unfold count_assigns. simpl. lia. Qed.

Lemma count_script x rt B T :
  count_assigns x (version_stmts rt ++ [SSections B] ++ T) = count_assigns x (B ++ T).
Proof. rewrite !count_app, count_version, count_sections. reflexivity. Qed.

Lemma count_begin_gp stg : count_assigns "_gp" (begin_sections_body stg) = hardcoded_count stg.
Proof.
  rewrite begin_sections_rom. unfold hardcoded_gp_stmts, hardcoded_count.
  destruct (hardcoded_gp_value stg); reflexivity.
Qed.

Lemma count_outsec x n a at_ nl sub body l :
  count_assigns x (SOutSec n a at_ nl sub body :: l) = (count_assigns x body + count_assigns x l)%nat.
Proof. reflexivity. Qed.

Lemma gp_assigned_groups rt stg cfg seg sections rest sec g : forall ws body ws',
  part_groups rt stg cfg seg sections rest ws = Ok (body, ws') -> section_syms cfg = true ->
  In sec rest -> GpHere rt seg sec g -> (1 <= count_assigns "_gp" body)%nat.
Proof.
  induction rest as [|sec0 rest IH]; intros ws body ws' H Hc Hin Hg; [contradiction|].
  apply part_groups_cons in H. destruct H as [s1 [ws1 [s2 [E1 [E2 E]]]]]. subst body.
  destruct Hin as [Es|Hin].
  - subst sec0.
    assert (Hge : (1 <= count_assigns "_gp" (section_symbol_start rt (linker_symbols_style stg) cfg seg sec))%nat).
    { unfold section_symbol_start. rewrite Hc, (gp_stmt_here rt seg sec g Hg).
      apply count_in_ge with (s := gp_assign g); [in_solve | reflexivity]. }
    rewrite !count_app. lia.
  - pose proof (IH _ _ _ E2 Hc Hin Hg) as Hge. rewrite !count_app. lia.
Qed.

Section Gp.
  Variables (env : list (string * Z)) (senv : list osec) (ext : list (string * Z)) (final : bool).
  Notation top := (exec_top_stmt env senv ext final).
  Notation runl := (run env senv ext final).
  Notation secs vma sub name := (exec_sec_stmt env senv ext final vma sub name).

  (* ---------- the hard-coded value ---------- *)

  Lemma gp_then_untouched A v R st :
    count_assigns "_gp" R = 0%nat ->
    val (runl (A ++ SAssign false false false "_gp" (EHex8 v) :: R) st) "_gp" = Some (Z.of_N v).
  Proof.
    intro H. rewrite run_app, run_cons. unfold val. rewrite run_syms by (apply existsb_count; exact H).
    apply gp_hardcoded_value.
  Qed.

  (* both modes of the generator *)
  Theorem document_gp_hardcoded d rt w st v :
    gen_normal d rt = Ok w -> hardcoded_gp_value (doc_settings d) = Some v ->
    count_assigns "_gp" (wo_script w) = 1%nat ->
    val (exec_script env senv ext final (wo_script w) st) "_gp" = Some (Z.of_N v).
  Proof.
    intros Hg Hv Hcnt. apply gen_normal_inv in Hg. destruct Hg as [s [ws' [E Hw]]].
    apply add_all_segments_inv in E. destruct E as [[_ [seg [_ E]]] | [_ [body [E Es]]]].
    - apply add_single_segment_inv in E. destruct E as [s1 [ws1 [s2 [E1 [E2 E]]]]]. subst s w.
      cbn [wo_script] in *. rewrite count_script in Hcnt. rewrite exec_sections_script, <- run_app.
      assert (Eh : single_head (doc_settings d) cfg_normal seg =
                   SAssign false false false "_gp" (EHex8 v) :: SBlank ::
                   match sg_fixed_vram seg with
                   | Some a => [SAssign false false false "." (EHex8 a); SBlank] | None => [] end).
      { unfold single_head, hardcoded_gp_stmts. rewrite Hv. reflexivity. }
      rewrite Eh in Hcnt |- *. cbn [app] in Hcnt |- *.
      rewrite count_cons in Hcnt. cbn [assign_count] in Hcnt. rewrite String.eqb_refl in Hcnt.
      refine (gp_then_untouched [] v _ st _). lia.
    - subst s w. cbn [wo_script] in *. rewrite count_script in Hcnt. rewrite exec_sections_script, <- run_app.
      assert (Eh : begin_sections_body (doc_settings d) =
                   [rom_init; SAssign false false false "_gp" (EHex8 v); SBlank]).
      { rewrite begin_sections_rom. unfold hardcoded_gp_stmts. rewrite Hv. reflexivity. }
      rewrite Eh in Hcnt |- *. cbn [app] in Hcnt |- *.
      do 2 rewrite count_cons in Hcnt. cbn [assign_count rom_init] in Hcnt. rewrite String.eqb_refl in Hcnt.
      change (String.eqb "__romPos" "_gp") with false in Hcnt.
      cbn iota in Hcnt. refine (gp_then_untouched [rom_init] v _ st _). lia.
  Qed.

  (* ---------- gp_info: inside the groups of one output section ---------- *)

  Lemma groups_gp vma sub outsec rt stg cfg seg sections rest sec g : forall ws body ws' ss,
    section_syms cfg = true ->
    part_groups rt stg cfg seg sections rest ws = Ok (body, ws') ->
    In sec rest -> GpHere rt seg sec g ->
    (gp_provide g && is_some (lookup "_gp" ext))%bool = false ->
    count_assigns "_gp" body = 1%nat ->
    count_assigns (segment_section_start (linker_symbols_style stg) (sg_name seg) sec) body = 1%nat ->
    let ss' := fold_left (secs vma sub outsec) body ss in
    exists S, lookup (segment_section_start (linker_symbols_style stg) (sg_name seg) sec) (l_syms (s_st ss')) = Some S /\
              lookup "_gp" (l_syms (s_st ss')) = Some (S + gp_offset g mod 4294967296).
  Proof.
    induction rest as [|sec0 rest IH]; intros ws body ws' ss Hc H Hin Hgp Hprov Cg Cs ss'; [contradiction|].
    apply part_groups_cons in H. destruct H as [s1 [ws1 [s2 [E1 [E2 E]]]]].
    set (sty := linker_symbols_style stg) in *.
    set (START := segment_section_start sty (sg_name seg) sec) in *.
    assert (Hsg : String.eqb START "_gp" = false) by (apply String.eqb_neq; apply section_start_not_gp).
    assert (Hgs : String.eqb "_gp" START = false) by (rewrite String.eqb_sym; exact Hsg).
    destruct (string_dec sec0 sec) as [Es|Hne].
    - subst sec0.
      set (pre := (opt_align (section_start_align seg) ++ opt_align (lookup sec (sections_start_alignment seg)))%list).
      set (post := (s1 ++ section_symbol_end sty cfg seg sec ++
                    (match rest with [] => [] | _ :: _ => [SBlank] end) ++ s2)%list).
      assert (Eb : body = (pre ++ [gp_assign g; linker_symbol START EDot] ++ post)%list).
      { rewrite E. unfold section_symbol_start. rewrite Hc, (gp_stmt_here rt seg sec g Hgp). unfold pre, post.
        repeat (rewrite <- app_assoc; cbn [app]). reflexivity. }
      assert (G1 : count_assigns "_gp" [gp_assign g; linker_symbol START EDot] = 1%nat).
      { unfold count_assigns, gp_assign, linker_symbol. cbn [map assign_count list_sum]. rewrite Hsg. reflexivity. }
      assert (G2 : count_assigns START [gp_assign g; linker_symbol START EDot] = 1%nat).
      { unfold count_assigns, gp_assign, linker_symbol. cbn [map assign_count list_sum].
        rewrite Hgs, String.eqb_refl. reflexivity. }
      rewrite Eb, !count_app in Cg, Cs. rewrite G1 in Cg. rewrite G2 in Cs.
      assert (P1 : existsb (assigns "_gp") post = false) by (apply existsb_count; lia).
      assert (P2 : existsb (assigns START) post = false) by (apply existsb_count; lia).
      subst ss'. rewrite Eb, !fold_left_app.
      set (ss_a := fold_left (secs vma sub outsec) pre ss).
      destruct (gp_value env senv ext final vma sub outsec ss_a (gp_provide g) (gp_hidden g) (gp_offset g) START Hprov
                         (section_start_not_gp sty (sg_name seg) sec)) as [_ [L1 [L2 _]]].
      exists (vma + s_off ss_a). split; rewrite sec_fold_syms by assumption; assumption.
    - destruct Hin as [Es|Hin]; [contradiction|].
      set (H0 := (section_symbol_start rt sty cfg seg sec0 ++ s1 ++ section_symbol_end sty cfg seg sec0 ++
                  (match rest with [] => [] | _ :: _ => [SBlank] end))%list).
      assert (Eb : body = (H0 ++ s2)%list).
      { rewrite E. unfold H0. repeat rewrite <- app_assoc. reflexivity. }
      rewrite Eb, count_app in Cg, Cs.
      pose proof (gp_assigned_groups _ _ _ _ _ _ _ _ _ _ _ E2 Hc Hin Hgp) as Hge1.
      pose proof (group_syms_assigned _ _ _ _ _ _ _ _ _ E2 Hc sec Hin START (or_introl eq_refl)) as Hge2.
      subst ss'. rewrite Eb, fold_left_app.
      apply (IH ws1 s2 ws' (fold_left (secs vma sub outsec) H0 ss) Hc E2 Hin Hgp Hprov); [lia|].
      fold sty START. lia.
  Qed.

  (* ---------- one output section in the middle of a statement list ---------- *)

  Lemma outsec_gp rt stg cfg seg sections ws gbody ws' name addr at_ noload A B st0 sec g :
    let START := segment_section_start (linker_symbols_style stg) (sg_name seg) sec in
    let O := SOutSec name addr at_ noload (subalign seg) (opt_fill seg ++ gbody) in
    section_syms cfg = true ->
    part_groups rt stg cfg seg sections sections ws = Ok (gbody, ws') ->
    In sec sections -> GpHere rt seg sec g ->
    (gp_provide g && is_some (lookup "_gp" ext))%bool = false ->
    count_assigns "_gp" (O :: B) = 1%nat -> count_assigns START (O :: B) = 1%nat ->
    (forall e, outsec_vma env senv ext addr (subalign seg) (opt_fill seg ++ gbody) (runl A st0) <> Err e) ->
    let st' := runl (A ++ O :: B) st0 in
    exists S, val st' START = Some S /\ val st' "_gp" = Some (S + gp_offset g mod 4294967296).
  Proof.
    intros START O Hc Hg Hin Hgp Hprov Cg Cs Hvma st'.
    set (stA := runl A st0) in *.
    destruct (outsec_vma env senv ext addr (subalign seg) (opt_fill seg ++ gbody) stA) as [vma|e] eqn:Ev;
      [|exfalso; eapply Hvma; reflexivity].
    pose proof (exec_outsec_ok env senv ext final name addr at_ noload (subalign seg) (opt_fill seg ++ gbody)
                               stA vma Ev) as HO.
    cbv zeta in HO. destruct HO as [_ [Hsyms _]].
    set (ss := outsec_body env senv ext final name (subalign seg) (opt_fill seg ++ gbody) vma stA) in *.
    assert (Ess : ss = fold_left (secs vma (option_map Z.of_N (subalign seg)) name) gbody (SState 0 false stA)).
    { unfold ss, outsec_body. rewrite fold_left_app. unfold opt_fill. destruct (fill_value seg); reflexivity. }
    unfold O in Cg, Cs. rewrite count_outsec, count_app, count_opt_fill in Cg, Cs.
    pose proof (gp_assigned_groups _ _ _ _ _ _ _ _ _ _ _ Hg Hc Hin Hgp) as Hge1.
    pose proof (group_syms_assigned _ _ _ _ _ _ _ _ _ Hg Hc sec Hin START (or_introl eq_refl)) as Hge2.
    destruct (groups_gp vma (option_map Z.of_N (subalign seg)) name rt stg cfg seg sections sections sec g ws gbody ws'
                        (SState 0 false stA) Hc Hg Hin Hgp Hprov) as [S [L1 L2]]; [lia | fold START; lia |].
    cbv zeta in L1, L2. rewrite <- Ess in L1, L2. fold START in L1.
    assert (Est' : st' = runl B (exec_outsec env senv ext final name addr at_ noload (subalign seg)
                                             (opt_fill seg ++ gbody) stA)).
    { unfold st', O. rewrite run_app, run_cons. reflexivity. }
    exists S. unfold val. rewrite Est'.
    split; (rewrite run_syms; [rewrite Hsyms; assumption | apply existsb_count; lia]).
  Qed.
End Gp.

(* ---------- the two output sections of an included segment inside the executed statements ---------- *)

Lemma doc_segment_split d rt w seg :
  gen_normal d rt = Ok w -> doc_link_wf d rt = true -> In seg (included rt (doc_segments d)) ->
  let stg := doc_settings d in
  let sty := linker_symbols_style stg in
  exists B T ws1 body1 ws2 body2 wsb A1 B1 A2 B2,
    wo_script w = (version_stmts rt ++ [SSections B] ++ T)%list /\
    (forall env senv ext final st,
       exec_script env senv ext final (wo_script w) st = run env senv ext final (B ++ T) st) /\
    seg_link_wf sty (B ++ T) seg = true /\
    part_groups rt stg cfg_normal seg (alloc_sections seg) (alloc_sections seg) ws1 = Ok (body1, ws2) /\
    part_groups rt stg cfg_normal seg (noload_sections seg) (noload_sections seg) ws2 = Ok (body2, wsb) /\
    (B ++ T)%list =
      ((begin_sections_body stg ++ A1) ++
       SOutSec (alloc_name seg) (segment_addr sty seg) (Some (segment_rom_start sty (sg_name seg))) false
               (subalign seg) (opt_fill seg ++ body1) :: B1)%list /\
    (B ++ T)%list =
      ((begin_sections_body stg ++ A2) ++
       SOutSec (noload_name seg) None None true (subalign seg) (opt_fill seg ++ body2) :: B2)%list.
Proof.
  intros Hg Hwf Hin stg sty.
  destruct (doc_link_wf_inv d rt Hwf) as (body & ws' & E & Hm & Hnd & Hseg & _ & _).
  fold stg in E, Hm, Hseg. fold sty in Hseg.
  pose proof Hg as Hg0. apply gen_normal_inv in Hg0. destruct Hg0 as [s [ws2' [E2 Hw]]].
  apply add_all_segments_inv in E2. destruct E2 as [[Hs _] | [_ [body2' [E2 Es]]]]; [unfold stg in *; congruence|].
  fold stg in E2. rewrite E in E2. apply ok_inj in E2. inversion E2; subst body2' ws2'. subst s. clear E2.
  set (classes := doc_vram_classes d) in *.
  set (B := (begin_sections_body stg ++ body ++ end_sections_body stg classes ws')%list) in *.
  set (T := tail_stmts rt d) in *.
  destruct (fold_segment_split _ _ _ _ _ _ _ _ _ E Hin Hnd) as (b1 & wsa & s1 & wsb & b2 & Ea & Eb & _ & _).
  pose proof Hin as Hin0. apply filter_In in Hin0. destruct Hin0 as [_ Hc].
  apply add_segment_inv in Ea.
  destruct Ea as [[Hc' _] | [_ [cls [ws1 [s1a [ws2 [s2a [Ec [E1 [E2 Es1]]]]]]]]]]; [congruence|].
  apply write_segment_inv in E1. destruct E1 as [body1 [Hg1 E1]]. rewrite alloc_name_outsec in E1.
  apply write_segment_inv in E2. destruct E2 as [body2 [Hg2 E2]]. rewrite noload_name_outsec in E2.
  fold sty in E1, E2.
  set (ks := sections_kind_start sty cfg_normal seg false) in *.
  set (ke := sections_kind_end sty cfg_normal seg false) in *.
  set (ks2 := sections_kind_start sty cfg_normal seg true) in *.
  set (ke2 := sections_kind_end sty cfg_normal seg true) in *.
  set (fin := (end_sections_body stg classes ws' ++ T)%list).
  exists B, T, ws1, body1, ws2, body2, wsb,
    (b1 ++ cls ++ seg_head stg seg ++ ks)%list,
    (ke ++ [SBlank] ++ s2a ++ [SBlank] ++ seg_foot stg seg ++ b2 ++ fin)%list,
    (b1 ++ cls ++ seg_head stg seg ++ s1a ++ [SBlank] ++ ks2)%list,
    (ke2 ++ [SBlank] ++ seg_foot stg seg ++ b2 ++ fin)%list.
  split; [rewrite Hw; reflexivity|].
  split.
  { intros env senv ext final st. rewrite Hw. cbn [wo_script]. unfold T. rewrite exec_sections_script, <- run_app.
    reflexivity. }
  split.
  { specialize (Hseg seg Hin). unfold B. repeat rewrite <- app_assoc. exact Hseg. }
  split; [exact Hg1|]. split; [exact Hg2|]. split.
  - unfold B, fin. rewrite Eb, Es1, E1. repeat (rewrite <- app_assoc; cbn [app]). reflexivity.
  - unfold B, fin. rewrite Eb, Es1, E2. repeat (rewrite <- app_assoc; cbn [app]). reflexivity.
Qed.

Section GpDoc.
  Variables (env : list (string * Z)) (senv : list osec) (ext : list (string * Z)) (final : bool).
  Notation runl := (run env senv ext final).

  (* C17_document_gp_info *)
  Theorem document_gp_info d rt w st seg sec g :
    gen_normal d rt = Ok w -> doc_link_wf d rt = true ->
    In seg (included rt (doc_segments d)) -> In sec (seg_sections seg) -> GpHere rt seg sec g ->
    (gp_provide g && is_some (lookup "_gp" ext))%bool = false ->
    count_assigns "_gp" (wo_script w) = (hardcoded_count (doc_settings d) + 1)%nat ->
    let sty := linker_symbols_style (doc_settings d) in
    let st' := exec_script env senv ext final (wo_script w) st in
    (In sec (alloc_sections seg) -> ~ In (LForwardRef (alloc_name seg)) (l_errors st')) ->
    exists S,
      val st' (segment_section_start sty (sg_name seg) sec) = Some S /\
      val st' "_gp" = Some (S + gp_offset g mod 4294967296) /\
      (S + gp_offset g mod 4294967296) mod 4294967296 = (S + gp_offset g) mod 4294967296.
  Proof.
    intros Hg Hwf Hin Hsec Hgp Hprov Hcnt sty st' Herr.
    destruct (doc_segment_split d rt w seg Hg Hwf Hin)
      as (B & T & ws1 & body1 & ws2 & body2 & wsb & A1 & B1 & A2 & B2 & Ew & Hexec & Hwfs & Hg1 & Hg2 & EL1 & EL2).
    set (stg := doc_settings d) in *. fold sty in Hwfs, EL1, EL2.
    set (START := segment_section_start sty (sg_name seg) sec).
    rewrite Ew, count_script in Hcnt.
    assert (Hs1 : count_assigns START (B ++ T) = 1%nat).
    { destruct (seg_wf_parts sty (B ++ T) seg Hwfs) as [_ [_ [_ Hsecs]]]. specialize (Hsecs sec Hsec).
      unfold section_names_once, assigned_once_deep in Hsecs.
      apply andb_true_iff in Hsecs. destruct Hsecs as [Hsecs _]. apply andb_true_iff in Hsecs.
      destruct Hsecs as [H1 _]. apply Nat.eqb_eq in H1. exact H1. }
    assert (Hfinish : forall stx S, val stx START = Some S /\ val stx "_gp" = Some (S + gp_offset g mod 4294967296) ->
              val stx START = Some S /\ val stx "_gp" = Some (S + gp_offset g mod 4294967296) /\
              (S + gp_offset g mod 4294967296) mod 4294967296 = (S + gp_offset g) mod 4294967296).
    { intros stx S [V1 V2]. split; [exact V1|]. split; [exact V2|]. apply Zplus_mod_idemp_r. }
    unfold st' in *. rewrite Hexec in *.
    apply in_app_or in Hsec. destruct Hsec as [Hsec|Hsec].
    - rewrite EL1 in Hcnt, Hs1, Herr |- *.
      pose proof (gp_assigned_groups _ _ _ _ _ _ _ _ _ _ _ Hg1 eq_refl Hsec Hgp) as Hge1.
      pose proof (group_syms_assigned _ _ _ _ _ _ _ _ _ Hg1 eq_refl sec Hsec START (or_introl eq_refl)) as Hge2.
      rewrite !count_app, count_begin_gp in Hcnt. rewrite !count_app in Hs1.
      rewrite count_outsec, count_app, count_opt_fill in Hcnt, Hs1.
      destruct (outsec_gp env senv ext final rt stg cfg_normal seg (alloc_sections seg) ws1 body1 ws2 (alloc_name seg)
                          (segment_addr sty seg) (Some (segment_rom_start sty (sg_name seg))) false
                          (begin_sections_body stg ++ A1) B1 st sec g eq_refl Hg1 Hsec Hgp Hprov) as [S HS].
      + rewrite count_outsec, count_app, count_opt_fill. fold stg in Hcnt. lia.
      + fold sty START. rewrite count_outsec, count_app, count_opt_fill. lia.
      + intros e Ev. apply (Herr Hsec). rewrite run_app, run_cons. apply run_errors_in.
        cbn [exec_top_stmt]. rewrite (exec_outsec_err _ _ _ _ _ _ _ _ _ _ _ _ Ev).
        cbn [add_err l_errors]. apply in_or_app. right. left. reflexivity.
      + exists S. apply Hfinish. exact HS.
    - rewrite EL2 in Hcnt, Hs1 |- *.
      pose proof (gp_assigned_groups _ _ _ _ _ _ _ _ _ _ _ Hg2 eq_refl Hsec Hgp) as Hge1.
      pose proof (group_syms_assigned _ _ _ _ _ _ _ _ _ Hg2 eq_refl sec Hsec START (or_introl eq_refl)) as Hge2.
      rewrite !count_app, count_begin_gp in Hcnt. rewrite !count_app in Hs1.
      rewrite count_outsec, count_app, count_opt_fill in Hcnt, Hs1.
      destruct (outsec_gp env senv ext final rt stg cfg_normal seg (noload_sections seg) ws2 body2 wsb (noload_name seg)
                          None None true (begin_sections_body stg ++ A2) B2 st sec g eq_refl Hg2 Hsec Hgp Hprov) as [S HS].
      + rewrite count_outsec, count_app, count_opt_fill. fold stg in Hcnt. lia.
      + fold sty START. rewrite count_outsec, count_app, count_opt_fill. lia.
      + intros e Ev. cbn [outsec_vma] in Ev. discriminate Ev.
      + exists S. apply Hfinish. exact HS.
  Qed.
End GpDoc.

(* ====================================================================== *)
(* 4. the two ways of counting the definitions of _gp agree on generated   *)
(*    scripts: no generated ALIGN / MAX statement is about "_gp"           *)
(* ====================================================================== *)

(* [assign_count "_gp"] (every statement that assigns, Spec/DocLevel.v) against [count_gp_stmt] (the
   assignment statements, Spec/C17.v) *)
Definition gpc (s : stmt) : Prop := assign_count "_gp" s = count_gp_stmt s.

Lemma gpc_count l : Forall gpc l -> count_assigns "_gp" l = count_gp l.
Proof.
  intro H. unfold count_assigns, count_gp. f_equal. apply map_ext_in. rewrite Forall_forall in H. exact H.
Qed.

Lemma gpc_outsec n a at_ nl sub body : Forall gpc body -> gpc (SOutSec n a at_ nl sub body).
Proof. intro H. unfold gpc. cbn [assign_count count_gp_stmt]. apply (gpc_count body H). Qed.

Lemma gpc_sections body : Forall gpc body -> gpc (SSections body).
Proof. intro H. unfold gpc. cbn [assign_count count_gp_stmt]. apply (gpc_count body H). Qed.

Lemma gpc_maxself sty sym other : style_name sty sym -> gpc (SMaxSelf sym other).
Proof. intro H. unfold gpc. cbn [assign_count count_gp_stmt]. rewrite (style_name_not_gp sty sym H). reflexivity. Qed.

Ltac gc_leaf :=
  repeat match goal with
         | |- Forall _ (_ ++ _) => apply Forall_app; split
         | |- Forall _ (match ?x with _ => _ end) => destruct x
         | |- Forall _ (if ?x then _ else _) => destruct x
         | |- Forall _ (_ :: _) => constructor
         | |- Forall _ [] => constructor
         | |- gpc (SMaxSelf _ _) => eapply gpc_maxself; sn
         | |- gpc _ => reflexivity
         end.

Lemma gc_opt_align a : Forall gpc (opt_align a).
Proof. unfold opt_align. gc_leaf. Qed.

Lemma gc_gp_stmt rt seg section : Forall gpc (gp_stmt rt seg section).
Proof. unfold gp_stmt. gc_leaf. Qed.

Lemma gc_section_symbol_start rt sty cfg seg section : Forall gpc (section_symbol_start rt sty cfg seg section).
Proof.
  unfold section_symbol_start. destruct (section_syms cfg); [|constructor].
  fa; try apply gc_opt_align; try apply gc_gp_stmt. gc_leaf.
Qed.

Lemma gc_section_symbol_end sty cfg seg section : Forall gpc (section_symbol_end sty cfg seg section).
Proof.
  unfold section_symbol_end. destruct (section_syms cfg); [|constructor].
  fa; try apply gc_opt_align. unfold sym_end_size. gc_leaf.
Qed.

Lemma gc_kind_start sty cfg seg noload : Forall gpc (sections_kind_start sty cfg seg noload).
Proof. unfold sections_kind_start. gc_leaf. Qed.

Lemma gc_kind_end sty cfg seg noload : Forall gpc (sections_kind_end sty cfg seg noload).
Proof. unfold sections_kind_end, sym_end_size. gc_leaf. Qed.

Lemma gc_opt_fill seg : Forall gpc (opt_fill seg).
Proof. unfold opt_fill. gc_leaf. Qed.

Lemma gc_seg_head st seg : Forall gpc (seg_head st seg).
Proof. unfold seg_head. gc_leaf. Qed.

Lemma gc_seg_foot st seg : Forall gpc (seg_foot st seg).
Proof. unfold seg_foot, sym_end_size. cbv zeta. gc_leaf. Qed.

Lemma gc_class_start st c cn : Forall gpc (class_start_stmts st c cn).
Proof.
  unfold class_start_stmts. apply Forall_app; split; [|gc_leaf].
  destruct (vc_fixed_vram c); [gc_leaf|]. destruct (vc_fixed_symbol c); [gc_leaf|].
  constructor; [reflexivity|]. apply Forall_map_intro. intro o. eapply gpc_maxself. sn.
Qed.

Lemma gc_begin st : Forall gpc (begin_sections_body st).
Proof. unfold begin_sections_body, hardcoded_gp_stmts. gc_leaf. Qed.

Lemma gc_single_head st cfg seg : Forall gpc (single_head st cfg seg).
Proof.
  unfold single_head, hardcoded_gp_stmts. apply Forall_app; split; [|gc_leaf].
  destruct (section_syms cfg); [|constructor]. destruct (hardcoded_gp_value st); gc_leaf.
Qed.

Lemma gc_end_sections st classes ws : Forall gpc (end_sections_body st classes ws).
Proof.
  rewrite end_sections_layout.
  assert (Hparts : Forall (Forall gpc) [tail_sizes st classes ws; tail_allow st; tail_extra st; tail_discard st]).
  { repeat constructor.
    - apply Forall_map_intro. reflexivity.
    - apply Forall_map_intro. reflexivity.
    - apply Forall_map_intro. reflexivity.
    - unfold tail_discard. gc_leaf. }
  induction Hparts as [|p r Hp Hr IH]; [constructor|]. simpl. destruct p as [|x p]; [exact IH|].
  apply Forall_app; split; [exact Hp|]. destruct (sep_concat r); [constructor|].
  constructor; [reflexivity | exact IH].
Qed.

Lemma gc_emitter sty wild offs g : emitter sty wild offs g ->
  forall ws s ws', g ws = Ok (s, ws') -> Forall gpc s.
Proof.
  apply (emitter_rel sty wild offs (fun _ s _ => Forall gpc s)); intros; try (repeat constructor).
  apply Forall_app; split; assumption.
Qed.

Lemma gc_emit_section rt sty cfg seg sections base section ws s ws' :
  emit_section rt sty cfg seg sections base section ws = Ok (s, ws') -> Forall gpc s.
Proof. apply (gc_emitter sty (wildcard_sections seg) (offs_of_segment rt seg)). apply emit_section_emitter. Qed.

Lemma gc_part_groups rt st cfg seg sections rest : forall ws s ws',
  part_groups rt st cfg seg sections rest ws = Ok (s, ws') -> Forall gpc s.
Proof.
  induction rest as [|section rest IH]; intros ws s ws' H.
  - apply ok_inj in H. inversion H; subst. constructor.
  - apply part_groups_cons in H. destruct H as [s1 [ws1 [s2 [E1 [E2 E]]]]]. subst.
    fa.
    + apply gc_section_symbol_start.
    + eapply gc_emit_section; eassumption.
    + apply gc_section_symbol_end.
    + gc_leaf.
    + eapply IH; eassumption.
Qed.

Lemma gc_write_segment rt st cfg seg sections noload ws s ws' :
  write_segment rt st cfg seg sections noload ws = Ok (s, ws') -> Forall gpc s.
Proof.
  intro H. apply write_segment_inv in H. destruct H as [body [E H]]. subst.
  fa; [apply gc_kind_start | | apply gc_kind_end].
  constructor; [|constructor]. unfold outsec_of. apply gpc_outsec.
  apply Forall_app; split; [apply gc_opt_fill|]. eapply gc_part_groups; eassumption.
Qed.

Lemma gc_single_groups rt st cfg seg sections noload rest : forall ws s ws',
  single_groups rt st cfg seg sections noload rest ws = Ok (s, ws') -> Forall gpc s.
Proof.
  induction rest as [|section rest IH]; intros ws s ws' H.
  - apply ok_inj in H. inversion H; subst. constructor.
  - apply single_groups_cons in H. destruct H as [s1 [ws1 [s2 [E1 [E2 E]]]]]. subst.
    fa.
    + apply gc_section_symbol_start.
    + constructor; [|constructor]. apply gpc_outsec.
      apply Forall_app; split; [apply gc_opt_fill|]. eapply gc_emit_section; eassumption.
    + apply gc_section_symbol_end.
    + gc_leaf.
    + eapply IH; eassumption.
Qed.

Lemma gc_write_single_segment rt st cfg seg sections noload ws s ws' :
  write_single_segment rt st cfg seg sections noload ws = Ok (s, ws') -> Forall gpc s.
Proof.
  intro H. apply write_single_segment_inv in H. destruct H as [body [E H]]. subst.
  fa; [apply gc_kind_start | | apply gc_kind_end]. eapply gc_single_groups; eassumption.
Qed.

Lemma gc_add_segment rt st cfg classes seg ws s ws' :
  add_segment rt st cfg classes seg ws = Ok (s, ws') -> Forall gpc s.
Proof.
  intro H. apply add_segment_inv in H.
  destruct H as [[_ [E _]] | [_ [cls [ws1 [s1 [ws2 [s2 [Ec [E1 [E2 E]]]]]]]]]]; subst; [constructor|].
  fa.
  - apply class_part_inv in Ec. destruct Ec as [[E _] | [cn [c [_ [_ [_ [E _]]]]]]]; subst;
      [constructor | apply gc_class_start].
  - apply gc_seg_head.
  - eapply gc_write_segment; eassumption.
  - gc_leaf.
  - eapply gc_write_segment; eassumption.
  - gc_leaf.
  - apply gc_seg_foot.
Qed.

Lemma gc_fold_add_segment rt st cfg classes segs ws s ws' :
  fold_out (add_segment rt st cfg classes) segs ws = Ok (s, ws') -> Forall gpc s.
Proof.
  apply (fold_out_rel (fun _ s _ => Forall gpc s)).
  - constructor.
  - intros. apply Forall_app; split; assumption.
  - intros seg w t w' _ H. eapply gc_add_segment; eassumption.
Qed.

Lemma gc_add_all_segments rt st cfg classes segs ws s ws' :
  add_all_segments rt st cfg classes segs ws = Ok (s, ws') -> Forall gpc s.
Proof.
  intro H. apply add_all_segments_inv in H. destruct H as [[_ [seg [_ H]]] | [_ [body [E H]]]].
  - apply add_single_segment_inv in H. destruct H as [s1 [ws1 [s2 [E1 [E2 E]]]]]. subst.
    constructor; [|constructor]. apply gpc_sections. fa.
    + apply gc_single_head.
    + eapply gc_write_single_segment; eassumption.
    + gc_leaf.
    + eapply gc_write_single_segment; eassumption.
    + gc_leaf.
    + apply gc_end_sections.
  - subst. constructor; [|constructor]. apply gpc_sections. fa.
    + apply gc_begin.
    + eapply gc_fold_add_segment; eassumption.
    + apply gc_end_sections.
Qed.

Lemma gc_tail_stmts rt d : Forall gpc (tail_stmts rt d).
Proof.
  unfold tail_stmts, entry_stmts, assignment_stmts, required_stmts, assert_stmts.
  fa.
  - gc_leaf.
  - destruct (doc_symbol_assignments d); [constructor|]. constructor; [reflexivity|].
    apply Forall_flat_map_intro. intro x0. gc_leaf.
  - destruct (doc_required_symbols d); [constructor|]. constructor; [reflexivity|].
    apply Forall_flat_map_intro. intro x0. gc_leaf.
  - destruct (doc_asserts d); [constructor|]. constructor; [reflexivity|].
    apply Forall_flat_map_intro. intro x0. gc_leaf.
Qed.

(* C17_document_gp_count *)
Theorem document_gp_count d rt w :
  gen_normal d rt = Ok w ->
  count_assigns "_gp" (wo_script w) =
  (hardcoded_count (doc_settings d) +
   (if single_segment_mode (doc_settings d) then list_sum (map (gp_occurrences rt) (doc_segments d))
    else segments_gp rt (doc_segments d)) +
   user_gp rt d)%nat.
Proof.
  intro Hg. rewrite <- (count_gen_normal d rt w Hg). apply gpc_count.
  apply gen_normal_inv in Hg. destruct Hg as [s [ws' [E Hw]]]. subst w. cbn [wo_script]. fa.
  - unfold version_stmts. gc_leaf.
  - eapply gc_add_all_segments; eassumption.
  - apply gc_tail_stmts.
Qed.

(* ---------- the document-side forms ---------- *)

Lemma doc_link_wf_multi d rt : doc_link_wf d rt = true -> single_segment_mode (doc_settings d) = false.
Proof. intro H. destruct (doc_link_wf_inv d rt H) as (body & ws' & _ & Hm & _). exact Hm. Qed.

Theorem document_gp_hardcoded_doc env senv ext final d rt w st v :
  gen_normal d rt = Ok w -> hardcoded_gp_value (doc_settings d) = Some v ->
  (if single_segment_mode (doc_settings d) then list_sum (map (gp_occurrences rt) (doc_segments d))
   else segments_gp rt (doc_segments d)) = 0%nat ->
  user_gp rt d = 0%nat ->
  val (exec_script env senv ext final (wo_script w) st) "_gp" = Some (Z.of_N v).
Proof.
  intros Hg Hv Hs Hu. apply (document_gp_hardcoded env senv ext final d rt w st v Hg Hv).
  rewrite (document_gp_count d rt w Hg), Hs, Hu. unfold hardcoded_count. rewrite Hv. reflexivity.
Qed.

Theorem document_gp_info_doc env senv ext final d rt w st seg sec g :
  gen_normal d rt = Ok w -> doc_link_wf d rt = true ->
  In seg (included rt (doc_segments d)) -> In sec (seg_sections seg) -> GpHere rt seg sec g ->
  (gp_provide g && is_some (lookup "_gp" ext))%bool = false ->
  segments_gp rt (doc_segments d) = 1%nat -> user_gp rt d = 0%nat ->
  let sty := linker_symbols_style (doc_settings d) in
  let st' := exec_script env senv ext final (wo_script w) st in
  (In sec (alloc_sections seg) -> ~ In (LForwardRef (alloc_name seg)) (l_errors st')) ->
  exists S,
    val st' (segment_section_start sty (sg_name seg) sec) = Some S /\
    val st' "_gp" = Some (S + gp_offset g mod 4294967296) /\
    (S + gp_offset g mod 4294967296) mod 4294967296 = (S + gp_offset g) mod 4294967296.
Proof.
  intros Hg Hwf Hin Hsec Hgp Hprov Hs Hu.
  apply (document_gp_info env senv ext final d rt w st seg sec g Hg Hwf Hin Hsec Hgp Hprov).
  rewrite (document_gp_count d rt w Hg), (doc_link_wf_multi d rt Hwf), Hs, Hu. lia.
Qed.

(* _gp is not defined by the script when nothing asks for it *)
Theorem document_gp_undefined env senv ext final d rt w st :
  gen_normal d rt = Ok w -> count_assigns "_gp" (wo_script w) = 0%nat ->
  val (exec_script env senv ext final (wo_script w) st) "_gp" = val st "_gp".
Proof.
  intros Hg Hc. rewrite exec_script_flat. unfold val. apply run_syms. apply existsb_count.
  clear Hg. revert Hc. generalize (wo_script w). intro l. unfold flat_stmts.
  induction l as [|s l IH]; intro Hc; [reflexivity|]. rewrite count_cons in Hc. cbn [flat_map]. rewrite count_app.
  assert (Hs : count_assigns "_gp" (match s with SSections b => b | _ => [s] end) = assign_count "_gp" s).
  { destruct s; unfold count_assigns; simpl; lia. }
  rewrite Hs, IH by lia. lia.
Qed.

(* ====================================================================== *)
(* 5. the last pass of layout                                              *)
(* ====================================================================== *)

Theorem document_checks_layout d rt w u ext0 :
  gen_normal d rt = Ok w ->
  ChecksOutcome (last_env (wo_script w) u ext0) (last_ext (wo_script w) u ext0) true rt d
                (layout (wo_script w) u ext0).
Proof. intro Hg. unfold layout, last_env, last_ext. apply (document_checks _ _ _ _ d rt w u Hg). Qed.

Theorem document_assert_fails_layout d rt w u ext0 a :
  gen_normal d rt = Ok w -> In a (doc_asserts d) -> should_emit rt (ae_conds a) = true ->
  let st' := layout (wo_script w) u ext0 in
  eval_raw (last_env (wo_script w) u ext0) (last_ext (wo_script w) u ext0) st' (ae_check a) = Ok 0 ->
  In (LAssertFailed (ae_error_message a)) (l_errors st').
Proof. intros Hg Ha Hc. unfold layout, last_env, last_ext. apply (document_assert_fails _ _ _ _ d rt w u a Hg Ha Hc). Qed.

(* the markers the objects define are markers of input sections of the universe *)
Lemma lookup_markers_none n (l : list placement) :
  ~ In n (map pl_marker l) -> lookup n (map (fun p => (pl_marker p, pl_addr p)) l) = None.
Proof.
  induction l as [|p l IH]; intro H; [reflexivity|]. cbn [map lookup].
  destruct (String.eqb n (pl_marker p)) eqn:E.
  - apply String.eqb_eq in E. exfalso. apply H. left. symmetry. exact E.
  - apply IH. intro Hin. apply H. right. exact Hin.
Qed.

Lemma markers_of_universe env senv ext final script u n :
  ~ In n (map u_marker u) -> lookup n (markers_of (exec_script env senv ext final script (init_state u))) = None.
Proof.
  intro H. unfold markers_of. apply lookup_markers_none. intro Hin. apply H.
  destruct (Proofs.C18Link.script_accounted env senv ext final script (init_state u)) as [P _].
  change (Proofs.C18Link.accounted (init_state u)) with (map u_marker u) in P.
  eapply Permutation.Permutation_in; [exact P|]. unfold Proofs.C18Link.accounted. apply in_or_app. left. exact Hin.
Qed.

Theorem document_required_fails_layout d rt w u ext0 r :
  gen_normal d rt = Ok w -> In r (doc_required_symbols d) -> should_emit rt (rq_conds r) = true ->
  let st' := layout (wo_script w) u ext0 in
  lookup (rq_name r) (l_syms st') = None -> lookup (rq_name r) (last_env (wo_script w) u ext0) = None ->
  lookup (rq_name r) ext0 = None -> ~ In (rq_name r) (map u_marker u) ->
  In (LAssertFailed (required_msg (rq_name r))) (l_errors st').
Proof.
  intros Hg Hr Hc st' H1 H2 H3 H4. unfold st', layout in *. unfold last_env in H2.
  apply (document_required_fails _ _ _ _ d rt w u r Hg Hr Hc).
  apply sym_lookup_none. split; [exact H1|]. split; [exact H2|].
  apply lookup_app_none. split; [exact H3|]. apply markers_of_universe. exact H4.
Qed.

Theorem document_failure_origin_layout d rt w u ext0 m' :
  gen_normal d rt = Ok w ->
  let st' := layout (wo_script w) u ext0 in
  let env := last_env (wo_script w) u ext0 in
  let ext := last_ext (wo_script w) u ext0 in
  In (LAssertFailed m') (l_errors st') ->
  (exists a, In a (doc_asserts d) /\ should_emit rt (ae_conds a) = true /\ ae_error_message a = m' /\
             eval_raw env ext st' (ae_check a) = Ok 0) \/
  (exists r, In r (doc_required_symbols d) /\ should_emit rt (rq_conds r) = true /\
             m' = required_msg (rq_name r) /\ sym_lookup (rq_name r) st' env ext = None).
Proof. intro Hg. unfold layout, last_env, last_ext. apply (document_failure_origin _ _ _ _ d rt w u m' Hg). Qed.

Theorem document_required_holds_layout d rt w u ext0 n v :
  gen_normal d rt = Ok w ->
  let st' := layout (wo_script w) u ext0 in
  let env := last_env (wo_script w) u ext0 in
  let ext := last_ext (wo_script w) u ext0 in
  sym_lookup n st' env ext = Some v ->
  (forall a, In a (doc_asserts d) -> should_emit rt (ae_conds a) = true ->
             ae_error_message a = required_msg n -> eval_raw env ext st' (ae_check a) <> Ok 0) ->
  ~ In (LAssertFailed (required_msg n)) (l_errors st').
Proof. intro Hg. unfold layout, last_env, last_ext. apply (document_required_holds _ _ _ _ d rt w u n v Hg). Qed.

Theorem document_gp_hardcoded_layout d rt w u ext0 v :
  gen_normal d rt = Ok w -> hardcoded_gp_value (doc_settings d) = Some v ->
  (if single_segment_mode (doc_settings d) then list_sum (map (gp_occurrences rt) (doc_segments d))
   else segments_gp rt (doc_segments d)) = 0%nat ->
  user_gp rt d = 0%nat ->
  val (layout (wo_script w) u ext0) "_gp" = Some (Z.of_N v).
Proof. intros Hg Hv Hs Hu. unfold layout. apply (document_gp_hardcoded_doc _ _ _ _ d rt w _ v Hg Hv Hs Hu). Qed.

Theorem document_gp_info_layout d rt w u ext0 seg sec g :
  gen_normal d rt = Ok w -> doc_link_wf d rt = true ->
  In seg (included rt (doc_segments d)) -> In sec (seg_sections seg) -> GpHere rt seg sec g ->
  (gp_provide g && is_some (lookup "_gp" (last_ext (wo_script w) u ext0)))%bool = false ->
  segments_gp rt (doc_segments d) = 1%nat -> user_gp rt d = 0%nat ->
  let sty := linker_symbols_style (doc_settings d) in
  let st' := layout (wo_script w) u ext0 in
  (In sec (alloc_sections seg) -> ~ In (LForwardRef (alloc_name seg)) (l_errors st')) ->
  exists S,
    val st' (segment_section_start sty (sg_name seg) sec) = Some S /\
    val st' "_gp" = Some (S + gp_offset g mod 4294967296) /\
    (S + gp_offset g mod 4294967296) mod 4294967296 = (S + gp_offset g) mod 4294967296.
Proof.
  intros Hg Hwf Hin Hsec Hgp Hprov Hs Hu. unfold layout, last_ext in *.
  apply (document_gp_info_doc _ _ _ _ d rt w _ seg sec g Hg Hwf Hin Hsec Hgp Hprov Hs Hu).
Qed.

(* user_gp counts what no_user_gp forbids *)
Lemma no_user_gp_count rt d : no_user_gp rt d = true <-> user_gp rt d = 0%nat.
Proof.
  unfold no_user_gp, user_gp, included_assignments.
  induction (doc_symbol_assignments d) as [|a l IH]; [split; reflexivity|]. cbn [filter].
  destruct (should_emit rt (sa_conds a)); cbn [andb forallb]; [|exact IH].
  destruct (String.eqb (sa_name a) "_gp"); cbn [negb andb List.length].
  - split; discriminate.
  - exact IH.
Qed.
