(* C05: lemmas - documented names, the recorded symbols of a segment, and the link-level
   consistency of start / end / size. *)
From Slinky Require Import Model.Types Model.Generated Model.Runtime Model.Style Model.Script Model.Writer Model.LdSem.
From Slinky Require Import Spec.C13 Spec.C09 Spec.C05.
From Slinky Require Import Proofs.LdLemmas Proofs.C06 Proofs.C18 Proofs.C13 Proofs.C09.
From Coq Require Import Lia ZArith Sorted.

(* ====================================================================== *)
(* the names are spelled as documented                                     *)
(* ====================================================================== *)

Lemma doc_capitalize_eq s : doc_capitalize s = capitalize s.
Proof. reflexivity. Qed.

Lemma convert_section_name_doc sty sec :
  convert_section_name sty sec = match sty with Splat => doc_section_upper sec | Makerom => doc_section_camel sec end.
Proof.
  destruct sty; [reflexivity|]. unfold convert_section_name, doc_section_camel, makerom_special_from, makerom_special_to.
  destruct (String.eqb sec ".rodata"); [reflexivity|].
  destruct sec as [|c r]; [reflexivity|].
  destruct c as [[] [] [] [] [] [] [] []]; reflexivity.
Qed.

Ltac names_eq :=
  unfold_names; match goal with sty : style |- _ => destruct sty end;
  cbn [pick fst snd]; rewrite ?fmt2, ?fmt3, ?convert_section_name_doc; reflexivity.

Lemma rom_start_doc sty seg : segment_rom_start sty seg = doc_rom_start sty seg. Proof. names_eq. Qed.
Lemma rom_end_doc sty seg : segment_rom_end sty seg = doc_rom_end sty seg. Proof. names_eq. Qed.
Lemma rom_size_doc sty seg : segment_rom_size sty seg = doc_rom_size sty seg. Proof. names_eq. Qed.
Lemma vram_start_doc sty seg : segment_vram_start sty seg = doc_vram_start sty seg. Proof. names_eq. Qed.
Lemma vram_end_doc sty seg : segment_vram_end sty seg = doc_vram_end sty seg. Proof. names_eq. Qed.
Lemma vram_size_doc sty seg : segment_vram_size sty seg = doc_vram_size sty seg. Proof. names_eq. Qed.
Lemma section_start_doc sty seg sec : segment_section_start sty seg sec = doc_section_start sty seg sec.
Proof. names_eq. Qed.
Lemma section_end_doc sty seg sec : segment_section_end sty seg sec = doc_section_end sty seg sec.
Proof. names_eq. Qed.
Lemma section_size_doc sty seg sec : segment_section_size sty seg sec = doc_section_size sty seg sec.
Proof. names_eq. Qed.
Lemma linker_offset_doc sty name : linker_offset sty name = doc_linker_offset sty name. Proof. names_eq. Qed.
Lemma class_start_doc sty name : vram_class_start sty name = doc_class_start sty name. Proof. names_eq. Qed.
Lemma class_end_doc sty name : vram_class_end sty name = doc_class_end sty name. Proof. names_eq. Qed.
Lemma class_size_doc sty name : vram_class_size sty name = doc_class_size sty name. Proof. names_eq. Qed.

Lemma kind_name_doc seg noload : kind_name seg noload = doc_kind_name (sg_name seg) noload.
Proof. unfold kind_name, doc_kind_name. destruct noload; reflexivity. Qed.

Lemma names_table :
  (forall sty seg, segment_rom_start sty seg = doc_rom_start sty seg) /\
  (forall sty seg, segment_rom_end sty seg = doc_rom_end sty seg) /\
  (forall sty seg, segment_rom_size sty seg = doc_rom_size sty seg) /\
  (forall sty seg, segment_vram_start sty seg = doc_vram_start sty seg) /\
  (forall sty seg, segment_vram_end sty seg = doc_vram_end sty seg) /\
  (forall sty seg, segment_vram_size sty seg = doc_vram_size sty seg) /\
  (forall sty seg sec, segment_section_start sty seg sec = doc_section_start sty seg sec) /\
  (forall sty seg sec, segment_section_end sty seg sec = doc_section_end sty seg sec) /\
  (forall sty seg sec, segment_section_size sty seg sec = doc_section_size sty seg sec) /\
  (forall sty name, linker_offset sty name = doc_linker_offset sty name) /\
  (forall sty name, vram_class_start sty name = doc_class_start sty name) /\
  (forall sty name, vram_class_end sty name = doc_class_end sty name) /\
  (forall sty name, vram_class_size sty name = doc_class_size sty name) /\
  (forall seg noload, kind_name seg noload = doc_kind_name (sg_name seg) noload).
Proof.
  repeat split; intros;
    auto using rom_start_doc, rom_end_doc, rom_size_doc, vram_start_doc, vram_end_doc, vram_size_doc,
      section_start_doc, section_end_doc, section_size_doc, linker_offset_doc, class_start_doc,
      class_end_doc, class_size_doc, kind_name_doc.
Qed.

(* ====================================================================== *)
(* the recorded symbols of an emitted segment                              *)
(* ====================================================================== *)

Lemma recorded_opt_align a : recorded_syms (opt_align a) = [].
Proof. destruct a; reflexivity. Qed.

Lemma recorded_section_start rt sty cfg seg section :
  recorded_syms (section_symbol_start rt sty cfg seg section) =
  if section_syms cfg then [doc_section_start sty (sg_name seg) section] else [].
Proof.
  unfold section_symbol_start. destruct (section_syms cfg); [|reflexivity].
  rewrite !recorded_app, !recorded_opt_align, not_recorded_gp, <- section_start_doc. reflexivity.
Qed.

Lemma recorded_section_end sty cfg seg section :
  recorded_syms (section_symbol_end sty cfg seg section) =
  if section_syms cfg
  then [doc_section_end sty (sg_name seg) section; doc_section_size sty (sg_name seg) section] else [].
Proof.
  unfold section_symbol_end. destruct (section_syms cfg); [|reflexivity].
  rewrite !recorded_app, !recorded_opt_align, <- section_end_doc, <- section_size_doc. reflexivity.
Qed.

Lemma offset_form_doc rt sty seg sym : offset_form rt sty seg sym -> doc_offset_of rt sty seg sym.
Proof. intros [name [Hn E]]. exists name. split; [exact Hn|]. rewrite <- linker_offset_doc. exact E. Qed.

Lemma recorded_blank_if (rest : list string) :
  recorded_syms (match rest with [] => [] | _ => [SBlank] end) = [].
Proof. destruct rest; reflexivity. Qed.

Lemma part_groups_recorded rt st cfg seg sections rest : forall ws s ws',
  part_groups rt st cfg seg sections rest ws = Ok (s, ws') ->
  exists secs, map fst secs = rest /\
    Forall (fun so => Forall (doc_offset_of rt (linker_symbols_style st) seg) (snd so)) secs /\
    recorded_syms s =
    flat_map (fun so => section_symbols (linker_symbols_style st) cfg seg (fst so) (snd so)) secs.
Proof.
  induction rest as [|section rest IH]; intros ws s ws' H.
  - apply ok_inj in H. inversion H; subst. exists []. repeat split; constructor.
  - apply part_groups_cons in H. destruct H as [s1 [ws1 [s2 [E1 [E2 E]]]]]. subst.
    destruct (IH _ _ _ E2) as [secs [Hm [Hf Hr]]].
    exists ((section, recorded_syms s1) :: secs). split; [simpl; rewrite Hm; reflexivity|]. split.
    + constructor; [|exact Hf]. cbn [snd]. apply forms_emit_section in E1.
      eapply Forall_impl; [|exact E1]. intros sym. apply offset_form_doc.
    + rewrite !recorded_app, recorded_section_start, recorded_section_end, recorded_blank_if, Hr.
      cbn [flat_map fst snd]. unfold section_symbols at 2. rewrite <- !app_assoc. reflexivity.
Qed.

Lemma recorded_kind_start sty cfg seg noload :
  recorded_syms (sections_kind_start sty cfg seg noload) =
  if kind_syms cfg then [doc_vram_start sty (doc_kind_name (sg_name seg) noload)] else [].
Proof.
  unfold sections_kind_start. destruct (kind_syms cfg); [|reflexivity].
  rewrite <- kind_name_doc, <- vram_start_doc. reflexivity.
Qed.

Lemma recorded_kind_end sty cfg seg noload :
  recorded_syms (sections_kind_end sty cfg seg noload) =
  if kind_syms cfg then [doc_vram_end sty (doc_kind_name (sg_name seg) noload);
                         doc_vram_size sty (doc_kind_name (sg_name seg) noload)] else [].
Proof.
  unfold sections_kind_end. destruct (kind_syms cfg); [|reflexivity].
  rewrite <- kind_name_doc, <- vram_end_doc, <- vram_size_doc. reflexivity.
Qed.

Lemma recorded_opt_fill seg : recorded_syms (opt_fill seg) = [].
Proof. unfold opt_fill. destruct (fill_value seg); reflexivity. Qed.

Lemma write_segment_recorded rt st cfg seg sections noload ws s ws' :
  write_segment rt st cfg seg sections noload ws = Ok (s, ws') ->
  exists secs, map fst secs = sections /\
    Forall (fun so => Forall (doc_offset_of rt (linker_symbols_style st) seg) (snd so)) secs /\
    recorded_syms s = part_symbols (linker_symbols_style st) cfg seg noload secs.
Proof.
  intro H. apply write_segment_inv in H. destruct H as [body [Hb E]]. subst.
  destruct (part_groups_recorded _ _ _ _ _ _ _ _ _ Hb) as [secs [Hm [Hf Hr]]].
  exists secs. split; [exact Hm|]. split; [exact Hf|].
  rewrite !recorded_app, recorded_kind_start, recorded_kind_end. unfold outsec_of.
  rewrite recorded_outsec, recorded_app, recorded_opt_fill, Hr. reflexivity.
Qed.

Lemma recorded_class_start st c cn :
  recorded_syms (class_start_stmts st c cn) =
  [doc_class_start (linker_symbols_style st) cn; doc_class_end (linker_symbols_style st) cn].
Proof.
  unfold class_start_stmts. rewrite recorded_app, <- class_start_doc, <- class_end_doc.
  destruct (vc_fixed_vram c); [reflexivity|]. destruct (vc_fixed_symbol c); [reflexivity|].
  assert (E : forall l, recorded_syms (map (fun o => SMaxSelf (vram_class_start (linker_symbols_style st) cn)
                                                               (vram_class_end (linker_symbols_style st) o)) l) = []).
  { induction l as [|x r IH]; [reflexivity|]. exact IH. }
  change (recorded_syms (?x :: ?l)) with (recorded_syms [x] ++ recorded_syms l).
  unfold recorded_syms at 1. simpl.
  change (flat_map stmt_recorded ?l) with (recorded_syms l). rewrite E. reflexivity.
Qed.

Lemma recorded_seg_head st seg :
  recorded_syms (seg_head st seg) =
  [doc_rom_start (linker_symbols_style st) (sg_name seg); doc_vram_start (linker_symbols_style st) (sg_name seg)].
Proof.
  unfold seg_head. rewrite <- rom_start_doc, <- vram_start_doc. destruct (segment_start_align seg); reflexivity.
Qed.

Lemma recorded_seg_foot st seg :
  recorded_syms (seg_foot st seg) =
  [doc_vram_end (linker_symbols_style st) (sg_name seg); doc_vram_size (linker_symbols_style st) (sg_name seg);
   doc_rom_end (linker_symbols_style st) (sg_name seg); doc_rom_size (linker_symbols_style st) (sg_name seg)].
Proof.
  unfold seg_foot. cbv zeta. rewrite <- vram_end_doc, <- vram_size_doc, <- rom_end_doc, <- rom_size_doc.
  destruct (segment_end_align seg); destruct (sg_vram_class seg); reflexivity.
Qed.

Lemma segment_symbols rt st cfg classes seg ws s ws' :
  add_segment rt st cfg classes seg ws = Ok (s, ws') ->
  should_emit rt (sg_conds seg) = true ->
  exists alloc noload,
    map fst alloc = alloc_sections seg /\ map fst noload = noload_sections seg /\
    Forall (fun so => Forall (doc_offset_of rt (linker_symbols_style st) seg) (snd so)) (alloc ++ noload) /\
    recorded_syms s =
    expected_segment_symbols (linker_symbols_style st) cfg seg
      (match sg_vram_class seg with Some cn => negb (mem_str cn (ws_emitted ws)) | None => false end)
      alloc noload.
Proof.
  intros H Hinc. apply add_segment_inv in H.
  destruct H as [[Hex _] | [_ [cls [ws1 [s1 [ws2 [s2 [Ec [E1 [E2 E]]]]]]]]]]; [congruence|]. subst.
  destruct (write_segment_recorded _ _ _ _ _ _ _ _ _ E1) as [alloc [Ha [Fa Ra]]].
  destruct (write_segment_recorded _ _ _ _ _ _ _ _ _ E2) as [noload [Hn [Fn Rn]]].
  exists alloc, noload. split; [exact Ha|]. split; [exact Hn|]. split; [apply Forall_app; split; assumption|].
  rewrite !recorded_app, Ra, Rn, recorded_seg_head, recorded_seg_foot.
  unfold expected_segment_symbols.
  assert (Hcls : recorded_syms cls =
                 match sg_vram_class seg with
                 | Some cn => if negb (mem_str cn (ws_emitted ws))
                              then [doc_class_start (linker_symbols_style st) cn; doc_class_end (linker_symbols_style st) cn]
                              else []
                 | None => []
                 end).
  { unfold class_part in Ec. destruct (sg_vram_class seg) as [cn|].
    - destruct (class_get classes cn) as [c|]; [|discriminate].
      destruct (mem_str cn (ws_emitted ws)); apply ok_inj in Ec; inversion Ec; subst;
        [reflexivity | apply recorded_class_start].
    - apply ok_inj in Ec. inversion Ec; subst. reflexivity. }
  rewrite Hcls. destruct (sg_vram_class seg); simpl; rewrite <- ?app_assoc; reflexivity.
Qed.

(* ====================================================================== *)
(* a linker offset never has the name of a section symbol                  *)
(* ====================================================================== *)

Fixpoint str_rev (s : string) : string :=
  match s with EmptyString => EmptyString | String c r => (str_rev r ++ String c "")%string end.

Lemma str_rev_app a b : str_rev (a ++ b)%string = (str_rev b ++ str_rev a)%string.
Proof.
  induction a as [|c a IH]; simpl.
  - rewrite str_app_nil_r. reflexivity.
  - rewrite IH, str_app_assoc. reflexivity.
Qed.

Ltac suffix_neq :=
  let H := fresh "H" in
  unfold_names; intro H; apply (f_equal str_rev) in H;
  match goal with sty : style |- _ => destruct sty end;
  cbn [pick fst snd] in H; rewrite ?fmt2, ?fmt3 in H; rewrite ?str_rev_app in H; simpl in H;
  discriminate.

Lemma offset_neq_sec_start sty name n s : linker_offset sty name <> segment_section_start sty n s.
Proof. suffix_neq. Qed.
Lemma offset_neq_sec_end sty name n s : linker_offset sty name <> segment_section_end sty n s.
Proof. suffix_neq. Qed.
Lemma offset_neq_sec_size sty name n s : linker_offset sty name <> segment_section_size sty n s.
Proof. suffix_neq. Qed.

Lemma lookup_app_skip {A} x (news l : list (string * A)) :
  Forall (fun nv => fst nv <> x) news -> lookup x (news ++ l) = lookup x l.
Proof.
  induction 1 as [|[n v] r Hn Hr IH]; [reflexivity|]. simpl in *.
  destruct (String.eqb x n) eqn:E; [apply String.eqb_eq in E; subst; contradiction | exact IH].
Qed.

(* ====================================================================== *)
(* the statements of the files of a group                                  *)
(* ====================================================================== *)

Lemma group_stmts_emitter sty wild offs g : emitter sty wild offs g ->
  forall ws s ws', g ws = Ok (s, ws') -> Forall (group_stmt sty offs) s.
Proof.
  apply (emitter_rel sty wild offs (fun _ s _ => Forall (group_stmt sty offs) s)).
  - intros. constructor.
  - intros. apply Forall_app; split; assumption.
  - intros. repeat constructor.
  - intros. repeat constructor.
  - intros ws name Hn. constructor; [|constructor]. exists name. split; [exact Hn | apply linker_offset_doc].
Qed.

Lemma group_stmts_emit_section rt sty cfg seg sections base section ws s ws' :
  emit_section rt sty cfg seg sections base section ws = Ok (s, ws') ->
  Forall (group_stmt sty (fun name => In name (segment_offset_names rt seg))) s.
Proof.
  apply (group_stmts_emitter sty (wildcard_sections seg) (offs_of_segment rt seg)). apply emit_section_emitter.
Qed.

Local Open Scope Z_scope.

Section GroupExec.
  Variables env ext : list (string * Z).
  Variable senv : list osec.
  Variable final : bool.
  Variable vma : Z.
  Variable sub : option Z.
  Variable outsec : string.
  Variable sty : style.
  Variable offs : string -> Prop.

  Local Notation X := (exec_sec_stmt env senv ext final vma sub outsec).

  Definition offset_def (lo hi : Z) (nv : string * Z) : Prop :=
    sym_between lo hi nv /\ exists name, offs name /\ fst nv = doc_linker_offset sty name.

  Lemma group_step ss s :
    group_stmt sty offs s ->
    exists news, l_syms (s_st (X ss s)) = news ++ l_syms (s_st ss) /\
                 Forall (offset_def (vma + s_off ss) (vma + s_off ss)) news.
  Proof.
    destruct s as [t| |p h rc sym e|sym n|sym other|sec|n|n|kp path member sect wild|nm addr at_ nl sb body
                   |sect|pats wild|body|e|e|c m]; simpl; try contradiction.
    - destruct p, h, rc, e; try contradiction. intros [name [Hn E]].
      exists [(sym, vma + s_off ss)]. split; [reflexivity|]. constructor; [|constructor].
      split; [split; simpl; lia|]. exists name. auto.
    - intros _. exists []. split; [reflexivity | constructor].
    - intros _. destruct (place vma sub outsec _ _ _ _) as [[o p] c]. exists []. split; [reflexivity | constructor].
  Qed.

  Lemma offset_def_weaken lo hi lo' hi' nv : lo' <= lo -> hi <= hi' -> offset_def lo hi nv -> offset_def lo' hi' nv.
  Proof. intros H1 H2 [[A B] C]. split; [split; lia | exact C]. Qed.

  (* the files of a group only define linker offsets, each with a value between the position before
     and the position after *)
  Lemma group_fold_syms l : Forall (group_stmt sty offs) l -> forall ss,
    nonneg_sizes (l_remaining (s_st ss)) ->
    exists news, l_syms (s_st (fold_left X l ss)) = news ++ l_syms (s_st ss) /\
                 Forall (offset_def (vma + s_off ss) (vma + s_off (fold_left X l ss))) news.
  Proof.
    induction 1 as [|s r Hs Hr IH]; intros ss Hn.
    - exists []. split; [reflexivity | constructor].
    - cbn [fold_left].
      pose proof (sec_step env ext senv final vma sub outsec ss s Hn) as [L1 [N1 _]].
      pose proof (sec_fold env ext senv final vma sub outsec r (X ss s) N1) as [L2 _].
      destruct (IH (X ss s) N1) as [news2 [E2 F2]]. destruct (group_step ss s Hs) as [news1 [E1 F1]].
      exists (news2 ++ news1). rewrite E2, E1, app_assoc. split; [reflexivity|].
      apply Forall_app; split; (eapply Forall_impl; [|eassumption]); intro nv; apply offset_def_weaken; lia.
  Qed.
End GroupExec.

(* C05: one whole group inside an output section *)
Lemma group_bracket env senv ext final vma sub outsec rt sty cfg seg sections base section ws files ws' ss :
  section_syms cfg = true ->
  emit_section rt sty cfg seg sections base section ws = Ok (files, ws') ->
  nonneg_sizes (l_remaining (s_st ss)) ->
  let ss' := fold_left (exec_sec_stmt env senv ext final vma sub outsec)
                       (section_symbol_start rt sty cfg seg section ++ files ++
                        section_symbol_end sty cfg seg section) ss in
  exists S E new news rest,
    lookup (segment_section_start sty (sg_name seg) section) (l_syms (s_st ss')) = Some S /\
    lookup (segment_section_end sty (sg_name seg) section) (l_syms (s_st ss')) = Some E /\
    lookup (segment_section_size sty (sg_name seg) section) (l_syms (s_st ss')) = Some (E - S) /\
    vma + s_off ss <= S /\ S <= E /\ E = vma + s_off ss' /\
    l_placed (s_st ss') = l_placed (s_st ss) ++ new /\
    Forall (placed_between S E outsec) new /\
    nondecreasing (map pl_addr new) /\
    l_syms (s_st ss') =
      (segment_section_size sty (sg_name seg) section, E - S) ::
      (segment_section_end sty (sg_name seg) section, E) :: news ++
      (segment_section_start sty (sg_name seg) section, S) :: rest /\
    Forall (offset_def sty (fun name => In name (segment_offset_names rt seg)) S E) news /\
    nonneg_sizes (l_remaining (s_st ss')).
Proof.
  intros Hc Hf Hn ss'. subst ss'. rewrite !fold_X_app.
  set (START := segment_section_start sty (sg_name seg) section).
  set (END_ := segment_section_end sty (sg_name seg) section).
  set (SIZE := segment_section_size sty (sg_name seg) section).
  (* start *)
  pose proof (group_start_aligned env senv ext final vma sub outsec rt sty cfg seg section ss Hc) as [_ [Hle1 _]].
  destruct (group_start_exec env ext senv final vma sub outsec rt sty cfg seg section ss Hc)
    as [st1 [E1 [Hl1 [Hp1 Hr1]]]].
  cbv zeta in Hle1. rewrite E1 in *. cbn [s_off] in Hle1.
  set (off1 := opt_aligned (lookup section (sections_start_alignment seg))
                           (opt_aligned (section_start_align seg) (s_off ss))) in *.
  set (ss1 := SState off1 (s_contents ss) st1).
  assert (Hn1 : nonneg_sizes (l_remaining (s_st ss1))) by (simpl; rewrite Hr1; exact Hn).
  (* files *)
  pose proof (group_stmts_emit_section _ _ _ _ _ _ _ _ _ _ Hf) as Hg.
  pose proof (sec_fold env ext senv final vma sub outsec files ss1 Hn1) as [L2 [N2 [new [P2 [R2 S2]]]]].
  destruct (group_fold_syms env ext senv final vma sub outsec sty _ files Hg ss1 Hn1) as [news [Es2 Fs2]].
  set (ss2 := fold_left (exec_sec_stmt env senv ext final vma sub outsec) files ss1) in *.
  (* the start symbol is still visible *)
  assert (Hskip : Forall (fun nv => fst nv <> START) news).
  { eapply Forall_impl; [|exact Fs2]. intros nv [_ [name [_ En]]]. rewrite En, <- linker_offset_doc.
    apply offset_neq_sec_start. }
  assert (Hs2 : lookup START (l_syms (s_st ss2)) = Some (vma + off1)).
  { rewrite Es2, lookup_app_skip by exact Hskip. exact Hl1. }
  (* end *)
  pose proof (group_end_aligned env senv ext final vma sub outsec sty cfg seg section ss2 Hc) as [_ [Hle3 _]].
  destruct (group_end_exec env ext senv final vma sub outsec sty cfg seg section ss2 Hc)
    as [st3 [E3 [Hl3 [Hz3 [Ho3 [Hp3 Hr3]]]]]].
  cbv zeta in Hle3. rewrite E3 in *. cbn [s_off] in Hle3.
  set (off3 := opt_aligned (lookup section (sections_end_alignment seg))
                           (opt_aligned (section_end_align seg) (s_off ss2))) in *.
  assert (Hsl : sym_lookup START (s_st ss2) env ext = Some (vma + off1)) by (apply sym_lookup_defined; exact Hs2).
  cbn [s_st s_off].
  (* the exact shape of the symbol table *)
  assert (Hshape : l_syms st3 = (SIZE, vma + off3 - (vma + off1)) :: (END_, vma + off3) :: l_syms (s_st ss2)).
  { unfold section_symbol_end in E3. rewrite Hc in E3. rewrite !fold_X_app, !exec_opt_align in E3.
    rewrite (sec_sym_end_size env ext senv final vma sub outsec START END_ SIZE EDot _ (vma + off1) (vma + off3)) in E3;
      [| reflexivity | exact Hsl].
    assert (Hse : String.eqb START END_ = false) by (apply String.eqb_neq; apply sec_start_neq_end).
    rewrite Hse in E3. inversion E3. reflexivity. }
  exists (vma + off1), (vma + off3), new, news.
  (* what was there before the START symbol *)
  assert (Hst1 : exists rest, l_syms st1 = (START, vma + off1) :: rest).
  { unfold section_symbol_start in E1. rewrite Hc in E1. rewrite !fold_X_app, !exec_opt_align in E1.
    cbn [fold_left] in E1. rewrite exec_linker_symbol_dot in E1.
    match type of E1 with SState _ _ (set_sym _ _ _ ?s0) = _ => exists (l_syms s0) end.
    inversion E1. reflexivity. }
  destruct Hst1 as [rest Hst1]. exists rest.
  split.
  { destruct (Ho3 START) as [H|H]; [apply sec_start_neq_end | apply sec_start_neq_size | |].
    - rewrite H. exact Hs2.
    - change (sym_lookup START (s_st ss2) env ext = None) in H. rewrite Hsl in H. discriminate. }
  split; [exact Hl3|]. split; [apply Hz3; exact Hsl|].
  split; [lia|]. split; [simpl in L2; lia|]. split; [reflexivity|].
  split; [rewrite Hp3, P2; simpl; rewrite Hp1; reflexivity|].
  split.
  { eapply Forall_impl; [|exact R2]. intros p [A [B C]]. unfold placed_between. simpl in A. repeat split; try lia.
    exact C. }
  split; [exact S2|].
  split; [rewrite Hshape, Es2; simpl; rewrite Hst1; reflexivity|].
  split.
  { eapply Forall_impl; [|exact Fs2]. intro nv. apply offset_def_weaken; simpl; lia. }
  rewrite Hr3. exact N2.
Qed.

(* a linker offset lies between its neighbours: what was placed before it is below, what is placed
   after it is above *)
Lemma offset_between_neighbours env senv ext final vma sub outsec pre h r name post ss :
  nonneg_sizes (l_remaining (s_st ss)) ->
  let ss1 := fold_left (exec_sec_stmt env senv ext final vma sub outsec) pre ss in
  let ss2 := exec_sec_stmt env senv ext final vma sub outsec ss1 (SAssign false h r name EDot) in
  let ss' := fold_left (exec_sec_stmt env senv ext final vma sub outsec) post ss2 in
  ss' = fold_left (exec_sec_stmt env senv ext final vma sub outsec)
                  (pre ++ [SAssign false h r name EDot] ++ post) ss /\
  exists v new1 new2,
    lookup name (l_syms (s_st ss2)) = Some v /\
    l_placed (s_st ss') = l_placed (s_st ss) ++ new1 ++ new2 /\
    Forall (fun p => pl_addr p <= v) new1 /\ Forall (fun p => v <= pl_addr p) new2 /\
    vma + s_off ss <= v /\ v <= vma + s_off ss'.
Proof.
  intros Hn ss1 ss2 ss'. split.
  { unfold ss', ss2, ss1. rewrite !fold_X_app. reflexivity. }
  pose proof (sec_fold env ext senv final vma sub outsec pre ss Hn) as [L1 [N1 [new1 [P1 [R1 _]]]]].
  fold ss1 in L1, N1, P1, R1.
  assert (E2 : ss2 = SState (s_off ss1) (s_contents ss1) (set_sym name (vma + s_off ss1) false (s_st ss1))) by reflexivity.
  assert (N2 : nonneg_sizes (l_remaining (s_st ss2))) by (rewrite E2; exact N1).
  pose proof (sec_fold env ext senv final vma sub outsec post ss2 N2) as [L3 [_ [new2 [P3 [R3 _]]]]].
  fold ss' in L3, P3, R3.
  exists (vma + s_off ss1), new1, new2.
  split; [rewrite E2; apply lookup_set_sym_same|].
  split; [rewrite P3, E2; simpl; rewrite P1, app_assoc; reflexivity|].
  rewrite E2 in L3, R3. cbn [s_off] in L3, R3.
  split; [eapply Forall_impl; [|exact R1]; intros p [A [B C]]; lia|].
  split; [eapply Forall_impl; [|exact R3]; intros p [A [B C]]; lia|].
  lia.
Qed.

(* ====================================================================== *)
(* size = end - start, in the form of Properties/C05.v                     *)
(* ====================================================================== *)

Lemma size_is_end_minus_start_sec env senv ext final vma sub outsec start end_ size value ss s v :
  eval_expr env senv ext (s_st ss) (vma + s_off ss) value = Ok v ->
  sym_lookup start (s_st ss) env ext = Some s ->
  size <> end_ ->
  let ss' := fold_left (exec_sec_stmt env senv ext final vma sub outsec) (sym_end_size start end_ size value) ss in
  exists s',
    lookup end_ (l_syms (s_st ss')) = Some v /\
    lookup size (l_syms (s_st ss')) = Some (v - s') /\
    (start <> size -> sym_lookup start (s_st ss') env ext = Some s') /\
    (start <> end_ -> s' = s) /\
    s_off ss' = s_off ss.
Proof.
  intros Hv Hs Hne ss'. subst ss'. rewrite (sec_sym_end_size env ext senv final vma sub outsec _ _ _ _ _ s v Hv Hs).
  cbn [s_st s_off]. exists (if String.eqb start end_ then v else s).
  split; [apply lookup_two_end; exact Hne|]. split; [apply lookup_two_same|]. split; [|split; [|reflexivity]].
  - intro Hss. rewrite sym_lookup_set_sym_other by congruence.
    destruct (String.eqb start end_) eqn:E.
    + apply String.eqb_eq in E. subst. apply sym_lookup_set_sym_same.
    + apply String.eqb_neq in E. rewrite sym_lookup_set_sym_other by congruence. exact Hs.
  - intro H. apply String.eqb_neq in H. rewrite H. reflexivity.
Qed.

Lemma size_is_end_minus_start_top env senv ext final start end_ size value st s v :
  String.eqb end_ "." = false -> String.eqb size "." = false ->
  eval_expr env senv ext st (l_dot st) value = Ok v ->
  sym_lookup start st env ext = Some s ->
  size <> end_ ->
  let st' := fold_left (exec_top_stmt env senv ext final) (sym_end_size start end_ size value) st in
  exists s',
    lookup end_ (l_syms st') = Some v /\
    lookup size (l_syms st') = Some (v - s') /\
    (start <> size -> sym_lookup start st' env ext = Some s') /\
    (start <> end_ -> s' = s) /\
    l_dot st' = l_dot st.
Proof.
  intros He Hz Hv Hs Hne st'. subst st'.
  rewrite (top_sym_end_size env ext senv final _ _ _ _ _ s v He Hz Hv Hs).
  exists (if String.eqb start end_ then v else s).
  split; [apply lookup_two_end; exact Hne|]. split; [apply lookup_two_same|]. split; [|split; [|reflexivity]].
  - intro Hss. rewrite sym_lookup_set_sym_other by congruence.
    destruct (String.eqb start end_) eqn:E.
    + apply String.eqb_eq in E. subst. apply sym_lookup_set_sym_same.
    + apply String.eqb_neq in E. rewrite sym_lookup_set_sym_other by congruence. exact Hs.
  - intro H. apply String.eqb_neq in H. rewrite H. reflexivity.
Qed.

(* the size of a vram class: `size = end - start` *)
Lemma class_size_top env senv ext final sty cn st a b :
  sym_lookup (vram_class_end sty cn) st env ext = Some a ->
  sym_lookup (vram_class_start sty cn) st env ext = Some b ->
  lookup (vram_class_size sty cn)
         (l_syms (exec_top_stmt env senv ext final st
                    (linker_symbol (vram_class_size sty cn) (ESub (vram_class_end sty cn) (vram_class_start sty cn))))) =
  Some (a - b).
Proof.
  intros Ha Hb. rewrite top_linker_symbol.
  - cbn [eval_expr]. rewrite Ha, Hb, assign_ok. apply lookup_set_sym_same.
  - apply long_not_dot. unfold vram_class_size, tpl_vram_class_size. destruct sty; cbn [pick fst snd];
      rewrite fmt2, !str_length_app; simpl; lia.
Qed.

(* ====================================================================== *)
(* output sections and the two halves of a segment                         *)
(* ====================================================================== *)

Lemma outsec_post env senv ext final name addr at_ noload sub body st vma :
  nonneg_sizes (l_remaining st) ->
  outsec_vma env senv ext addr sub body st = Ok vma ->
  let st' := exec_outsec env senv ext final name addr at_ noload sub body st in
  exists size new lma c,
    0 <= size /\ l_dot st' = vma + size /\
    l_secs st' = l_secs st ++ [OSec name vma size lma noload c] /\
    l_placed st' = l_placed st ++ new /\
    Forall (placed_between vma (vma + size) name) new /\
    nondecreasing (map pl_addr new) /\
    nonneg_sizes (l_remaining st') /\ l_discarded st' = l_discarded st.
Proof.
  intros Hn Hv st'.
  destruct (exec_outsec_ok env senv ext final name addr at_ noload sub body st vma Hv)
    as [Hd [Hp [Hr [_ [Hdis [lma Hs]]]]]].
  pose proof (sec_fold env ext senv final vma (option_map Z.of_N sub) name body (SState 0 false st) Hn)
    as [L [N [new [P [R S]]]]].
  cbn [s_off s_st] in *. eexists. exists new, lma. eexists.
  split; [exact L|]. split; [exact Hd|]. split; [exact Hs|]. split; [subst st'; rewrite Hp; exact P|].
  split.
  { eapply Forall_impl; [|exact R]. intros p [A [B C]]. unfold placed_between. repeat split; try lia. exact C. }
  split; [exact S|]. split; [subst st'; rewrite Hr; exact N | exact Hdis].
Qed.

Definition same_layout (st st' : lstate) : Prop :=
  l_dot st' = l_dot st /\ l_placed st' = l_placed st /\ l_remaining st' = l_remaining st /\
  l_secs st' = l_secs st /\ l_discarded st' = l_discarded st.

Lemma same_layout_refl st : same_layout st st.
Proof. repeat split. Qed.

Lemma same_layout_trans a b c : same_layout a b -> same_layout b c -> same_layout a c.
Proof. intros [A1 [A2 [A3 [A4 A5]]]] [B1 [B2 [B3 [B4 B5]]]]. repeat split; congruence. Qed.

Lemma assign_layout ext final p sym r t st : same_layout st (assign ext final p sym r t st).
Proof.
  repeat split; [apply assign_dot | apply assign_placed | apply assign_remaining | apply assign_secs
                 | apply assign_discarded].
Qed.

Lemma top_linker_symbol_layout env senv ext final sym e st :
  String.eqb sym "." = false -> same_layout st (exec_top_stmt env senv ext final st (linker_symbol sym e)).
Proof. intro H. rewrite top_linker_symbol by exact H. apply assign_layout. Qed.

Lemma kind_start_layout env senv ext final sty cfg seg noload st :
  same_layout st (fold_left (exec_top_stmt env senv ext final) (sections_kind_start sty cfg seg noload) st).
Proof.
  unfold sections_kind_start. destruct (kind_syms cfg); [|apply same_layout_refl].
  cbn [fold_left]. change (exec_top_stmt env senv ext final ?s SBlank) with s.
  apply top_linker_symbol_layout. apply eqb_dot_vram_start.
Qed.

Lemma kind_end_layout env senv ext final sty cfg seg noload st :
  same_layout st (fold_left (exec_top_stmt env senv ext final) (sections_kind_end sty cfg seg noload) st).
Proof.
  unfold sections_kind_end, sym_end_size. destruct (kind_syms cfg); [|apply same_layout_refl].
  cbn [fold_left]. change (exec_top_stmt env senv ext final st SBlank) with st.
  eapply same_layout_trans; [apply top_linker_symbol_layout; apply eqb_dot_vram_end|].
  apply top_linker_symbol_layout. apply eqb_dot_vram_size.
Qed.

(* one half of a segment at the top level: its output section, framed by the kind symbols *)
Lemma part_exec env senv ext final rt st cfg seg sections noload ws s ws' lst :
  write_segment rt st cfg seg sections noload ws = Ok (s, ws') ->
  exists body lst1 lst2,
    part_groups rt st cfg seg sections sections ws = Ok (body, ws') /\
    same_layout lst lst1 /\
    lst2 = exec_top_stmt env senv ext final lst1 (outsec_of st seg noload body) /\
    same_layout lst2 (fold_left (exec_top_stmt env senv ext final) s lst).
Proof.
  intro H. apply write_segment_inv in H. destruct H as [body [Hb E]]. subst.
  exists body. eexists. eexists. split; [exact Hb|]. rewrite !fold_T_app. cbn [fold_left].
  split; [apply kind_start_layout|]. split; [reflexivity|]. apply kind_end_layout.
Qed.

Lemma halves_bracket env senv ext final rt st cfg seg ws s1 ws1 s2 ws2 lst :
  write_segment rt st cfg seg (alloc_sections seg) false ws = Ok (s1, ws1) ->
  write_segment rt st cfg seg (noload_sections seg) true ws1 = Ok (s2, ws2) ->
  nonneg_sizes (l_remaining lst) ->
  let lst' := fold_left (exec_top_stmt env senv ext final) (s1 ++ [SBlank] ++ s2) lst in
  exists new1 new2 o2,
    l_placed lst' = l_placed lst ++ new1 ++ new2 /\
    os_name o2 = ("." ++ sg_name seg ++ ".noload")%string /\ 0 <= os_size o2 /\
    l_dot lst' = os_vma o2 + os_size o2 /\
    Forall (placed_between (os_vma o2) (os_vma o2 + os_size o2) (os_name o2)) new2 /\
    nondecreasing (map pl_addr new2) /\
    ((new1 = [] /\ l_secs lst' = l_secs lst ++ [o2] /\ l_dot lst <= os_vma o2) \/
     (exists o1, l_secs lst' = l_secs lst ++ [o1; o2] /\
                 os_name o1 = ("." ++ sg_name seg)%string /\ 0 <= os_size o1 /\
                 Forall (placed_between (os_vma o1) (os_vma o1 + os_size o1) (os_name o1)) new1 /\
                 nondecreasing (map pl_addr new1) /\
                 os_vma o1 + os_size o1 <= os_vma o2)) /\
    nonneg_sizes (l_remaining lst').
Proof.
  intros H1 H2 Hn lst'. subst lst'. rewrite !fold_T_app. cbn [fold_left].
  destruct (part_exec env senv ext final rt st cfg seg _ false ws s1 ws1 lst H1)
    as [body1 [a1 [a2 [_ [La1 [Ea2 La3]]]]]].
  set (lstA := fold_left (exec_top_stmt env senv ext final) s1 lst) in *.
  change (exec_top_stmt env senv ext final lstA SBlank) with lstA.
  destruct (part_exec env senv ext final rt st cfg seg _ true ws1 s2 ws2 lstA H2)
    as [body2 [b1 [b2 [_ [Lb1 [Eb2 Lb3]]]]]].
  set (lstB := fold_left (exec_top_stmt env senv ext final) s2 lstA) in *.
  destruct La1 as [A1 [A2 [A3 [A4 A5]]]]. destruct La3 as [C1 [C2 [C3 [C4 C5]]]].
  destruct Lb1 as [B1 [B2 [B3 [B4 B5]]]]. destruct Lb3 as [D1 [D2 [D3 [D4 D5]]]].
  (* the noload half always has an address: the aligned location counter *)
  assert (Hnl : forall (Hna : nonneg_sizes (l_remaining b1)),
             exists new2 o2, l_placed b2 = l_placed b1 ++ new2 /\ l_secs b2 = l_secs b1 ++ [o2] /\
               os_name o2 = ("." ++ sg_name seg ++ ".noload")%string /\ 0 <= os_size o2 /\
               l_dot b2 = os_vma o2 + os_size o2 /\ l_dot b1 <= os_vma o2 /\
               Forall (placed_between (os_vma o2) (os_vma o2 + os_size o2) (os_name o2)) new2 /\
               nondecreasing (map pl_addr new2) /\ nonneg_sizes (l_remaining b2)).
  { intro Hna. unfold outsec_of in Eb2. cbn [exec_top_stmt] in Eb2.
    pose proof (outsec_post env senv ext final ("." ++ sg_name seg ++ ".noload")%string None None true
                            (subalign seg) (opt_fill seg ++ body2) b1 _ Hna eq_refl)
      as [size [new [lma [c [P1 [P2 [P3 [P4 [P5 [P6 [P7 _]]]]]]]]]]].
    rewrite <- Eb2 in *. exists new. eexists. split; [exact P4|]. split; [exact P3|].
    cbn [os_name os_size os_vma]. split; [reflexivity|]. split; [exact P1|]. split; [exact P2|].
    split; [apply align_up_le|]. split; [exact P5|]. split; [exact P6 | exact P7]. }
  (* the allocatable half: its address may or may not be computable *)
  unfold outsec_of in Ea2. cbn [exec_top_stmt] in Ea2.
  assert (Hna1 : nonneg_sizes (l_remaining a1)) by (rewrite A3; exact Hn).
  destruct (outsec_vma env senv ext (segment_addr (linker_symbols_style st) seg) (subalign seg)
                       (opt_fill seg ++ body1) a1) as [vma1|e] eqn:Ev.
  - pose proof (outsec_post env senv ext final ("." ++ sg_name seg)%string _
                            (Some (segment_rom_start (linker_symbols_style st) (sg_name seg))) false
                            (subalign seg) (opt_fill seg ++ body1) a1 vma1 Hna1 Ev)
      as [size [new1 [lma [c [P1 [P2 [P3 [P4 [P5 [P6 [P7 _]]]]]]]]]]].
    rewrite str_app_nil_r in Ea2.
    rewrite <- Ea2 in *.
    assert (Hnb1 : nonneg_sizes (l_remaining b1)) by (rewrite B3, C3; exact P7).
    destruct (Hnl Hnb1) as [new2 [o2 [Q1 [Q2 [Q3 [Q4 [Q5 [Q6 [Q7 [Q8 Q9]]]]]]]]]].
    exists new1, new2, o2.
    split; [rewrite D2, Q1, B2, C2, P4, A2, app_assoc; reflexivity|].
    split; [exact Q3|]. split; [exact Q4|]. split; [rewrite D1; exact Q5|]. split; [exact Q7|]. split; [exact Q8|].
    split; [|rewrite D3; exact Q9].
    right. eexists. split; [rewrite D4, Q2, B4, C4, P3, A4, <- app_assoc; reflexivity|].
    cbn [os_name os_size os_vma]. split; [reflexivity|]. split; [exact P1|]. split; [exact P5|].
    split; [exact P6|]. rewrite B1, C1, P2 in Q6. exact Q6.
  - rewrite (exec_outsec_err _ _ _ _ _ _ _ _ _ _ _ e Ev) in Ea2.
    rewrite str_app_nil_r in Ea2.
    assert (Ha2 : same_layout a1 a2) by (rewrite Ea2; repeat split).
    destruct Ha2 as [E1 [E2 [E3 [E4 E5]]]].
    assert (Hnb1 : nonneg_sizes (l_remaining b1)) by (rewrite B3, C3, E3; exact Hna1).
    destruct (Hnl Hnb1) as [new2 [o2 [Q1 [Q2 [Q3 [Q4 [Q5 [Q6 [Q7 [Q8 Q9]]]]]]]]]].
    exists [], new2, o2.
    split; [rewrite D2, Q1, B2, C2, E2, A2; reflexivity|].
    split; [exact Q3|]. split; [exact Q4|]. split; [rewrite D1; exact Q5|]. split; [exact Q7|]. split; [exact Q8|].
    split; [|rewrite D3; exact Q9].
    left. split; [reflexivity|]. split; [rewrite D4, Q2, B4, C4, E4, A4; reflexivity|].
    rewrite B1, C1, E1, A1 in Q6. exact Q6.
Qed.

(* ====================================================================== *)
(* the finding: X_alloc_VRAM is taken before the output section header     *)
(* ====================================================================== *)

Lemma refuted_alloc_start :
  exists w, gen_normal c05_doc (Runtime [] false) = Ok w /\
    let st := layout (wo_script w) c05_universe [] in
    l_errors st = [] /\
    lookup (segment_vram_start Splat (kind_name (c05_seg "b" 512%N [c05_obj "b.o"]) false)) (l_syms st) = Some 4352 /\
    lookup (segment_vram_end Splat (kind_name (c05_seg "b" 512%N [c05_obj "b.o"]) false)) (l_syms st) = Some 528 /\
    lookup (segment_vram_size Splat (kind_name (c05_seg "b" 512%N [c05_obj "b.o"]) false)) (l_syms st) = Some (-3824) /\
    lookup (segment_vram_start Splat "b") (l_syms st) = Some 512.
Proof.
  eexists. split; [vm_compute; reflexivity|]. vm_compute. repeat split; reflexivity.
Qed.

Lemma names_distinct sty n s :
  segment_section_start sty n s <> segment_section_end sty n s /\
  segment_section_start sty n s <> segment_section_size sty n s /\
  segment_section_end sty n s <> segment_section_size sty n s /\
  segment_vram_start sty n <> segment_vram_end sty n /\
  segment_vram_start sty n <> segment_vram_size sty n /\
  segment_vram_end sty n <> segment_vram_size sty n /\
  segment_rom_start sty n <> segment_rom_end sty n /\
  segment_rom_start sty n <> segment_rom_size sty n /\
  segment_rom_end sty n <> segment_rom_size sty n /\
  String.eqb (segment_section_end sty n s) "." = false /\ String.eqb (segment_section_size sty n s) "." = false /\
  String.eqb (segment_vram_end sty n) "." = false /\ String.eqb (segment_vram_size sty n) "." = false /\
  String.eqb (segment_rom_end sty n) "." = false /\ String.eqb (segment_rom_size sty n) "." = false.
Proof.
  repeat split;
    auto using sec_start_neq_end, sec_start_neq_size, sec_end_neq_size, vram_start_neq_end, vram_start_neq_size,
      vram_end_neq_size, rom_start_neq_end, rom_start_neq_size, rom_end_neq_size, eqb_dot_sec_end,
      eqb_dot_sec_size, eqb_dot_vram_end, eqb_dot_vram_size, eqb_dot_rom_end, eqb_dot_rom_size.
Qed.
