(* C05 - to be filled *)
