(* C09DocPartial: C09 at document level (Proofs/C09Doc.v) for the MAIN script of a partial build.
   The segment symbols are read off RomChain / VramChain (partial_chains, Proofs/DocPartial.v); the
   section groups redo document_groups_aligned for the statements of ANY configuration that emits
   section symbols, then instantiate it on the clones (same route as any_groups / partial_groups). *)
From Slinky Require Import Model.Types Model.Generated Model.Runtime Model.Style Model.Script Model.Writer Model.LdSem.
From Slinky Require Import Spec.C17 Spec.C04 Spec.C03 Spec.C09 Spec.C05 Spec.C10 Spec.C11 Spec.DocLevel Spec.DocWf
  Spec.DocPartial Spec.C09Doc.
From Slinky Require Import Proofs.C06 Proofs.C18 Proofs.C17 Proofs.LdLemmas Proofs.C09 Proofs.C05 Proofs.C04 Proofs.C03
  Proofs.C10 Proofs.C11 Proofs.DocLevel Proofs.DocWf Proofs.DocPartial Proofs.C09Doc.
From Coq Require Import Lia ZArith.
Local Open Scope Z_scope.

(* ====================================================================== *)
(* 1. the segment: ROM start, ROM end, VRAM end                            *)
(* ====================================================================== *)

Theorem partial_segments_aligned env senv ext final d rt p u :
  gen_partial d rt = Ok p -> doc_link_wf_partial d rt = true ->
  Forall (fun x => 0 <= u_size x) u ->
  let sty := linker_symbols_style (doc_settings d) in
  let segs := included rt (doc_segments d) in
  let st' := exec_script env senv ext final (wo_script (po_main p)) (init_state u) in
  (forall seg, In seg segs -> ~ In (LForwardRef (alloc_name seg)) (l_errors st')) ->
  forall seg, In seg segs -> SegmentAligned sty st' seg.
Proof.
  intros Hg Hwf Hu sty segs st' Herr seg Hin.
  destruct (partial_chains env senv ext final d rt p u Hg Hwf Hu Herr) as [R [V _]].
  destruct (RomChain_aligned _ _ _ _ _ R Hin) as (o & rs & re & F & L & V1 & V2 & A1 & A2).
  destruct (VramChain_aligned _ _ _ _ _ _ V Hin) as (ve & V3 & A3).
  exists o, rs, re, ve. repeat split; assumption.
Qed.

Theorem partial_segments_aligned_layout d rt p u ext0 :
  gen_partial d rt = Ok p -> doc_link_wf_partial d rt = true ->
  Forall (fun x => 0 <= u_size x) u ->
  let sty := linker_symbols_style (doc_settings d) in
  let segs := included rt (doc_segments d) in
  let st' := layout (wo_script (po_main p)) u ext0 in
  (forall seg, In seg segs -> ~ In (LForwardRef (alloc_name seg)) (l_errors st')) ->
  forall seg, In seg segs -> SegmentAligned sty st' seg.
Proof. intros Hg Hwf Hu sty segs st'. unfold st', layout. apply partial_segments_aligned; assumption. Qed.

(* ====================================================================== *)
(* 2. the section groups, any configuration with section symbols           *)
(* ====================================================================== *)

Section AnyCfgGroupsAligned.
  Variables (rt : runtime) (stg : settings) (cfg : wcfg) (classes : list vram_class) (segs : list segment).
  Variables (tl body : list stmt) (ws' : wstate).
  Variables (env : list (string * Z)) (senv : list osec) (ext : list (string * Z)) (final : bool).
  Notation runl := (run env senv ext final).
  Notation sty := (linker_symbols_style stg).
  Notation isegs := (included rt segs).
  Notation fin := (end_sections_body stg classes ws' ++ tl)%list.
  Notation all := (begin_sections_body stg ++ body ++ end_sections_body stg classes ws' ++ tl)%list.

  Hypothesis E : fold_out (add_segment rt stg cfg classes) segs ws0 = Ok (body, ws').
  Hypothesis Hwf : link_wf_stmts rt stg classes segs tl body ws' = true.
  Hypothesis Hss : section_syms cfg = true.

  Theorem any_groups_aligned u seg :
    Forall (fun x => 0 <= u_size x) u ->
    In seg isegs ->
    let st' := runl all (init_state u) in
    ~ In (LForwardRef (alloc_name seg)) (l_errors st') ->
    SegmentGroupsAligned sty st' seg.
  Proof.
    intros Hu Hin st' Herr.
    destruct (link_wf_stmts_inv _ _ _ _ _ _ _ Hwf) as (Hnd & Hseg & _ & _).
    unfold st' in *. clear st'.
    destruct (seg_wf_parts _ _ _ (Hseg seg Hin)) as [_ [_ [_ Hsecs]]].
    destruct (fold_segment_split _ _ _ _ _ _ _ _ _ E Hin Hnd) as (b1 & wsa & s1 & wsb & b2 & Ea & Eb & Fr1 & Fr2).
    apply filter_In in Hin. destruct Hin as [_ Hc].
    apply add_segment_inv in Ea.
    destruct Ea as [[Hc' _] | [_ [cls [ws1 [s1a [ws2 [s2a [Ec [E1 [E2 Es1]]]]]]]]]]; [congruence|].
    apply write_segment_inv in E1. destruct E1 as [body1 [Hg1 E1]]. rewrite alloc_name_outsec in E1.
    apply write_segment_inv in E2. destruct E2 as [body2 [Hg2 E2]]. rewrite noload_name_outsec in E2.
    set (ks := sections_kind_start sty cfg seg false) in *.
    set (ke := sections_kind_end sty cfg seg false) in *.
    set (ks2 := sections_kind_start sty cfg seg true) in *.
    set (ke2 := sections_kind_end sty cfg seg true) in *.
    set (O1 := SOutSec (alloc_name seg) (segment_addr sty seg) (Some (segment_rom_start sty (sg_name seg))) false
                       (subalign seg) (opt_fill seg ++ body1)) in *.
    set (O2 := SOutSec (noload_name seg) None None true (subalign seg) (opt_fill seg ++ body2)) in *.
    set (A1 := (begin_sections_body stg ++ b1 ++ cls ++ seg_head stg seg ++ ks)%list).
    set (B1 := (ke ++ [SBlank] ++ s2a ++ [SBlank] ++ seg_foot stg seg ++ b2 ++ fin)%list).
    set (A2 := (begin_sections_body stg ++ b1 ++ cls ++ seg_head stg seg ++ s1a ++ [SBlank] ++ ks2)%list).
    set (B2 := (ke2 ++ [SBlank] ++ seg_foot stg seg ++ b2 ++ fin)%list).
    assert (EL1 : all = (A1 ++ O1 :: B1)%list).
    { unfold A1, B1. rewrite Eb, Es1, E1. repeat (rewrite <- app_assoc; cbn [app]). reflexivity. }
    assert (EL2 : all = (A2 ++ O2 :: B2)%list).
    { unfold A2, B2. rewrite Eb, Es1, E2. repeat (rewrite <- app_assoc; cbn [app]). reflexivity. }
    assert (Hcnt : forall sec x, In sec (seg_sections seg) -> In x (sec_syms3 sty (sg_name seg) sec) ->
                                 count_assigns x all = 1%nat).
    { intros sec x Hs Hx. specialize (Hsecs sec Hs). unfold section_names_once, assigned_once_deep in Hsecs.
      apply andb_true_iff in Hsecs. destruct Hsecs as [Hsecs H3]. apply andb_true_iff in Hsecs.
      destruct Hsecs as [H1 H2]. apply Nat.eqb_eq in H1. apply Nat.eqb_eq in H2. apply Nat.eqb_eq in H3.
      destruct Hx as [Ex|[Ex|[Ex|[]]]]; subst x; assumption. }
    split.
    - rewrite EL1 in Herr, Hcnt |- *.
      apply (outsec_groups_aligned env senv ext final rt stg cfg seg (alloc_sections seg) ws1 body1 ws2
                           (alloc_name seg) (segment_addr sty seg) (Some (segment_rom_start sty (sg_name seg)))
                           false A1 B1 (init_state u) Hss Hg1).
      + intros sec x Hs Hx. apply (Hcnt sec x); [apply in_or_app; left; exact Hs | exact Hx].
      + exact Hu.
      + intros e Ev. apply Herr. rewrite run_app, run_cons. apply run_errors_in.
        unfold O1. cbn [exec_top_stmt]. rewrite (exec_outsec_err _ _ _ _ _ _ _ _ _ _ _ _ Ev).
        cbn [add_err l_errors]. apply in_or_app. right. left. reflexivity.
      + apply run_find_sec_none; [reflexivity|]. unfold A1.
        rewrite !flat_map_app, makes_sec_begin, (makes_sec_plain cls (pl_class_part _ _ _ _ _ _ Ec)),
          (makes_sec_plain _ (pl_seg_head _ _)), (makes_sec_plain ks (pl_kind_start _ _ _ _)).
        cbn [app]. rewrite ?app_nil_r. exact Fr1.
    - rewrite EL2 in Hcnt |- *.
      apply (outsec_groups_aligned env senv ext final rt stg cfg seg (noload_sections seg) ws2 body2 wsb
                           (noload_name seg) None None true A2 B2 (init_state u) Hss Hg2).
      + intros sec x Hs Hx. apply (Hcnt sec x); [apply in_or_app; right; exact Hs | exact Hx].
      + exact Hu.
      + intros e Ev. cbn [outsec_vma] in Ev. discriminate Ev.
      + apply run_find_sec_none; [reflexivity|]. unfold A2.
        rewrite !flat_map_app, makes_sec_begin, (makes_sec_plain cls (pl_class_part _ _ _ _ _ _ Ec)),
          (makes_sec_plain _ (pl_seg_head _ _)), (makes_sec_plain ks2 (pl_kind_start _ _ _ _)).
        rewrite E1, !flat_map_app, (makes_sec_plain ks (pl_kind_start _ _ _ _)),
          (makes_sec_plain ke (pl_kind_end _ _ _ _)).
        cbn [app flat_map makes_sec O1]. rewrite ?app_nil_r. intro Hbad. apply in_app_or in Hbad.
        destruct Hbad as [Hbad|[Eq|[]]]; [exact (Fr2 Hbad) | exact (alloc_noload_neq seg Eq)].
  Qed.
End AnyCfgGroupsAligned.

(* ====================================================================== *)
(* 3. the main script                                                      *)
(* ====================================================================== *)

Section PartialGroupsAligned.
  Variables (env : list (string * Z)) (senv : list osec) (ext : list (string * Z)) (final : bool).

  Theorem partial_groups_aligned d rt p u seg :
    gen_partial d rt = Ok p -> doc_link_wf_partial d rt = true ->
    Forall (fun x => 0 <= u_size x) u ->
    In seg (included rt (doc_segments d)) ->
    let sty := linker_symbols_style (doc_settings d) in
    let st' := exec_script env senv ext final (wo_script (po_main p)) (init_state u) in
    ~ In (LForwardRef (alloc_name seg)) (l_errors st') ->
    SegmentGroupsAligned sty st' seg.
  Proof.
    intros Hg Hwf Hu Hin sty st' Herr.
    destruct (partial_exec d rt p Hg Hwf) as (folder & body & ws' & Ef & E & Hwc & _ & _ & Hexec).
    unfold st' in *. rewrite Hexec in *. clear Hexec st'.
    assert (Hin' : In (partial_clone folder seg) (included rt (map (partial_clone folder) (doc_segments d)))).
    { rewrite included_clone. apply in_map. exact Hin. }
    exact (any_groups_aligned rt (doc_settings d) cfg_main_partial (doc_vram_classes d) _ _ _ _
                              env senv ext final E Hwc eq_refl u (partial_clone folder seg) Hu Hin' Herr).
  Qed.

  Theorem partial_groups_pow2 d rt p u seg :
    gen_partial d rt = Ok p -> doc_link_wf_partial d rt = true ->
    Forall (fun x => 0 <= u_size x) u ->
    In seg (included rt (doc_segments d)) ->
    group_aligns_pow2 seg ->
    let sty := linker_symbols_style (doc_settings d) in
    let st' := exec_script env senv ext final (wo_script (po_main p)) (init_state u) in
    ~ In (LForwardRef (alloc_name seg)) (l_errors st') ->
    SegmentGroupsAlignedAll sty st' seg.
  Proof.
    intros Hg Hwf Hu Hin Hp sty st' Herr.
    destruct (partial_groups_aligned d rt p u seg Hg Hwf Hu Hin Herr) as [[o1 [F1 G1]] [o2 [F2 G2]]].
    split; [exists o1 | exists o2]; (split; [assumption|]);
      (eapply Forall_impl; [|eassumption]); intros sec Hs; apply group_all_of_pow2; assumption.
  Qed.
End PartialGroupsAligned.

Theorem partial_groups_aligned_layout d rt p u ext0 seg :
  gen_partial d rt = Ok p -> doc_link_wf_partial d rt = true ->
  Forall (fun x => 0 <= u_size x) u ->
  In seg (included rt (doc_segments d)) ->
  let sty := linker_symbols_style (doc_settings d) in
  let st' := layout (wo_script (po_main p)) u ext0 in
  ~ In (LForwardRef (alloc_name seg)) (l_errors st') ->
  SegmentGroupsAligned sty st' seg.
Proof.
  intros Hg Hwf Hu Hin sty st' Herr. unfold st', layout in *.
  apply (partial_groups_aligned _ _ _ _ d rt p u seg Hg Hwf Hu Hin). exact Herr.
Qed.

Theorem partial_groups_pow2_layout d rt p u ext0 seg :
  gen_partial d rt = Ok p -> doc_link_wf_partial d rt = true ->
  Forall (fun x => 0 <= u_size x) u ->
  In seg (included rt (doc_segments d)) ->
  group_aligns_pow2 seg ->
  let sty := linker_symbols_style (doc_settings d) in
  let st' := layout (wo_script (po_main p)) u ext0 in
  ~ In (LForwardRef (alloc_name seg)) (l_errors st') ->
  SegmentGroupsAlignedAll sty st' seg.
Proof.
  intros Hg Hwf Hu Hin Hp sty st' Herr. unfold st', layout in *.
  apply (partial_groups_pow2 _ _ _ _ d rt p u seg Hg Hwf Hu Hin Hp). exact Herr.
Qed.
