(* Translator obligations for the format! templates used by C09: tools/rs2v.py regenerates the named templates
   t_sb_<fn>_<k> (script_buffer.rs) and t_lw_<fn>_<k> (linker_writer.rs) from the Rust source on every run - named after
   the enclosing function and the ordinal of the template inside it, so that an edit elsewhere in the file leaves them
   alone; the lemmas below tie the rendering of the script AST (Model/Script.v) to those templates and pin their format
   specs.  A change of one of these format strings in the Rust breaks the lemma the next time a check runs. *)
From Slinky Require Import Model.Types Model.Generated Model.Style Model.Script.
Local Open Scope string_scope.

Lemma str_app_nil_r (s : string) : s ++ "" = s.
Proof. induction s as [|c s IH]; simpl; [reflexivity | rewrite IH; reflexivity]. Qed.

Lemma str_app_assoc (x y z : string) : (x ++ y) ++ z = x ++ y ++ z.
Proof. induction x as [|c x IH]; simpl; [reflexivity | rewrite IH; reflexivity]. Qed.

Lemma sb_align ind sym n :
  render_stmt ind (SAlign sym n) = [indent_str ind ++ fmt t_sb_align_symbol_0 [sym; sym; hex_of_N n]].
Proof. reflexivity. Qed.

Lemma lw_header_single sect noload sub :
  render_header sect None None noload sub =
  fmt t_lw_write_single_segment_0 [sect; if noload then " (NOLOAD)" else ""] ++
  match sub with Some n => fmt t_lw_write_single_segment_1 [dec_of_N n] | None => "" end.
Proof.
  unfold render_header; unfold_tpl_lw; cbn [fmt].
  destruct noload, sub; cbn; repeat rewrite str_app_nil_r; repeat rewrite str_app_assoc; cbn; repeat rewrite str_app_assoc; reflexivity.
Qed.

(* the format specs of the templates used above ({} = Display, {:X} = upper-case hex, {:08X} = eight digits) *)
Lemma specs_C09 :
  t_sb_align_symbol_0_spec = [""; ""; ":X"] /\
  t_lw_write_single_segment_0_spec = [""; ""] /\
  t_lw_write_single_segment_1_spec = [""].
Proof. repeat split; reflexivity. Qed.
