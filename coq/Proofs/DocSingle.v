(* DocSingle: link-level facts about a whole single-segment script (gen_normal in single-segment mode,
   and the per-segment scripts of gen_partial).  Part 1: the shape of the script.  Part 2: which output
   sections it makes and how often it assigns the section symbols.  Part 3: the induction over the
   sections (what LdSem does with the statements of single_groups).  Part 4: the whole script.
   Part 5: one section of a well-formed document.  Part 6: partial linking. *)
From Slinky Require Import Model.Types Model.Generated Model.Runtime Model.Style Model.Script Model.Writer Model.LdSem.
From Slinky Require Import Spec.C17 Spec.C18 Spec.C04 Spec.C03 Spec.C09 Spec.C01 Spec.C05 Spec.C10 Spec.C11
                           Spec.DocLevel Spec.C01Doc Spec.DocSingle.
From Slinky Require Import Proofs.C06 Proofs.C18 Proofs.C17 Proofs.LdLemmas Proofs.C09 Proofs.C01 Proofs.C05 Proofs.C04
                           Proofs.C03 Proofs.C10 Proofs.C11 Proofs.DocLevel Proofs.C01Doc.
From Coq Require Import Lia ZArith.
Local Open Scope Z_scope.

(* ====================================================================== *)
(* 1. the shape of the script                                              *)
(* ====================================================================== *)

Lemma single_head_eq stg cfg seg : single_head stg cfg seg = (single_gp_head stg cfg ++ single_vram_head seg)%list.
Proof. reflexivity. Qed.

Lemma single_groups_nil rt stg cfg seg sections noload ws body ws' :
  single_groups rt stg cfg seg sections noload [] ws = Ok (body, ws') -> body = [] /\ ws' = ws.
Proof. cbn [single_groups]. intro H. apply ok_inj in H. inversion H; auto. Qed.

Lemma emit_chain_of_groups rt stg cfg seg sections noload rest : forall ws body ws',
  single_groups rt stg cfg seg sections noload rest ws = Ok (body, ws') ->
  exists filess,
    emit_chain rt stg cfg seg sections rest ws filess ws' /\
    body = single_groups_stmts rt (linker_symbols_style stg) cfg seg noload rest filess.
Proof.
  induction rest as [|sec rest IH]; intros ws body ws' H.
  - apply single_groups_nil in H. destruct H; subst. exists []. split; reflexivity.
  - apply single_groups_cons in H. destruct H as [s1 [ws1 [s2 [E1 [E2 E]]]]].
    destruct (IH _ _ _ E2) as [fr [Hc Eb]]. exists (s1 :: fr). split.
    + cbn [emit_chain]. exists ws1. split; assumption.
    + cbn [single_groups_stmts]. unfold single_group. rewrite E, Eb. repeat rewrite <- app_assoc. reflexivity.
Qed.

Lemma single_part_of_write rt stg cfg seg sections noload ws s ws' :
  write_single_segment rt stg cfg seg sections noload ws = Ok (s, ws') ->
  single_part rt stg cfg seg sections noload ws s ws'.
Proof.
  intro H. apply write_single_segment_inv in H. destruct H as [body [Hb E]].
  destruct (emit_chain_of_groups _ _ _ _ _ _ _ _ _ _ Hb) as [filess [Hc Eb]].
  exists filess. split; [exact Hc|]. rewrite E, Eb. reflexivity.
Qed.

(* a script "version; SECTIONS { B }" without tail (a partial sub-script) *)
Lemma exec_sub_script env senv ext final rt B st :
  exec_script env senv ext final (version_stmts rt ++ [SSections B]) st = run env senv ext final B st.
Proof.
  rewrite exec_script_flat, flat_app, (flat_plain _ (plain_version rt)).
  change (flat_stmts [SSections B]) with (B ++ [])%list. rewrite app_nil_r, run_app, run_version. reflexivity.
Qed.

Theorem single_script_shape d rt w :
  gen_normal d rt = Ok w -> single_segment_mode (doc_settings d) = true ->
  let stg := doc_settings d in
  let classes := doc_vram_classes d in
  exists seg s1 ws1 s2 ws',
    doc_segments d = [seg] /\
    write_single_segment rt stg cfg_normal seg (alloc_sections seg) false ws0 = Ok (s1, ws1) /\
    write_single_segment rt stg cfg_normal seg (noload_sections seg) true ws1 = Ok (s2, ws') /\
    single_part rt stg cfg_normal seg (alloc_sections seg) false ws0 s1 ws1 /\
    single_part rt stg cfg_normal seg (noload_sections seg) true ws1 s2 ws' /\
    add_single_segment rt stg cfg_normal classes seg ws0 =
      Ok ([SSections (single_sections_body stg cfg_normal classes seg s1 s2 ws')], ws') /\
    wo_script w = (version_stmts rt ++
                   [SSections (single_sections_body stg cfg_normal classes seg s1 s2 ws')] ++
                   tail_stmts rt d)%list /\
    wo_paths w = ws_paths ws' /\
    forall env senv ext final st,
      exec_script env senv ext final (wo_script w) st =
      run env senv ext final (tail_stmts rt d)
          (run env senv ext final (single_sections_body stg cfg_normal classes seg s1 s2 ws') st).
Proof.
  intros H Hm stg classes. apply gen_normal_inv in H. destruct H as [s [ws' [E Hw]]].
  apply add_all_segments_inv in E. destruct E as [[_ [seg [Es E]]] | [Hs _]]; [|unfold stg in *; congruence].
  pose proof E as E0.
  apply add_single_segment_inv in E. destruct E as [s1 [ws1 [s2 [E1 [E2 E]]]]].
  exists seg, s1, ws1, s2, ws'. split; [exact Es|]. split; [exact E1|]. split; [exact E2|].
  split; [apply single_part_of_write; exact E1|]. split; [apply single_part_of_write; exact E2|].
  assert (Eb : s = [SSections (single_sections_body stg cfg_normal classes seg s1 s2 ws')]).
  { rewrite E, single_head_eq. unfold single_sections_body. repeat rewrite <- app_assoc. reflexivity. }
  split; [rewrite <- Eb; exact E0|].
  subst w. cbn [wo_script wo_paths]. rewrite Eb. split; [reflexivity|]. split; [reflexivity|].
  intros env senv ext final st. apply exec_sections_script.
Qed.

(* ====================================================================== *)
(* 2. the output sections made, the section symbols assigned               *)
(* ====================================================================== *)

Lemma makes_sec_blank_if {A} (rest : list A) :
  flat_map makes_sec (match rest with [] => [] | _ :: _ => [SBlank] end) = [].
Proof. destruct rest; reflexivity. Qed.

Lemma makes_sec_single_groups rt stg cfg seg sections noload rest : forall ws body ws',
  single_groups rt stg cfg seg sections noload rest ws = Ok (body, ws') -> flat_map makes_sec body = rest.
Proof.
  induction rest as [|sec rest IH]; intros ws body ws' H.
  - apply single_groups_nil in H. destruct H; subst. reflexivity.
  - apply single_groups_cons in H. destruct H as [s1 [ws1 [s2 [E1 [E2 E]]]]]. subst body.
    rewrite !flat_map_app, (makes_sec_plain _ (pl_section_symbol_start _ _ _ _ _)),
      (makes_sec_plain _ (pl_section_symbol_end _ _ _ _)), makes_sec_blank_if, (IH _ _ _ E2). reflexivity.
Qed.

Lemma makes_sec_write_single rt stg cfg seg sections noload ws s ws' :
  write_single_segment rt stg cfg seg sections noload ws = Ok (s, ws') -> flat_map makes_sec s = sections.
Proof.
  intro H. apply write_single_segment_inv in H. destruct H as [body [Hb E]]. subst s.
  rewrite !flat_map_app, (makes_sec_plain _ (pl_kind_start _ _ _ _)), (makes_sec_plain _ (pl_kind_end _ _ _ _)),
    (makes_sec_single_groups _ _ _ _ _ _ _ _ _ _ Hb), app_nil_r. reflexivity.
Qed.

Lemma makes_sec_gp_head stg cfg : flat_map makes_sec (single_gp_head stg cfg) = [].
Proof. unfold single_gp_head, hardcoded_gp_stmts. destruct (section_syms cfg), (hardcoded_gp_value stg); reflexivity. Qed.

Lemma makes_sec_vram_head seg : flat_map makes_sec (single_vram_head seg) = [].
Proof. unfold single_vram_head. destruct (sg_fixed_vram seg); reflexivity. Qed.

Lemma makes_sec_single_body rt stg cfg classes seg ws s1 ws1 s2 ws' :
  write_single_segment rt stg cfg seg (alloc_sections seg) false ws = Ok (s1, ws1) ->
  write_single_segment rt stg cfg seg (noload_sections seg) true ws1 = Ok (s2, ws') ->
  flat_map makes_sec (single_sections_body stg cfg classes seg s1 s2 ws') =
  (seg_sections seg ++ aux_section_names stg)%list.
Proof.
  intros E1 E2. unfold single_sections_body.
  rewrite !flat_map_app, makes_sec_gp_head, makes_sec_vram_head, (makes_sec_write_single _ _ _ _ _ _ _ _ _ E1),
    (makes_sec_write_single _ _ _ _ _ _ _ _ _ E2), makes_sec_end_sections.
  unfold seg_sections. cbn [flat_map makes_sec app]. rewrite <- app_assoc. reflexivity.
Qed.

Lemma count_blank_if {A} x (rest : list A) :
  count_assigns x (match rest with [] => [] | _ :: _ => [SBlank] end) = 0%nat.
Proof. destruct rest; reflexivity. Qed.

Lemma single_syms_assigned rt stg cfg seg sections noload rest : forall ws body ws',
  single_groups rt stg cfg seg sections noload rest ws = Ok (body, ws') -> section_syms cfg = true ->
  forall sec, In sec rest -> forall x, In x (sec_syms3 (linker_symbols_style stg) (sg_name seg) sec) ->
  (1 <= count_assigns x body)%nat.
Proof.
  induction rest as [|sec0 rest IH]; intros ws body ws' H Hc sec Hin x Hx; [contradiction|].
  apply single_groups_cons in H. destruct H as [s1 [ws1 [s2 [E1 [E2 E]]]]]. subst body.
  destruct Hin as [Es|Hin].
  - subst sec0.
    pose proof (group_head_assigned rt (linker_symbols_style stg) cfg seg sec
                  [SOutSec sec None None noload (subalign seg) (opt_fill seg ++ s1)] x Hc Hx) as Hge.
    rewrite !count_app in *. lia.
  - pose proof (IH _ _ _ E2 Hc sec Hin x Hx) as Hge. rewrite !count_app. lia.
Qed.

Lemma count_start_ge rt sty cfg seg sec :
  section_syms cfg = true ->
  (1 <= count_assigns (segment_section_start sty (sg_name seg) sec) (section_symbol_start rt sty cfg seg sec))%nat.
Proof.
  intro Hc. unfold section_symbol_start. rewrite Hc.
  apply count_in_ge with (s := linker_symbol (segment_section_start sty (sg_name seg) sec) EDot);
    [in_solve | apply String.eqb_refl].
Qed.

Lemma count_end_ge sty cfg seg sec :
  section_syms cfg = true ->
  (1 <= count_assigns (segment_section_end sty (sg_name seg) sec) (section_symbol_end sty cfg seg sec))%nat.
Proof.
  intro Hc. unfold section_symbol_end, sym_end_size. rewrite Hc.
  apply count_in_ge with (s := linker_symbol (segment_section_end sty (sg_name seg) sec) EDot);
    [in_solve | apply String.eqb_refl].
Qed.

Lemma count_size_ge sty cfg seg sec :
  section_syms cfg = true ->
  (1 <= count_assigns (segment_section_size sty (sg_name seg) sec) (section_symbol_end sty cfg seg sec))%nat.
Proof.
  intro Hc. unfold section_symbol_end, sym_end_size. rewrite Hc.
  apply count_in_ge
    with (s := linker_symbol (segment_section_size sty (sg_name seg) sec)
                             (EAbsSub (segment_section_end sty (sg_name seg) sec)
                                      (segment_section_start sty (sg_name seg) sec)));
    [in_solve | apply String.eqb_refl].
Qed.

(* ====================================================================== *)
(* 3. what LdSem does with the sections of one half                        *)
(* ====================================================================== *)

Section SingleLink.
  Variables (env : list (string * Z)) (senv : list osec) (ext : list (string * Z)) (final : bool).
  Notation top := (exec_top_stmt env senv ext final).
  Notation runl := (run env senv ext final).

  Lemma run_plain_secs l st : flat_map makes_sec l = [] -> l_secs (runl l st) = l_secs st.
  Proof.
    intro H. destruct (run_secs env senv ext final l st) as [new [E F]]. rewrite H in F.
    destruct new as [|o new]; [rewrite E, app_nil_r; reflexivity|]. inversion F as [|? ? Ho _]. destruct Ho.
  Qed.

  Lemma run_sizes l st : sizes_ok st -> sizes_ok (runl l st).
  Proof. apply run_remaining_Forall. Qed.

  (* the alignment statements and START, at the top level *)
  Lemma ss_layout rt sty cfg seg sec st :
    let st1 := runl (section_symbol_start rt sty cfg seg sec) st in
    l_dot st1 = sec_start_pos cfg seg sec (l_dot st) /\ l_secs st1 = l_secs st /\
    (section_syms cfg = true ->
     lookup (segment_section_start sty (sg_name seg) sec) (l_syms st1) = Some (l_dot st1)).
  Proof.
    intro st1. split; [|split].
    - unfold sec_start_pos. destruct (section_syms cfg) eqn:Hc.
      + destruct (top_group_start env ext senv final rt sty cfg seg sec st Hc) as [st' [E [Hd _]]].
        unfold st1, run. rewrite E. exact Hd.
      + unfold st1, section_symbol_start. rewrite Hc. reflexivity.
    - apply run_plain_secs. apply makes_sec_plain. apply pl_section_symbol_start.
    - intro Hc. destruct (top_group_start env ext senv final rt sty cfg seg sec st Hc) as [st' [E [_ [Hl _]]]].
      unfold st1, run. rewrite E. exact Hl.
  Qed.

  (* the alignment statements, END and SIZE, at the top level: where "." goes *)
  Lemma se_layout sty cfg seg sec st :
    let st3 := runl (section_symbol_end sty cfg seg sec) st in
    l_dot st3 = sec_end_pos cfg seg sec (l_dot st) /\ l_secs st3 = l_secs st.
  Proof.
    intro st3. split.
    - unfold sec_end_pos, st3, section_symbol_end. destruct (section_syms cfg) eqn:Hc; [|reflexivity].
      rewrite !run_app. rewrite run_dot.
      + unfold run. rewrite !top_opt_align. reflexivity.
      + unfold sym_end_size. cbn [forallb]. rewrite !(keeps_dot_linker sty) by sn. reflexivity.
    - apply run_plain_secs. apply makes_sec_plain. apply pl_section_symbol_end.
  Qed.

  Lemma se_syms sty cfg seg sec st s :
    section_syms cfg = true ->
    lookup (segment_section_start sty (sg_name seg) sec) (l_syms st) = Some s ->
    let st3 := runl (section_symbol_end sty cfg seg sec) st in
    lookup (segment_section_end sty (sg_name seg) sec) (l_syms st3) = Some (l_dot st3) /\
    lookup (segment_section_size sty (sg_name seg) sec) (l_syms st3) = Some (l_dot st3 - s).
  Proof.
    intros Hc Hs st3.
    destruct (top_group_end env ext senv final sty cfg seg sec st s Hc (sym_lookup_defined _ _ _ _ _ Hs))
      as [st' [E [_ [H1 [H2 _]]]]].
    unfold st3, run. rewrite E. split; assumption.
  Qed.

  (* an output section without address and without AT *)
  Lemma outsec_none_run name noload sub body st :
    sizes_ok st ->
    let st' := top st (SOutSec name None None noload sub body) in
    exists A size c,
      1 <= A /\ 0 <= size /\ (noload = true -> c = false) /\
      l_dot st' = align_up (l_dot st) A + size /\
      l_secs st' = (l_secs st ++ [OSec name (align_up (l_dot st) A) size None noload c])%list.
  Proof.
    intros Hn st'. set (A := body_align (option_map Z.of_N sub) body (l_remaining st) 1).
    pose proof (Proofs.C04.exec_outsec_ok env senv ext final name None None noload sub body st
                  (align_up (l_dot st) A) eq_refl) as HO.
    cbv zeta in HO. destruct HO as [Hd [_ [_ [Hs _]]]].
    pose proof (sec_fold env ext senv final (align_up (l_dot st) A) (option_map Z.of_N sub) name body
                         (SState 0 false st) Hn) as [L _].
    cbn [s_off] in L.
    exists A. eexists. eexists. split; [apply body_align_ge|]. split; [exact L|].
    split; [|split; [exact Hd | exact Hs]].
    intro E. rewrite E. apply andb_false_r.
  Qed.

  (* ---------- the induction over the sections of one half ---------- *)

  Lemma single_groups_run b rt stg cfg seg sections noload rest : forall ws body ws' st0,
    single_groups rt stg cfg seg sections noload rest ws = Ok (body, ws') ->
    sizes_ok st0 ->
    (b = true -> section_syms cfg = true /\
                 forall sec x, In sec rest -> In x (sec_syms3 (linker_symbols_style stg) (sg_name seg) sec) ->
                               count_assigns x body = 1%nat) ->
    let st' := runl body st0 in
    exists osecs,
      l_secs st' = (l_secs st0 ++ osecs)%list /\
      SingleChain b (linker_symbols_style stg) cfg seg (l_syms st') (l_dot st0)
                  (map (fun s => (s, noload)) rest) osecs (l_dot st').
  Proof.
    induction rest as [|sec rest IH]; intros ws body ws' st0 H Hn Hb st'.
    - apply single_groups_nil in H. destruct H; subst. exists []. rewrite app_nil_r. split; reflexivity.
    - apply single_groups_cons in H. destruct H as [s1 [ws1 [s2 [E1 [E2 E]]]]].
      set (sty := linker_symbols_style stg) in *.
      set (SS := section_symbol_start rt sty cfg seg sec) in *.
      set (SE := section_symbol_end sty cfg seg sec) in *.
      set (O := SOutSec sec None None noload (subalign seg) (opt_fill seg ++ s1)) in *.
      set (bl := match rest with [] => [] | _ :: _ => [SBlank] end) in *.
      assert (Eb : body = (SS ++ O :: SE ++ bl ++ s2)%list) by (rewrite E; reflexivity).
      assert (Hbl : forall X, runl bl X = X) by (intro X; unfold bl; destruct rest; reflexivity).
      set (st1 := runl SS st0). set (st2 := top st1 O). set (st3 := runl SE st2).
      assert (Est' : st' = runl s2 st3).
      { unfold st', st3, st2, st1. rewrite Eb, run_app, run_cons, run_app, run_app, Hbl. reflexivity. }
      pose proof (ss_layout rt sty cfg seg sec st0) as HS. cbv zeta in HS. fold SS st1 in HS.
      destruct HS as [D1 [K1 L1]].
      assert (Hn1 : sizes_ok st1) by (apply run_sizes; exact Hn).
      destruct (outsec_none_run sec noload (subalign seg) (opt_fill seg ++ s1) st1 Hn1)
        as (A & size & c & HA & Hsz & Hc0 & D2 & K2). fold O st2 in D2, K2.
      assert (Hn2 : sizes_ok st2) by (change st2 with (runl [O] st1); apply run_sizes; exact Hn1).
      pose proof (se_layout sty cfg seg sec st2) as HE. cbv zeta in HE. fold SE st3 in HE.
      destruct HE as [D3 K3].
      assert (Hn3 : sizes_ok st3) by (apply run_sizes; exact Hn2).
      (* how often the statements assign a section symbol *)
      assert (Hsplit : forall x, count_assigns x body =
                (count_assigns x SS + (assign_count x O + (count_assigns x SE + count_assigns x s2)))%nat).
      { intro x. rewrite Eb, count_app, count_cons, !count_app. unfold bl. rewrite count_blank_if. reflexivity. }
      destruct (IH ws1 s2 ws' st3 E2 Hn3) as [osr [Ksr Hchain]].
      { intro Hbt. destruct (Hb Hbt) as [Hc Hcnt]. split; [exact Hc|]. intros sec' x Hin Hx.
        pose proof (Hcnt sec' x (or_intror Hin) Hx) as C1. rewrite Hsplit in C1.
        pose proof (single_syms_assigned _ _ _ _ _ _ _ _ _ _ E2 Hc sec' Hin x Hx) as G1. fold sty in G1. lia. }
      cbv zeta in Ksr, Hchain. rewrite <- Est' in Ksr, Hchain.
      exists (OSec sec (align_up (l_dot st1) A) size None noload c :: osr).
      split; [rewrite Ksr, K3, K2, K1, <- app_assoc; reflexivity|].
      cbn [map SingleChain]. split.
      + unfold SingleSec. cbn [os_name os_noload os_lma os_contents os_size os_vma]. rewrite <- D1.
        split; [reflexivity|]. split; [reflexivity|]. split; [reflexivity|]. split; [exact Hc0|].
        split; [exact Hsz|]. split; [exists A; split; [exact HA | reflexivity]|].
        intro Hbt. destruct (Hb Hbt) as [Hc Hcnt].
        set (START := segment_section_start sty (sg_name seg) sec).
        set (END := segment_section_end sty (sg_name seg) sec).
        set (SIZE := segment_section_size sty (sg_name seg) sec).
        pose proof (Hcnt sec START (or_introl eq_refl) (or_introl eq_refl)) as C1. rewrite Hsplit in C1.
        pose proof (Hcnt sec END (or_introl eq_refl) (or_intror (or_introl eq_refl))) as C2. rewrite Hsplit in C2.
        pose proof (Hcnt sec SIZE (or_introl eq_refl) (or_intror (or_intror (or_introl eq_refl)))) as C3.
        rewrite Hsplit in C3.
        pose proof (count_start_ge rt sty cfg seg sec Hc) as G1. fold START SS in G1.
        pose proof (count_end_ge sty cfg seg sec Hc) as G2. fold END SE in G2.
        pose proof (count_size_ge sty cfg seg sec Hc) as G3. fold SIZE SE in G3.
        assert (S2 : lookup START (l_syms st2) = Some (l_dot st1)).
        { unfold st2. rewrite top_syms; [exact (L1 Hc)|]. apply assigns_count. lia. }
        pose proof (se_syms sty cfg seg sec st2 (l_dot st1) Hc S2) as HY. cbv zeta in HY. fold SE st3 END SIZE in HY.
        destruct HY as [Y1 Y2].
        rewrite <- D2, <- D3.
        split; [|split].
        * rewrite Est', run_syms by (apply existsb_count; lia).
          unfold st3. rewrite run_syms by (apply existsb_count; lia). exact S2.
        * rewrite Est', run_syms by (apply existsb_count; lia). exact Y1.
        * rewrite Est', run_syms by (apply existsb_count; lia). exact Y2.
      + cbn [os_vma os_size]. rewrite <- D2, <- D3. exact Hchain.
  Qed.
End SingleLink.

(* ---------- SingleChain: frame, composition, order, one section ---------- *)

Lemma SingleSec_frame b sty cfg seg syms syms' lo sec nl o :
  (b = true -> forall x, In x (sec_syms3 sty (sg_name seg) sec) -> lookup x syms' = lookup x syms) ->
  SingleSec b sty cfg seg syms lo sec nl o -> SingleSec b sty cfg seg syms' lo sec nl o.
Proof.
  intros Hf H. unfold SingleSec in *. cbv zeta in *. destruct H as (N & NL & LM & CT & SZ & AL & SY).
  repeat (split; [assumption|]). intro Hb. destruct (SY Hb) as [Y1 [Y2 Y3]].
  rewrite (Hf Hb _ (or_introl eq_refl)), (Hf Hb _ (or_intror (or_introl eq_refl))),
    (Hf Hb _ (or_intror (or_intror (or_introl eq_refl)))).
  repeat split; assumption.
Qed.

Lemma SingleChain_frame b sty cfg seg syms syms' secs : forall lo osecs hi,
  (b = true -> forall sec nl x, In (sec, nl) secs -> In x (sec_syms3 sty (sg_name seg) sec) ->
                                lookup x syms' = lookup x syms) ->
  SingleChain b sty cfg seg syms lo secs osecs hi -> SingleChain b sty cfg seg syms' lo secs osecs hi.
Proof.
  induction secs as [|[sec nl] rest IH]; intros lo osecs hi Hf H; destruct osecs as [|o orest];
    cbn [SingleChain] in *; try assumption.
  destruct H as [H1 H2]. split.
  - eapply SingleSec_frame; [|exact H1]. intros Hb x Hx. apply (Hf Hb sec nl x); [left; reflexivity | exact Hx].
  - apply IH; [|exact H2]. intros Hb s n x Hin Hx. apply (Hf Hb s n x); [right; exact Hin | exact Hx].
Qed.

Lemma SingleChain_app b sty cfg seg syms a : forall lo oa mid bsecs ob hi,
  SingleChain b sty cfg seg syms lo a oa mid -> SingleChain b sty cfg seg syms mid bsecs ob hi ->
  SingleChain b sty cfg seg syms lo (a ++ bsecs) (oa ++ ob) hi.
Proof.
  induction a as [|[sec nl] rest IH]; intros lo oa mid bsecs ob hi H1 H2; destruct oa as [|o orest];
    cbn [SingleChain app] in *; try contradiction.
  - subst mid. exact H2.
  - destruct H1 as [A B]. split; [exact A|]. eapply IH; eassumption.
Qed.

Lemma SingleChain_names b sty cfg seg syms secs : forall lo osecs hi,
  SingleChain b sty cfg seg syms lo secs osecs hi ->
  map os_name osecs = map fst secs /\ map os_noload osecs = map snd secs.
Proof.
  induction secs as [|[sec nl] rest IH]; intros lo osecs hi H; destruct osecs as [|o orest];
    cbn [SingleChain] in H; try contradiction.
  - split; reflexivity.
  - destruct H as [[N [NL _]] H2]. destruct (IH _ _ _ H2) as [I1 I2]. cbn [map fst snd].
    rewrite N, NL, I1, I2. split; reflexivity.
Qed.

Lemma sec_start_pos_le cfg seg sec lo : lo <= sec_start_pos cfg seg sec lo.
Proof.
  unfold sec_start_pos. destruct (section_syms cfg); [|lia].
  eapply Z.le_trans; [apply (opt_aligned_le (section_start_align seg))|apply opt_aligned_le].
Qed.

Lemma sec_end_pos_le cfg seg sec e : e <= sec_end_pos cfg seg sec e.
Proof.
  unfold sec_end_pos. destruct (section_syms cfg); [|lia].
  eapply Z.le_trans; [apply (opt_aligned_le (section_end_align seg))|apply opt_aligned_le].
Qed.

(* START <= start of the output section, end of the output section <= END *)
Lemma SingleSec_bounds b sty cfg seg syms lo sec nl o :
  SingleSec b sty cfg seg syms lo sec nl o ->
  lo <= sec_start_pos cfg seg sec lo /\ sec_start_pos cfg seg sec lo <= os_vma o /\
  os_vma o <= os_vma o + os_size o /\ os_vma o + os_size o <= sec_end_pos cfg seg sec (os_vma o + os_size o).
Proof.
  unfold SingleSec. cbv zeta. intros (N & NL & LM & CT & SZ & [A [HA AL]] & SY).
  split; [apply sec_start_pos_le|]. split; [rewrite AL; apply align_up_le|]. split; [lia|apply sec_end_pos_le].
Qed.

Lemma SingleChain_first_ge b sty cfg seg syms secs lo o orest hi :
  SingleChain b sty cfg seg syms lo secs (o :: orest) hi -> lo <= os_vma o.
Proof.
  destruct secs as [|[sec nl] rest]; cbn [SingleChain]; [contradiction|]. intros [H _].
  apply SingleSec_bounds in H. lia.
Qed.

Lemma SingleChain_ascending b sty cfg seg syms secs : forall lo osecs hi,
  SingleChain b sty cfg seg syms lo secs osecs hi -> secs_ascending osecs.
Proof.
  induction secs as [|[sec nl] rest IH]; intros lo osecs hi H; destruct osecs as [|o orest];
    cbn [SingleChain] in H; try contradiction.
  - intros i o1 o2 H1. destruct i; discriminate H1.
  - destruct H as [H1 H2]. intros i o1 o2 N1 N2. destruct i as [|i].
    + cbn [nth_error] in N1, N2. inversion N1; subst o1. destruct orest as [|o' orest']; [discriminate|].
      cbn [nth_error] in N2. inversion N2; subst o2.
      apply SingleChain_first_ge in H2. apply SingleSec_bounds in H1. lia.
    + cbn [nth_error] in N1, N2. exact (IH _ _ _ H2 i o1 o2 N1 N2).
Qed.

(* one section of the chain: its output section is the first one of that name *)
Lemma SingleChain_in b sty cfg seg syms secs : forall lo osecs hi sec nl,
  SingleChain b sty cfg seg syms lo secs osecs hi -> NoDup (map fst secs) -> In (sec, nl) secs ->
  exists lo' o, lo <= lo' /\ find_sec sec osecs = Some o /\ SingleSec b sty cfg seg syms lo' sec nl o.
Proof.
  induction secs as [|[sec0 nl0] rest IH]; intros lo osecs hi sec nl H Hnd Hin; [contradiction|].
  destruct osecs as [|o orest]; cbn [SingleChain] in H; [contradiction|]. destruct H as [H1 H2].
  cbn [map fst] in Hnd. inversion Hnd as [|x l Hn1 Hnd1]; subst x l.
  destruct Hin as [Eq|Hin].
  - inversion Eq; subst sec0 nl0. exists lo, o. split; [lia|]. split; [|exact H1].
    destruct H1 as [N _]. unfold find_sec. cbn [find]. rewrite N, String.eqb_refl. reflexivity.
  - destruct (IH _ _ _ sec nl H2 Hnd1 Hin) as [lo' [o' [Hle [Hf Hs]]]].
    exists lo', o'. pose proof (SingleSec_bounds _ _ _ _ _ _ _ _ _ H1) as Hb. split; [lia|]. split; [|exact Hs].
    destruct H1 as [N _]. unfold find_sec. cbn [find]. rewrite N.
    assert (Hne : String.eqb sec0 sec = false).
    { apply String.eqb_neq. intro Ee. apply Hn1. rewrite Ee. apply in_map_iff. exists (sec, nl).
      split; [reflexivity|exact Hin]. }
    rewrite Hne. exact Hf.
Qed.

(* ====================================================================== *)
(* 4. the whole body of SECTIONS, followed by any statements               *)
(* ====================================================================== *)

Section SingleBody.
  Variables (env : list (string * Z)) (senv : list osec) (ext : list (string * Z)) (final : bool).
  Notation top := (exec_top_stmt env senv ext final).
  Notation runl := (run env senv ext final).

  Lemma run_gp_head stg cfg st : l_dot (runl (single_gp_head stg cfg) st) = l_dot st.
  Proof.
    apply run_dot. unfold single_gp_head, hardcoded_gp_stmts.
    destruct (section_syms cfg), (hardcoded_gp_value stg); reflexivity.
  Qed.

  Lemma run_vram_head seg st :
    l_dot (runl (single_vram_head seg) st) =
    match sg_fixed_vram seg with Some v => Z.of_N v | None => l_dot st end.
  Proof. unfold single_vram_head. destruct (sg_fixed_vram seg); reflexivity. Qed.

  Theorem single_body_chain b rt stg cfg classes seg ws s1 ws1 s2 ws' tl st0 :
    write_single_segment rt stg cfg seg (alloc_sections seg) false ws = Ok (s1, ws1) ->
    write_single_segment rt stg cfg seg (noload_sections seg) true ws1 = Ok (s2, ws') ->
    sizes_ok st0 ->
    let sty := linker_symbols_style stg in
    let body := single_sections_body stg cfg classes seg s1 s2 ws' in
    (b = true -> section_syms cfg = true /\
       forall sec x, In sec (seg_sections seg) -> In x (sec_syms3 sty (sg_name seg) sec) ->
                     count_assigns x (body ++ tl) = 1%nat) ->
    let st' := runl (body ++ tl) st0 in
    exists osecs rest hi,
      l_secs st' = (l_secs st0 ++ osecs ++ rest)%list /\
      SingleChain b sty cfg seg (l_syms st')
                  (match sg_fixed_vram seg with Some v => Z.of_N v | None => l_dot st0 end)
                  (single_secs seg) osecs hi.
  Proof.
    intros E1 E2 Hn sty body Hb st'.
    apply write_single_segment_inv in E1. destruct E1 as [g1 [G1 Es1]].
    apply write_single_segment_inv in E2. destruct E2 as [g2 [G2 Es2]]. fold sty in Es1, Es2.
    set (ks := sections_kind_start sty cfg seg false) in *. set (ke := sections_kind_end sty cfg seg false) in *.
    set (ks2 := sections_kind_start sty cfg seg true) in *. set (ke2 := sections_kind_end sty cfg seg true) in *.
    set (P := (single_gp_head stg cfg ++ single_vram_head seg ++ ks)%list).
    set (M := (ke ++ [SBlank] ++ ks2)%list).
    set (R := (ke2 ++ [SBlank] ++ end_sections_body stg classes ws' ++ tl)%list).
    assert (Eall : (body ++ tl = P ++ g1 ++ M ++ g2 ++ R)%list).
    { unfold body, single_sections_body, P, M, R. rewrite Es1, Es2. repeat rewrite <- app_assoc. reflexivity. }
    assert (Hsplit : forall x, count_assigns x (body ++ tl) =
              (count_assigns x P + (count_assigns x g1 + (count_assigns x M + (count_assigns x g2 + count_assigns x R))))%nat).
    { intro x. rewrite Eall, !count_app. reflexivity. }
    set (stP := runl P st0). set (st_1 := runl g1 stP). set (stM := runl M st_1). set (st_2 := runl g2 stM).
    assert (Est' : st' = runl R st_2).
    { unfold st', st_2, stM, st_1, stP. rewrite Eall, !run_app. reflexivity. }
    assert (DP : l_dot stP = match sg_fixed_vram seg with Some v => Z.of_N v | None => l_dot st0 end).
    { unfold stP, P. rewrite !run_app, run_dot by apply kd_kind_start. rewrite run_vram_head, run_gp_head. reflexivity. }
    assert (KP : l_secs stP = l_secs st0).
    { apply run_plain_secs. unfold P, ks.
      rewrite !flat_map_app, makes_sec_gp_head, makes_sec_vram_head, (makes_sec_plain _ (pl_kind_start _ _ _ _)).
      reflexivity. }
    assert (HnP : sizes_ok stP) by (apply run_sizes; exact Hn).
    destruct (single_groups_run env senv ext final b rt stg cfg seg (alloc_sections seg) false (alloc_sections seg)
                                ws g1 ws1 stP G1 HnP) as [os1 [K1 C1]].
    { intro Hbt. destruct (Hb Hbt) as [Hc Hcnt]. split; [exact Hc|]. intros sec x Hin Hx.
      pose proof (Hcnt sec x (in_or_app _ _ _ (or_introl Hin)) Hx) as T1. rewrite Hsplit in T1.
      pose proof (single_syms_assigned _ _ _ _ _ _ _ _ _ _ G1 Hc sec Hin x Hx) as T2. fold sty in T2. lia. }
    cbv zeta in K1, C1. fold st_1 sty in K1, C1.
    assert (Hn1 : sizes_ok st_1) by (apply run_sizes; exact HnP).
    assert (DM : l_dot stM = l_dot st_1).
    { apply run_dot. unfold M, ke, ks2. rewrite !forallb_app, kd_kind_end, kd_kind_start. reflexivity. }
    assert (KM : l_secs stM = l_secs st_1).
    { apply run_plain_secs. unfold M, ke, ks2.
      rewrite !flat_map_app, (makes_sec_plain _ (pl_kind_end _ _ _ _)), (makes_sec_plain _ (pl_kind_start _ _ _ _)).
      reflexivity. }
    assert (HnM : sizes_ok stM) by (apply run_sizes; exact Hn1).
    destruct (single_groups_run env senv ext final b rt stg cfg seg (noload_sections seg) true (noload_sections seg)
                                ws1 g2 ws' stM G2 HnM) as [os2 [K2 C2]].
    { intro Hbt. destruct (Hb Hbt) as [Hc Hcnt]. split; [exact Hc|]. intros sec x Hin Hx.
      pose proof (Hcnt sec x (in_or_app _ _ _ (or_intror Hin)) Hx) as T1. rewrite Hsplit in T1.
      pose proof (single_syms_assigned _ _ _ _ _ _ _ _ _ _ G2 Hc sec Hin x Hx) as T2. fold sty in T2. lia. }
    cbv zeta in K2, C2. fold st_2 sty in K2, C2.
    destruct (run_secs env senv ext final R st_2) as [new [KR _]].
    exists (os1 ++ os2)%list, new, (l_dot st_2).
    split; [rewrite Est', KR, K2, KM, K1, KP; repeat rewrite <- app_assoc; reflexivity|].
    unfold single_secs. apply SingleChain_app with (mid := l_dot st_1).
    - rewrite <- DP. eapply SingleChain_frame; [|exact C1].
      intros Hbt sec nl x Hin Hx. destruct (Hb Hbt) as [Hc Hcnt].
      apply in_map_iff in Hin. destruct Hin as [sec' [Eq Hin]]. inversion Eq; subst sec' nl.
      pose proof (Hcnt sec x (in_or_app _ _ _ (or_introl Hin)) Hx) as T1. rewrite Hsplit in T1.
      pose proof (single_syms_assigned _ _ _ _ _ _ _ _ _ _ G1 Hc sec Hin x Hx) as T2. fold sty in T2.
      rewrite Est'. unfold st_2, stM. rewrite !run_syms by (apply existsb_count; lia). reflexivity.
    - rewrite <- DM. eapply SingleChain_frame; [|exact C2].
      intros Hbt sec nl x Hin Hx. destruct (Hb Hbt) as [Hc Hcnt].
      apply in_map_iff in Hin. destruct Hin as [sec' [Eq Hin]]. inversion Eq; subst sec' nl.
      pose proof (Hcnt sec x (in_or_app _ _ _ (or_intror Hin)) Hx) as T1. rewrite Hsplit in T1.
      pose proof (single_syms_assigned _ _ _ _ _ _ _ _ _ _ G2 Hc sec Hin x Hx) as T2. fold sty in T2.
      rewrite Est'. rewrite run_syms by (apply existsb_count; lia). reflexivity.
  Qed.
End SingleBody.

(* ====================================================================== *)
(* 5. one section of a well-formed script                                  *)
(* ====================================================================== *)

Lemma count_sections x body : count_assigns x [SSections body] = count_assigns x body.
Proof.
  unfold count_assigns. cbn [map]. change (assign_count x (SSections body)) with (list_sum (map (assign_count x) body)).
  unfold list_sum at 1. cbn [fold_right]. lia.
Qed.

Lemma single_stmts_wf_inv sty stg seg all :
  single_stmts_wf sty stg seg all = true ->
  NoDup (seg_sections seg) /\
  (forall sec, In sec (seg_sections seg) -> ~ In sec (aux_section_names stg)) /\
  (forall sec x, In sec (seg_sections seg) -> In x (sec_syms3 sty (sg_name seg) sec) ->
                 count_assigns x all = 1%nat).
Proof.
  unfold single_stmts_wf. intro H. apply andb_true_iff in H. destruct H as [H H3].
  apply andb_true_iff in H. destruct H as [H1 H2].
  split; [apply nodup_str_NoDup; exact H1|]. split.
  - intros sec Hin Hbad. rewrite forallb_forall in H2. specialize (H2 sec Hin). apply negb_true_iff in H2.
    apply mem_str_in in Hbad. congruence.
  - intros sec x Hin Hx. rewrite forallb_forall in H3. specialize (H3 sec Hin).
    unfold section_names_once, assigned_once_deep in H3.
    apply andb_true_iff in H3. destruct H3 as [H3 C3]. apply andb_true_iff in H3. destruct H3 as [C1 C2].
    apply Nat.eqb_eq in C1. apply Nat.eqb_eq in C2. apply Nat.eqb_eq in C3.
    destruct Hx as [Ex|[Ex|[Ex|[]]]]; subst x; assumption.
Qed.

Lemma doc_single_wf_inv d rt :
  doc_single_wf d rt = true ->
  let stg := doc_settings d in
  exists seg s ws',
    doc_segments d = [seg] /\ single_segment_mode stg = true /\
    add_single_segment rt stg cfg_normal (doc_vram_classes d) seg ws0 = Ok (s, ws') /\
    single_stmts_wf (linker_symbols_style stg) stg seg (s ++ tail_stmts rt d) = true.
Proof.
  intros H stg. unfold doc_single_wf in H. fold stg in H.
  destruct (doc_segments d) as [|seg [|seg2 r]]; try discriminate H.
  destruct (add_single_segment rt stg cfg_normal (doc_vram_classes d) seg ws0) as [[s ws']|e] eqn:Ea; [|discriminate H].
  apply andb_true_iff in H. destruct H as [H1 H2]. exists seg, s, ws'. repeat split; try reflexivity; assumption.
Qed.

Lemma single_groups_outsec_in rt stg cfg seg sections noload rest : forall ws body ws' sec,
  single_groups rt stg cfg seg sections noload rest ws = Ok (body, ws') -> In sec rest ->
  exists files, In (SOutSec sec None None noload (subalign seg) (opt_fill seg ++ files)) body.
Proof.
  induction rest as [|sec0 rest IH]; intros ws body ws' sec H Hin; [contradiction|].
  apply single_groups_cons in H. destruct H as [s1 [ws1 [s2 [E1 [E2 E]]]]]. subst body. destruct Hin as [Eq|Hin].
  - subst sec0. exists s1. apply in_or_app. right. left. reflexivity.
  - destruct (IH _ _ _ sec E2 Hin) as [files Hf]. exists files.
    apply in_or_app; right. right. cbn [app]. apply in_or_app; right. apply in_or_app; right. exact Hf.
Qed.

Lemma single_body_outsec_in rt stg cfg classes seg ws s1 ws1 s2 ws' sec :
  write_single_segment rt stg cfg seg (alloc_sections seg) false ws = Ok (s1, ws1) ->
  write_single_segment rt stg cfg seg (noload_sections seg) true ws1 = Ok (s2, ws') ->
  In sec (seg_sections seg) ->
  exists nl files,
    In (sec, nl) (single_secs seg) /\
    In (SOutSec sec None None nl (subalign seg) (opt_fill seg ++ files))
       (single_sections_body stg cfg classes seg s1 s2 ws').
Proof.
  intros E1 E2 Hin.
  apply write_single_segment_inv in E1. destruct E1 as [g1 [G1 Es1]].
  apply write_single_segment_inv in E2. destruct E2 as [g2 [G2 Es2]].
  unfold seg_sections in Hin. apply in_app_or in Hin. unfold single_sections_body, single_secs.
  destruct Hin as [Hin|Hin].
  - destruct (single_groups_outsec_in _ _ _ _ _ _ _ _ _ _ sec G1 Hin) as [files Hf].
    exists false, files. split.
    + apply in_or_app. left. apply in_map_iff. exists sec. split; [reflexivity | exact Hin].
    + apply in_or_app; right. apply in_or_app; right. apply in_or_app; left. rewrite Es1.
      apply in_or_app; right. apply in_or_app; left. exact Hf.
  - destruct (single_groups_outsec_in _ _ _ _ _ _ _ _ _ _ sec G2 Hin) as [files Hf].
    exists true, files. split.
    + apply in_or_app. right. apply in_map_iff. exists sec. split; [reflexivity | exact Hin].
    + apply in_or_app; right. apply in_or_app; right. apply in_or_app; right. right. cbn [app].
      apply in_or_app; left. rewrite Es2. apply in_or_app; right. apply in_or_app; left. exact Hf.
Qed.

Lemma sec_start_aligned cfg seg sec lo :
  section_syms cfg = true ->
  aligned_to (section_start_align seg) (lookup sec (sections_start_alignment seg)) (sec_start_pos cfg seg sec lo).
Proof.
  intro Hc. unfold sec_start_pos. rewrite Hc. split.
  - intros n E Hn. apply opt_aligned_second; assumption.
  - intros n E Hn Hcomp. apply opt_aligned_first; assumption.
Qed.

Lemma sec_end_aligned cfg seg sec e :
  section_syms cfg = true ->
  aligned_to (section_end_align seg) (lookup sec (sections_end_alignment seg)) (sec_end_pos cfg seg sec e).
Proof.
  intro Hc. unfold sec_end_pos. rewrite Hc. split.
  - intros n E Hn. apply opt_aligned_second; assumption.
  - intros n E Hn Hcomp. apply opt_aligned_first; assumption.
Qed.

Section SingleSection.
  Variables (env : list (string * Z)) (senv : list osec) (ext : list (string * Z)) (final : bool).
  Notation runl := (run env senv ext final).

  (* the placements of one output section of the script, for any cfg and any statements [tl] after
     SECTIONS that make no output section *)
  Theorem single_body_placed rt stg cfg classes seg ws s1 ws1 s2 ws' tl u sec :
    write_single_segment rt stg cfg seg (alloc_sections seg) false ws = Ok (s1, ws1) ->
    write_single_segment rt stg cfg seg (noload_sections seg) true ws1 = Ok (s2, ws') ->
    Forall (fun x => 0 <= u_size x) u ->
    NoDup (seg_sections seg) -> In sec (seg_sections seg) -> ~ In sec (aux_section_names stg) ->
    flat_map makes_sec tl = [] ->
    let st' := runl (single_sections_body stg cfg classes seg s1 s2 ws' ++ tl) (init_state u) in
    exists o, find_sec sec (l_secs st') = Some o /\
      Forall (in_range u (os_vma o) (os_vma o + os_size o) sec) (placed_in sec st') /\
      nondecreasing (map pl_addr (placed_in sec st')).
  Proof.
    intros E1 E2 Hu Hnd Hin Hfresh Htl st'.
    destruct (single_body_outsec_in rt stg cfg classes seg ws s1 ws1 s2 ws' sec E1 E2 Hin) as [nl [files [_ HO]]].
    set (body := single_sections_body stg cfg classes seg s1 s2 ws') in *.
    assert (HO' : In (SOutSec sec None None nl (subalign seg) (opt_fill seg ++ files)) (body ++ tl))
      by (apply in_or_app; left; exact HO).
    apply in_split in HO'. destruct HO' as [A [B Eall]].
    assert (Hnames : (seg_sections seg ++ aux_section_names stg = flat_map makes_sec A ++ sec :: flat_map makes_sec B)%list).
    { rewrite <- (makes_sec_single_body rt stg cfg classes seg ws s1 ws1 s2 ws' E1 E2). fold body.
      rewrite <- (app_nil_r (flat_map makes_sec body)), <- Htl, <- flat_map_app, Eall, flat_map_app. reflexivity. }
    destruct (once_split sec _ _ _ _ Hnd Hin Hfresh Hnames) as [HA HB].
    unfold st'. rewrite Eall.
    destruct (outsec_block env senv ext final sec None None nl (subalign seg) (opt_fill seg ++ files) A B (init_state u))
      as (o & Hf & _ & _ & Hr & Hs); try assumption.
    - constructor.
    - reflexivity.
    - intros e Hbad. discriminate Hbad.
    - exists o. split; [exact Hf|]. split; [exact Hr | exact Hs].
  Qed.

  (* the whole script of gen_normal *)
  Theorem single_document_chain d rt w u seg :
    gen_normal d rt = Ok w -> single_segment_mode (doc_settings d) = true -> doc_segments d = [seg] ->
    Forall (fun x => 0 <= u_size x) u ->
    let sty := linker_symbols_style (doc_settings d) in
    let st' := exec_script env senv ext final (wo_script w) (init_state u) in
    exists osecs rest hi,
      l_secs st' = (osecs ++ rest)%list /\
      SingleChain false sty cfg_normal seg (l_syms st') (single_dot0 seg) (single_secs seg) osecs hi.
  Proof.
    intros Hg Hm Hs Hu sty st'.
    destruct (single_script_shape d rt w Hg Hm) as (seg' & s1 & ws1 & s2 & ws' & Es & E1 & E2 & _ & _ & _ & _ & _ & Hexec).
    rewrite Hs in Es. inversion Es; subst seg'.
    unfold st'. rewrite Hexec, <- run_app.
    destruct (single_body_chain env senv ext final false rt (doc_settings d) cfg_normal (doc_vram_classes d) seg
                                ws0 s1 ws1 s2 ws' (tail_stmts rt d) (init_state u) E1 E2 Hu)
      as (osecs & rest & hi & K & C).
    { intro Hbad. discriminate Hbad. }
    exists osecs, rest, hi. split; [exact K|]. unfold single_dot0. exact C.
  Qed.

  Theorem single_document_chain_wf d rt w u seg :
    gen_normal d rt = Ok w -> doc_single_wf d rt = true -> doc_segments d = [seg] ->
    Forall (fun x => 0 <= u_size x) u ->
    let sty := linker_symbols_style (doc_settings d) in
    let st' := exec_script env senv ext final (wo_script w) (init_state u) in
    exists osecs rest hi,
      l_secs st' = (osecs ++ rest)%list /\
      SingleChain true sty cfg_normal seg (l_syms st') (single_dot0 seg) (single_secs seg) osecs hi.
  Proof.
    intros Hg Hwf Hs Hu sty st'.
    destruct (doc_single_wf_inv d rt Hwf) as (seg0 & s & wsx & Es0 & Hm & Ea & Hw). cbv zeta in Hw.
    rewrite Hs in Es0. inversion Es0; subst seg0.
    destruct (single_script_shape d rt w Hg Hm) as (seg' & s1 & ws1 & s2 & ws' & Es & E1 & E2 & _ & _ & Ea' & _ & _ & Hexec).
    rewrite Hs in Es. inversion Es; subst seg'. cbv zeta in Ea'. rewrite Ea in Ea'. apply ok_inj in Ea'.
    inversion Ea'; subst s wsx.
    destruct (single_stmts_wf_inv _ _ _ _ Hw) as [_ [_ Hcnt]].
    unfold st'. rewrite Hexec, <- run_app.
    destruct (single_body_chain env senv ext final true rt (doc_settings d) cfg_normal (doc_vram_classes d) seg
                                ws0 s1 ws1 s2 ws' (tail_stmts rt d) (init_state u) E1 E2 Hu)
      as (osecs & rest & hi & K & C).
    { intros _. split; [reflexivity|]. intros sec x Hin Hx. specialize (Hcnt sec x Hin Hx).
      rewrite count_app, count_sections, <- count_app in Hcnt. exact Hcnt. }
    exists osecs, rest, hi. split; [exact K|]. unfold single_dot0. exact C.
  Qed.

  (* one section of a well-formed document: its output section, its symbols, its placements *)
  Theorem single_document_section d rt w u seg sec :
    gen_normal d rt = Ok w -> doc_single_wf d rt = true -> doc_segments d = [seg] ->
    Forall (fun x => 0 <= u_size x) u -> In sec (seg_sections seg) ->
    let sty := linker_symbols_style (doc_settings d) in
    let st' := exec_script env senv ext final (wo_script w) (init_state u) in
    exists o lo nl,
      In (sec, nl) (single_secs seg) /\ single_dot0 seg <= lo /\
      find_sec sec (l_secs st') = Some o /\
      SingleSec true sty cfg_normal seg (l_syms st') lo sec nl o /\
      Forall (fun p => placement_within u (os_vma o) (os_vma o + os_size o) p) (placed_in sec st') /\
      nondecreasing (map pl_addr (placed_in sec st')).
  Proof.
    intros Hg Hwf Hs Hu Hin sty st'.
    destruct (single_document_chain_wf d rt w u seg Hg Hwf Hs Hu) as (osecs & rest & hi & K & C).
    fold sty st' in K, C.
    destruct (doc_single_wf_inv d rt Hwf) as (seg0 & s & wsx & Es0 & Hm & Ea & Hw). cbv zeta in Hw.
    rewrite Hs in Es0. inversion Es0; subst seg0.
    destruct (single_stmts_wf_inv _ _ _ _ Hw) as [Hnd [Hfresh _]].
    destruct (single_script_shape d rt w Hg Hm) as (seg' & s1 & ws1 & s2 & ws' & Es & E1 & E2 & _ & _ & _ & _ & _ & Hexec).
    rewrite Hs in Es. inversion Es; subst seg'.
    destruct (single_body_outsec_in rt (doc_settings d) cfg_normal (doc_vram_classes d) seg ws0 s1 ws1 s2 ws' sec E1 E2 Hin)
      as [nl [_ [Hinl _]]].
    assert (Hnd' : NoDup (map fst (single_secs seg))).
    { unfold single_secs. rewrite map_app, !map_map. cbn [fst]. rewrite !map_id. exact Hnd. }
    destruct (SingleChain_in _ _ _ _ _ _ _ _ _ sec nl C Hnd' Hinl) as (lo & o & Hlo & Hf & HS).
    destruct (single_body_placed rt (doc_settings d) cfg_normal (doc_vram_classes d) seg ws0 s1 ws1 s2 ws'
                                 (tail_stmts rt d) u sec E1 E2 Hu Hnd Hin (Hfresh sec Hin) (makes_sec_tail rt d))
      as (o' & Hf' & Hr & Hsorted).
    cbv zeta in Hf', Hr, Hsorted. rewrite run_app, <- Hexec in Hf', Hr, Hsorted. fold st' in Hf', Hr, Hsorted.
    assert (Hfo : find_sec sec (l_secs st') = Some o) by (rewrite K; apply find_sec_app; exact Hf).
    rewrite Hfo in Hf'. inversion Hf'; subst o'.
    exists o, lo, nl. split; [exact Hinl|]. split; [exact Hlo|]. split; [exact Hfo|]. split; [exact HS|].
    split; [|exact Hsorted]. eapply Forall_impl; [|exact Hr]. intros p [_ Hp]. exact Hp.
  Qed.
End SingleSection.

(* ---------- every pass of layout ---------- *)

Theorem single_document_chain_layout d rt w u ext0 seg :
  gen_normal d rt = Ok w -> single_segment_mode (doc_settings d) = true -> doc_segments d = [seg] ->
  Forall (fun x => 0 <= u_size x) u ->
  let sty := linker_symbols_style (doc_settings d) in
  let st' := layout (wo_script w) u ext0 in
  exists osecs rest hi,
    l_secs st' = (osecs ++ rest)%list /\
    SingleChain false sty cfg_normal seg (l_syms st') (single_dot0 seg) (single_secs seg) osecs hi.
Proof. intros Hg Hm Hs Hu sty st'. unfold st', layout. apply (single_document_chain _ _ _ _ d rt w u seg); assumption. Qed.

Theorem single_document_chain_wf_layout d rt w u ext0 seg :
  gen_normal d rt = Ok w -> doc_single_wf d rt = true -> doc_segments d = [seg] ->
  Forall (fun x => 0 <= u_size x) u ->
  let sty := linker_symbols_style (doc_settings d) in
  let st' := layout (wo_script w) u ext0 in
  exists osecs rest hi,
    l_secs st' = (osecs ++ rest)%list /\
    SingleChain true sty cfg_normal seg (l_syms st') (single_dot0 seg) (single_secs seg) osecs hi.
Proof. intros Hg Hm Hs Hu sty st'. unfold st', layout. apply (single_document_chain_wf _ _ _ _ d rt w u seg); assumption. Qed.

(* ---------- the readable projections ---------- *)

Lemma SingleChain_Forall b sty cfg seg syms secs : forall lo osecs hi,
  SingleChain b sty cfg seg syms lo secs osecs hi ->
  Forall (fun o => os_lma o = None /\ 0 <= os_size o /\ (os_noload o = true -> os_contents o = false)) osecs.
Proof.
  induction secs as [|[sec nl] rest IH]; intros lo osecs hi H; destruct osecs as [|o orest];
    cbn [SingleChain] in H; try contradiction; constructor.
  - destruct H as [(N & NL & LM & CT & SZ & _) _]. split; [exact LM|]. split; [exact SZ|].
    intro E. apply CT. rewrite <- NL. exact E.
  - destruct H as [_ H2]. eapply IH; exact H2.
Qed.

Lemma single_secs_names seg : map fst (single_secs seg) = seg_sections seg.
Proof. unfold single_secs, seg_sections. rewrite map_app, !map_map. cbn [fst]. rewrite !map_id. reflexivity. Qed.

Lemma SingleChain_sections b sty cfg seg syms osecs hi :
  SingleChain b sty cfg seg syms (single_dot0 seg) (single_secs seg) osecs hi -> SingleSections cfg seg osecs.
Proof.
  intro H. destruct (SingleChain_names _ _ _ _ _ _ _ _ _ H) as [N1 N2].
  split; [rewrite N1; apply single_secs_names|]. split; [exact N2|].
  split; [eapply SingleChain_Forall; exact H|]. split; [|eapply SingleChain_ascending; exact H].
  intros o orest E. subst osecs. split; [eapply SingleChain_first_ge; exact H|].
  destruct (single_secs seg) as [|[sec nl] rest]; cbn [SingleChain] in H; [contradiction|].
  destruct H as [(N & _ & _ & _ & _ & AL & _) _]. rewrite N. exact AL.
Qed.

Theorem single_document_symbols env senv ext final d rt w u seg sec :
  gen_normal d rt = Ok w -> doc_single_wf d rt = true -> doc_segments d = [seg] ->
  Forall (fun x => 0 <= u_size x) u -> In sec (seg_sections seg) ->
  let sty := linker_symbols_style (doc_settings d) in
  let st' := exec_script env senv ext final (wo_script w) (init_state u) in
  SectionSymbols sty seg u st' sec.
Proof.
  intros Hg Hwf Hs Hu Hin sty st'.
  destruct (single_document_section env senv ext final d rt w u seg sec Hg Hwf Hs Hu Hin)
    as (o & lo & nl & Hinl & Hlo & Hf & HS & Hp & Hsorted).
  fold sty st' in Hf, HS, Hp, Hsorted.
  pose proof (SingleSec_bounds _ _ _ _ _ _ _ _ _ HS) as (B1 & B2 & B3 & B4).
  destruct HS as (N & NL & LM & CT & SZ & AL & SY). destruct (SY eq_refl) as (Y1 & Y2 & Y3).
  exists o, (sec_start_pos cfg_normal seg sec lo), (sec_end_pos cfg_normal seg sec (os_vma o + os_size o)).
  split; [exact Hf|]. split; [rewrite NL; exact Hinl|]. split; [exact Y1|]. split; [exact Y2|]. split; [exact Y3|].
  split; [lia|]. split; [exact B2|]. split; [exact B3|]. split; [exact B4|]. split; [exact AL|].
  split; [reflexivity|]. split; [apply sec_start_aligned; reflexivity|]. split; [apply sec_end_aligned; reflexivity|].
  split; assumption.
Qed.

Theorem single_document_symbols_layout d rt w u ext0 seg sec :
  gen_normal d rt = Ok w -> doc_single_wf d rt = true -> doc_segments d = [seg] ->
  Forall (fun x => 0 <= u_size x) u -> In sec (seg_sections seg) ->
  let sty := linker_symbols_style (doc_settings d) in
  SectionSymbols sty seg u (layout (wo_script w) u ext0) sec.
Proof. intros Hg Hwf Hs Hu Hin sty. unfold layout. apply (single_document_symbols _ _ _ _ d rt w u seg sec); assumption. Qed.

Theorem single_document_sections env senv ext final d rt w u seg :
  gen_normal d rt = Ok w -> single_segment_mode (doc_settings d) = true -> doc_segments d = [seg] ->
  Forall (fun x => 0 <= u_size x) u ->
  let st' := exec_script env senv ext final (wo_script w) (init_state u) in
  exists osecs rest, l_secs st' = (osecs ++ rest)%list /\ SingleSections cfg_normal seg osecs.
Proof.
  intros Hg Hm Hs Hu st'.
  destruct (single_document_chain env senv ext final d rt w u seg Hg Hm Hs Hu) as (osecs & rest & hi & K & C).
  exists osecs, rest. split; [exact K|]. eapply SingleChain_sections; exact C.
Qed.

Theorem single_document_sections_layout d rt w u ext0 seg :
  gen_normal d rt = Ok w -> single_segment_mode (doc_settings d) = true -> doc_segments d = [seg] ->
  Forall (fun x => 0 <= u_size x) u ->
  let st' := layout (wo_script w) u ext0 in
  exists osecs rest, l_secs st' = (osecs ++ rest)%list /\ SingleSections cfg_normal seg osecs.
Proof. intros Hg Hm Hs Hu st'. unfold st', layout. apply (single_document_sections _ _ _ _ d rt w u seg); assumption. Qed.

(* a well-formed document: the facts packed in doc_single_wf *)
Theorem single_wf_facts d rt :
  doc_single_wf d rt = true ->
  let stg := doc_settings d in
  let sty := linker_symbols_style stg in
  exists seg s ws',
    doc_segments d = [seg] /\ single_segment_mode stg = true /\
    add_single_segment rt stg cfg_normal (doc_vram_classes d) seg ws0 = Ok (s, ws') /\
    NoDup (seg_sections seg) /\
    (forall sec, In sec (seg_sections seg) -> ~ In sec (aux_section_names stg)) /\
    (forall sec x, In sec (seg_sections seg) -> In x (sec_syms3 sty (sg_name seg) sec) ->
                   count_assigns x (s ++ tail_stmts rt d) = 1%nat).
Proof.
  intros Hwf stg sty. destruct (doc_single_wf_inv d rt Hwf) as (seg & s & ws' & Es & Hm & Ea & Hw).
  cbv zeta in Hw. destruct (single_stmts_wf_inv _ _ _ _ Hw) as [Hnd [Hfresh Hcnt]].
  exists seg, s, ws'. repeat (split; [assumption|]). exact Hcnt.
Qed.

(* ====================================================================== *)
(* 6. the per-segment scripts of partial linking                           *)
(* ====================================================================== *)

Lemma SingleChain_contiguous b sty seg syms secs : forall lo osecs hi,
  SingleChain b sty cfg_sub_partial seg syms lo secs osecs hi -> contiguous_from lo osecs.
Proof.
  induction secs as [|[sec nl] rest IH]; intros lo osecs hi H; destruct osecs as [|o orest];
    cbn [SingleChain] in H; try contradiction; [exact I|].
  destruct H as [(N & NL & LM & CT & SZ & AL & _) H2]. cbn [contiguous_from].
  split; [exact AL|]. split; [exact SZ|]. eapply IH. exact H2.
Qed.

Theorem single_partial_layout env senv ext final d rt p name w u :
  gen_partial d rt = Ok p -> In (name, w) (po_subs p) ->
  Forall (fun x => 0 <= u_size x) u ->
  exists seg, In seg (doc_segments d) /\ should_emit rt (sg_conds seg) = true /\ name = sg_name seg /\
              SubScriptLayout env senv ext final d u seg w.
Proof.
  intros Hg Hin Hu. pose proof (subs_are_single_scripts d rt p Hg) as HF. rewrite Forall_forall in HF.
  destruct (HF _ Hin) as (seg & stmts & wsub & Hseg & Hc & Hn & Ea & Ew). cbn [fst snd] in Hn, Ew.
  exists seg. split; [exact Hseg|]. split; [exact Hc|]. split; [exact Hn|].
  apply add_single_segment_inv in Ea. destruct Ea as [s1 [ws1 [s2 [E1 [E2 E]]]]].
  set (stg := doc_settings d) in *.
  set (body := single_sections_body stg cfg_sub_partial (doc_vram_classes d) seg s1 s2 wsub).
  assert (Eb : stmts = [SSections body]).
  { rewrite E, single_head_eq. unfold body, single_sections_body. repeat rewrite <- app_assoc. reflexivity. }
  assert (Hexec : forall st, exec_script env senv ext final (wo_script w) st = run env senv ext final (body ++ []) st).
  { intro st. rewrite Ew. cbn [wo_script]. rewrite Eb, app_nil_r. apply exec_sub_script. }
  unfold SubScriptLayout. cbv zeta. fold stg. rewrite Hexec. split.
  - destruct (single_body_chain env senv ext final false rt stg cfg_sub_partial (doc_vram_classes d) seg
                                ws0 s1 ws1 s2 wsub [] (init_state u) E1 E2 Hu)
      as (osecs & rest & hi & K & C).
    { intro Hbad. discriminate Hbad. }
    fold body in K, C. exists osecs, rest, hi. split; [exact K|]. split; [exact C|].
    split; [eapply SingleChain_sections; exact C | eapply SingleChain_contiguous; exact C].
  - intros sec Hnd Hsec Hfresh.
    destruct (single_body_placed env senv ext final rt stg cfg_sub_partial (doc_vram_classes d) seg ws0 s1 ws1 s2 wsub
                                 [] u sec E1 E2 Hu Hnd Hsec Hfresh eq_refl) as (o & Hf & Hr & Hs).
    fold body in Hf, Hr, Hs. exists o. split; [exact Hf|]. split; [|exact Hs].
    eapply Forall_impl; [|exact Hr]. intros q [_ Hq]. exact Hq.
Qed.

Theorem single_partial_layout_layout d rt p name w u ext0 :
  gen_partial d rt = Ok p -> In (name, w) (po_subs p) ->
  Forall (fun x => 0 <= u_size x) u ->
  let p1 := exec_script [] [] ext0 false (wo_script w) (init_state u) in
  let p2 := exec_script (l_syms p1) (l_secs p1) (ext0 ++ markers_of p1)%list false (wo_script w) (init_state u) in
  exists seg, In seg (doc_segments d) /\ should_emit rt (sg_conds seg) = true /\ name = sg_name seg /\
              SubScriptLayout (l_syms p2) (l_secs p2) (ext0 ++ markers_of p2)%list true d u seg w.
Proof. intros Hg Hin Hu p1 p2. apply (single_partial_layout _ _ _ _ d rt p name w u Hg Hin Hu). Qed.

(* ---------- C09: the projection on the alignments ---------- *)

Theorem single_document_alignment env senv ext final d rt w u seg sec :
  gen_normal d rt = Ok w -> doc_single_wf d rt = true -> doc_segments d = [seg] ->
  Forall (fun x => 0 <= u_size x) u -> In sec (seg_sections seg) ->
  let sty := linker_symbols_style (doc_settings d) in
  let st' := exec_script env senv ext final (wo_script w) (init_state u) in
  exists S E,
    val st' (segment_section_start sty (sg_name seg) sec) = Some S /\
    val st' (segment_section_end sty (sg_name seg) sec) = Some E /\
    aligned_to (section_start_align seg) (lookup sec (sections_start_alignment seg)) S /\
    aligned_to (section_end_align seg) (lookup sec (sections_end_alignment seg)) E.
Proof.
  intros Hg Hwf Hs Hu Hin sty st'.
  destruct (single_document_symbols env senv ext final d rt w u seg sec Hg Hwf Hs Hu Hin)
    as (o & S & E & _ & _ & Y1 & Y2 & _ & _ & _ & _ & _ & _ & _ & A1 & A2 & _).
  exists S, E. split; [exact Y1|]. split; [exact Y2|]. split; [exact A1 | exact A2].
Qed.

Theorem single_document_alignment_layout d rt w u ext0 seg sec :
  gen_normal d rt = Ok w -> doc_single_wf d rt = true -> doc_segments d = [seg] ->
  Forall (fun x => 0 <= u_size x) u -> In sec (seg_sections seg) ->
  let sty := linker_symbols_style (doc_settings d) in
  let st' := layout (wo_script w) u ext0 in
  exists S E,
    val st' (segment_section_start sty (sg_name seg) sec) = Some S /\
    val st' (segment_section_end sty (sg_name seg) sec) = Some E /\
    aligned_to (section_start_align seg) (lookup sec (sections_start_alignment seg)) S /\
    aligned_to (section_end_align seg) (lookup sec (sections_end_alignment seg)) E.
Proof.
  intros Hg Hwf Hs Hu Hin sty st'. unfold st', layout.
  apply (single_document_alignment _ _ _ _ d rt w u seg sec); assumption.
Qed.
