(* C19 - translator obligations for ALL format! templates of script_buffer.rs / linker_writer.rs.

   tools/rs2v.py regenerates the named templates t_sb_<fn>_<k> / t_lw_<fn>_<k> of Model/Generated.v (the text pieces
   around the arguments) with their format specs ..._spec from the Rust source on every run.  Proofs/TablesC01, C04,
   C09, C17, C18 tie the rendering of the script AST to those templates for the statement shapes of five properties.
   This file closes three gaps of that work:

   (a) [fmt] tolerates an arity mismatch (a missing argument is rendered as nothing, a surplus one is dropped).
       [fmt_strict] is the reading of format! that refuses a mismatch; every template has one piece more than it has
       specs ([templates_arity]) and every use below passes exactly [length spec] arguments, hence at every use [fmt]
       IS [fmt_strict] ([fmt_strict_exact]);
   (b) every template constant of Model/Generated.v is compared with the model ([all_templates], which is checked
       against the generated lists [fmt_sb]/[fmt_lw], then one lemma [u_<template>] per constant); the templates
       that had no lemma before: t_lw_end_sections_1, t_lw_write_segment_start_1..4, t_lw_write_sections_kind_start_0,
       t_lw_write_sections_kind_end_0; weakly covered before: t_lw_write_segment_start_0 (only with an empty suffix),
       t_sb_write_required_symbol_1/2 (tied to a literal text, not to the model);
   (c) the places where Model/Writer.v assembles text itself with [++] are tied to the templates ([w_...] lemmas):
       [kind_name], the output-section name of [write_segment], [required_stmts]/[required_msg], and the statements
       built from [linker_symbol].  Model/Style.v builds all its names by [fmt] from the tpl_... tables, none of which
       is a t_sb_/t_lw_ constant.

   Literal texts of the model that correspond to NO template constant (they are plain string literals in the Rust,
   so there is nothing to compare them with): "/DISCARD/ :", the wildcard discard line, " (NOLOAD) :", "SECTIONS", "{", "}",
   "__romPos", "0x0", "_gp", ".", "0x00000000" (EHex8 0 of a class without address), ".noload", "noload", "alloc",
   "KEEP(", ")", "*", "0" (the address of a single-entry section).  *)
From Slinky Require Import Model.Types Model.Generated Model.Runtime Model.Style Model.Script Model.Writer.
Local Open Scope string_scope.

Lemma sapp_nil_r (s : string) : s ++ "" = s.
Proof. induction s as [|c s IH]; simpl; [reflexivity | rewrite IH; reflexivity]. Qed.

Lemma sapp_assoc (x y z : string) : (x ++ y) ++ z = x ++ y ++ z.
Proof. induction x as [|c x IH]; simpl; [reflexivity | rewrite IH; reflexivity]. Qed.

Lemma sapp_inj_l (a x y : string) : a ++ x = a ++ y -> x = y.
Proof.
  induction a as [|c a IH]; simpl; intro H; [exact H|].
  injection H as H. exact (IH H).
Qed.

(* ------------------------------------------------------------------------------------------------------------------ *)
(* (a) arity                                                                                                          *)
(* ------------------------------------------------------------------------------------------------------------------ *)

(* format! as the Rust compiler reads it: a template with k holes takes exactly k arguments *)
Fixpoint fmt_strict (pieces args : list string) : option string :=
  match pieces with
  | [] => None
  | p :: ps =>
      match args with
      | [] => match ps with [] => Some p | _ :: _ => None end
      | a :: rest => match fmt_strict ps rest with Some r => Some (p ++ a ++ r) | None => None end
      end
  end.

Lemma fmt_strict_arity pieces : forall args s,
  fmt_strict pieces args = Some s -> List.length pieces = S (List.length args).
Proof.
  induction pieces as [|p ps IH]; intros args s H; [discriminate H|].
  destruct args as [|a rest].
  - destruct ps as [|q qs]; [reflexivity | discriminate H].
  - cbn [fmt_strict] in H. destruct (fmt_strict ps rest) as [r|] eqn:E; [|discriminate H].
    cbn [List.length]. rewrite (IH rest r E). reflexivity.
Qed.

Lemma fmt_strict_fmt pieces : forall args s, fmt_strict pieces args = Some s -> fmt pieces args = s.
Proof.
  induction pieces as [|p ps IH]; intros args s H; [discriminate H|].
  destruct args as [|a rest].
  - destruct ps as [|q qs]; [|discriminate H]. injection H as H. subst s. cbn. apply sapp_nil_r.
  - cbn [fmt_strict] in H. destruct (fmt_strict ps rest) as [r|] eqn:E; [|discriminate H].
    injection H as H. subst s. cbn [fmt].
    destruct ps as [|q qs]; [discriminate E|]. rewrite (IH rest r E). reflexivity.
Qed.

Lemma fmt_strict_total pieces : forall args,
  List.length pieces = S (List.length args) -> exists s, fmt_strict pieces args = Some s.
Proof.
  induction pieces as [|p ps IH]; intros args H; [discriminate H|].
  destruct args as [|a rest].
  - destruct ps as [|q qs]; [eexists; reflexivity | discriminate H].
  - cbn [List.length] in H. injection H as H. destruct (IH rest H) as [r E].
    exists (p ++ a ++ r). cbn [fmt_strict]. rewrite E. reflexivity.
Qed.

(* with the right number of arguments the tolerant [fmt] of Model/Style.v is the strict reading *)
Lemma fmt_strict_exact pieces args :
  List.length pieces = S (List.length args) -> fmt_strict pieces args = Some (fmt pieces args).
Proof.
  intro H. destruct (fmt_strict_total pieces args H) as [s E]. rewrite E, (fmt_strict_fmt _ _ _ E). reflexivity.
Qed.

(* the shape every use below has: template, its spec, the arguments passed *)
Lemma use_strict (pieces spec args : list string) :
  List.length pieces = S (List.length spec) -> List.length args = List.length spec ->
  fmt_strict pieces args = Some (fmt pieces args).
Proof. intros Hp Ha. apply fmt_strict_exact. rewrite Hp, Ha. reflexivity. Qed.

(* every template constant of Model/Generated.v with its spec, in source order (script_buffer.rs, then
   linker_writer.rs) *)
Definition all_templates : list (list string * list string) :=
  [ (t_sb_write_single_entry_section_0, t_sb_write_single_entry_section_0_spec);
    (t_sb_write_symbol_assignment_0, t_sb_write_symbol_assignment_0_spec);
    (t_sb_write_symbol_assignment_1, t_sb_write_symbol_assignment_1_spec);
    (t_sb_write_symbol_assignment_2, t_sb_write_symbol_assignment_2_spec);
    (t_sb_write_symbol_assignment_3, t_sb_write_symbol_assignment_3_spec);
    (t_sb_align_symbol_0, t_sb_align_symbol_0_spec);
    (t_sb_write_symbol_max_self_0, t_sb_write_symbol_max_self_0_spec);
    (t_sb_write_assert_0, t_sb_write_assert_0_spec);
    (t_sb_write_required_symbol_0, t_sb_write_required_symbol_0_spec);
    (t_sb_write_required_symbol_1, t_sb_write_required_symbol_1_spec);
    (t_sb_write_required_symbol_2, t_sb_write_required_symbol_2_spec);
    (t_lw_new_0, t_lw_new_0_spec);
    (t_lw_add_entry_0, t_lw_add_entry_0_spec);
    (t_lw_begin_sections_0, t_lw_begin_sections_0_spec);
    (t_lw_end_sections_0, t_lw_end_sections_0_spec);
    (t_lw_end_sections_1, t_lw_end_sections_1_spec);
    (t_lw_add_segment_0, t_lw_add_segment_0_spec);
    (t_lw_add_segment_1, t_lw_add_segment_1_spec);
    (t_lw_add_segment_2, t_lw_add_segment_2_spec);
    (t_lw_add_single_segment_0, t_lw_add_single_segment_0_spec);
    (t_lw_add_single_segment_1, t_lw_add_single_segment_1_spec);
    (t_lw_write_sym_end_size_0, t_lw_write_sym_end_size_0_spec);
    (t_lw_write_sections_kind_start_0, t_lw_write_sections_kind_start_0_spec);
    (t_lw_write_sections_kind_end_0, t_lw_write_sections_kind_end_0_spec);
    (t_lw_write_section_symbol_start_0, t_lw_write_section_symbol_start_0_spec);
    (t_lw_write_segment_start_0, t_lw_write_segment_start_0_spec);
    (t_lw_write_segment_start_1, t_lw_write_segment_start_1_spec);
    (t_lw_write_segment_start_2, t_lw_write_segment_start_2_spec);
    (t_lw_write_segment_start_3, t_lw_write_segment_start_3_spec);
    (t_lw_write_segment_start_4, t_lw_write_segment_start_4_spec);
    (t_lw_write_segment_start_5, t_lw_write_segment_start_5_spec);
    (t_lw_write_segment_start_6, t_lw_write_segment_start_6_spec);
    (t_lw_emit_file_0, t_lw_emit_file_0_spec);
    (t_lw_emit_file_1, t_lw_emit_file_1_spec);
    (t_lw_emit_file_2, t_lw_emit_file_2_spec);
    (t_lw_write_segment_0, t_lw_write_segment_0_spec);
    (t_lw_write_single_segment_0, t_lw_write_single_segment_0_spec);
    (t_lw_write_single_segment_1, t_lw_write_single_segment_1_spec);
    (t_lw_write_single_segment_2, t_lw_write_single_segment_2_spec) ]%list.

(* the enumeration is the translator's own: [fmt_sb]/[fmt_lw] are regenerated as "all of them, in source order", so a
   template added to (or removed from) the Rust breaks this equation until it is listed - and then needs a lemma *)
Lemma all_templates_complete : map fst all_templates = (fmt_sb ++ fmt_lw)%list.
Proof. reflexivity. Qed.

(* every template has exactly one piece more than it has holes *)
Lemma templates_arity :
  Forall (fun ts => List.length (fst ts) = List.length (snd ts) + 1) all_templates.
Proof. unfold all_templates. repeat (constructor; [reflexivity|]). constructor. Qed.

(* all the format specs ("" = Display, ":X" = upper-case hex, ":08X" = eight hex digits), in the same order *)
Lemma templates_specs :
  map snd all_templates =
  [ [""; ""; ""]; [""; ""]; [""; ""]; [""; ""]; [""; ""]; [""; ""; ":X"]; [""; ""; ""]; [""; ""]; [""]; [""]; [""];
    [""; ""; ""]; [""]; [":08X"]; [""; ""]; [""]; [":08X"]; [""]; [""]; [":08X"]; [":08X"]; [""; ""]; [""; ""];
    [""; ""]; [":X"]; [""; ""]; [":08X"]; [""]; [""]; [""]; [""]; [""]; [""; ""; ""; ""; ""];
    [""; ""; ""; ""; ""; ""]; [":X"]; [":08X"]; [""; ""]; [""]; [":08X"] ]%list.
Proof. reflexivity. Qed.

(* what (a) is about: the model's [fmt] accepts a wrong number of arguments, [fmt_strict] does not *)
Example fmt_tolerates_missing_arguments :
  fmt t_sb_write_symbol_max_self_0 ["a"] = "a = MAX(, );" /\
  fmt_strict t_sb_write_symbol_max_self_0 ["a"] = None /\
  fmt t_lw_add_entry_0 ["a"; "b"] = "ENTRY(a);" /\
  fmt_strict t_lw_add_entry_0 ["a"; "b"] = None /\
  fmt_strict t_sb_write_symbol_max_self_0 ["a"; "a"; "b"] = Some "a = MAX(a, b);".
Proof. repeat split; reflexivity. Qed.

(* ------------------------------------------------------------------------------------------------------------------ *)
(* (b) one lemma per template: the model's text IS the template applied to the arguments, and the arguments are as    *)
(*     many as the template's spec.  script_buffer.rs                                                                 *)
(* ------------------------------------------------------------------------------------------------------------------ *)

Lemma u_sb_write_single_entry_section_0 ind s :
  render_stmt ind (SSingleEntry s) = [indent_str ind ++ fmt t_sb_write_single_entry_section_0 [s; "0"; s]] /\
  List.length [s; "0"; s] = List.length t_sb_write_single_entry_section_0_spec.
Proof. split; reflexivity. Qed.

Lemma u_sb_write_symbol_assignment_0 ind r sym e :
  render_stmt ind (SAssign true true r sym e) =
  [indent_str ind ++ fmt t_sb_write_symbol_assignment_0 [sym; render_expr e]] /\
  List.length [sym; render_expr e] = List.length t_sb_write_symbol_assignment_0_spec.
Proof. split; reflexivity. Qed.

Lemma u_sb_write_symbol_assignment_1 ind r sym e :
  render_stmt ind (SAssign true false r sym e) =
  [indent_str ind ++ fmt t_sb_write_symbol_assignment_1 [sym; render_expr e]] /\
  List.length [sym; render_expr e] = List.length t_sb_write_symbol_assignment_1_spec.
Proof. split; reflexivity. Qed.

Lemma u_sb_write_symbol_assignment_2 ind r sym e :
  render_stmt ind (SAssign false true r sym e) =
  [indent_str ind ++ fmt t_sb_write_symbol_assignment_2 [sym; render_expr e]] /\
  List.length [sym; render_expr e] = List.length t_sb_write_symbol_assignment_2_spec.
Proof. split; reflexivity. Qed.

Lemma u_sb_write_symbol_assignment_3 ind r sym e :
  render_stmt ind (SAssign false false r sym e) =
  [indent_str ind ++ fmt t_sb_write_symbol_assignment_3 [sym; render_expr e]] /\
  List.length [sym; render_expr e] = List.length t_sb_write_symbol_assignment_3_spec.
Proof. split; reflexivity. Qed.

(* the four in one: which template a (provide, hidden) pair selects *)
Definition assign_tpl (p h : bool) : list string :=
  match p, h with
  | true, true => t_sb_write_symbol_assignment_0
  | true, false => t_sb_write_symbol_assignment_1
  | false, true => t_sb_write_symbol_assignment_2
  | false, false => t_sb_write_symbol_assignment_3
  end.

Lemma u_sb_assign ind p h r sym e :
  render_stmt ind (SAssign p h r sym e) = [indent_str ind ++ fmt (assign_tpl p h) [sym; render_expr e]].
Proof. destruct p, h; reflexivity. Qed.

Lemma u_sb_render_assign p h sym v :
  render_assign p h sym v = fmt (assign_tpl p h) [sym; v].
Proof. destruct p, h; reflexivity. Qed.

Lemma u_sb_align_symbol_0 ind sym n :
  render_stmt ind (SAlign sym n) = [indent_str ind ++ fmt t_sb_align_symbol_0 [sym; sym; hex_of_N n]] /\
  List.length [sym; sym; hex_of_N n] = List.length t_sb_align_symbol_0_spec.
Proof. split; reflexivity. Qed.

Lemma u_sb_write_symbol_max_self_0 ind sym other :
  render_stmt ind (SMaxSelf sym other) = [indent_str ind ++ fmt t_sb_write_symbol_max_self_0 [sym; sym; other]] /\
  List.length [sym; sym; other] = List.length t_sb_write_symbol_max_self_0_spec.
Proof. split; reflexivity. Qed.

Lemma u_sb_write_assert_0 ind c m :
  render_stmt ind (SAssert c m) = [indent_str ind ++ fmt t_sb_write_assert_0 [c; m]] /\
  List.length [c; m] = List.length t_sb_write_assert_0_spec.
Proof. split; reflexivity. Qed.

Lemma u_sb_write_required_symbol_0 ind n :
  render_stmt ind (SExtern n) = [indent_str ind ++ fmt t_sb_write_required_symbol_0 [n]] /\
  List.length [n] = List.length t_sb_write_required_symbol_0_spec.
Proof. split; reflexivity. Qed.

(* write_required_symbol_1 (the condition DEFINED(..)) and _2 (the message) are not statement shapes: the WRITER builds
   both texts (Model/Writer.v [required_stmts], [required_msg]) and hands them to SAssert *)
Lemma u_sb_write_required_symbol_1_2 rt l :
  required_stmts rt l =
  match l with
  | [] => []
  | _ :: _ =>
      SBlank ::
      flat_map (fun r => if should_emit rt (rq_conds r)
                         then [SExtern (rq_name r);
                               SAssert (fmt t_sb_write_required_symbol_1 [rq_name r])
                                       (fmt t_sb_write_required_symbol_2 [rq_name r])]
                         else []) l
  end.
Proof. destruct l; reflexivity. Qed.

Lemma u_sb_write_required_symbol_1 n :
  "DEFINED(" ++ n ++ ")" = fmt t_sb_write_required_symbol_1 [n] /\
  List.length [n] = List.length t_sb_write_required_symbol_1_spec.
Proof. split; reflexivity. Qed.

Lemma u_sb_write_required_symbol_2 n :
  required_msg n = fmt t_sb_write_required_symbol_2 [n] /\
  List.length [n] = List.length t_sb_write_required_symbol_2_spec.
Proof. split; reflexivity. Qed.

(* the two lines of one required symbol, templates inside a template *)
Lemma u_sb_required_lines ind n :
  flat_map (render_stmt ind) [SExtern n; SAssert ("DEFINED(" ++ n ++ ")") (required_msg n)] =
  [indent_str ind ++ fmt t_sb_write_required_symbol_0 [n];
   indent_str ind ++ fmt t_sb_write_assert_0 [fmt t_sb_write_required_symbol_1 [n];
                                              fmt t_sb_write_required_symbol_2 [n]]].
Proof. reflexivity. Qed.

(* ------------------------------------------------------------------------------------------------------------------ *)
(* linker_writer.rs                                                                                                   *)
(* ------------------------------------------------------------------------------------------------------------------ *)

Lemma u_lw_new_0 ind :
  render_stmt ind (SComment version_comment_text) =
  [indent_str ind ++ fmt t_lw_new_0 [dec_of_N version_major; dec_of_N version_minor; dec_of_N version_patch]] /\
  List.length [dec_of_N version_major; dec_of_N version_minor; dec_of_N version_patch] = List.length t_lw_new_0_spec.
Proof. split; reflexivity. Qed.

Lemma u_lw_add_entry_0 ind e :
  render_stmt ind (SEntry e) = [indent_str ind ++ fmt t_lw_add_entry_0 [e]] /\
  List.length [e] = List.length t_lw_add_entry_0_spec.
Proof. split; reflexivity. Qed.

Lemma u_lw_begin_sections_0 ind v :
  render_stmt ind (SAssign false false false "_gp" (EHex8 v)) =
  [indent_str ind ++ fmt t_lw_begin_sections_0 [hex8_of_N v]] /\
  List.length [hex8_of_N v] = List.length t_lw_begin_sections_0_spec.
Proof. split; reflexivity. Qed.

Lemma u_lw_end_sections_0 a b :
  render_expr (ESub a b) = fmt t_lw_end_sections_0 [a; b] /\
  List.length [a; b] = List.length t_lw_end_sections_0_spec.
Proof. split; [|reflexivity]. unfold_tpl_lw; cbn [fmt render_expr]. rewrite sapp_nil_r. reflexivity. Qed.

(* the /DISCARD/ block: one pattern line per denied section from the template; the header, the braces and the wildcard
   line the wildcard discard line are plain literals in the Rust (the wildcard line happens to be the template applied to "*") *)
Lemma u_lw_end_sections_1 ind pats wild :
  render_stmt ind (SDiscard pats wild) =
  ([(indent_str ind ++ "/DISCARD/ :")%string; (indent_str ind ++ "{")%string] ++
   map (fun p => (indent_str (S ind) ++ fmt t_lw_end_sections_1 [p])%string) pats ++
   (if wild then [(indent_str (S ind) ++ "*(*);")%string] else []) ++
   [(indent_str ind ++ "}")%string])%list /\
  (forall p : string, List.length [p] = List.length t_lw_end_sections_1_spec).
Proof. split; [reflexivity | intro p; reflexivity]. Qed.

Lemma lw_discard_wildcard : "*(*);" = fmt t_lw_end_sections_1 ["*"].
Proof. reflexivity. Qed.

Lemma u_lw_add_segment_0 v :
  render_expr (EHex8 v) = fmt t_lw_add_segment_0 [hex8_of_N v] /\
  List.length [hex8_of_N v] = List.length t_lw_add_segment_0_spec.
Proof. split; [|reflexivity]. unfold_tpl_lw; cbn [fmt render_expr]. rewrite sapp_nil_r. reflexivity. Qed.

Lemma u_lw_add_segment_1 name :
  render_expr (EAddr ("." ++ name)) = fmt t_lw_add_segment_1 [name] /\
  List.length [name] = List.length t_lw_add_segment_1_spec.
Proof. split; reflexivity. Qed.

Lemma u_lw_add_segment_2 ind name :
  render_stmt ind (SRomAdd ("." ++ name)) = [indent_str ind ++ fmt t_lw_add_segment_2 [name]] /\
  List.length [name] = List.length t_lw_add_segment_2_spec.
Proof. split; reflexivity. Qed.

Lemma u_lw_add_single_segment_0 ind v :
  render_stmt ind (SAssign false false false "_gp" (EHex8 v)) =
  [indent_str ind ++ fmt t_lw_add_single_segment_0 [hex8_of_N v]] /\
  List.length [hex8_of_N v] = List.length t_lw_add_single_segment_0_spec.
Proof. split; reflexivity. Qed.

Lemma u_lw_add_single_segment_1 ind v :
  render_stmt ind (SAssign false false false "." (EHex8 v)) =
  [indent_str ind ++ fmt t_lw_add_single_segment_1 [hex8_of_N v]] /\
  List.length [hex8_of_N v] = List.length t_lw_add_single_segment_1_spec.
Proof. split; reflexivity. Qed.

Lemma u_lw_write_sym_end_size_0 a b :
  render_expr (EAbsSub a b) = fmt t_lw_write_sym_end_size_0 [a; b] /\
  List.length [a; b] = List.length t_lw_write_sym_end_size_0_spec.
Proof. split; reflexivity. Qed.

(* the name under which the symbols around the alloc / noload part of a segment are made: the WRITER glues it
   (Model/Writer.v [kind_name]); the Rust has the same template twice (write_sections_kind_start / _end) *)
Definition kind_word (noload : bool) : string := if noload then "noload" else "alloc".

Lemma u_lw_write_sections_kind_start_0 seg noload :
  kind_name seg noload = fmt t_lw_write_sections_kind_start_0 [sg_name seg; kind_word noload] /\
  List.length [sg_name seg; kind_word noload] = List.length t_lw_write_sections_kind_start_0_spec.
Proof. split; [|reflexivity]. destruct noload; reflexivity. Qed.

Lemma u_lw_write_sections_kind_end_0 seg noload :
  kind_name seg noload = fmt t_lw_write_sections_kind_end_0 [sg_name seg; kind_word noload] /\
  List.length [sg_name seg; kind_word noload] = List.length t_lw_write_sections_kind_end_0_spec.
Proof. split; [|reflexivity]. destruct noload; reflexivity. Qed.

Lemma u_lw_write_section_symbol_start_0 off :
  render_expr (EDotPlus off) = fmt t_lw_write_section_symbol_start_0 [hex_of_i32 off] /\
  List.length [hex_of_i32 off] = List.length t_lw_write_section_symbol_start_0_spec.
Proof. split; [|reflexivity]. unfold_tpl_lw; cbn [fmt render_expr]. rewrite sapp_nil_r. reflexivity. Qed.

(* --- the header line of an output section of the multi-segment script (write_segment_start): seven templates --- *)

Definition seg_suffix (noload : bool) : string := if noload then ".noload" else "".

(* _0: the name, "." segment suffix; the WRITER glues the same text (Model/Writer.v [write_segment]) *)
Lemma u_lw_write_segment_start_0 seg noload :
  "." ++ sg_name seg ++ seg_suffix noload = fmt t_lw_write_segment_start_0 [sg_name seg; seg_suffix noload] /\
  List.length [sg_name seg; seg_suffix noload] = List.length t_lw_write_segment_start_0_spec.
Proof. split; [|reflexivity]. destruct noload; reflexivity. Qed.

(* _1 .. _4: the four forms of the address, each with its leading blank; which one: [segment_addr] *)
Lemma u_lw_write_segment_start_1 v :
  " " ++ render_expr (EHex8 v) = fmt t_lw_write_segment_start_1 [hex8_of_N v] /\
  List.length [hex8_of_N v] = List.length t_lw_write_segment_start_1_spec.
Proof. split; [|reflexivity]. unfold_tpl_lw; cbn [fmt render_expr]. rewrite sapp_nil_r. reflexivity. Qed.

Lemma u_lw_write_segment_start_2 s :
  " " ++ render_expr (ERaw s) = fmt t_lw_write_segment_start_2 [s] /\
  List.length [s] = List.length t_lw_write_segment_start_2_spec.
Proof. split; [|reflexivity]. unfold_tpl_lw; cbn [fmt render_expr]. rewrite sapp_nil_r. reflexivity. Qed.

Lemma u_lw_write_segment_start_3 sty f :
  " " ++ render_expr (ESym (segment_vram_end sty f)) = fmt t_lw_write_segment_start_3 [segment_vram_end sty f] /\
  List.length [segment_vram_end sty f] = List.length t_lw_write_segment_start_3_spec.
Proof. split; [|reflexivity]. unfold_tpl_lw; cbn [fmt render_expr]. rewrite sapp_nil_r. reflexivity. Qed.

Lemma u_lw_write_segment_start_4 sty c :
  " " ++ render_expr (ESym (vram_class_start sty c)) = fmt t_lw_write_segment_start_4 [vram_class_start sty c] /\
  List.length [vram_class_start sty c] = List.length t_lw_write_segment_start_4_spec.
Proof. split; [|reflexivity]. unfold_tpl_lw; cbn [fmt render_expr]. rewrite sapp_nil_r. reflexivity. Qed.

(* the address text of a segment, by templates only *)
Definition header_addr_text (sty : style) (seg : segment) : string :=
  match sg_fixed_vram seg, sg_fixed_symbol seg, sg_follows_segment seg, sg_vram_class seg with
  | Some v, _, _, _ => fmt t_lw_write_segment_start_1 [hex8_of_N v]
  | None, Some s, _, _ => fmt t_lw_write_segment_start_2 [s]
  | None, None, Some f, _ => fmt t_lw_write_segment_start_3 [segment_vram_end sty f]
  | None, None, None, Some c => fmt t_lw_write_segment_start_4 [vram_class_start sty c]
  | None, None, None, None => ""
  end.

Lemma lw_header_addr_text sty seg :
  match segment_addr sty seg with Some e => " " ++ render_expr e | None => "" end = header_addr_text sty seg.
Proof.
  unfold segment_addr, header_addr_text.
  destruct (sg_fixed_vram seg) as [v|].
  { exact (proj1 (u_lw_write_segment_start_1 v)). }
  destruct (sg_fixed_symbol seg) as [s|].
  { exact (proj1 (u_lw_write_segment_start_2 s)). }
  destruct (sg_follows_segment seg) as [f|].
  { exact (proj1 (u_lw_write_segment_start_3 sty f)). }
  destruct (sg_vram_class seg) as [c|].
  { exact (proj1 (u_lw_write_segment_start_4 sty c)). }
  reflexivity.
Qed.

(* _5: the load address *)
Lemma u_lw_write_segment_start_5 rom :
  " : AT(" ++ rom ++ ")" = fmt t_lw_write_segment_start_5 [rom] /\
  List.length [rom] = List.length t_lw_write_segment_start_5_spec.
Proof. split; reflexivity. Qed.

(* _6: SUBALIGN *)
Definition subalign_text (t : list string) (sub : option N) : string :=
  match sub with Some n => fmt t [dec_of_N n] | None => "" end.

Lemma u_lw_write_segment_start_6 n :
  " SUBALIGN(" ++ dec_of_N n ++ ")" = fmt t_lw_write_segment_start_6 [dec_of_N n] /\
  List.length [dec_of_N n] = List.length t_lw_write_segment_start_6_spec.
Proof. split; reflexivity. Qed.

(* the allocated part: any address, a load address *)
Lemma lw_header_alloc_any name addr rom sub :
  render_header ("." ++ name) addr (Some rom) false sub =
  fmt t_lw_write_segment_start_0 [name; ""] ++
  match addr with Some e => " " ++ render_expr e | None => "" end ++
  fmt t_lw_write_segment_start_5 [rom] ++
  subalign_text t_lw_write_segment_start_6 sub.
Proof.
  unfold render_header, subalign_text; unfold_tpl_lw; cbn [fmt].
  destruct addr, sub; cbn; repeat rewrite sapp_nil_r; repeat rewrite sapp_assoc; cbn; repeat rewrite sapp_assoc;
    reflexivity.
Qed.

(* the (NOLOAD) part: no address, no load address; " (NOLOAD) :" is a plain literal in the Rust *)
Lemma lw_header_noload name sub :
  render_header ("." ++ name ++ ".noload") None None true sub =
  fmt t_lw_write_segment_start_0 [name; ".noload"] ++ " (NOLOAD) :" ++
  subalign_text t_lw_write_segment_start_6 sub.
Proof.
  unfold render_header, subalign_text; unfold_tpl_lw; cbn [fmt].
  destruct sub; cbn; repeat rewrite sapp_nil_r; repeat rewrite sapp_assoc; cbn; repeat rewrite sapp_assoc;
    reflexivity.
Qed.

(* the header line exactly as [write_segment] asks for it, for both parts, by templates only *)
Definition segment_header_text (sty : style) (seg : segment) (noload : bool) : string :=
  fmt t_lw_write_segment_start_0 [sg_name seg; seg_suffix noload] ++
  (if noload then " (NOLOAD) :"
   else header_addr_text sty seg ++ fmt t_lw_write_segment_start_5 [segment_rom_start sty (sg_name seg)]) ++
  subalign_text t_lw_write_segment_start_6 (subalign seg).

Lemma lw_header_segment sty seg noload :
  render_header ("." ++ sg_name seg ++ seg_suffix noload)
                (if noload then None else segment_addr sty seg)
                (if noload then None else Some (segment_rom_start sty (sg_name seg)))
                noload (subalign seg) =
  segment_header_text sty seg noload.
Proof.
  unfold segment_header_text. destruct noload; cbn [seg_suffix].
  - apply lw_header_noload.
  - rewrite sapp_nil_r. rewrite lw_header_alloc_any, lw_header_addr_text. rewrite sapp_assoc. reflexivity.
Qed.

(* --- emit_file --- *)

Lemma u_lw_emit_file_0 ind keep path sect wild :
  render_stmt ind (SInput keep path None sect wild) =
  [indent_str ind ++
   fmt t_lw_emit_file_0 [if keep then "KEEP(" else ""; path; sect; if wild then "*" else ""; if keep then ")" else ""]] /\
  List.length [if keep then "KEEP(" else ""; path; sect; if wild then "*" else ""; if keep then ")" else ""] =
  List.length t_lw_emit_file_0_spec.
Proof. split; [|reflexivity]. destruct keep, wild; reflexivity. Qed.

Lemma u_lw_emit_file_1 ind keep path sub sect wild :
  render_stmt ind (SInput keep path (Some sub) sect wild) =
  [indent_str ind ++
   fmt t_lw_emit_file_1
       [if keep then "KEEP(" else ""; path; sub; sect; if wild then "*" else ""; if keep then ")" else ""]] /\
  List.length [if keep then "KEEP(" else ""; path; sub; sect; if wild then "*" else ""; if keep then ")" else ""] =
  List.length t_lw_emit_file_1_spec.
Proof. split; [|reflexivity]. destruct keep, wild; reflexivity. Qed.

Lemma u_lw_emit_file_2 ind n :
  render_stmt ind (SDotAdd n) = [indent_str ind ++ fmt t_lw_emit_file_2 [hex_of_N n]] /\
  List.length [hex_of_N n] = List.length t_lw_emit_file_2_spec.
Proof. split; reflexivity. Qed.

(* --- write_segment / write_single_segment --- *)

Lemma u_lw_write_segment_0 ind n :
  render_stmt ind (SFill n) = [indent_str ind ++ fmt t_lw_write_segment_0 [hex8_of_N n]] /\
  List.length [hex8_of_N n] = List.length t_lw_write_segment_0_spec.
Proof. split; reflexivity. Qed.

Definition noload_word (noload : bool) : string := if noload then " (NOLOAD)" else "".

(* the header line of an output section of the single-segment script: the section name as it is, the (NOLOAD) word as
   the second argument; _1: SUBALIGN *)
Lemma u_lw_write_single_segment_0_1 sect noload sub :
  render_header sect None None noload sub =
  fmt t_lw_write_single_segment_0 [sect; noload_word noload] ++
  subalign_text t_lw_write_single_segment_1 sub /\
  List.length [sect; noload_word noload] = List.length t_lw_write_single_segment_0_spec /\
  (forall n, List.length [dec_of_N n] = List.length t_lw_write_single_segment_1_spec).
Proof.
  split; [|split; [reflexivity | intro n; reflexivity]].
  unfold render_header, subalign_text, noload_word; unfold_tpl_lw; cbn [fmt].
  destruct noload, sub; cbn; repeat rewrite sapp_nil_r; repeat rewrite sapp_assoc; cbn; repeat rewrite sapp_assoc;
    reflexivity.
Qed.

Lemma u_lw_write_single_segment_2 ind n :
  render_stmt ind (SFill n) = [indent_str ind ++ fmt t_lw_write_single_segment_2 [hex8_of_N n]] /\
  List.length [hex8_of_N n] = List.length t_lw_write_single_segment_2_spec.
Proof. split; reflexivity. Qed.

(* ------------------------------------------------------------------------------------------------------------------ *)
(* (c) Model/Writer.v: where the writer builds a text or picks the statement, tied to the templates                   *)
(* ------------------------------------------------------------------------------------------------------------------ *)

(* the first line of an output section is its header *)
Lemma outsec_first_line ind name addr at_ noload sub body :
  exists rest,
    render_stmt ind (SOutSec name addr at_ noload sub body) =
    ((indent_str ind ++ render_header name addr at_ noload sub) :: rest).
Proof. eexists. cbn [render_stmt app]. reflexivity. Qed.

(* write_segment: the statements are the kind symbols around ONE output section whose header line is, for both parts,
   the concatenation of the write_segment_start templates *)
Lemma w_write_segment_header rt st cfg seg sections noload ws o :
  write_segment rt st cfg seg sections noload ws = Ok o ->
  exists body,
    fst o =
    (sections_kind_start (linker_symbols_style st) cfg seg noload ++
     [SOutSec ("." ++ sg_name seg ++ seg_suffix noload)%string
              (if noload then None else segment_addr (linker_symbols_style st) seg)
              (if noload then None else Some (segment_rom_start (linker_symbols_style st) (sg_name seg)))
              noload (subalign seg) body] ++
     sections_kind_end (linker_symbols_style st) cfg seg noload)%list /\
    forall ind, exists rest,
      render_stmt ind
        (SOutSec ("." ++ sg_name seg ++ seg_suffix noload)
                 (if noload then None else segment_addr (linker_symbols_style st) seg)
                 (if noload then None else Some (segment_rom_start (linker_symbols_style st) (sg_name seg)))
                 noload (subalign seg) body) =
      ((indent_str ind ++ segment_header_text (linker_symbols_style st) seg noload) :: rest).
Proof.
  unfold write_segment. intro H.
  destruct (part_groups rt st cfg seg sections sections ws) as [o1|e] eqn:E; cbn [bind] in H; [|discriminate H].
  injection H as H. subst o. cbn [fst]. eexists. split; [reflexivity|].
  intro ind. rewrite <- lw_header_segment. apply outsec_first_line.
Qed.

(* the kind symbols: [kind_name] replaced by the template in the statements the writer makes *)
Lemma w_sections_kind_start sty cfg seg noload :
  sections_kind_start sty cfg seg noload =
  if kind_syms cfg
  then [SAssign false false true
                (segment_vram_start sty (fmt t_lw_write_sections_kind_start_0 [sg_name seg; kind_word noload])) EDot;
        SBlank]
  else [].
Proof.
  unfold sections_kind_start, linker_symbol.
  rewrite (proj1 (u_lw_write_sections_kind_start_0 seg noload)). reflexivity.
Qed.

Lemma w_sections_kind_end sty cfg seg noload :
  sections_kind_end sty cfg seg noload =
  if kind_syms cfg
  then let k := fmt t_lw_write_sections_kind_end_0 [sg_name seg; kind_word noload] in
       [SBlank;
        SAssign false false true (segment_vram_end sty k) EDot;
        SAssign false false true (segment_vram_size sty k) (EAbsSub (segment_vram_end sty k) (segment_vram_start sty k))]
  else [].
Proof.
  unfold sections_kind_end, sym_end_size, linker_symbol.
  rewrite (proj1 (u_lw_write_sections_kind_end_0 seg noload)). reflexivity.
Qed.

(* ... and their lines: three plain assignments, the size through ABSOLUTE(end - start) *)
Lemma w_kind_lines sty cfg seg ind :
  kind_syms cfg = true ->
  forall noload,
    let k0 := fmt t_lw_write_sections_kind_start_0 [sg_name seg; kind_word noload] in
    let k1 := fmt t_lw_write_sections_kind_end_0 [sg_name seg; kind_word noload] in
    flat_map (render_stmt ind) (sections_kind_start sty cfg seg noload) =
    [indent_str ind ++ fmt t_sb_write_symbol_assignment_3 [segment_vram_start sty k0; "."]; ""] /\
    flat_map (render_stmt ind) (sections_kind_end sty cfg seg noload) =
    [""; indent_str ind ++ fmt t_sb_write_symbol_assignment_3 [segment_vram_end sty k1; "."];
     indent_str ind ++ fmt t_sb_write_symbol_assignment_3
       [segment_vram_size sty k1;
        fmt t_lw_write_sym_end_size_0 [segment_vram_end sty k1; segment_vram_start sty k1]]].
Proof.
  intros Hk noload k0 k1. subst k0 k1.
  rewrite w_sections_kind_start, w_sections_kind_end, Hk. split; reflexivity.
Qed.

(* every symbol the writer defines goes through [linker_symbol] = the plain assignment template *)
Lemma w_linker_symbol ind sym e :
  render_stmt ind (linker_symbol sym e) =
  [indent_str ind ++ fmt t_sb_write_symbol_assignment_3 [sym; render_expr e]].
Proof. reflexivity. Qed.

(* add_segment: the address of a class with a fixed address (t_lw_add_segment_0), the start of the segment
   (t_lw_add_segment_1), the ROM bookkeeping (t_lw_add_segment_2): the writer's "." ++ name is the template's "." *)
Lemma w_class_fixed_vram ind sym v :
  render_stmt ind (linker_symbol sym (EHex8 v)) =
  [indent_str ind ++ fmt t_sb_write_symbol_assignment_3 [sym; fmt t_lw_add_segment_0 [hex8_of_N v]]].
Proof. rewrite w_linker_symbol, (proj1 (u_lw_add_segment_0 v)). reflexivity. Qed.

Lemma w_segment_vram_start ind sym name :
  render_stmt ind (linker_symbol sym (EAddr ("." ++ name))) =
  [indent_str ind ++ fmt t_sb_write_symbol_assignment_3 [sym; fmt t_lw_add_segment_1 [name]]].
Proof. reflexivity. Qed.

(* end_sections: the size of a class *)
Lemma w_class_size ind size end_ start :
  render_stmt ind (linker_symbol size (ESub end_ start)) =
  [indent_str ind ++ fmt t_sb_write_symbol_assignment_3 [size; fmt t_lw_end_sections_0 [end_; start]]].
Proof. rewrite w_linker_symbol, (proj1 (u_lw_end_sections_0 end_ start)). reflexivity. Qed.

(* sym_end_size: the end symbol, then the size as ABSOLUTE(end - start) *)
Lemma w_sym_end_size ind start end_ size value :
  flat_map (render_stmt ind) (sym_end_size start end_ size value) =
  [indent_str ind ++ fmt t_sb_write_symbol_assignment_3 [end_; render_expr value];
   indent_str ind ++ fmt t_sb_write_symbol_assignment_3 [size; fmt t_lw_write_sym_end_size_0 [end_; start]]].
Proof. reflexivity. Qed.

(* write_section_symbol_start: _gp, with the user's provide / hidden, at an offset from "." *)
Lemma w_gp ind p h off :
  render_stmt ind (SAssign p h false "_gp" (EDotPlus off)) =
  [indent_str ind ++ fmt (assign_tpl p h) ["_gp"; fmt t_lw_write_section_symbol_start_0 [hex_of_i32 off]]].
Proof. rewrite u_sb_assign, (proj1 (u_lw_write_section_symbol_start_0 off)). reflexivity. Qed.

(* begin_sections / add_single_segment: the hard-coded _gp *)
Lemma w_hardcoded_gp st ind :
  flat_map (render_stmt ind) (hardcoded_gp_stmts st) =
  match hardcoded_gp_value st with
  | Some v => [indent_str ind ++ fmt t_lw_begin_sections_0 [hex8_of_N v]]
  | None => []
  end.
Proof. unfold hardcoded_gp_stmts. destruct (hardcoded_gp_value st); reflexivity. Qed.

(* LinkerWriter::new: the version comment *)
Lemma w_version rt ind :
  flat_map (render_stmt ind) (version_stmts rt) =
  if rt_emit_version_comment rt
  then [indent_str ind ++
        fmt t_lw_new_0 [dec_of_N version_major; dec_of_N version_minor; dec_of_N version_patch]; ""]
  else [].
Proof. unfold version_stmts. destruct (rt_emit_version_comment rt); reflexivity. Qed.

(* end_sections: the single-entry sections of the allow lists *)
Lemma w_single_entries ind l :
  flat_map (render_stmt ind) (map SSingleEntry l) =
  map (fun s => indent_str ind ++ fmt t_sb_write_single_entry_section_0 [s; "0"; s]) l.
Proof. induction l as [|s l IH]; [reflexivity|]. cbn [map flat_map]. rewrite IH. reflexivity. Qed.

(* the ALIGN lines before a section / segment symbol: "." aligned in place *)
Lemma w_opt_align ind a :
  flat_map (render_stmt ind) (opt_align a) =
  match a with
  | Some n => [indent_str ind ++ fmt t_sb_align_symbol_0 ["."; "."; hex_of_N n]]
  | None => []
  end.
Proof. destruct a; reflexivity. Qed.

(* add_entry *)
Lemma w_entry ind e :
  flat_map (render_stmt ind) (entry_stmts e) =
  match e with
  | Some s => [""; indent_str ind ++ fmt t_lw_add_entry_0 [s]]
  | None => []
  end.
Proof. destruct e; reflexivity. Qed.

(* the FILL line that opens an output section, multi-segment and single-segment writer *)
Lemma w_opt_fill ind seg :
  flat_map (render_stmt ind) (opt_fill seg) =
  match fill_value seg with
  | Some v => [indent_str ind ++ fmt t_lw_write_segment_0 [hex8_of_N v]]
  | None => []
  end.
Proof. unfold opt_fill. destruct (fill_value seg); reflexivity. Qed.

Lemma w_opt_fill_single ind seg :
  flat_map (render_stmt ind) (opt_fill seg) =
  match fill_value seg with
  | Some v => [indent_str ind ++ fmt t_lw_write_single_segment_2 [hex8_of_N v]]
  | None => []
  end.
Proof. unfold opt_fill. destruct (fill_value seg); reflexivity. Qed.

Lemma w_hardcoded_gp_single st ind :
  flat_map (render_stmt ind) (hardcoded_gp_stmts st) =
  match hardcoded_gp_value st with
  | Some v => [indent_str ind ++ fmt t_lw_add_single_segment_0 [hex8_of_N v]]
  | None => []
  end.
Proof. unfold hardcoded_gp_stmts. destruct (hardcoded_gp_value st); reflexivity. Qed.

(* ------------------------------------------------------------------------------------------------------------------ *)
(* the obligations are not vacuous: one character of a template changed, and the equation is false                    *)
(* ------------------------------------------------------------------------------------------------------------------ *)

(* the ';' of the /DISCARD/ pattern line dropped *)
Definition t_lw_end_sections_1_perturbed : list string := ["*("; ")"].

Lemma perturbed_discard_differs : t_lw_end_sections_1_perturbed <> t_lw_end_sections_1.
Proof. vm_compute; discriminate. Qed.

Lemma perturbed_discard_fails :
  render_stmt 1 (SDiscard [".reginfo"] true) <>
  ([(indent_str 1 ++ "/DISCARD/ :")%string; (indent_str 1 ++ "{")%string] ++
   map (fun p => (indent_str 2 ++ fmt t_lw_end_sections_1_perturbed [p])%string) [".reginfo"] ++
   [(indent_str 2 ++ "*(*);")%string] ++ [(indent_str 1 ++ "}")%string])%list.
Proof. vm_compute; discriminate. Qed.

(* literally: the equation of [u_lw_end_sections_1] restated with the perturbed template is not closed by the proof
   script that closes the original (and, by the lemmas around it, by no script at all) *)
Goal forall ind pats wild,
  render_stmt ind (SDiscard pats wild) =
  ([(indent_str ind ++ "/DISCARD/ :")%string; (indent_str ind ++ "{")%string] ++
   map (fun p => (indent_str (S ind) ++ fmt t_lw_end_sections_1_perturbed [p])%string) pats ++
   (if wild then [(indent_str (S ind) ++ "*(*);")%string] else []) ++
   [(indent_str ind ++ "}")%string])%list.
Proof. intros ind pats wild. Fail reflexivity. Abort.

(* ... for every pattern, not just one *)
Lemma perturbed_discard_fails_all ind p :
  indent_str ind ++ "*(" ++ p ++ ");" <> indent_str ind ++ fmt t_lw_end_sections_1_perturbed [p].
Proof.
  intro H. apply sapp_inj_l in H. cbn in H. injection H as H.
  induction p as [|c p IH]; cbn in H; [discriminate H | injection H as H; exact (IH H)].
Qed.

(* the '_' of the kind name changed to '.' *)
Definition t_lw_write_sections_kind_start_0_perturbed : list string := [""; "."; ""].

Lemma perturbed_kind_differs : t_lw_write_sections_kind_start_0_perturbed <> t_lw_write_sections_kind_start_0.
Proof. vm_compute; discriminate. Qed.

Lemma perturbed_kind_fails seg noload :
  kind_name seg noload <> fmt t_lw_write_sections_kind_start_0_perturbed [sg_name seg; kind_word noload].
Proof.
  unfold kind_name, t_lw_write_sections_kind_start_0_perturbed. cbn [fmt]. intro H.
  change ("" ++ sg_name seg ++ "." ++ kind_word noload ++ "" ++ "") with (sg_name seg ++ "." ++ kind_word noload ++ "")
    in H.
  apply sapp_inj_l in H. discriminate H.
Qed.

(* the 'x' of the fixed address of a segment in upper case *)
Definition t_lw_write_segment_start_1_perturbed : list string := [" 0X"; ""].

Lemma perturbed_addr_differs : t_lw_write_segment_start_1_perturbed <> t_lw_write_segment_start_1.
Proof. vm_compute; discriminate. Qed.

Lemma perturbed_addr_fails v :
  " " ++ render_expr (EHex8 v) <> fmt t_lw_write_segment_start_1_perturbed [hex8_of_N v].
Proof. cbn [render_expr fmt t_lw_write_segment_start_1_perturbed]. intro H. discriminate H. Qed.

(* a hole removed: the arity law of the template fails *)
Definition t_sb_write_symbol_max_self_0_perturbed : list string := [""; " = MAX("; ");"].

Lemma perturbed_arity_fails :
  List.length t_sb_write_symbol_max_self_0_perturbed <> List.length t_sb_write_symbol_max_self_0_spec + 1 /\
  fmt_strict t_sb_write_symbol_max_self_0_perturbed ["a"; "a"; "b"] = None /\
  render_stmt 0 (SMaxSelf "a" "b") <> [indent_str 0 ++ fmt t_sb_write_symbol_max_self_0_perturbed ["a"; "a"; "b"]].
Proof. repeat split; vm_compute; discriminate. Qed.

(* ------------------------------------------------------------------------------------------------------------------ *)
(* the statements of Properties/C19Tables.v                                                                           *)
(* ------------------------------------------------------------------------------------------------------------------ *)

(* (a) the strict reading of format! and the tolerant [fmt] of the model agree exactly when the arity is right *)
Lemma tables_fmt_strict :
  (forall pieces args : list string,
     List.length pieces = S (List.length args) -> fmt_strict pieces args = Some (fmt pieces args)) /\
  (forall (pieces args : list string) (s : string),
     fmt_strict pieces args = Some s -> List.length pieces = S (List.length args) /\ fmt pieces args = s).
Proof.
  split.
  - exact fmt_strict_exact.
  - intros pieces args s H. split; [exact (fmt_strict_arity _ _ _ H) | exact (fmt_strict_fmt _ _ _ H)].
Qed.

Lemma tables_arity :
  (* 1. every template constant: one piece more than holes; the specs *)
  Forall (fun ts => List.length (fst ts) = List.length (snd ts) + 1) all_templates /\
  map snd all_templates =
  [ [""; ""; ""]; [""; ""]; [""; ""]; [""; ""]; [""; ""]; [""; ""; ":X"]; [""; ""; ""]; [""; ""]; [""]; [""]; [""];
    [""; ""; ""]; [""]; [":08X"]; [""; ""]; [""]; [":08X"]; [""]; [""]; [":08X"]; [":08X"]; [""; ""]; [""; ""];
    [""; ""]; [":X"]; [""; ""]; [":08X"]; [""]; [""]; [""]; [""]; [""]; [""; ""; ""; ""; ""];
    [""; ""; ""; ""; ""; ""]; [":X"]; [":08X"]; [""; ""]; [""]; [":08X"] ]%list /\
  (forall pieces spec args : list string,
     In (pieces, spec) all_templates -> List.length args = List.length spec ->
     fmt_strict pieces args = Some (fmt pieces args)) /\
  (* 2. every use: the equation, and as many arguments as the template has holes.  script_buffer.rs *)
  (forall ind s,
     render_stmt ind (SSingleEntry s) = [indent_str ind ++ fmt t_sb_write_single_entry_section_0 [s; "0"; s]] /\
     List.length [s; "0"; s] = List.length t_sb_write_single_entry_section_0_spec) /\
  (forall ind r sym e,
     render_stmt ind (SAssign true true r sym e) =
     [indent_str ind ++ fmt t_sb_write_symbol_assignment_0 [sym; render_expr e]] /\
     List.length [sym; render_expr e] = List.length t_sb_write_symbol_assignment_0_spec) /\
  (forall ind r sym e,
     render_stmt ind (SAssign true false r sym e) =
     [indent_str ind ++ fmt t_sb_write_symbol_assignment_1 [sym; render_expr e]] /\
     List.length [sym; render_expr e] = List.length t_sb_write_symbol_assignment_1_spec) /\
  (forall ind r sym e,
     render_stmt ind (SAssign false true r sym e) =
     [indent_str ind ++ fmt t_sb_write_symbol_assignment_2 [sym; render_expr e]] /\
     List.length [sym; render_expr e] = List.length t_sb_write_symbol_assignment_2_spec) /\
  (forall ind r sym e,
     render_stmt ind (SAssign false false r sym e) =
     [indent_str ind ++ fmt t_sb_write_symbol_assignment_3 [sym; render_expr e]] /\
     List.length [sym; render_expr e] = List.length t_sb_write_symbol_assignment_3_spec) /\
  (forall ind sym n,
     render_stmt ind (SAlign sym n) = [indent_str ind ++ fmt t_sb_align_symbol_0 [sym; sym; hex_of_N n]] /\
     List.length [sym; sym; hex_of_N n] = List.length t_sb_align_symbol_0_spec) /\
  (forall ind sym other,
     render_stmt ind (SMaxSelf sym other) = [indent_str ind ++ fmt t_sb_write_symbol_max_self_0 [sym; sym; other]] /\
     List.length [sym; sym; other] = List.length t_sb_write_symbol_max_self_0_spec) /\
  (forall ind c m,
     render_stmt ind (SAssert c m) = [indent_str ind ++ fmt t_sb_write_assert_0 [c; m]] /\
     List.length [c; m] = List.length t_sb_write_assert_0_spec) /\
  (forall ind n,
     render_stmt ind (SExtern n) = [indent_str ind ++ fmt t_sb_write_required_symbol_0 [n]] /\
     List.length [n] = List.length t_sb_write_required_symbol_0_spec) /\
  (forall n,
     "DEFINED(" ++ n ++ ")" = fmt t_sb_write_required_symbol_1 [n] /\
     List.length [n] = List.length t_sb_write_required_symbol_1_spec) /\
  (forall n,
     required_msg n = fmt t_sb_write_required_symbol_2 [n] /\
     List.length [n] = List.length t_sb_write_required_symbol_2_spec) /\
  (* linker_writer.rs *)
  (forall ind,
     render_stmt ind (SComment version_comment_text) =
     [indent_str ind ++ fmt t_lw_new_0 [dec_of_N version_major; dec_of_N version_minor; dec_of_N version_patch]] /\
     List.length [dec_of_N version_major; dec_of_N version_minor; dec_of_N version_patch] =
     List.length t_lw_new_0_spec) /\
  (forall ind e,
     render_stmt ind (SEntry e) = [indent_str ind ++ fmt t_lw_add_entry_0 [e]] /\
     List.length [e] = List.length t_lw_add_entry_0_spec) /\
  (forall ind v,
     render_stmt ind (SAssign false false false "_gp" (EHex8 v)) =
     [indent_str ind ++ fmt t_lw_begin_sections_0 [hex8_of_N v]] /\
     List.length [hex8_of_N v] = List.length t_lw_begin_sections_0_spec) /\
  (forall a b,
     render_expr (ESub a b) = fmt t_lw_end_sections_0 [a; b] /\
     List.length [a; b] = List.length t_lw_end_sections_0_spec) /\
  (forall ind pats wild,
     render_stmt ind (SDiscard pats wild) =
     ([(indent_str ind ++ "/DISCARD/ :")%string; (indent_str ind ++ "{")%string] ++
      map (fun p => (indent_str (S ind) ++ fmt t_lw_end_sections_1 [p])%string) pats ++
      (if wild then [(indent_str (S ind) ++ "*(*);")%string] else []) ++
      [(indent_str ind ++ "}")%string])%list /\
     (forall p : string, List.length [p] = List.length t_lw_end_sections_1_spec)) /\
  (forall v,
     render_expr (EHex8 v) = fmt t_lw_add_segment_0 [hex8_of_N v] /\
     List.length [hex8_of_N v] = List.length t_lw_add_segment_0_spec) /\
  (forall name,
     render_expr (EAddr ("." ++ name)) = fmt t_lw_add_segment_1 [name] /\
     List.length [name] = List.length t_lw_add_segment_1_spec) /\
  (forall ind name,
     render_stmt ind (SRomAdd ("." ++ name)) = [indent_str ind ++ fmt t_lw_add_segment_2 [name]] /\
     List.length [name] = List.length t_lw_add_segment_2_spec) /\
  (forall ind v,
     render_stmt ind (SAssign false false false "_gp" (EHex8 v)) =
     [indent_str ind ++ fmt t_lw_add_single_segment_0 [hex8_of_N v]] /\
     List.length [hex8_of_N v] = List.length t_lw_add_single_segment_0_spec) /\
  (forall ind v,
     render_stmt ind (SAssign false false false "." (EHex8 v)) =
     [indent_str ind ++ fmt t_lw_add_single_segment_1 [hex8_of_N v]] /\
     List.length [hex8_of_N v] = List.length t_lw_add_single_segment_1_spec) /\
  (forall a b,
     render_expr (EAbsSub a b) = fmt t_lw_write_sym_end_size_0 [a; b] /\
     List.length [a; b] = List.length t_lw_write_sym_end_size_0_spec) /\
  (forall seg noload,
     kind_name seg noload = fmt t_lw_write_sections_kind_start_0 [sg_name seg; kind_word noload] /\
     List.length [sg_name seg; kind_word noload] = List.length t_lw_write_sections_kind_start_0_spec) /\
  (forall seg noload,
     kind_name seg noload = fmt t_lw_write_sections_kind_end_0 [sg_name seg; kind_word noload] /\
     List.length [sg_name seg; kind_word noload] = List.length t_lw_write_sections_kind_end_0_spec) /\
  (forall off,
     render_expr (EDotPlus off) = fmt t_lw_write_section_symbol_start_0 [hex_of_i32 off] /\
     List.length [hex_of_i32 off] = List.length t_lw_write_section_symbol_start_0_spec) /\
  (forall seg noload,
     "." ++ sg_name seg ++ seg_suffix noload = fmt t_lw_write_segment_start_0 [sg_name seg; seg_suffix noload] /\
     List.length [sg_name seg; seg_suffix noload] = List.length t_lw_write_segment_start_0_spec) /\
  (forall v,
     " " ++ render_expr (EHex8 v) = fmt t_lw_write_segment_start_1 [hex8_of_N v] /\
     List.length [hex8_of_N v] = List.length t_lw_write_segment_start_1_spec) /\
  (forall s,
     " " ++ render_expr (ERaw s) = fmt t_lw_write_segment_start_2 [s] /\
     List.length [s] = List.length t_lw_write_segment_start_2_spec) /\
  (forall sty f,
     " " ++ render_expr (ESym (segment_vram_end sty f)) = fmt t_lw_write_segment_start_3 [segment_vram_end sty f] /\
     List.length [segment_vram_end sty f] = List.length t_lw_write_segment_start_3_spec) /\
  (forall sty c,
     " " ++ render_expr (ESym (vram_class_start sty c)) = fmt t_lw_write_segment_start_4 [vram_class_start sty c] /\
     List.length [vram_class_start sty c] = List.length t_lw_write_segment_start_4_spec) /\
  (forall name addr rom sub,
     render_header ("." ++ name) addr (Some rom) false sub =
     fmt t_lw_write_segment_start_0 [name; ""] ++
     match addr with Some e => " " ++ render_expr e | None => "" end ++
     fmt t_lw_write_segment_start_5 [rom] ++
     subalign_text t_lw_write_segment_start_6 sub /\
     List.length [name; ""] = List.length t_lw_write_segment_start_0_spec /\
     List.length [rom] = List.length t_lw_write_segment_start_5_spec /\
     (forall n, List.length [dec_of_N n] = List.length t_lw_write_segment_start_6_spec)) /\
  (forall ind keep path sect wild,
     render_stmt ind (SInput keep path None sect wild) =
     [indent_str ind ++
      fmt t_lw_emit_file_0
          [if keep then "KEEP(" else ""; path; sect; if wild then "*" else ""; if keep then ")" else ""]] /\
     List.length [if keep then "KEEP(" else ""; path; sect; if wild then "*" else ""; if keep then ")" else ""] =
     List.length t_lw_emit_file_0_spec) /\
  (forall ind keep path sub sect wild,
     render_stmt ind (SInput keep path (Some sub) sect wild) =
     [indent_str ind ++
      fmt t_lw_emit_file_1
          [if keep then "KEEP(" else ""; path; sub; sect; if wild then "*" else ""; if keep then ")" else ""]] /\
     List.length [if keep then "KEEP(" else ""; path; sub; sect; if wild then "*" else ""; if keep then ")" else ""] =
     List.length t_lw_emit_file_1_spec) /\
  (forall ind n,
     render_stmt ind (SDotAdd n) = [indent_str ind ++ fmt t_lw_emit_file_2 [hex_of_N n]] /\
     List.length [hex_of_N n] = List.length t_lw_emit_file_2_spec) /\
  (forall ind n,
     render_stmt ind (SFill n) = [indent_str ind ++ fmt t_lw_write_segment_0 [hex8_of_N n]] /\
     List.length [hex8_of_N n] = List.length t_lw_write_segment_0_spec) /\
  (forall sect noload sub,
     render_header sect None None noload sub =
     fmt t_lw_write_single_segment_0 [sect; noload_word noload] ++
     subalign_text t_lw_write_single_segment_1 sub /\
     List.length [sect; noload_word noload] = List.length t_lw_write_single_segment_0_spec /\
     (forall n, List.length [dec_of_N n] = List.length t_lw_write_single_segment_1_spec)) /\
  (forall ind n,
     render_stmt ind (SFill n) = [indent_str ind ++ fmt t_lw_write_single_segment_2 [hex8_of_N n]] /\
     List.length [hex8_of_N n] = List.length t_lw_write_single_segment_2_spec).
Proof.
  split; [exact templates_arity|].
  split; [exact templates_specs|].
  split.
  { intros pieces spec args Hin Hlen. apply (use_strict pieces spec args); [|exact Hlen].
    pose proof (proj1 (Forall_forall _ _) templates_arity (pieces, spec) Hin) as H. cbn [fst snd] in H.
    rewrite H. rewrite PeanoNat.Nat.add_1_r. reflexivity. }
  split; [exact u_sb_write_single_entry_section_0|].
  split; [exact u_sb_write_symbol_assignment_0|].
  split; [exact u_sb_write_symbol_assignment_1|].
  split; [exact u_sb_write_symbol_assignment_2|].
  split; [exact u_sb_write_symbol_assignment_3|].
  split; [exact u_sb_align_symbol_0|].
  split; [exact u_sb_write_symbol_max_self_0|].
  split; [exact u_sb_write_assert_0|].
  split; [exact u_sb_write_required_symbol_0|].
  split; [exact u_sb_write_required_symbol_1|].
  split; [exact u_sb_write_required_symbol_2|].
  split; [exact u_lw_new_0|].
  split; [exact u_lw_add_entry_0|].
  split; [exact u_lw_begin_sections_0|].
  split; [exact u_lw_end_sections_0|].
  split; [exact u_lw_end_sections_1|].
  split; [exact u_lw_add_segment_0|].
  split; [exact u_lw_add_segment_1|].
  split; [exact u_lw_add_segment_2|].
  split; [exact u_lw_add_single_segment_0|].
  split; [exact u_lw_add_single_segment_1|].
  split; [exact u_lw_write_sym_end_size_0|].
  split; [exact u_lw_write_sections_kind_start_0|].
  split; [exact u_lw_write_sections_kind_end_0|].
  split; [exact u_lw_write_section_symbol_start_0|].
  split; [exact u_lw_write_segment_start_0|].
  split; [exact u_lw_write_segment_start_1|].
  split; [exact u_lw_write_segment_start_2|].
  split; [exact u_lw_write_segment_start_3|].
  split; [exact u_lw_write_segment_start_4|].
  split.
  { intros name addr rom sub. split; [apply lw_header_alloc_any|].
    split; [reflexivity|]. split; [reflexivity|]. intro n; reflexivity. }
  split; [exact u_lw_emit_file_0|].
  split; [exact u_lw_emit_file_1|].
  split; [exact u_lw_emit_file_2|].
  split; [exact u_lw_write_segment_0|].
  split; [exact u_lw_write_single_segment_0_1|].
  exact u_lw_write_single_segment_2.
Qed.

(* (b)+(c): for every template constant, in source order, the route by which the MODEL produces its text - the
   statement the writer makes (Model/Writer.v) rendered by Model/Script.v, or the text the writer glues itself *)
Lemma tables_coverage :
  (* t_sb_write_single_entry_section_0: end_sections, the allow lists *)
  (forall ind l,
     flat_map (render_stmt ind) (map SSingleEntry l) =
     map (fun s => indent_str ind ++ fmt t_sb_write_single_entry_section_0 [s; "0"; s]) l) /\
  (* t_sb_write_symbol_assignment_0 .. _3: every assignment, user's or writer's *)
  (forall ind p h r sym e,
     render_stmt ind (SAssign p h r sym e) =
     [indent_str ind ++
      fmt (match p, h with
           | true, true => t_sb_write_symbol_assignment_0
           | true, false => t_sb_write_symbol_assignment_1
           | false, true => t_sb_write_symbol_assignment_2
           | false, false => t_sb_write_symbol_assignment_3
           end) [sym; render_expr e]]) /\
  (forall ind sym e,
     render_stmt ind (linker_symbol sym e) =
     [indent_str ind ++ fmt t_sb_write_symbol_assignment_3 [sym; render_expr e]]) /\
  (* t_sb_align_symbol_0 *)
  (forall ind sym n,
     render_stmt ind (SAlign sym n) = [indent_str ind ++ fmt t_sb_align_symbol_0 [sym; sym; hex_of_N n]]) /\
  (forall ind a,
     flat_map (render_stmt ind) (opt_align a) =
     match a with
     | Some n => [indent_str ind ++ fmt t_sb_align_symbol_0 ["."; "."; hex_of_N n]]
     | None => []
     end) /\
  (* t_sb_write_symbol_max_self_0 *)
  (forall ind sym other,
     render_stmt ind (SMaxSelf sym other) = [indent_str ind ++ fmt t_sb_write_symbol_max_self_0 [sym; sym; other]]) /\
  (* t_sb_write_assert_0 *)
  (forall ind c m, render_stmt ind (SAssert c m) = [indent_str ind ++ fmt t_sb_write_assert_0 [c; m]]) /\
  (* t_sb_write_required_symbol_0, _1, _2: the writer builds condition and message *)
  (forall rt l,
     required_stmts rt l =
     match l with
     | [] => []
     | _ :: _ =>
         SBlank ::
         flat_map (fun r => if should_emit rt (rq_conds r)
                            then [SExtern (rq_name r);
                                  SAssert (fmt t_sb_write_required_symbol_1 [rq_name r])
                                          (fmt t_sb_write_required_symbol_2 [rq_name r])]
                            else []) l
     end) /\
  (forall ind n,
     flat_map (render_stmt ind) [SExtern n; SAssert ("DEFINED(" ++ n ++ ")") (required_msg n)] =
     [indent_str ind ++ fmt t_sb_write_required_symbol_0 [n];
      indent_str ind ++ fmt t_sb_write_assert_0 [fmt t_sb_write_required_symbol_1 [n];
                                                 fmt t_sb_write_required_symbol_2 [n]]]) /\
  (* t_lw_new_0 *)
  (forall rt ind,
     flat_map (render_stmt ind) (version_stmts rt) =
     if rt_emit_version_comment rt
     then [indent_str ind ++
           fmt t_lw_new_0 [dec_of_N version_major; dec_of_N version_minor; dec_of_N version_patch]; ""]
     else []) /\
  (* t_lw_add_entry_0 *)
  (forall ind e,
     flat_map (render_stmt ind) (entry_stmts e) =
     match e with
     | Some s => [""; indent_str ind ++ fmt t_lw_add_entry_0 [s]]
     | None => []
     end) /\
  (* t_lw_begin_sections_0 *)
  (forall st ind,
     flat_map (render_stmt ind) (hardcoded_gp_stmts st) =
     match hardcoded_gp_value st with
     | Some v => [indent_str ind ++ fmt t_lw_begin_sections_0 [hex8_of_N v]]
     | None => []
     end) /\
  (* t_lw_end_sections_0: the size of a class *)
  (forall ind size end_ start,
     render_stmt ind (linker_symbol size (ESub end_ start)) =
     [indent_str ind ++ fmt t_sb_write_symbol_assignment_3 [size; fmt t_lw_end_sections_0 [end_; start]]]) /\
  (* t_lw_end_sections_1: the pattern lines of /DISCARD/ *)
  (forall ind pats wild,
     render_stmt ind (SDiscard pats wild) =
     ([(indent_str ind ++ "/DISCARD/ :")%string; (indent_str ind ++ "{")%string] ++
      map (fun p => (indent_str (S ind) ++ fmt t_lw_end_sections_1 [p])%string) pats ++
      (if wild then [(indent_str (S ind) ++ "*(*);")%string] else []) ++
      [(indent_str ind ++ "}")%string])%list) /\
  (* t_lw_add_segment_0: a class with a fixed address *)
  (forall ind sym v,
     render_stmt ind (linker_symbol sym (EHex8 v)) =
     [indent_str ind ++ fmt t_sb_write_symbol_assignment_3 [sym; fmt t_lw_add_segment_0 [hex8_of_N v]]]) /\
  (* t_lw_add_segment_1: the start of a segment, ADDR of its output section *)
  (forall ind sym name,
     render_stmt ind (linker_symbol sym (EAddr ("." ++ name))) =
     [indent_str ind ++ fmt t_sb_write_symbol_assignment_3 [sym; fmt t_lw_add_segment_1 [name]]]) /\
  (* t_lw_add_segment_2 *)
  (forall ind name,
     render_stmt ind (SRomAdd ("." ++ name)) = [indent_str ind ++ fmt t_lw_add_segment_2 [name]]) /\
  (* t_lw_add_single_segment_0 *)
  (forall st ind,
     flat_map (render_stmt ind) (hardcoded_gp_stmts st) =
     match hardcoded_gp_value st with
     | Some v => [indent_str ind ++ fmt t_lw_add_single_segment_0 [hex8_of_N v]]
     | None => []
     end) /\
  (* t_lw_add_single_segment_1 *)
  (forall ind v,
     render_stmt ind (SAssign false false false "." (EHex8 v)) =
     [indent_str ind ++ fmt t_lw_add_single_segment_1 [hex8_of_N v]]) /\
  (* t_lw_write_sym_end_size_0 *)
  (forall ind start end_ size value,
     flat_map (render_stmt ind) (sym_end_size start end_ size value) =
     [indent_str ind ++ fmt t_sb_write_symbol_assignment_3 [end_; render_expr value];
      indent_str ind ++ fmt t_sb_write_symbol_assignment_3 [size; fmt t_lw_write_sym_end_size_0 [end_; start]]]) /\
  (* t_lw_write_sections_kind_start_0 *)
  (forall sty cfg seg noload,
     sections_kind_start sty cfg seg noload =
     if kind_syms cfg
     then [SAssign false false true
                   (segment_vram_start sty (fmt t_lw_write_sections_kind_start_0 [sg_name seg; kind_word noload]))
                   EDot;
           SBlank]
     else []) /\
  (* t_lw_write_sections_kind_end_0 *)
  (forall sty cfg seg noload,
     sections_kind_end sty cfg seg noload =
     if kind_syms cfg
     then let k := fmt t_lw_write_sections_kind_end_0 [sg_name seg; kind_word noload] in
          [SBlank;
           SAssign false false true (segment_vram_end sty k) EDot;
           SAssign false false true (segment_vram_size sty k)
                   (EAbsSub (segment_vram_end sty k) (segment_vram_start sty k))]
     else []) /\
  (* t_lw_write_section_symbol_start_0 *)
  (forall ind p h off,
     render_stmt ind (SAssign p h false "_gp" (EDotPlus off)) =
     [indent_str ind ++
      fmt (match p, h with
           | true, true => t_sb_write_symbol_assignment_0
           | true, false => t_sb_write_symbol_assignment_1
           | false, true => t_sb_write_symbol_assignment_2
           | false, false => t_sb_write_symbol_assignment_3
           end) ["_gp"; fmt t_lw_write_section_symbol_start_0 [hex_of_i32 off]]]) /\
  (* t_lw_write_segment_start_0 .. _6: the header exactly as write_segment asks for it *)
  (forall sty seg noload,
     render_header ("." ++ sg_name seg ++ seg_suffix noload)
                   (if noload then None else segment_addr sty seg)
                   (if noload then None else Some (segment_rom_start sty (sg_name seg)))
                   noload (subalign seg) =
     fmt t_lw_write_segment_start_0 [sg_name seg; seg_suffix noload] ++
     (if noload then " (NOLOAD) :"
      else match sg_fixed_vram seg, sg_fixed_symbol seg, sg_follows_segment seg, sg_vram_class seg with
           | Some v, _, _, _ => fmt t_lw_write_segment_start_1 [hex8_of_N v]
           | None, Some s, _, _ => fmt t_lw_write_segment_start_2 [s]
           | None, None, Some f, _ => fmt t_lw_write_segment_start_3 [segment_vram_end sty f]
           | None, None, None, Some c => fmt t_lw_write_segment_start_4 [vram_class_start sty c]
           | None, None, None, None => ""
           end ++ fmt t_lw_write_segment_start_5 [segment_rom_start sty (sg_name seg)]) ++
     match subalign seg with Some n => fmt t_lw_write_segment_start_6 [dec_of_N n] | None => "" end) /\
  (* t_lw_emit_file_0, _1, _2 *)
  (forall ind keep path sect wild,
     render_stmt ind (SInput keep path None sect wild) =
     [indent_str ind ++
      fmt t_lw_emit_file_0
          [if keep then "KEEP(" else ""; path; sect; if wild then "*" else ""; if keep then ")" else ""]]) /\
  (forall ind keep path sub sect wild,
     render_stmt ind (SInput keep path (Some sub) sect wild) =
     [indent_str ind ++
      fmt t_lw_emit_file_1
          [if keep then "KEEP(" else ""; path; sub; sect; if wild then "*" else ""; if keep then ")" else ""]]) /\
  (forall ind n, render_stmt ind (SDotAdd n) = [indent_str ind ++ fmt t_lw_emit_file_2 [hex_of_N n]]) /\
  (* t_lw_write_segment_0 *)
  (forall ind seg,
     flat_map (render_stmt ind) (opt_fill seg) =
     match fill_value seg with
     | Some v => [indent_str ind ++ fmt t_lw_write_segment_0 [hex8_of_N v]]
     | None => []
     end) /\
  (* t_lw_write_single_segment_0, _1: the header exactly as single_groups asks for it *)
  (forall sect noload sub,
     render_header sect None None noload sub =
     fmt t_lw_write_single_segment_0 [sect; if noload then " (NOLOAD)" else ""] ++
     match sub with Some n => fmt t_lw_write_single_segment_1 [dec_of_N n] | None => "" end) /\
  (* t_lw_write_single_segment_2 *)
  (forall ind seg,
     flat_map (render_stmt ind) (opt_fill seg) =
     match fill_value seg with
     | Some v => [indent_str ind ++ fmt t_lw_write_single_segment_2 [hex8_of_N v]]
     | None => []
     end).
Proof.
  split; [exact w_single_entries|].
  split; [exact u_sb_assign|].
  split; [exact w_linker_symbol|].
  split; [intros ind sym n; exact (proj1 (u_sb_align_symbol_0 ind sym n))|].
  split; [exact w_opt_align|].
  split; [intros ind sym other; exact (proj1 (u_sb_write_symbol_max_self_0 ind sym other))|].
  split; [intros ind c m; exact (proj1 (u_sb_write_assert_0 ind c m))|].
  split; [exact u_sb_write_required_symbol_1_2|].
  split; [exact u_sb_required_lines|].
  split; [exact w_version|].
  split; [exact w_entry|].
  split; [exact w_hardcoded_gp|].
  split; [exact w_class_size|].
  split; [intros ind pats wild; exact (proj1 (u_lw_end_sections_1 ind pats wild))|].
  split; [exact w_class_fixed_vram|].
  split; [exact w_segment_vram_start|].
  split; [intros ind name; exact (proj1 (u_lw_add_segment_2 ind name))|].
  split; [exact w_hardcoded_gp_single|].
  split; [intros ind v; exact (proj1 (u_lw_add_single_segment_1 ind v))|].
  split; [exact w_sym_end_size|].
  split; [exact w_sections_kind_start|].
  split; [exact w_sections_kind_end|].
  split; [exact w_gp|].
  split; [exact lw_header_segment|].
  split; [intros ind keep path sect wild; exact (proj1 (u_lw_emit_file_0 ind keep path sect wild))|].
  split; [intros ind keep path sub sect wild; exact (proj1 (u_lw_emit_file_1 ind keep path sub sect wild))|].
  split; [intros ind n; exact (proj1 (u_lw_emit_file_2 ind n))|].
  split; [exact w_opt_fill|].
  split; [intros sect noload sub; exact (proj1 (u_lw_write_single_segment_0_1 sect noload sub))|].
  exact w_opt_fill_single.
Qed.

(* the /DISCARD/ block *)
Lemma tables_discard :
  (forall ind pats wild,
     render_stmt ind (SDiscard pats wild) =
     ([(indent_str ind ++ "/DISCARD/ :")%string; (indent_str ind ++ "{")%string] ++
      map (fun p => (indent_str (S ind) ++ fmt t_lw_end_sections_1 [p])%string) pats ++
      (if wild then [(indent_str (S ind) ++ "*(*);")%string] else []) ++
      [(indent_str ind ++ "}")%string])%list) /\
  (forall p : string, List.length [p] = List.length t_lw_end_sections_1_spec) /\
  List.length t_lw_end_sections_1 = List.length t_lw_end_sections_1_spec + 1 /\
  t_lw_end_sections_1_spec = [""] /\
  "*(*);" = fmt t_lw_end_sections_1 ["*"].
Proof.
  split; [intros ind pats wild; exact (proj1 (u_lw_end_sections_1 ind pats wild))|].
  repeat split; reflexivity.
Qed.

(* the header line of the output sections of the multi-segment script, in particular of the (NOLOAD) one *)
Lemma tables_noload_header :
  (* the (NOLOAD) output section: name with the ".noload" suffix, no address, no AT, SUBALIGN if any *)
  (forall name sub,
     render_header ("." ++ name ++ ".noload") None None true sub =
     fmt t_lw_write_segment_start_0 [name; ".noload"] ++ " (NOLOAD) :" ++
     match sub with Some n => fmt t_lw_write_segment_start_6 [dec_of_N n] | None => "" end) /\
  (* the four forms of the address of the allocated one *)
  (forall v, " " ++ render_expr (EHex8 v) = fmt t_lw_write_segment_start_1 [hex8_of_N v]) /\
  (forall s, " " ++ render_expr (ERaw s) = fmt t_lw_write_segment_start_2 [s]) /\
  (forall sty f,
     " " ++ render_expr (ESym (segment_vram_end sty f)) = fmt t_lw_write_segment_start_3 [segment_vram_end sty f]) /\
  (forall sty c,
     " " ++ render_expr (ESym (vram_class_start sty c)) = fmt t_lw_write_segment_start_4 [vram_class_start sty c]) /\
  (forall sty seg,
     match segment_addr sty seg with Some e => " " ++ render_expr e | None => "" end =
     match sg_fixed_vram seg, sg_fixed_symbol seg, sg_follows_segment seg, sg_vram_class seg with
     | Some v, _, _, _ => fmt t_lw_write_segment_start_1 [hex8_of_N v]
     | None, Some s, _, _ => fmt t_lw_write_segment_start_2 [s]
     | None, None, Some f, _ => fmt t_lw_write_segment_start_3 [segment_vram_end sty f]
     | None, None, None, Some c => fmt t_lw_write_segment_start_4 [vram_class_start sty c]
     | None, None, None, None => ""
     end) /\
  (* the specs of the seven pieces *)
  t_lw_write_segment_start_0_spec = [""; ""] /\ t_lw_write_segment_start_1_spec = [":08X"] /\
  t_lw_write_segment_start_2_spec = [""] /\ t_lw_write_segment_start_3_spec = [""] /\
  t_lw_write_segment_start_4_spec = [""] /\ t_lw_write_segment_start_5_spec = [""] /\
  t_lw_write_segment_start_6_spec = [""] /\
  (* write_segment (Model/Writer.v): its statements are the kind symbols around ONE output section, whose first line
     is the indentation and [segment_header_text] = the templates glued as in tables_coverage *)
  (forall rt st cfg seg sections noload ws o,
     write_segment rt st cfg seg sections noload ws = Ok o ->
     exists body,
       fst o =
       (sections_kind_start (linker_symbols_style st) cfg seg noload ++
        [SOutSec ("." ++ sg_name seg ++ seg_suffix noload)%string
                 (if noload then None else segment_addr (linker_symbols_style st) seg)
                 (if noload then None else Some (segment_rom_start (linker_symbols_style st) (sg_name seg)))
                 noload (subalign seg) body] ++
        sections_kind_end (linker_symbols_style st) cfg seg noload)%list /\
       forall ind, exists rest,
         render_stmt ind
           (SOutSec ("." ++ sg_name seg ++ seg_suffix noload)
                    (if noload then None else segment_addr (linker_symbols_style st) seg)
                    (if noload then None else Some (segment_rom_start (linker_symbols_style st) (sg_name seg)))
                    noload (subalign seg) body) =
         (indent_str ind ++
          fmt t_lw_write_segment_start_0 [sg_name seg; seg_suffix noload] ++
          (if noload then " (NOLOAD) :"
           else header_addr_text (linker_symbols_style st) seg ++
                fmt t_lw_write_segment_start_5 [segment_rom_start (linker_symbols_style st) (sg_name seg)]) ++
          match subalign seg with Some n => fmt t_lw_write_segment_start_6 [dec_of_N n] | None => "" end) :: rest).
Proof.
  split; [exact lw_header_noload|].
  split; [intro v; exact (proj1 (u_lw_write_segment_start_1 v))|].
  split; [intro s; exact (proj1 (u_lw_write_segment_start_2 s))|].
  split; [intros sty f; exact (proj1 (u_lw_write_segment_start_3 sty f))|].
  split; [intros sty c; exact (proj1 (u_lw_write_segment_start_4 sty c))|].
  split; [exact lw_header_addr_text|].
  do 7 (split; [reflexivity|]).
  exact w_write_segment_header.
Qed.

(* the symbols around the alloc / noload part of a segment *)
Lemma tables_kind_symbols :
  (forall seg noload,
     kind_name seg noload = fmt t_lw_write_sections_kind_start_0 [sg_name seg; if noload then "noload" else "alloc"] /\
     kind_name seg noload = fmt t_lw_write_sections_kind_end_0 [sg_name seg; if noload then "noload" else "alloc"]) /\
  t_lw_write_sections_kind_start_0_spec = [""; ""] /\
  t_lw_write_sections_kind_end_0_spec = [""; ""] /\
  (forall sty cfg seg noload,
     sections_kind_start sty cfg seg noload =
     if kind_syms cfg
     then [SAssign false false true
                   (segment_vram_start sty (fmt t_lw_write_sections_kind_start_0 [sg_name seg; kind_word noload]))
                   EDot;
           SBlank]
     else []) /\
  (forall sty cfg seg noload,
     sections_kind_end sty cfg seg noload =
     if kind_syms cfg
     then let k := fmt t_lw_write_sections_kind_end_0 [sg_name seg; kind_word noload] in
          [SBlank;
           SAssign false false true (segment_vram_end sty k) EDot;
           SAssign false false true (segment_vram_size sty k)
                   (EAbsSub (segment_vram_end sty k) (segment_vram_start sty k))]
     else []) /\
  (* their lines *)
  (forall sty cfg seg ind,
     kind_syms cfg = true ->
     forall noload,
       let k0 := fmt t_lw_write_sections_kind_start_0 [sg_name seg; kind_word noload] in
       let k1 := fmt t_lw_write_sections_kind_end_0 [sg_name seg; kind_word noload] in
       flat_map (render_stmt ind) (sections_kind_start sty cfg seg noload) =
       [indent_str ind ++ fmt t_sb_write_symbol_assignment_3 [segment_vram_start sty k0; "."]; ""] /\
       flat_map (render_stmt ind) (sections_kind_end sty cfg seg noload) =
       [""; indent_str ind ++ fmt t_sb_write_symbol_assignment_3 [segment_vram_end sty k1; "."];
        indent_str ind ++ fmt t_sb_write_symbol_assignment_3
          [segment_vram_size sty k1;
           fmt t_lw_write_sym_end_size_0 [segment_vram_end sty k1; segment_vram_start sty k1]]]).
Proof.
  split.
  { intros seg noload. split.
    - exact (proj1 (u_lw_write_sections_kind_start_0 seg noload)).
    - exact (proj1 (u_lw_write_sections_kind_end_0 seg noload)). }
  split; [reflexivity|]. split; [reflexivity|].
  split; [exact w_sections_kind_start|].
  split; [exact w_sections_kind_end|].
  exact w_kind_lines.
Qed.
