From Slinky Require Import Model.Types Model.Parse Model.Runtime Model.Style Model.Script Model.Writer Model.Exports
  Spec.C14 Proofs.C14 Spec.C15.
From Coq Require Import Lia Permutation Sorted.

(* ====================================================================== *)
(* Part 1a: insertion sort yields the unique sorted permutation           *)
(* ====================================================================== *)

Section SortUnique.
  Variable P : string -> Prop.
  Variable le : string -> string -> bool.
  Hypothesis Htotal : le_total_on P le.
  Hypothesis Htrans : le_trans_on P le.
  Hypothesis Hantisym : le_antisym_on P le.

  Definition sorted (l : list string) : Prop := StronglySorted (fun a b => le a b = true) l.

  Lemma insert_sorted_perm x l : Permutation (insert_sorted le x l) (x :: l).
  Proof.
    induction l as [|y r IH]; simpl.
    - apply Permutation_refl.
    - destruct (le x y).
      + apply Permutation_refl.
      + eapply Permutation_trans; [apply perm_skip; exact IH | apply perm_swap].
  Qed.

  Lemma sort_by_perm l : Permutation (sort_by le l) l.
  Proof.
    induction l as [|x r IH]; simpl.
    - apply Permutation_refl.
    - eapply Permutation_trans; [apply insert_sorted_perm | apply perm_skip; exact IH].
  Qed.

  Lemma insert_sorted_sorted x l :
    P x -> Forall P l -> sorted l -> sorted (insert_sorted le x l).
  Proof.
    intros Px Pl Hs. induction l as [|y r IH]; simpl.
    - constructor; constructor.
    - inversion Pl as [|? ? Py Pr]; subst. inversion Hs as [|? ? Hr Hy]; subst.
      destruct (le x y) eqn:Hxy.
      + constructor; [exact Hs|]. constructor; [exact Hxy|].
        rewrite Forall_forall in Hy, Pr |- *. intros z Hz.
        apply (Htrans x y z); auto.
      + constructor; [apply IH; assumption|].
        assert (Hyx : le y x = true).
        { destruct (Htotal x y Px Py) as [H|H]; [congruence | exact H]. }
        rewrite Forall_forall in Hy |- *. intros z Hz.
        apply (Permutation_in _ (insert_sorted_perm x r)) in Hz. destruct Hz as [Hz|Hz].
        * subst z. exact Hyx.
        * apply Hy. exact Hz.
  Qed.

  Lemma sort_by_sorted l : Forall P l -> sorted (sort_by le l).
  Proof.
    intro Pl. induction l as [|x r IH]; simpl.
    - constructor.
    - inversion Pl as [|? ? Px Pr]; subst. apply insert_sorted_sorted; auto.
      rewrite Forall_forall in Pr |- *. intros z Hz. apply Pr.
      apply (Permutation_in _ (sort_by_perm r)). exact Hz.
  Qed.

  Lemma sorted_perm_unique l1 :
    forall l2, Forall P l1 -> sorted l1 -> sorted l2 -> Permutation l1 l2 -> l1 = l2.
  Proof.
    induction l1 as [|a r1 IH]; intros l2 P1 S1 S2 Hp.
    - apply Permutation_nil in Hp. congruence.
    - destruct l2 as [|b r2]; [apply Permutation_sym, Permutation_nil in Hp; discriminate|].
      inversion P1 as [|? ? Pa Pr1]; subst.
      inversion S1 as [|? ? S1' Ha]; subst. inversion S2 as [|? ? S2' Hb]; subst.
      assert (P2 : Forall P (b :: r2)).
      { rewrite Forall_forall in P1 |- *. intros z Hz. apply P1.
        apply (Permutation_in _ (Permutation_sym Hp)). exact Hz. }
      inversion P2 as [|? ? Pb Pr2]; subst.
      assert (Eab : a = b).
      { assert (Ia : In a (b :: r2)) by (apply (Permutation_in _ Hp); left; reflexivity).
        assert (Ib : In b (a :: r1)) by (apply (Permutation_in _ (Permutation_sym Hp)); left; reflexivity).
        destruct Ia as [Ia|Ia]; [congruence|]. destruct Ib as [Ib|Ib]; [congruence|].
        rewrite Forall_forall in Ha, Hb. apply Hantisym; auto. }
      subst b. f_equal. apply IH; auto. eapply Permutation_cons_inv; exact Hp.
  Qed.

  Lemma sort_by_perm_eq l1 l2 :
    Forall P l1 -> Permutation l1 l2 -> sort_by le l1 = sort_by le l2.
  Proof.
    intros P1 Hp.
    assert (P2 : Forall P l2).
    { rewrite Forall_forall in P1 |- *. intros z Hz. apply P1.
      apply (Permutation_in _ (Permutation_sym Hp)). exact Hz. }
    apply sorted_perm_unique.
    - rewrite Forall_forall in P1 |- *. intros z Hz. apply P1.
      apply (Permutation_in _ (sort_by_perm l1)). exact Hz.
    - apply sort_by_sorted; assumption.
    - apply sort_by_sorted; assumption.
    - eapply Permutation_trans; [apply sort_by_perm|].
      eapply Permutation_trans; [exact Hp|]. apply Permutation_sym, sort_by_perm.
  Qed.
End SortUnique.

(* the form asked for: the order properties on the elements of the list *)
Lemma sort_perm le l1 l2 :
  le_total_on (fun x => In x l1) le -> le_trans_on (fun x => In x l1) le ->
  le_antisym_on (fun x => In x l1) le ->
  Permutation l1 l2 -> sort_by le l1 = sort_by le l2.
Proof.
  intros Ht Hr Ha Hp. apply (sort_by_perm_eq (fun x => In x l1) le Ht Hr Ha); [|exact Hp].
  apply Forall_forall. auto.
Qed.

(* ====================================================================== *)
(* Part 1b: String.leb is a total order; so is key_le                     *)
(* ====================================================================== *)

Lemma ascii_compare_lt_trans a b c :
  Ascii.compare a b = Lt -> Ascii.compare b c = Lt -> Ascii.compare a c = Lt.
Proof.
  unfold Ascii.compare. rewrite !N.compare_lt_iff. apply N.lt_trans.
Qed.

Lemma string_compare_lt_trans a :
  forall b c, String.compare a b = Lt -> String.compare b c = Lt -> String.compare a c = Lt.
Proof.
  induction a as [|x a IH]; intros [|y b] [|z c] H1 H2; simpl in *; try discriminate; try reflexivity.
  destruct (Ascii.compare x y) eqn:Exy; try discriminate.
  - apply Ascii.compare_eq_iff in Exy. subst y.
    destruct (Ascii.compare x z) eqn:Exz; try discriminate; try reflexivity.
    eapply IH; eassumption.
  - destruct (Ascii.compare y z) eqn:Eyz; try discriminate.
    + apply Ascii.compare_eq_iff in Eyz. subst z. rewrite Exy. reflexivity.
    + rewrite (ascii_compare_lt_trans _ _ _ Exy Eyz). reflexivity.
Qed.

Lemma string_leb_trans a b c : String.leb a b = true -> String.leb b c = true -> String.leb a c = true.
Proof.
  unfold String.leb. intros H1 H2.
  destruct (String.compare a b) eqn:Eab; try discriminate.
  - apply String.compare_eq_iff in Eab. subst b. exact H2.
  - destruct (String.compare b c) eqn:Ebc; try discriminate.
    + apply String.compare_eq_iff in Ebc. subst c. rewrite Eab. reflexivity.
    + rewrite (string_compare_lt_trans _ _ _ Eab Ebc). reflexivity.
Qed.

Lemma key_le_total sections a b : key_le sections a b = true \/ key_le sections b a = true.
Proof.
  unfold key_le. destruct (position a sections) as [i|], (position b sections) as [j|]; auto.
  - rewrite (Nat.eqb_sym j i). destruct (Nat.eqb i j) eqn:E.
    + apply String.leb_total.
    + rewrite !Nat.leb_le. lia.
  - apply String.leb_total.
Qed.

Lemma key_le_trans sections a b c :
  key_le sections a b = true -> key_le sections b c = true -> key_le sections a c = true.
Proof.
  unfold key_le.
  destruct (position a sections) as [i|], (position b sections) as [j|],
           (position c sections) as [k|]; try discriminate; auto.
  - destruct (Nat.eqb_spec i j) as [Eij|Eij]; destruct (Nat.eqb_spec j k) as [Ejk|Ejk]; intros H1 H2.
    + subst. rewrite Nat.eqb_refl. eapply string_leb_trans; eassumption.
    + subst. apply Nat.eqb_neq in Ejk. rewrite Ejk. exact H2.
    + subst. apply Nat.eqb_neq in Eij. rewrite Eij. exact H1.
    + apply Nat.leb_le in H1, H2. assert (Hik : i <> k) by lia.
      apply Nat.eqb_neq in Hik. rewrite Hik. apply Nat.leb_le. lia.
  - apply string_leb_trans.
Qed.

Lemma key_le_antisym sections a b :
  key_le sections a b = true -> key_le sections b a = true -> a = b.
Proof.
  unfold key_le. destruct (position a sections) as [i|], (position b sections) as [j|];
    try discriminate.
  - rewrite (Nat.eqb_sym j i). destruct (Nat.eqb i j) eqn:E.
    + apply String.leb_antisym.
    + apply Nat.eqb_neq in E. rewrite !Nat.leb_le. lia.
  - apply String.leb_antisym.
Qed.

Lemma sort_key_le_perm sections l1 l2 :
  Permutation l1 l2 -> sort_by (key_le sections) l1 = sort_by (key_le sections) l2.
Proof.
  apply sort_perm.
  - intros a b _ _. apply key_le_total.
  - intros a b c _ _ _. apply key_le_trans.
  - intros a b _ _. apply key_le_antisym.
Qed.

(* ====================================================================== *)
(* Part 1c: sections_here does not depend on the order of section_order   *)
(* ====================================================================== *)

Lemma lookup_is_some_in {A} k (l : list (string * A)) :
  is_some (lookup k l) = true <-> In k (map fst l).
Proof.
  induction l as [|[k' v] r IH]; simpl.
  - split; [discriminate | intros []].
  - destruct (String.eqb k k') eqn:E.
    + apply String.eqb_eq in E. subst. split; auto.
    + apply String.eqb_neq in E. rewrite IH. split; [auto | intros [H|H]; [congruence | exact H]].
Qed.

Lemma lookup_is_some_perm {A} k (l1 l2 : list (string * A)) :
  Permutation l1 l2 -> is_some (lookup k l1) = is_some (lookup k l2).
Proof.
  intro Hp. assert (Hm : Permutation (map fst l1) (map fst l2)) by (apply Permutation_map; exact Hp).
  destruct (is_some (lookup k l1)) eqn:E1; destruct (is_some (lookup k l2)) eqn:E2; auto.
  - apply lookup_is_some_in in E1. apply (Permutation_in _ Hm) in E1.
    apply lookup_is_some_in in E1. congruence.
  - apply lookup_is_some_in in E2. apply (Permutation_in _ (Permutation_sym Hm)) in E2.
    apply lookup_is_some_in in E2. congruence.
Qed.

Lemma filter_perm {A} (p : A -> bool) l1 l2 :
  Permutation l1 l2 -> Permutation (filter p l1) (filter p l2).
Proof.
  induction 1 as [|x l l' _ IH|x y l|l l' l'' _ IH1 _ IH2]; simpl.
  - apply Permutation_refl.
  - destruct (p x); [apply perm_skip|]; exact IH.
  - destruct (p x), (p y); try apply Permutation_refl. apply perm_swap.
  - eapply Permutation_trans; eassumption.
Qed.

Lemma sections_here_perm f1 f2 section sections :
  Permutation (fi_section_order f1) (fi_section_order f2) ->
  sections_here f1 section sections = sections_here f2 section sections.
Proof.
  intro Hp. unfold sections_here.
  destruct (fi_section_order f1) as [|p1 so1] eqn:E1.
  - apply Permutation_nil in Hp. rewrite Hp. reflexivity.
  - destruct (fi_section_order f2) as [|p2 so2] eqn:E2.
    + apply Permutation_sym, Permutation_nil in Hp. discriminate.
    + apply sort_key_le_perm. rewrite (lookup_is_some_perm section _ _ Hp).
      apply Permutation_app_head. apply Permutation_map. apply filter_perm. exact Hp.
Qed.

(* ====================================================================== *)
(* Part 1d: custom options: only the last binding of each key counts      *)
(* ====================================================================== *)

Lemma lookup_last_some_in {A} k (v : A) l : lookup_last k l = Some v -> In (k, v) l.
Proof.
  induction l as [|[k' v'] r IH]; simpl; [discriminate|].
  destruct (lookup_last k r) as [w|].
  - intro H. right. apply IH. exact H.
  - destruct (String.eqb k k') eqn:E; [|discriminate].
    apply String.eqb_eq in E. subst. intro H. inversion H. left. reflexivity.
Qed.

Lemma lookup_last_none {A} k (l : list (string * A)) :
  lookup_last k l = None <-> ~ In k (map fst l).
Proof.
  induction l as [|[k' v'] r IH]; simpl.
  - split; auto.
  - destruct (lookup_last k r) as [w|].
    + split; [discriminate|]. intro H. exfalso. apply H. right.
      destruct (in_dec string_dec k (map fst r)) as [Hi|Hi]; [exact Hi|].
      apply IH in Hi. discriminate.
    + destruct (String.eqb k k') eqn:E.
      * apply String.eqb_eq in E. subst. split; [discriminate|]. intro H. exfalso. apply H. auto.
      * apply String.eqb_neq in E. split; [|reflexivity]. intros _ [H|H]; [congruence|].
        destruct IH as [IH _]. apply IH; auto.
Qed.

Lemma lookup_last_perm_consistent k l1 l2 :
  Permutation l1 l2 -> consistent_options l1 -> lookup_last k l1 = lookup_last k l2.
Proof.
  intros Hp Hc.
  destruct (lookup_last k l1) as [v1|] eqn:E1; destruct (lookup_last k l2) as [v2|] eqn:E2; auto.
  - apply lookup_last_some_in in E1, E2. apply (Permutation_in _ (Permutation_sym Hp)) in E2.
    f_equal. eapply Hc; eassumption.
  - apply lookup_last_some_in in E1. apply lookup_last_none in E2. exfalso. apply E2.
    apply (Permutation_in _ Hp) in E1. apply (in_map fst) in E1. exact E1.
  - apply lookup_last_some_in in E2. apply lookup_last_none in E1. exfalso. apply E1.
    apply (Permutation_in _ (Permutation_sym Hp)) in E2. apply (in_map fst) in E2. exact E2.
Qed.

Lemma nodup_keys_consistent (l : pairs) : NoDup (map fst l) -> consistent_options l.
Proof.
  induction l as [|[k0 v0] r IH]; intros Hn k v v' H1 H2; simpl in *.
  - contradiction.
  - inversion Hn as [|? ? Hnotin Hn']; subst.
    destruct H1 as [H1|H1]; destruct H2 as [H2|H2].
    + congruence.
    + inversion H1; subst. exfalso. apply Hnotin. apply (in_map fst) in H2. exact H2.
    + inversion H2; subst. exfalso. apply Hnotin. apply (in_map fst) in H1. exact H1.
    + eapply IH; eassumption.
Qed.

Lemma lookup_last_perm k (l1 l2 : pairs) :
  Permutation l1 l2 -> NoDup (map fst l1) -> lookup_last k l1 = lookup_last k l2.
Proof. intros Hp Hn. apply lookup_last_perm_consistent; [exact Hp | apply nodup_keys_consistent; exact Hn]. Qed.

Lemma same_options_of_lookup rt1 rt2 :
  (forall k, lookup_last k (rt_options rt1) = lookup_last k (rt_options rt2)) -> same_options rt1 rt2.
Proof. intros H k. unfold opt_get. apply H. Qed.

Lemma same_options_perm l1 l2 b1 b2 :
  Permutation l1 l2 -> consistent_options l1 -> same_options (Runtime l1 b1) (Runtime l2 b2).
Proof. intros Hp Hc k. unfold opt_get. simpl. apply lookup_last_perm_consistent; assumption. Qed.

(* ====================================================================== *)
(* Part 2: generation reads the options only through opt_get              *)
(* ====================================================================== *)

Lemma existsb_pw {A} (f g : A -> bool) l : (forall x, f x = g x) -> existsb f l = existsb g l.
Proof. intro H. induction l as [|x r IH]; simpl; [reflexivity|]. rewrite H, IH. reflexivity. Qed.

Lemma forallb_pw {A} (f g : A -> bool) l : (forall x, f x = g x) -> forallb f l = forallb g l.
Proof. intro H. induction l as [|x r IH]; simpl; [reflexivity|]. rewrite H, IH. reflexivity. Qed.

(* both sides bind the same first computation *)
Ltac step :=
  match goal with
  | |- bind ?r _ = bind ?r _ => destruct r; cbn [bind]; [|reflexivity]
  end.

Section Ext.
  Variables rt1 rt2 : runtime.
  Hypothesis Hs : same_options rt1 rt2.

  Lemma pair_matches_ext kv : pair_matches rt1 kv = pair_matches rt2 kv.
  Proof. unfold pair_matches. rewrite (Hs (fst kv)). reflexivity. Qed.

  Lemma should_emit_ext c : should_emit rt1 c = should_emit rt2 c.
  Proof.
    unfold should_emit.
    rewrite !(existsb_pw _ _ _ pair_matches_ext), !(forallb_pw _ _ _ pair_matches_ext). reflexivity.
  Qed.

  Lemma escape_scan_ext orig s : forall out within key,
    escape_scan rt1 orig s out within key = escape_scan rt2 orig s out within key.
  Proof.
    induction s as [|ch r IH]; intros out within key; cbn [escape_scan]; [reflexivity|].
    destruct within.
    - destruct (Ascii.eqb ch "}").
      + rewrite (Hs key). destruct (opt_get rt2 key); [apply IH | reflexivity].
      + apply IH.
    - destruct (Ascii.eqb ch "{"); apply IH.
  Qed.

  Lemma escape_component_ext orig c : escape_component rt1 orig c = escape_component rt2 orig c.
  Proof.
    unfold escape_component. rewrite (Hs (inner_of c)), escape_scan_ext. reflexivity.
  Qed.

  Lemma escape_components_ext orig l : forall acc,
    escape_components rt1 orig l acc = escape_components rt2 orig l acc.
  Proof.
    induction l as [|c r IH]; intro acc; cbn [escape_components]; [reflexivity|].
    rewrite escape_component_ext. step. apply IH.
  Qed.

  Lemma escape_path_ext p : escape_path rt1 p = escape_path rt2 p.
  Proof. unfold escape_path. apply escape_components_ext. Qed.

  Lemma escape_opt_ext p : escape_opt rt1 p = escape_opt rt2 p.
  Proof. destruct p as [p|]; cbn [escape_opt]; [rewrite escape_path_ext|]; reflexivity. Qed.

  (* ---------- files ---------- *)

  Section Files.
    Variable sty : style.
    Variable cfg : wcfg.
    Variable seg : segment.
    Variable sections : list string.

    Definition sff_ext (f : file_info) : Prop :=
      forall n stack section base ws,
        emit_sff rt1 sty cfg seg sections f n stack section base ws =
        emit_sff rt2 sty cfg seg sections f n stack section base ws.

    Lemma emit_file_of_ext f base k ws :
      Forall sff_ext (fi_files f) ->
      emit_file_of rt1 sty cfg seg sections f base k ws =
      emit_file_of rt2 sty cfg seg sections f base k ws.
    Proof.
      intro IHf. unfold emit_file_of. rewrite should_emit_ext.
      destruct (negb (should_emit rt2 (fi_conds f))); [reflexivity|].
      rewrite (escape_path_ext (fi_path f)), (escape_path_ext (fi_dir f)).
      destruct (fi_kind f); try reflexivity.
      step. apply fold_out_ext. intros c ws1 Hin.
      rewrite Forall_forall in IHf. apply (IHf c Hin).
    Qed.

    Lemma emit_sff_ext f : sff_ext f.
    Proof.
      induction f as [f IHf] using file_info_nested_ind.
      intro n. induction n as [|n IHn]; intros stack section base ws.
      - rewrite !emit_sff_O. reflexivity.
      - rewrite !emit_sff_S. destruct (mem_str section stack); [reflexivity|].
        apply fold_out_ext. intros k ws0 _. rewrite (emit_file_of_ext f base k ws0 IHf).
        step. destruct (reference_partial cfg); [reflexivity|].
        destruct (lookup k (subgroups_for seg f)) as [others|]; [|reflexivity].
        assert (Hch : forall ws',
                   fold_out (fun other ws => emit_sff rt1 sty cfg seg sections f n (section :: stack)
                                                      other base ws) others ws' =
                   fold_out (fun other ws => emit_sff rt2 sty cfg seg sections f n (section :: stack)
                                                      other base ws) others ws').
        { apply fold_out_ext. intros other ws1 _. apply IHn. }
        rewrite Hch. reflexivity.
    Qed.

    Lemma emit_section_ext base_path section ws :
      emit_section rt1 sty cfg seg sections base_path section ws =
      emit_section rt2 sty cfg seg sections base_path section ws.
    Proof.
      unfold emit_section. rewrite (escape_path_ext base_path), (escape_path_ext (sg_dir seg)).
      step. step. apply fold_out_ext. intros f ws1 _. apply emit_sff_ext.
    Qed.
  End Files.

  (* ---------- segments ---------- *)

  Lemma gp_stmt_ext seg section : gp_stmt rt1 seg section = gp_stmt rt2 seg section.
  Proof. unfold gp_stmt. destruct (sg_gp_info seg); [rewrite should_emit_ext|]; reflexivity. Qed.

  Lemma section_symbol_start_ext sty cfg seg section :
    section_symbol_start rt1 sty cfg seg section = section_symbol_start rt2 sty cfg seg section.
  Proof. unfold section_symbol_start. rewrite gp_stmt_ext. reflexivity. Qed.

  Section Segs.
    Variable st : settings.
    Variable cfg : wcfg.

    Lemma part_groups_ext seg sections rest : forall ws,
      part_groups rt1 st cfg seg sections rest ws = part_groups rt2 st cfg seg sections rest ws.
    Proof.
      induction rest as [|section rest' IH]; intro ws; cbn [part_groups]; [reflexivity|].
      rewrite emit_section_ext. step. rewrite IH. step.
      rewrite section_symbol_start_ext. reflexivity.
    Qed.

    Lemma write_segment_ext seg sections noload ws :
      write_segment rt1 st cfg seg sections noload ws = write_segment rt2 st cfg seg sections noload ws.
    Proof. unfold write_segment. rewrite part_groups_ext. reflexivity. Qed.

    Lemma single_groups_ext seg sections noload rest : forall ws,
      single_groups rt1 st cfg seg sections noload rest ws =
      single_groups rt2 st cfg seg sections noload rest ws.
    Proof.
      induction rest as [|section rest' IH]; intro ws; cbn [single_groups]; [reflexivity|].
      rewrite emit_section_ext. step. rewrite IH. step.
      rewrite section_symbol_start_ext. reflexivity.
    Qed.

    Lemma write_single_segment_ext seg sections noload ws :
      write_single_segment rt1 st cfg seg sections noload ws =
      write_single_segment rt2 st cfg seg sections noload ws.
    Proof. unfold write_single_segment. rewrite single_groups_ext. reflexivity. Qed.

    Variable classes : list vram_class.

    Lemma add_segment_ext seg ws :
      add_segment rt1 st cfg classes seg ws = add_segment rt2 st cfg classes seg ws.
    Proof.
      unfold add_segment. rewrite should_emit_ext.
      destruct (negb (should_emit rt2 (sg_conds seg))); [reflexivity|].
      step. rewrite write_segment_ext. step. rewrite write_segment_ext. reflexivity.
    Qed.

    Lemma add_single_segment_ext seg ws :
      add_single_segment rt1 st cfg classes seg ws = add_single_segment rt2 st cfg classes seg ws.
    Proof.
      unfold add_single_segment. rewrite write_single_segment_ext. step.
      rewrite write_single_segment_ext. reflexivity.
    Qed.

    Lemma add_all_segments_ext segs ws :
      add_all_segments rt1 st cfg classes segs ws = add_all_segments rt2 st cfg classes segs ws.
    Proof.
      unfold add_all_segments. destruct (single_segment_mode st).
      - destruct segs as [|seg [|s2 r]]; try reflexivity. apply add_single_segment_ext.
      - rewrite (fold_out_ext (add_segment rt1 st cfg classes) (add_segment rt2 st cfg classes));
          [reflexivity|]. intros seg ws' _. apply add_segment_ext.
    Qed.
  End Segs.

  (* ---------- top-level statements ---------- *)

  Lemma tail_stmts_ext d : tail_stmts rt1 d = tail_stmts rt2 d.
  Proof.
    unfold tail_stmts, assignment_stmts, required_stmts, assert_stmts.
    rewrite (flat_map_ext _ (fun a => if should_emit rt2 (sa_conds a)
                       then [SAssign (sa_provide a) (sa_hidden a) false (sa_name a) (ERaw (sa_value a))]
                       else []) ) by (intro a; rewrite should_emit_ext; reflexivity).
    rewrite (flat_map_ext _ (fun r => if should_emit rt2 (rq_conds r)
                       then [SExtern (rq_name r);
                             SAssert ("DEFINED(" ++ rq_name r ++ ")")%string (required_msg (rq_name r))]
                       else [])) by (intro a; rewrite should_emit_ext; reflexivity).
    rewrite (flat_map_ext _ (fun a => if should_emit rt2 (ae_conds a)
                       then [SAssert (ae_check a) (ae_error_message a)] else []))
      by (intro a; rewrite should_emit_ext; reflexivity).
    reflexivity.
  Qed.

  Hypothesis Hv : rt_emit_version_comment rt1 = rt_emit_version_comment rt2.

  Lemma version_stmts_ext : version_stmts rt1 = version_stmts rt2.
  Proof. unfold version_stmts. rewrite Hv. reflexivity. Qed.

  Lemma gen_normal_ext d : gen_normal d rt1 = gen_normal d rt2.
  Proof.
    unfold gen_normal. rewrite add_all_segments_ext, version_stmts_ext, tail_stmts_ext. reflexivity.
  Qed.

  Lemma partial_segment_ext d folder seg acc :
    partial_segment d rt1 folder seg acc = partial_segment d rt2 folder seg acc.
  Proof.
    unfold partial_segment. cbv zeta. rewrite should_emit_ext.
    destruct (negb (should_emit rt2 (sg_conds seg))); [reflexivity|].
    rewrite add_single_segment_ext. step. rewrite add_segment_ext, version_stmts_ext. reflexivity.
  Qed.

  Lemma partial_segments_ext d folder segs : forall acc,
    partial_segments d rt1 folder segs acc = partial_segments d rt2 folder segs acc.
  Proof.
    induction segs as [|s r IH]; intro acc; cbn [partial_segments]; [reflexivity|].
    rewrite partial_segment_ext. step. rewrite IH. reflexivity.
  Qed.

  Lemma gen_partial_ext d : gen_partial d rt1 = gen_partial d rt2.
  Proof.
    unfold gen_partial. cbv zeta.
    destruct (partial_build_segments_folder (doc_settings d)) as [folder|]; [|reflexivity].
    rewrite partial_segments_ext, version_stmts_ext, tail_stmts_ext. reflexivity.
  Qed.

  Lemma deps_text_ext w target : deps_text rt1 w target = deps_text rt2 w target.
  Proof. unfold deps_text. rewrite Hv. reflexivity. Qed.

  Lemma header_text_ext st w : header_text rt1 st w = header_text rt2 st w.
  Proof. unfold header_text. rewrite Hv. reflexivity. Qed.

  (* the files written besides the script: paths (escaped with the options) and contents *)
  Lemma save_other_files_normal_ext st w :
    save_other_files_normal rt1 st w = save_other_files_normal rt2 st w.
  Proof.
    unfold save_other_files_normal.
    rewrite (escape_opt_ext (d_path st)), (escape_opt_ext (target_path st)),
      (escape_opt_ext (symbols_header_path st)), header_text_ext.
    step. assert (Hd : forall t, deps_text rt1 w t = deps_text rt2 w t) by (intro; apply deps_text_ext).
    destruct a as [dp|]; [|reflexivity].
    destruct (escape_opt rt2 (target_path st)) as [[t|]|e]; cbn [bind]; rewrite ?Hd; reflexivity.
  Qed.

  Lemma save_other_files_partial_ext st p :
    save_other_files_partial rt1 st p = save_other_files_partial rt2 st p.
  Proof.
    unfold save_other_files_partial.
    rewrite (escape_path_ext (base_path st)), (escape_opt_ext (partial_build_segments_folder st)),
      (escape_opt_ext (partial_scripts_folder st)), save_other_files_normal_ext.
    do 6 step. destruct (is_some (d_path st)); [|reflexivity].
    f_equal. f_equal. apply map_ext. intro s. rewrite deps_text_ext. reflexivity.
  Qed.

  Lemma export_script_partial_ext st p path :
    export_script_partial rt1 st p path = export_script_partial rt2 st p path.
  Proof.
    unfold export_script_partial. rewrite (escape_opt_ext (partial_scripts_folder st)). reflexivity.
  Qed.
End Ext.

(* ---------- the statements in terms of the option sequences ---------- *)

Lemma gen_normal_option_order d l1 l2 b :
  Permutation l1 l2 -> consistent_options l1 -> gen_normal d (Runtime l1 b) = gen_normal d (Runtime l2 b).
Proof. intros Hp Hc. apply gen_normal_ext; [apply same_options_perm; assumption | reflexivity]. Qed.

Lemma gen_partial_option_order d l1 l2 b :
  Permutation l1 l2 -> consistent_options l1 -> gen_partial d (Runtime l1 b) = gen_partial d (Runtime l2 b).
Proof. intros Hp Hc. apply gen_partial_ext; [apply same_options_perm; assumption | reflexivity]. Qed.

Lemma forallb_perm {A} (f : A -> bool) l1 l2 : Permutation l1 l2 -> forallb f l1 = forallb f l2.
Proof.
  induction 1 as [|x l l' _ IH|x y l|l l' l'' _ IH1 _ IH2]; simpl.
  - reflexivity.
  - rewrite IH. reflexivity.
  - destruct (f x), (f y); reflexivity.
  - congruence.
Qed.

(* the command-line tool: status, standard output and every file written *)
Lemma cli_run_option_order sd a1 a2 opts1 opts2 :
  cli_output a1 = cli_output a2 -> cli_partial a1 = cli_partial a2 ->
  cli_omit_version_comment a1 = cli_omit_version_comment a2 ->
  parse_key_vals (cli_options a1) = Some opts1 -> parse_key_vals (cli_options a2) = Some opts2 ->
  Permutation opts1 opts2 -> consistent_options opts1 ->
  cli_run sd a1 = cli_run sd a2.
Proof.
  intros Ho Hpa Hom H1 H2 Hp Hc. unfold cli_run. rewrite H1, H2, Ho, Hpa, Hom.
  destruct (parse sd) as [d|e]; [|reflexivity].
  rewrite (forallb_perm _ _ _ Hp).
  destruct (negb (forallb (fun kv => key_valid (fst kv)) opts2)); [reflexivity|].
  cbv zeta.
  assert (Hs : same_options (Runtime opts1 (negb (cli_omit_version_comment a2)))
                            (Runtime opts2 (negb (cli_omit_version_comment a2))))
    by (apply same_options_perm; assumption).
  set (rt1 := Runtime opts1 (negb (cli_omit_version_comment a2))) in *.
  set (rt2 := Runtime opts2 (negb (cli_omit_version_comment a2))) in *.
  assert (Hv : rt_emit_version_comment rt1 = rt_emit_version_comment rt2) by reflexivity.
  destruct (cli_partial a2).
  - rewrite (gen_partial_ext rt1 rt2 Hs Hv). destruct (gen_partial d rt2) as [p|e]; [|reflexivity].
    destruct (cli_output a2) as [o|].
    + rewrite (escape_path_ext rt1 rt2 Hs). destruct (escape_path rt2 o) as [path|e]; [|reflexivity].
      rewrite (export_script_partial_ext rt1 rt2 Hs).
      destruct (export_script_partial rt2 (doc_settings d) p path) as [w1|e]; [|reflexivity].
      rewrite (save_other_files_partial_ext rt1 rt2 Hs Hv). reflexivity.
    + rewrite (save_other_files_partial_ext rt1 rt2 Hs Hv). reflexivity.
  - rewrite (gen_normal_ext rt1 rt2 Hs Hv). destruct (gen_normal d rt2) as [w|e]; [|reflexivity].
    destruct (cli_output a2) as [o|].
    + rewrite (escape_path_ext rt1 rt2 Hs). destruct (escape_path rt2 o) as [path|e]; [|reflexivity].
      rewrite (save_other_files_normal_ext rt1 rt2 Hs Hv). reflexivity.
    + rewrite (save_other_files_normal_ext rt1 rt2 Hs Hv). reflexivity.
Qed.

(* ====================================================================== *)
(* Part 3: generation does not depend on the order of any section_order   *)
(* ====================================================================== *)

Lemma fold_out_Forall2 {A} (F G : A -> wstate -> res out) l1 l2 :
  Forall2 (fun x y => forall ws, F x ws = G y ws) l1 l2 ->
  forall ws, fold_out F l1 ws = fold_out G l2 ws.
Proof.
  induction 1 as [|x y r1 r2 Hxy _ IH]; intro ws; cbn [fold_out]; [reflexivity|].
  rewrite Hxy. step. rewrite IH. reflexivity.
Qed.

Lemma Forall_Forall2 {A} (P : A -> Prop) (R Q : A -> A -> Prop) l1 l2 :
  (forall x y, P x -> R x y -> Q x y) -> Forall P l1 -> Forall2 R l1 l2 -> Forall2 Q l1 l2.
Proof.
  intros H HP HR. induction HR as [|x y r1 r2 Hxy _ IH]; constructor.
  - inversion HP; subst. auto.
  - inversion HP; subst. auto.
Qed.

Lemma Forall2_len {A B} (R : A -> B -> Prop) l1 l2 : Forall2 R l1 l2 -> List.length l1 = List.length l2.
Proof. induction 1; simpl; congruence. Qed.

Section SectionOrder.
  Variable rt : runtime.

  Section Files.
    Variable sty : style.
    Variable cfg : wcfg.
    Variable seg : segment.
    Variable sections : list string.

    Definition sff_so (f1 : file_info) : Prop :=
      forall f2, so_perm f1 f2 ->
      forall n stack section base ws,
        emit_sff rt sty cfg seg sections f1 n stack section base ws =
        emit_sff rt sty cfg seg sections f2 n stack section base ws.

    Lemma emit_sff_so f1 : sff_so f1.
    Proof.
      induction f1 as [f1 IHf] using file_info_nested_ind.
      intros f2 Hp. inversion Hp as [p k sf pa s lon so1 so2 fl1 fl2 d c kp Hso Hfl]; subst.
      cbn [fi_files] in IHf.
      intro n. induction n as [|n IHn]; intros stack section base ws.
      - rewrite !emit_sff_O. reflexivity.
      - rewrite !emit_sff_S. destruct (mem_str section stack); [reflexivity|].
        rewrite (sections_here_perm (FileInfo p k sf pa s lon so1 fl1 d c kp)
                                    (FileInfo p k sf pa s lon so2 fl2 d c kp) section sections Hso).
        apply fold_out_ext. intros k0 ws0 _.
        assert (Hfile : emit_file_of rt sty cfg seg sections (FileInfo p k sf pa s lon so1 fl1 d c kp) base k0 ws0 =
                        emit_file_of rt sty cfg seg sections (FileInfo p k sf pa s lon so2 fl2 d c kp) base k0 ws0).
        { unfold emit_file_of.
          cbn [fi_kind fi_conds fi_keep fi_path fi_subfile fi_files fi_dir fi_section fi_pad_amount
               fi_linker_offset_name].
          destruct (negb (should_emit rt c)); [reflexivity|]. destruct k; try reflexivity.
          step. apply fold_out_Forall2.
          eapply Forall_Forall2; [|exact IHf|exact Hfl]. intros x y Hx Hxy ws1. apply Hx. exact Hxy. }
        rewrite Hfile. step. destruct (reference_partial cfg); [reflexivity|].
        change (subgroups_for seg (FileInfo p k sf pa s lon so1 fl1 d c kp))
          with (subgroups_for seg (FileInfo p k sf pa s lon so2 fl2 d c kp)).
        destruct (lookup k0 (subgroups_for seg (FileInfo p k sf pa s lon so2 fl2 d c kp))) as [others|];
          [|reflexivity].
        assert (Hch : forall ws',
                   fold_out (fun other ws => emit_sff rt sty cfg seg sections
                                               (FileInfo p k sf pa s lon so1 fl1 d c kp) n
                                               (section :: stack) other base ws) others ws' =
                   fold_out (fun other ws => emit_sff rt sty cfg seg sections
                                               (FileInfo p k sf pa s lon so2 fl2 d c kp) n
                                               (section :: stack) other base ws) others ws').
        { apply fold_out_ext. intros other ws1 _. apply IHn. }
        rewrite Hch. reflexivity.
    Qed.
  End Files.

  (* the other fields of the segment are read as they are *)
  Lemma emit_sff_clone sty cfg seg fl sections f n stack section base ws :
    emit_sff rt sty cfg (clone_with_new_files seg fl) sections f n stack section base ws =
    emit_sff rt sty cfg seg sections f n stack section base ws.
  Proof. destruct seg. reflexivity. Qed.

  Lemma emit_section_so sty cfg seg fl sections base_path section ws :
    Forall2 so_perm (sg_files seg) fl ->
    emit_section rt sty cfg (clone_with_new_files seg fl) sections base_path section ws =
    emit_section rt sty cfg seg sections base_path section ws.
  Proof.
    intro Hfl. unfold emit_section.
    change (sg_dir (clone_with_new_files seg fl)) with (sg_dir seg).
    change (sg_files (clone_with_new_files seg fl)) with fl.
    step. step. symmetry. apply fold_out_Forall2.
    eapply Forall2_impl; [|exact Hfl]. intros x y Hxy ws1. cbv beta.
    rewrite emit_sff_clone.
    change (chain_fuel (clone_with_new_files seg fl)) with (chain_fuel seg).
    apply emit_sff_so. exact Hxy.
  Qed.

  Section Segs.
    Variable st : settings.
    Variable cfg : wcfg.

    Lemma part_groups_so seg fl sections rest :
      Forall2 so_perm (sg_files seg) fl ->
      forall ws, part_groups rt st cfg (clone_with_new_files seg fl) sections rest ws =
                 part_groups rt st cfg seg sections rest ws.
    Proof.
      intro Hfl. induction rest as [|section rest' IH]; intro ws; cbn [part_groups]; [reflexivity|].
      rewrite (emit_section_so _ _ _ _ _ _ _ _ Hfl). step. rewrite IH. step.
      destruct seg. reflexivity.
    Qed.

    Lemma write_segment_so seg fl sections noload ws :
      Forall2 so_perm (sg_files seg) fl ->
      write_segment rt st cfg (clone_with_new_files seg fl) sections noload ws =
      write_segment rt st cfg seg sections noload ws.
    Proof.
      intro Hfl. unfold write_segment. rewrite (part_groups_so _ _ _ _ Hfl). step.
      destruct seg. reflexivity.
    Qed.

    Lemma single_groups_so seg fl sections noload rest :
      Forall2 so_perm (sg_files seg) fl ->
      forall ws, single_groups rt st cfg (clone_with_new_files seg fl) sections noload rest ws =
                 single_groups rt st cfg seg sections noload rest ws.
    Proof.
      intro Hfl. induction rest as [|section rest' IH]; intro ws; cbn [single_groups]; [reflexivity|].
      rewrite (emit_section_so _ _ _ _ _ _ _ _ Hfl). step. rewrite IH. step.
      destruct seg. reflexivity.
    Qed.

    Lemma write_single_segment_so seg fl sections noload ws :
      Forall2 so_perm (sg_files seg) fl ->
      write_single_segment rt st cfg (clone_with_new_files seg fl) sections noload ws =
      write_single_segment rt st cfg seg sections noload ws.
    Proof.
      intro Hfl. unfold write_single_segment. rewrite (single_groups_so _ _ _ _ _ Hfl). step.
      destruct seg. reflexivity.
    Qed.

    Variable classes : list vram_class.

    Lemma add_segment_so seg fl ws :
      Forall2 so_perm (sg_files seg) fl ->
      add_segment rt st cfg classes (clone_with_new_files seg fl) ws =
      add_segment rt st cfg classes seg ws.
    Proof.
      intro Hfl. unfold add_segment.
      change (sg_conds (clone_with_new_files seg fl)) with (sg_conds seg).
      destruct (negb (should_emit rt (sg_conds seg))); [reflexivity|].
      change (sg_vram_class (clone_with_new_files seg fl)) with (sg_vram_class seg).
      change (sg_name (clone_with_new_files seg fl)) with (sg_name seg).
      step. rewrite (write_segment_so _ _ _ _ _ Hfl).
      change (alloc_sections (clone_with_new_files seg fl)) with (alloc_sections seg). step.
      rewrite (write_segment_so _ _ _ _ _ Hfl).
      change (noload_sections (clone_with_new_files seg fl)) with (noload_sections seg). step.
      destruct seg. reflexivity.
    Qed.

    Lemma add_single_segment_so seg fl ws :
      Forall2 so_perm (sg_files seg) fl ->
      add_single_segment rt st cfg classes (clone_with_new_files seg fl) ws =
      add_single_segment rt st cfg classes seg ws.
    Proof.
      intro Hfl. unfold add_single_segment.
      rewrite (write_single_segment_so _ _ _ _ _ Hfl).
      change (alloc_sections (clone_with_new_files seg fl)) with (alloc_sections seg). step.
      rewrite (write_single_segment_so _ _ _ _ _ Hfl).
      change (noload_sections (clone_with_new_files seg fl)) with (noload_sections seg). step.
      destruct seg. reflexivity.
    Qed.

    Lemma add_all_segments_so segs1 segs2 ws :
      Forall2 seg_so_perm segs1 segs2 ->
      add_all_segments rt st cfg classes segs2 ws = add_all_segments rt st cfg classes segs1 ws.
    Proof.
      intro H. unfold add_all_segments. rewrite <- (Forall2_len _ _ _ H).
      destruct (single_segment_mode st).
      - destruct H as [|s1 s2 r1 r2 [Hs Hf] Hr]; [reflexivity|].
        destruct Hr; [|reflexivity]. rewrite Hs. apply add_single_segment_so. exact Hf.
      - assert (Hfo : forall ws', fold_out (add_segment rt st cfg classes) segs2 ws' =
                                  fold_out (add_segment rt st cfg classes) segs1 ws').
        { intro ws'. symmetry. apply fold_out_Forall2. eapply Forall2_impl; [|exact H].
          intros s1 s2 [Hs Hf] ws1. rewrite Hs. symmetry. apply add_segment_so. exact Hf. }
        rewrite Hfo. reflexivity.
    Qed.
  End Segs.

  Lemma gen_normal_so d segs2 :
    Forall2 seg_so_perm (doc_segments d) segs2 ->
    gen_normal (with_segments d segs2) rt = gen_normal d rt.
  Proof.
    intro H. unfold gen_normal, with_segments. cbn [doc_settings doc_vram_classes doc_segments].
    rewrite (add_all_segments_so _ _ _ _ _ _ H). reflexivity.
  Qed.

  Lemma partial_segment_so d d' folder seg fl acc :
    doc_settings d' = doc_settings d -> doc_vram_classes d' = doc_vram_classes d ->
    Forall2 so_perm (sg_files seg) fl ->
    partial_segment d' rt folder (clone_with_new_files seg fl) acc = partial_segment d rt folder seg acc.
  Proof.
    intros Hst Hcl Hfl. unfold partial_segment. cbv zeta. rewrite Hst, Hcl.
    change (sg_conds (clone_with_new_files seg fl)) with (sg_conds seg).
    destruct (negb (should_emit rt (sg_conds seg))); [reflexivity|].
    rewrite (add_single_segment_so _ _ _ _ _ _ Hfl). step.
    change (sg_name (clone_with_new_files seg fl)) with (sg_name seg).
    assert (Hc : forall l, clone_with_new_files (clone_with_new_files seg fl) l = clone_with_new_files seg l)
      by (intro l; destruct seg; reflexivity).
    rewrite Hc. reflexivity.
  Qed.

  Lemma partial_segments_so d d' folder segs1 segs2 :
    doc_settings d' = doc_settings d -> doc_vram_classes d' = doc_vram_classes d ->
    Forall2 seg_so_perm segs1 segs2 ->
    forall acc, partial_segments d' rt folder segs2 acc = partial_segments d rt folder segs1 acc.
  Proof.
    intros Hst Hcl H. induction H as [|s1 s2 r1 r2 [Hs Hf] _ IH]; intro acc; cbn [partial_segments];
      [reflexivity|].
    rewrite Hs, (partial_segment_so d d' _ _ _ _ Hst Hcl Hf). step. rewrite IH. reflexivity.
  Qed.

  Lemma gen_partial_so d segs2 :
    Forall2 seg_so_perm (doc_segments d) segs2 ->
    gen_partial (with_segments d segs2) rt = gen_partial d rt.
  Proof.
    intro H. unfold gen_partial. cbv zeta.
    change (doc_settings (with_segments d segs2)) with (doc_settings d).
    destruct (partial_build_segments_folder (doc_settings d)) as [folder|]; [|reflexivity].
    change (doc_segments (with_segments d segs2)) with segs2.
    rewrite (partial_segments_so d (with_segments d segs2) folder _ _ eq_refl eq_refl H). reflexivity.
  Qed.
End SectionOrder.

Lemma so_perm_refl f : so_perm f f.
Proof.
  induction f as [f IHf] using file_info_nested_ind. destruct f as [p k sf pa s lon so fl d c kp].
  cbn [fi_files] in IHf. constructor; [apply Permutation_refl|].
  induction IHf; constructor; auto.
Qed.

Lemma Forall2_so_perm_refl l : Forall2 so_perm l l.
Proof. induction l; constructor; auto using so_perm_refl. Qed.

(* one entry, its own section_order permuted *)
Lemma emit_sff_section_order rt sty cfg seg sections f so n stack section base ws :
  Permutation (fi_section_order f) so ->
  emit_sff rt sty cfg seg sections (with_section_order f so) n stack section base ws =
  emit_sff rt sty cfg seg sections f n stack section base ws.
Proof.
  intro Hp. symmetry. apply emit_sff_so. destruct f as [p k sf pa s lon so1 fl d c kp].
  unfold with_section_order. cbn [fi_path fi_kind fi_subfile fi_pad_amount fi_section
    fi_linker_offset_name fi_files fi_dir fi_conds fi_keep fi_section_order] in *.
  constructor; [exact Hp | apply Forall2_so_perm_refl].
Qed.

(* ====================================================================== *)
(* example data                                                           *)
(* ====================================================================== *)

Definition ex15_so1 : pairs :=
  [(".rodata", ".text"); (".zz", ".text"); (".aa", ".text"); (".data", ".text"); (".sbss", ".bss")].
Definition ex15_so2 : pairs :=
  [(".sbss", ".bss"); (".data", ".text"); (".aa", ".text"); (".rodata", ".text"); (".zz", ".text")].

Definition ex15_doc (so : pairs) : document_serial :=
  DocumentSerial []
    (Value (SettingsSerial [] Absent Absent Absent (Value "{out}/ex.d") (Value "{out}/ex.elf")
              (Value "{out}/syms.h") Absent Absent Absent Absent Absent
              Absent Absent (Value "ld/partial") (Value "{out}/segments") Absent Absent Absent
              Absent Absent Absent Absent Absent Absent Absent Absent Absent))
    Absent
    (Some
       [SegmentSerial [] (Value "main")
          (Some [FileSerial [] (Value "{dir}/a.o") Absent Absent Absent Absent Absent (Value so) Absent
                            Absent ex_cs SKAbsent;
                 FileSerial [] (Value "b.o") Absent Absent Absent Absent Absent Absent Absent Absent
                            (mkCondsSerial (Value [("ver", "us")]) Absent Absent Absent) SKAbsent;
                 ex_group [FileSerial [] (Value "{dir}/c.o") Absent Absent Absent Absent Absent
                                      (Value so) Absent Absent ex_cs SKAbsent] SKAbsent])
          (Value 4096%N) Absent Absent Absent Absent Absent ex_cs
          (Value [".text"; ".data"; ".rodata"]) (Value [".bss"]) Absent Absent Absent Absent Absent
          Absent Absent Absent Absent Absent SKAbsent])
    Absent Absent Absent Absent.

Definition ex15_opts1 : pairs := [("dir", "src"); ("ver", "us"); ("out", "build")].
Definition ex15_opts2 : pairs := [("out", "build"); ("ver", "us"); ("dir", "src")].
(* a repeated option with the same value is still consistent *)
Definition ex15_opts3 : pairs := [("ver", "us"); ("out", "build"); ("dir", "src"); ("ver", "us")].

(* everything generation produces: scripts, dependency files and header, as texts *)
Definition all_outputs (sd : document_serial) (opts : pairs)
  : res (string * string * string * string * list (string * string)) :=
  do d <- parse sd;
  let rt := Runtime opts true in
  do w <- gen_normal d rt;
  do p <- gen_partial d rt;
  Ok (script_text w, deps_text rt w "build/ex.elf", header_text rt (doc_settings d) w,
      partial_script_text p,
      map (fun s => (fst s, deps_text rt (snd s) (fst s))) (po_subs p)).

Definition ex15_file (so : pairs) : file_info :=
  FileInfo "a.o" KObject "*" 0%N "" "" so [] "" no_conds KAbsent.

Lemma ex15_so_permutation : Permutation ex15_so1 ex15_so2.
Proof.
  unfold ex15_so1, ex15_so2.
  apply (Permutation_cons_app [(".sbss", ".bss"); (".data", ".text"); (".aa", ".text")] [(".zz", ".text")]).
  apply (Permutation_cons_app [(".sbss", ".bss"); (".data", ".text"); (".aa", ".text")] []).
  apply (Permutation_cons_app [(".sbss", ".bss"); (".data", ".text")] []).
  apply perm_swap.
Qed.

(* the two parsed example documents are related as the section-order theorems require *)
Lemma ex15_related :
  exists d1 d2,
    parse (ex15_doc ex15_so1) = Ok d1 /\ parse (ex15_doc ex15_so2) = Ok d2 /\
    d2 = with_segments d1 (doc_segments d2) /\
    Forall2 seg_so_perm (doc_segments d1) (doc_segments d2).
Proof.
  eexists. eexists. split; [vm_compute; reflexivity|]. split; [vm_compute; reflexivity|].
  split; [reflexivity|]. cbn [doc_segments].
  constructor; [|constructor]. split; [reflexivity|]. cbn [sg_files].
  constructor.
  { constructor; [exact ex15_so_permutation | constructor]. }
  constructor.
  { apply so_perm_refl. }
  constructor; [|constructor].
  constructor; [apply perm_nil|].
  constructor; [|constructor].
  constructor; [exact ex15_so_permutation | constructor].
Qed.

Lemma ex15_opts_permutation : Permutation ex15_opts1 ex15_opts2.
Proof.
  unfold ex15_opts1, ex15_opts2.
  apply (Permutation_cons_app [("out", "build"); ("ver", "us")] []).
  apply perm_swap.
Qed.

Lemma ex15_opts1_nodup : NoDup (map fst ex15_opts1).
Proof.
  unfold ex15_opts1. cbn [map fst].
  repeat (constructor; [cbn [In]; intros H; repeat (destruct H as [H|H]; [discriminate H|]); exact H|]).
  constructor.
Qed.

Lemma ex15_opts3_consistent : consistent_options ex15_opts3.
Proof.
  intros k v v' H1 H2. unfold ex15_opts3 in *. cbn [In] in H1, H2.
  repeat (destruct H1 as [H1|H1]; [inversion H1; subst; clear H1|]); try contradiction;
    repeat (destruct H2 as [H2|H2]; [inversion H2; subst; clear H2|]); try contradiction;
    try reflexivity; try discriminate.
Qed.
